#!/bin/sh
# Offline setup: verifies the toolchain the checks rely on; builds nothing that needs a network.
set -e
cd "$(dirname "$0")"
mkdir -p .work evidence replays
command -v java >/dev/null
test -f /opt/veriftools/tla/tla2tools.jar
test -f /opt/veriftools/tla/CommunityModules-deps.jar
PYTHONPATH=/repo /venv/bin/python -W ignore -c "import numpy, scipy, astropy, lmfit, healpy, AegeanTools" 2>/dev/null
chmod +x check
echo "setup ok"
