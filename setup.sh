#!/bin/sh
# Offline setup: verifies the toolchain the checks rely on; builds nothing that needs a network.
set -e
cd "$(dirname "$0")"
mkdir -p .work evidence replays
command -v java >/dev/null
test -f /opt/veriftools/tla/tla2tools.jar
test -f /opt/veriftools/tla/CommunityModules-deps.jar
command -v tlapm >/dev/null      # TLAPS: re-checks spec/TilesProof.tla, SexaProof.tla, ExpandProof.tla inside C20, C17, C15
PYTHONPATH=/repo /venv/bin/python -W ignore -c "import numpy, scipy, astropy, lmfit, healpy, AegeanTools" 2>/dev/null
chmod +x check
echo "setup ok"
