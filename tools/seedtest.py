#!/usr/bin/env python3
"""
Run checks against a seeded change.

  tools/seedtest.py <seed-dir> [--tier quick|thorough] [--checks C08,C12] [--scratch]

<seed-dir> holds patch.diff + meta.json ({"property": "Cxx", ...}).  By default the patch is applied to
/repo itself (git -C /repo apply), the checks run, and the patch is undone (git -C /repo checkout -- .),
exactly as the brief prescribes.  With --scratch a copy under /var/tmp is used instead (AEGEAN_REPO), which
is safe while other jobs read /repo.  The outcome is written to <seed-dir>/result.json.
"""
import argparse
import json
import os
import shutil
import subprocess
import sys
import time

VERIF = os.path.dirname(os.path.dirname(os.path.abspath(__file__)))


def sh(cmd, **kw):
    return subprocess.run(cmd, stdout=subprocess.PIPE, stderr=subprocess.STDOUT, **kw)


def main():
    ap = argparse.ArgumentParser()
    ap.add_argument("seed")
    ap.add_argument("--tier", default="quick")
    ap.add_argument("--checks", default=None)
    ap.add_argument("--scratch", action="store_true")
    ap.add_argument("--no-result", action="store_true", help="do not update <seed-dir>/result.json (robustness sweeps)")
    a = ap.parse_args()
    seed = os.path.abspath(a.seed)
    meta = json.load(open(os.path.join(seed, "meta.json")))
    checks = a.checks.split(",") if a.checks else [meta["property"]]
    patch = os.path.join(seed, "patch.diff")
    env = dict(os.environ)
    if a.scratch:
        repo = "/var/tmp/seedrun_%d" % os.getpid()
        shutil.rmtree(repo, ignore_errors=True)
        shutil.copytree("/repo", repo, symlinks=True)
        env["AEGEAN_REPO"] = repo
    else:
        repo = "/repo"
        st = sh(["git", "-C", repo, "status", "--porcelain"]).stdout.decode().strip()
        if st:
            print("refusing: /repo has uncommitted changes:\n" + st)
            return 2
    r = sh(["git", "-C", repo, "apply", patch])
    if r.returncode != 0:
        print("patch does not apply:\n" + r.stdout.decode())
        if a.scratch:
            shutil.rmtree(repo, ignore_errors=True)
        return 2
    results = {}
    try:
        for c in checks:
            t0 = time.time()
            p = sh([os.path.join(VERIF, "check"), c, "--tier", a.tier], cwd=VERIF, env=env)
            out = p.stdout.decode("utf-8", "replace")
            viol = [l for l in out.splitlines() if l.startswith("VIOLATION")]
            results[c] = {"tier": a.tier, "exit": p.returncode, "violations": len(viol),
                          "first": viol[:3], "wall_s": round(time.time() - t0, 1),
                          "tail": out.splitlines()[-1:] if out else []}
            print("%s %s: exit %d, %d VIOLATION line(s) in %.0fs" % (c, a.tier, p.returncode, len(viol), time.time() - t0))
            for v in viol[:3]:
                print("   " + v[:200])
    finally:
        if a.scratch:
            shutil.rmtree(repo, ignore_errors=True)
        else:
            sh(["git", "-C", repo, "checkout", "--", "."])
            sh(["git", "-C", repo, "clean", "-fdq", "AegeanTools"])
    if a.no_result:
        return 0 if all(v["exit"] == 1 for v in results.values()) else 1
    path = os.path.join(seed, "result.json")
    old = {}
    if os.path.exists(path):
        old = json.load(open(path))
    old.update({"%s/%s" % (c, a.tier): v for c, v in results.items()})
    json.dump(old, open(path, "w"), indent=1)
    return 0 if all(v["exit"] == 1 for v in results.values()) else 1


if __name__ == "__main__":
    sys.exit(main())
