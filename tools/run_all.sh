#!/bin/sh
# usage: tools/run_all.sh quick|thorough [ids...]   - runs the checks one after another, prints a summary
cd "$(dirname "$0")/.."
tier="$1"; shift
ids="$*"
[ -z "$ids" ] && ids="C01 C02 C03 C04 C05 C06 C07 C08 C09 C10 C11 C12 C13 C14 C15 C16 C17 C18 C19 C20"
[ "$ids" = "all" ] && ids="C01 C02 C03 C04 C05 C06 C07 C08 C09 C10 C11 C12 C13 C14 C15 C16 C17 C18 C19 C20 X01 X02 X03 X04 X05 X06 X07 X08"
for id in $ids; do
  [ -f harness/$(echo $id | tr A-Z a-z).py ] || continue
  t0=$(date +%s)
  ./check $id --tier $tier > .work/run_$id.log 2>&1
  rc=$?
  t1=$(date +%s)
  echo "$id rc=$rc $((t1-t0))s $(grep -c '^VIOLATION' .work/run_$id.log) violations; $(tail -1 .work/run_$id.log)"
done
