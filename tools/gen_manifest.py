#!/usr/bin/env python3
"""Regenerates /verif/MANIFEST.json from the table below (single source of truth)."""
import json
import os
import subprocess

HERE = os.path.dirname(os.path.dirname(os.path.abspath(__file__)))
ALL = ["C%02d" % i for i in range(1, 21)]

BASELINE_OFF = ("cd /repo && env -u AEGEAN_VERIF /venv/bin/python -m pytest -ra -q -p no:cacheprovider "
                "--timeout=900 --continue-on-collection-errors")

# id -> (category, text, note, technique, design_ref)
CHECKS = {
    "C20": ("model_checking",
            "TLC proves on spec/MC_Bands.tla that the integer band design tiles for all rows<=R, n<=64; the same "
            "bounded-exhaustive (rows, n) domain is executed on the real load_image_band (plain, 3-D, 4-D, BSCALE, "
            "compressed files) and every observation is validated by TLC against the property-level predicates "
            "Tiling/HeaderShiftOK of spec/Tiles.tla via spec/Bands_Trace.tla. Exhaustive in the discrete domain the "
            "property quantifies over (quick rows<=100 + seeded large rows; thorough rows<=2000).",
            "astropy.io.fits read/write of the generated test files; token images rows*4+col exact in float32; for the "
            "compressed variant the reference image is fits_tools.expand (pinned by C15).",
            "TLA+ model (MC_Bands) checked by TLC + TLC trace validation (Bands_Trace) of bounded-exhaustive load_image_band executions",
            "4/C20"),
    "C15": ("model_checking",
            "TLC proves on spec/MC_Expand.tla (the coded decimation + linear interpolation design, one separable axis, "
            "integers scaled by f) that expansion is exact at nodes, within the sample range, exact for affine images on "
            "complete cells, restores CRPIX and removes BN_* for all R<=14 (24), f<=16 (32); the real "
            "fits_tools.compress/expand (file, in-memory HDU, SR6 CLI; CDELT and CD headers) is run on every (R,C,f) of a "
            "bounded-exhaustive 2-D domain plus seeded larger shapes, and TLC validates each observed output array against "
            "the property-level predicates in spec/Expand_Trace.tla.",
            "astropy.io.fits round trip; pixel tokens are small integers exact in float32; rotation-free headers as in the property.",
            "TLA+ model (MC_Expand) checked by TLC + TLC trace validation (Expand_Trace) of bounded-exhaustive compress/expand executions",
            "4/C15"),
}

NOT_YET = "check not built yet in this round of construction (planned, see DESIGN.md section 4)"


def main():
    hooks_commits = []
    hp = os.path.join(HERE, "hooks_commits.txt")
    if os.path.exists(hp):
        hooks_commits = [l.strip() for l in open(hp) if l.strip()]
    checks = []
    for pid in ALL:
        if pid not in CHECKS:
            continue
        cat, text, note, tech, ref = CHECKS[pid]
        checks.append({
            "property_id": pid,
            "quick_cmd": "./check %s --tier quick" % pid,
            "thorough_cmd": "./check %s --tier thorough" % pid,
            "evidence_file": "evidence/%s.json" % pid,
            "replay_cmd_template": "./check %s --replay {path}" % pid,
            "engine": "tlc",
            "level_claimed": {"category": cat, "text": text, "design_ref": "DESIGN.md section " + ref},
            "level_note": note,
            "technique": tech,
        })
    m = {
        "version": 1,
        "setup_cmd": "./setup.sh",
        "hooks": {
            "guard": "AEGEAN_VERIF",
            "enable": "environment variable AEGEAN_VERIF=1 (read at import of AegeanTools.BANE); AEGEAN_VERIF_DIR=<dir> selects the event/gate/fault directory",
            "baseline_off_cmd": BASELINE_OFF,
            "source_commits": hooks_commits,
            "add_only": True,
        },
        "engines": [
            {"name": "tlc", "path": "spec/", "serves_properties": sorted(CHECKS),
             "kind_free_text": "explicit TLA+ specifications model-checked with TLC 1.8; trace validation and replay of TLC-generated behaviours bind them to the Python implementation (harness/)"},
        ],
        "checks": checks,
        "notes": "Every verdict is TLC's (invariant violation or rejected trace) or a mismatch between the real code and a state TLC produced. See DESIGN.md. known_findings.json lists repaired (fixed:) and recorded defects.",
        "not_applicable": [{"property_id": p, "reason": NOT_YET} for p in ALL if p not in CHECKS],
    }
    with open(os.path.join(HERE, "MANIFEST.json"), "w") as f:
        json.dump(m, f, indent=1)
    print("MANIFEST.json: %d checks, %d not_applicable" % (len(checks), len(m["not_applicable"])))


if __name__ == "__main__":
    main()
