#!/usr/bin/env python3
"""Regenerates /verif/MANIFEST.json from the table below (single source of truth)."""
import json
import os
import subprocess

HERE = os.path.dirname(os.path.dirname(os.path.abspath(__file__)))
ALL = ["C%02d" % i for i in range(1, 21)]

BASELINE_OFF = ("cd /repo && env -u AEGEAN_VERIF /venv/bin/python -m pytest -ra -q -p no:cacheprovider "
                "--timeout=900 --continue-on-collection-errors")

# id -> (category, text, note, technique, design_ref)
CHECKS = {
    "C20": ("model_checking",
            "TLC proves on spec/MC_Bands.tla that the integer band design tiles for all rows<=R, n<=64 (and TLAPS proves "
            "First/Last/Adjacent/Ordered of that design for EVERY rows and n: spec/TilesProof.tla, 38 obligations); the same "
            "bounded-exhaustive (rows, n) domain is executed on the real load_image_band (plain, 3-D, 4-D, BSCALE, "
            "compressed files) and every observation is validated by TLC against the property-level predicates "
            "Tiling/HeaderShiftOK of spec/Tiles.tla via spec/Bands_Trace.tla. Exhaustive in the discrete domain the "
            "property quantifies over (quick rows<=100 + seeded large rows; thorough rows<=2000).",
            "astropy.io.fits read/write of the generated test files; token images rows*4+col exact in float32; for the "
            "compressed variant the reference image is fits_tools.expand (pinned by C15).",
            "TLA+ model (MC_Bands) checked by TLC, unbounded TLAPS lemmas (TilesProof) + TLC trace validation (Bands_Trace) of bounded-exhaustive load_image_band executions",
            "4/C20"),
    "C15": ("model_checking",
            "TLAPS proves the CRPIX round trip for every factor (spec/ExpandProof.tla); TLC proves on spec/MC_Expand.tla (the coded decimation + linear interpolation design, one separable axis, "
            "integers scaled by f) that expansion is exact at nodes, within the sample range, exact for affine images on "
            "complete cells, restores CRPIX and removes BN_* for all R<=14 (24), f<=16 (32); the real "
            "fits_tools.compress/expand (file, in-memory HDU, SR6 CLI; CDELT and CD headers) is run on every (R,C,f) of a "
            "bounded-exhaustive 2-D domain plus seeded larger shapes, and TLC validates each observed output array against "
            "the property-level predicates in spec/Expand_Trace.tla.",
            "astropy.io.fits round trip; pixel tokens are small integers exact in float32; rotation-free headers as in the property.",
            "TLA+ model (MC_Expand) checked by TLC + TLC trace validation (Expand_Trace) of bounded-exhaustive compress/expand executions",
            "4/C15"),
    "C08": ("model_checking",
            "Explicit TLA+ state machines: Region.tla (abstract set algebra on deepest-level pixels) and RegionImpl.tla (the coded "
            "pixeldict / demotion cache / _renorm / union / set-operation algorithms). TLC checks exhaustively (depth 2 fully, depth 3 "
            "to history length 4-6) that RegionImpl refines Region step by step for every call of a 62-call alphabet (mixed-depth "
            "operands, raw add_pixels, renorm on/off, interleaved queries, pickle), that identifiers stay valid and no patch is stored "
            "twice after normalising calls, and that the three pre-fix designs (stale cache, _uniq range, un-normalised area) give "
            "counterexamples. Spec->code: every history of length K over the alphabet (depths 2,3) plus TLC -simulate histories of "
            "length 8-10 is executed on the real Region, observed through deep copies after every call and validated by TLC "
            "(Region_Trace). Code->spec: seeded real-geometry histories (circles, polygons, .mim files, depths 3-12, poles, RA wrap) "
            "validated in the exact Boolean-algebra quotient (Region_AtomTrace).",
            "healpy pixel geometry (pix2ang/ang2pix/query_disc/query_polygon) is trusted; add_pixels called with depth <= maxdepth; "
            "observation by copy.deepcopy does not perturb the object.",
            "TLA+ refinement check (RegionImpl => Region) with TLC + replay of TLC-generated histories into regions.Region + TLC trace validation",
            "4/C08"),
    "C12": ("model_checking",
            "Region.tla/RegionPreds.tla state what an exported file must contain (MocOK: NUNIQ cells decode exactly to S with order = "
            "depth; RegOK: polygons are stored pixels covering S). TLC checks that the coded _uniq/write_reg (RegionImpl) satisfy them in "
            "every reachable state of the bounded refinement model (depths 1-3), and that the pre-fix _uniq gives a counterexample. "
            "Spec->code: every TLC-emitted history (depths 1-3) extended by each export tail (direct, via MIMAS.mim2fits/mim2reg, after "
            "demoting queries, after save/load) is run on the real code, files are read back (astropy / polygon-corner matching against "
            "healpy.boundaries) and TLC validates them (Region_Trace); empty, single-pixel, multi-level and whole-sky regions at NB=48 and "
            "seeded real regions at depth 3-12 (atom quotient) complete it.",
            "astropy.io.fits table read-back; healpy.boundaries for the corners of one pixel (0.2 arcsec tolerance = print precision).",
            "TLA+ model checking with TLC + replay of TLC-generated histories ending in exports + TLC trace validation of files read back",
            "4/C12"),
    "C07": ("model_checking",
            "Bane.tla models the worker pool (FIFO tasks, maxtasksperchild=1), Python's Barrier (count/state, arrive, wake-up, reset, abort), "
            "the shared-memory rows, the parent's map_async().get() completion rule and the finally-unlink. TLC explores every interleaving "
            "for up to 3 (thorough 4; 5 without faults) stripes and workers, mask on/off, no fault or one fault in each stripe at each of six "
            "phases, checking Termination/FaultPrompt/CleanReturn (liveness under weak fairness, deadlock check on) and "
            "NoSpuriousFailure/AllWritten/RaceFree/ShmSafe; the three pre-fix designs are shown to give counterexamples. Spec->code: TLC "
            "-simulate behaviours of MC_BaneSched (configuration, release schedule, outcome) are forced on real filter_image runs through the "
            "env-guarded gate hook and outcome + output digest compared. Code->spec: hook event traces of free-running and fault-injected real "
            "runs are validated by TLC against Bane_Trace (barrier internals as bounded silent steps). Property-level observables of every run "
            "(not blocked, outcome as the model says, every pixel written, no ibkg_/irms_ segment left, byte-identical maps across schedules "
            "and worker counts of one layout, <= 0.5 sigma change between stripe counts) are decided by TLC (BaneRun_Trace). Fault enumeration: "
            "one injected exception per (stripe, phase).",
            "Linux fork start method; hook events totally ordered by a flock'ed counter; a run still unfinished after 150 s (normal < 2 s) counts "
            "as blocked; worker death by signal is not injected; interpreter shutdown after the call is outside the property.",
            "TLA+ model of pool+barrier+shared memory model-checked with TLC (safety, liveness, single-fault enumeration) + forced replay of TLC schedules through gate hooks + TLC trace validation of hook events",
            "4/C07"),
    "C02": ("model_checking",
            "Islands.tla defines the islands declaratively (8-connected components of the flooded set containing one of their OWN seeded "
            "pixels, tight boxes); TLC proves Disjoint/NoBlank/Maximal/Seeded/Cover/SeedMonotone/FilterThm on every grid of the bounded "
            "domains (3x3 over 3-4 classes, 2x3..2x4 and 1x6 over all 6 classes incl. blank and exact ties, 3x4). Every grid of the same "
            "domains is realised as exactly representable float images (8 variants: rms, alternating signs, zero-valued member pixels; two "
            "seed levels) and run through the real find_islands; seeded random images (noise, blobs of both signs, NaN blocks, random "
            "bkg/rms maps, random thresholds) run the other way; TLC (Islands_Trace) computes IslandsOf on the class grid and compares "
            "pixel sets, boxes and masks.",
            "rms > 0, 0 < flood <= seed; random images with a pixel within 1e-9 of a threshold are regenerated; the clause 'no reported component "
            "originates from a failing group' is covered end-to-end by C03's island rows.",
            "TLA+ declarative spec + TLC theorems on bounded-exhaustive grids + TLC trace validation of find_islands outputs on the same grids and on random images",
            "4/C02"),
    "C04": ("model_checking",
            "FitParams.tla gives the free-parameter order and the stderr assignment declaratively; MC_FitParams models jacobian/covar_errors "
            "as a walking machine and TLC proves it equals FreeOrder/Assign for all 4160 vary patterns of 1-2 components plus samples for 3-4 "
            "(negative control: per-component restart violates StderrThm). Every emitted pattern and seeded random models run through the real "
            "fitting.jacobian / lmfit_jacobian / covar_errors; TLC (FitParams_Trace) validates row identity and order, 10 ppm agreement of each "
            "row with the central difference of the code's own model in the parameter's own units, J/errs, J.B, and the stderr <-> Fisher "
            "diagonal map incl. fixed parameters keeping their stderr.",
            "'true derivative' = central difference (h=1e-4) of the code's own ntwodgaussian_lmfit; sigma recomputed from the code's own Jacobian; "
            "at least one free parameter.",
            "TLA+/TLC model checking of the parameter-order machine + TLC trace validation of jacobian/covar_errors executions",
            "4/C04"),
    "C17": ("model_checking",
            "Sexa.tla is an integer model of sexagesimal formatting/parsing with explicit carry; TLC checks field ranges, the inverse law, RA "
            "modulo 360 and sign handling on every non-tie input of the minute/degree/hour carry windows (and that the no-carry design is "
            "rejected); TLAPS proves the same four theorems of the round-then-split design for EVERY declination and RA (spec/SexaProof.tla, 144 obligations). The real dec2dms/dec2hms/dec2dec/ra2dec are run on the same domain, on seeded inputs and on TLC-emitted texts and every "
            "call is validated by TLC (Sexa_Trace). gcd/bear/translate are validated by TLC (SphereGeom_Trace) in two-limb integers at 1e-9 deg: "
            "metric laws, exactly known great circles (meridian, over the pole, equator with RA wrap, poles, near-zero and near-antipodal), "
            "translate loops.",
            "exact rounding ties are not generated; bearing clauses only where the bearing is well conditioned; agreement of gcd with an "
            "independent formula away from exactly known great circles is residue.",
            "TLA+ integer model checked by TLC + TLC trace validation of the real formatter/parser/geometry calls",
            "4/C17"),
    "C11": ("model_checking",
            "Islands.tla states the filter rule Keep(C, In) = the island has a pixel whose centre is inside; TLC proves FilterThm (wholly inside "
            "kept, wholly outside dropped, whole-image region changes nothing) on every grid x membership pattern of the bounded domain. Every "
            "grid (3x3, 2x4 / 3x4 over below/between/above) x pattern (all, none, single pixel, complement, checkerboard, row>=k, col>=k) and "
            "special elongated / L-shaped / straddling islands are realised on the real code with a 1.5 deg/pixel WCS and a real depth-10 Region "
            "built from the HEALPix pixels containing the chosen pixel centres; find_islands(region=, wcs=) is validated by TLC (Islands_Trace). "
            "End-to-end: pairs of find_sources_in_image runs with/without mask= on synthetic multi-island images (SIN/TAN/ZEA, circles at depth 12) "
            "are validated by TLC (FinderRegion_Trace): the restricted catalogue is exactly the float-identical rows of the kept islands.",
            "membership semantics of Region.sky_within are pinned by C08/C09; astropy WCS (origin-0 index = FITS 1-based pixel) is the position oracle.",
            "TLA+ theorems checked by TLC on bounded-exhaustive grids x membership patterns + TLC trace validation of find_islands(region) and of with/without-region run pairs",
            "4/C11"),
    "C16": ("exploration",
            "WcsRel.tla states the relations (pixel round trip 1e-6 px, FITS-standard mapping for 1-based (row, col), vector/ellipse round trips "
            "1e-3 / 0.01 deg, great-circle lengths, East-of-North handedness facts) over fixed-point records; MC_WcsConfig lets TLC enumerate the "
            "6750-element configuration lattice (projection x reference class x pixel scale x ellipse size x axis ratio x PA class) and check "
            "lemmas that the facts discriminate wrong conventions; the harness instantiates every element with seeded continuous parameters "
            "plus seeded off-lattice configurations on the real WCSHelper and TLC (Wcs_Trace) validates every record. Sampling strength in "
            "the continuous dimensions.",
            "astropy.wcs / angular_separation / position_angle trusted as the standard; |dec| <= 88 for query points; no rotation/SIP; one known "
            "finding (minor axis of large ellipses outside the locally-linear regime).",
            "TLC-enumerated configuration lattice + relational trace validation by TLC on fixed-point projections of real WCSHelper calls",
            "4/C16"),
    "C10": ("model_checking",
            "Masking.tla defines MaskImage/MaskCube/MaskTable and the property's clauses; TLC checks exactness, complementarity of the two negate "
            "settings, plane identity, order/column preservation and NaN-never-inside over all images up to 3x4 over {value, blank} x 35 membership "
            "patterns x negate x planes {1,2} and all tables of <= 5 rows over {inside, outside, NaN-ra, NaN-dec}, and shows the index-origin "
            "counterexample of the originally coded design. Spec->code: every emitted case is executed with both negate settings on mask_plane, "
            "mask_file (2-D/3-D/4-D) and mask_table/mask_catalog; membership is realised by a real WCS and a Region(maxdepth=10) of the HEALPix "
            "pixels containing the chosen pixel centres. Code->spec: seeded random images up to 64x64 (SIN/TAN/ZEA, CRPIX off-image, circle/polygon "
            "regions at depth 8-12, CLI) with a per-pixel oracle, random tables (custom columns, empty, NaN). All validated per clause by TLC "
            "(Masking_Trace).",
            "astropy.wcs and healpy ang2pix trusted; pixel centres within 1e-6 deg of a HEALPix edge are not compared; rotation-free headers.",
            "TLA+ model checking with TLC + replay of TLC-enumerated inputs on MIMAS + TLC trace validation of per-pixel / per-row token records",
            "4/C10"),
    "C18": ("model_checking",
            "Catalogue.tla is the catalogue store state machine (BeginSave/WriteRow/EndSave/Load over file -> rows of value tokens, per-type split "
            "into _comp/_isle/_simp, precision classes exact64 / single32 / sqlite); TLC checks SplitHolds, ConcatLaw, IdentityExact, Exact64, "
            "Single32, NaN/-1 preservation etc. over type mixes x formats x prefixes. Every TLC-emitted catalogue shape x 7 formats x prefix on/off "
            "and seeded catalogues of 1..3000 rows are written with the real save_catalog and read back (load_table + table_to_source_list, "
            "sqlite3); IEEE-754 hex tokens of input and output rows are validated by TLC against Expected(s) (Catalogue_Trace).",
            "single precision accepts either float32 neighbour; SQLite stores NaN as NULL; values within 1e-30..1e30; uuids contain a letter; one job in three "
            "holds its numbers as numpy.float32 attributes (as the finder produces from single-precision maps) and is compared at float32 precision.",
            "TLA+ state machine + TLC invariants; bounded-exhaustive spec->code replay; code->spec batch trace validation",
            "4/C18"),
    "C09": ("exploration",
            "ShapeCover.tla states the rule (inside the radius => member; beyond r + 3 pixel sizes => not a member; area between the two caps; "
            "polygon interior => member, beyond circumscribed circle + 3 pixel sizes => not) with the pixel-size table as a spec constant; "
            "MC_ShapeConfig lets TLC enumerate and prune the configuration lattice (centre class incl. poles / RA wrap / integer origin x depth "
            "3..12 x radius class x units x argument form x shape, 5544 feasible points) and prove table/area-comparison lemmas; each point is "
            "instantiated with seeded centres/radii and ~200 query points (interior, rings just inside r and just beyond r+3 pixels, far, poles, "
            "both sides of RA=0) on the real Region and TLC validates every record (Shape_Trace).",
            "distances are computed by the harness (atan2 vector formula) and kept >= 1e-6 relative from thresholds; healpy pix2vec trusted for the "
            "cap-area cross-check; convex polygons inscribed in a small circle.",
            "TLC-enumerated configuration lattice + relational trace validation by TLC on fixed-point projections of real Region queries",
            "4/C09"),
    "C01": ("exploration",
            "Recovery.tla states the closed loop Report(Inject(src)) = {src} with the property's tolerances as integer predicates (0.02 px, 0.1 %, "
            "0.5 %, 0.5 deg, 0.5 %; with noise: 5 reported standard errors or the noise-free tolerance); MC_RecoveryConfig lets TLC enumerate the "
            "4800 admissible configurations (projection x docov x forced/internal bkg-rms x cores x dec zone x RA class x pixel scale x beam class "
            "x noise). For a covering sample (quick) or all forced + 400 internal configurations (thorough) the harness draws the continuous "
            "parameters from the seed (sub-pixel phases incl. 0 and 0.5, PA, axis ratio, amplitude, sign), defines the ellipse on the sky, converts "
            "and renders it independently of AegeanTools (astropy + own small-circle offsets), runs the real find_sources_in_image / aegean CLI, "
            "projects the reported row back with astropy and TLC validates the integer deviations (Recovery_Trace). Sampling strength in the "
            "continuous parameters.",
            "isolated single source >= 30 px from the edges; with noise S/N >= 30 and the noise model the fit assumes (beam-correlated for docov, white "
            "otherwise); PA compared for axis ratio >= 1.02; three known findings (exact half-pixel tie, noisy extended sources split / beyond 5 sigma).",
            "TLC-enumerated configuration lattice + relational trace validation by TLC on fixed-point projections of inject->find->report executions",
            "4/C01"),
    "C03": ("model_checking",
            "Finder.tla models the island / component numbering machine (blind: one number per non-empty island; priorized: groups cut into batches "
            "of B refitted from istart); TLC checks Consistent(rows) (unique (island, source) pairs, components 0..n-1) for all island sequences, "
            "B = 2..3, up to 2B+1 groups, and shows the collision of the originally coded istart = batch number. Real catalogues of seeded scenes "
            "(0 islands, sparse, blends, 1-6 pixel islands, > 40 groups, edge sources, NaN regions, coincident summits; both signs) in the modes "
            "blind, blind + island rows, priorized stage 1-3 x regroup, each repeated in-process and in a fresh process (different PYTHONHASHSEED) "
            "and written / read back with save_catalog, are projected to integers and validated by TLC (Finder_Trace, numbering clauses = "
            "Finder!Consistent): completion, uniqueness, ranges of a/b/pa/ra/dec/flags, error markers, sexagesimal strings vs decimals, int_flux "
            "relation, island rows vs detected pixels (count, peak, extent), components inside detected islands, reproducibility.",
            "valid image (finite beam, forced rms/bkg); island pixel oracle = find_islands (pinned by C02); max_angular_size / eta / contours not in the property.",
            "TLA+ numbering machine model-checked with TLC + TLC trace validation of real catalogues (fixed-point projections, float-identity tokens)",
            "4/C03"),
    "C05": ("model_checking",
            "Priorized.tla models Refit over catalogues with usable / off-image / blank rows and the stage -> frozen-parameter table, plus an integer "
            "model of the cut-out registration (TLC proves data origin = parameter origin for all pixel x, width w, and exhibits the half-pixel "
            "misregistration of the original float arithmetic). For seeded cases over stage x regroup x ratio x psf columns x file / in-memory "
            "catalogue x shape (1..60 sources, odd and even cut-out widths, blends sharing an island, off-image and blank-pixel rows, shuffled rows, "
            "> 20 groups) the image is the exact noise-free model rendered independently of AegeanTools; the real priorized_fit_islands is run with "
            "the full catalogue and with the rejected rows removed; TLC validates (Priorized_Trace): at most one row per accepted source with its uuid "
            "and PRIORIZED, frozen positions / shapes and their input uncertainties, recovery to 0.1 % / 0.01 px / 0.1 %, no error, non-interference.",
            "sources of different islands >= 3.5 FWHM apart, >= 14 px from the edges; pixel coordinates away from rounding ties; noise-free.",
            "TLA+ model (stage table + integer cut-out registration) checked by TLC + TLC trace validation of real priorized runs on exact-model images",
            "4/C05"),
    "C13": ("exploration",
            "Polarity.tla defines Filter(cat, nopositive, nonegative), NegateCat and NegateRun; TLC proves the partition theorems (Pos and Neg "
            "disjoint, union = Both, signs as requested, negation is an involution) over every catalogue of <= 4 rows x the 16-element option "
            "lattice {nopositive, nonegative} x {forced, file-supplied rms/bkg} x {original, negated input} and emits the lattice. Every lattice "
            "element is driven on real find_sources_in_image runs on seeded mixed-sign images (isolated sources, blends, a dedicated class with both "
            "signs inside one island); TLC (Polarity_Trace) validates the partition clauses exactly (float-identity tokens incl. numbering) and the "
            "negation symmetry on fixed-point rows.",
            "symmetry verdict at max(1 ppm, 1/4 of the row's quoted sigma) (3 sigma for components of blended islands) because lmfit's bounded-parameter "
            "transform is not bit-symmetric (measured jitter); the strict 1 ppm level is reported as information; err_pa of circular fits not compared.",
            "TLA+/TLC model checking of the filter algebra + TLC batch trace validation of run groups (Both / PosOnly / NegOnly / negated input)",
            "4/C13"),
    "C06": ("exploration",
            "BaneMaps.tla defines the mask rule (blank copied / far pixels finite / no blank in, no blank out) on integer grids and the shape, range, "
            "constant, add-constant, scale and stationary relations in fixed point (8 ppm of the value range); TLC proves the mask rule for the "
            "propagation design on all 2..6 x 2..6 images with <= 2 blank blocks and for the node/box/stripe design of sigma_filter on <= 5x5 images "
            "with up to 3 stripes (two non-vacuity jobs must fail) and checks that the configuration subset run is pairwise covering for the lattice "
            "grid x box x cores x stripes x {2-D, 3-D, 4-D, BSCALE float, BSCALE int16} x mask x compressed. Real filter_image runs (20 % through the "
            "CLI) on exact dyadic-lattice images (A, A+c, k.A per configuration; DC offsets up to 1e4 sigma, NaN/inf blocks, gradients, sources, "
            "stripes > 1) are projected to fixed-point scalars, blank-pixel lists and z-scores and judged by TLC (BaneMaps_Trace).",
            "images >= 2x2; square grid/box, BZERO = 0; stationary clause for box >= 16 and <= 2400 pixels (6 standard errors); compressed files get the "
            "value clauses only; a run unfinished after 150 s counts as not returning.",
            "TLA+ mask-rule theorems model-checked with TLC + TLC trace validation of relation groups of real BANE runs over a TLC-checked pairwise-covering configuration subset",
            "4/C06"),
    "C14": ("exploration",
            "AeResRel.tla states the algebra (Model is a bag homomorphism, off-image sources inert, Subtract after Add = identity, blank set = union of "
            "per-source threshold sets) and the relations over fixed-point records (independent render <= 1e-4 of the peak to 5 sigma, additivity / "
            "order / sum of singles <= 1e-6, add-then-subtract <= 1e-6, exact boolean mask grids, closed loop <= 1e-3); MC_AeResConfig lets TLC check "
            "the algebra on an Add/Subtract/Mask machine and enumerate the 216-element option lattice (op x frac/sigma x column renaming x projection "
            "x catalogue shape class). Every element (API and CLI, files read back), seeded off-lattice runs, single-source and subset records and "
            "find -> save -> subtract loops are validated by TLC (AeRes_Trace). The independent renderer is harness/synth.py (astropy).",
            "half-pixel border band may be rendered or ignored; negative-source mask accepted in signed or magnitude reading; <= 7 sources per catalogue; "
            "nothing claimed beyond 5 sigma; closed loop with docov off.",
            "TLC-checked abstract algebra + TLC-enumerated option lattice + relational trace validation by TLC on fixed-point / boolean-grid projections of real AeRes runs",
            "4/C14"),
    "C19": ("model_checking",
            "Regroup.tla: Groups = connected components of the lattice Close relation, flux-ordered labels with free ties; TLC proves for every multiset "
            "of <= 4 points (sets of 5 in thorough) on a 3x4 lattice x flux pattern x linking-length class that the groups form a partition, coincide "
            "with chain-connectedness, are invariant under all n! row permutations and admit unique (island, source) labels, and emits every case. "
            "Each case is replayed on the real regroup_dbscan at four sky anchors (equator, RA wrap, dec -60, next to the pole) with the linking length "
            "converted by the real AeReg / source_finder callers, plus seeded catalogues of 1..500 sources, threshold probes, the AeReg CLI, the "
            "priorized-fit regroup step, the elliptical regroup and resize; TLC validates every observation (Regroup_Trace).",
            "true separations computed by the harness (Vincenty) and handed to TLC as integers; no pair within 1e-6 of the linking length; resize only for "
            "sources with finite psf.",
            "TLA+ model (MC_Regroup) checked by TLC + replay of TLC-enumerated cases on regroup_dbscan + TLC trace validation",
            "4/C19"),
}

NOT_YET = "check not built yet in this round of construction (planned, see DESIGN.md section 4)"


def main():
    hooks_commits = []
    hp = os.path.join(HERE, "hooks_commits.txt")
    if os.path.exists(hp):
        hooks_commits = [l.strip() for l in open(hp) if l.strip()]
    checks = []
    for pid in ALL:
        if pid not in CHECKS:
            continue
        cat, text, note, tech, ref = CHECKS[pid]
        checks.append({
            "property_id": pid,
            "quick_cmd": "./check %s --tier quick" % pid,
            "thorough_cmd": "./check %s --tier thorough" % pid,
            "evidence_file": "evidence/%s.json" % pid,
            "replay_cmd_template": "./check %s --replay {path}" % pid,
            "engine": "tlc",
            "level_claimed": {"category": cat, "text": text, "design_ref": "DESIGN.md section " + ref},
            "level_note": note,
            "technique": tech,
        })
    m = {
        "version": 1,
        "setup_cmd": "./setup.sh",
        "hooks": {
            "guard": "AEGEAN_VERIF",
            "enable": "environment variable AEGEAN_VERIF=1 (read at import of AegeanTools.BANE); AEGEAN_VERIF_DIR=<dir> selects the event/gate/fault directory",
            "baseline_off_cmd": BASELINE_OFF,
            "source_commits": hooks_commits,
            "add_only": True,
        },
        "engines": [
            {"name": "tlc", "path": "spec/", "serves_properties": sorted(CHECKS),
             "kind_free_text": "explicit TLA+ specifications model-checked with TLC 1.8; trace validation and replay of TLC-generated behaviours bind them to the Python implementation (harness/)"},
        ],
        "checks": checks,
        "notes": "Growth checks beyond the listed properties (same contract, not listed under checks because they belong to none of the twenty ids): ./check X01 (aegean CLI machine), X02 (one Python process: history independence of 22 entry points), X03 (MIMAS CLI dispatch + masking polarity), X04 (BANE/AeRes/regroup/SR6 CLI machines), X05 (the tools as one workspace: routes that denote the same artefact), X06 (FITS header interpretation), X07 (marching-squares contour walker), X08 (island_itergen / classify_catalog: a flat catalogue becomes one island at a time); tools/run_all.sh quick X01 X02 X03 X04 X05 X06 X07 X08. Every verdict is TLC's (invariant violation or rejected trace) or a mismatch between the real code and a state TLC produced. See DESIGN.md. known_findings.json lists repaired (fixed:) and recorded defects.",
        "not_applicable": [{"property_id": p, "reason": NOT_YET} for p in ALL if p not in CHECKS],
    }
    with open(os.path.join(HERE, "MANIFEST.json"), "w") as f:
        json.dump(m, f, indent=1)
    print("MANIFEST.json: %d checks, %d not_applicable" % (len(checks), len(m["not_applicable"])))


if __name__ == "__main__":
    main()
