#!/bin/sh
# robustness sweep: every seeded change against the check of its property with another VERIF_SEED, on scratch copies
cd "$(dirname "$0")/.."
for d in seeded/*/; do
  s=$(basename $d); p=$(echo $s | cut -d- -f1)
  case $s in
    C10-2) c="C08" ;;
    C11-2) c="C08,C09" ;;
    C09-1) c="C09,C08" ;;
    C02-7) c="C03" ;;
    *) c="$p" ;;
  esac
  echo -n "$s: "
  VERIF_SEED=$1 python3 tools/seedtest.py seeded/$s --scratch --no-result --tier quick --checks $c 2>&1 | grep "quick:" | tr '\n' ' '
  echo
done
echo SWEEPDONE
