#!/usr/bin/env python3
"""prints the markdown table of seeded changes and which checks catch them (from seeded/*/meta.json, result.json)"""
import glob, json, os
rows = []
for d in sorted(glob.glob(os.path.join(os.path.dirname(os.path.dirname(os.path.abspath(__file__))), "seeded", "*", ""))):
    name = os.path.basename(d[:-1])
    m = json.load(open(d + "meta.json"))
    r = json.load(open(d + "result.json")) if os.path.exists(d + "result.json") else {}
    caught = sorted(k for k, v in r.items() if v["exit"] == 1)
    missed = sorted(k for k, v in r.items() if v["exit"] == 0)
    summ = (m.get("summary") or m.get("description") or "").replace("\n", " ").replace("|", "/")
    if len(summ) > 230:
        summ = summ[:227] + "..."
    rows.append("| %s | %s | %s | %s |" % (name, summ, ", ".join(caught) or "-", ", ".join(missed) or "-"))
print("| seed | change | caught by (check/tier) | not caught by |\n|---|---|---|---|")
print("\n".join(rows))
