#!/bin/sh
# tools/seed_intake.sh <Cxx> <k>  : verify a seeded change produced in /tmp/seed/<Cxx>_out/<k> and copy it to seeded/
id=$1; k=$2
src=/tmp/seed/${id}_out/$k
wt=/tmp/seed/$id
dst=/verif/seeded/$id-$k
[ -f $src/patch.diff ] || { echo "no patch"; exit 2; }
cd $wt || exit 2
git checkout -q -- . ; git clean -fdq AegeanTools
echo "== demo on unchanged tree"
PYTHONPATH=$wt timeout 900 /venv/bin/python -W ignore $src/demo.py > /tmp/seed/demo_$id_$k.a 2>&1; a=$?
git apply $src/patch.diff || { echo "patch does not apply"; exit 2; }
echo "== demo with change"
PYTHONPATH=$wt timeout 900 /venv/bin/python -W ignore $src/demo.py > /tmp/seed/demo_$id_$k.b 2>&1; b=$?
git checkout -q -- . ; git clean -fdq AegeanTools
echo "demo exit unchanged=$a changed=$b"
[ $a = 0 ] && [ $b != 0 ] || { echo "DEMO DOES NOT DISCRIMINATE"; tail -3 /tmp/seed/demo_$id_$k.a /tmp/seed/demo_$id_$k.b; exit 1; }
mkdir -p $dst
cp $src/patch.diff $src/demo.py $src/meta.json $dst/
echo "copied to $dst"
