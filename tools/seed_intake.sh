#!/bin/sh
# tools/seed_intake.sh <Cxx> <k> [<name-suffix>] : verify a seeded change produced in /tmp/seed/<Cxx>_out/<k> on a scratch
# copy of /repo (demo passes unchanged / fails with the change, patch applies) and copy it to seeded/<Cxx>-<suffix>
id=$1; k=$2; suf=${3:-$k}
src=/tmp/seed/${id}_out/$k
dst=/verif/seeded/$id-$suf
cp=/var/tmp/intake_${id}_$k
[ -f $src/patch.diff ] || { echo "no patch"; exit 2; }
rm -rf $cp; mkdir -p $cp; git -C /repo archive HEAD | tar -x -C $cp
cd $cp || exit 2
PYTHONPATH=$cp timeout 1200 /venv/bin/python -W ignore $src/demo.py > $cp.a 2>&1; a=$?
git init -q . >/dev/null 2>&1
git apply $src/patch.diff || { echo "patch does not apply to current /repo HEAD"; rm -rf $cp $cp.a; exit 2; }
PYTHONPATH=$cp timeout 1200 /venv/bin/python -W ignore $src/demo.py > $cp.b 2>&1; b=$?
echo "demo exit unchanged=$a changed=$b"
if [ $a = 0 ] && [ $b != 0 ]; then
  mkdir -p $dst; cp $src/patch.diff $src/demo.py $src/meta.json $dst/; echo "copied to $dst"
else
  echo "DEMO DOES NOT DISCRIMINATE"; tail -3 $cp.a $cp.b
fi
rm -rf $cp $cp.a $cp.b
