#!/bin/sh
# final confirmation on /repo itself: apply, run the property's own check (and the cross checks that catch it), undo
cd "$(dirname "$0")/.."
run() { echo "=== $1 with $2 $(date +%H:%M:%S)"; python3 tools/seedtest.py seeded/$1 --tier quick --checks $2 2>&1 | grep -v conda | grep -e quick -e refusing -e apply; }
for d in seeded/*-${WAVE:-[0-9]}/; do
  s=$(basename $d); p=$(echo $s | cut -d- -f1)
  case $s in
    C10-2) c="C08" ;;
    C11-2) c="C08,C09" ;;
    C09-1) c="C09,C08" ;;
    C02-7) c="C03" ;;
    *) c="$p" ;;
  esac
  run $s $c
done
git -C /repo status --short | head
echo ALLDONE
