"""
C02 - islands are exactly the seeded, flood-thresholded 8-connected groups.

model  : spec/Islands.tla (declarative islands: components of the flooded set
         containing one of their own seeded pixels, tight boxes) and
         spec/MC_Islands.tla (TLC: theorems Disjoint / NoBlank / Maximal /
         Seeded / Cover / SeedMonotone / FilterThm on every grid of the domain).
binding: every grid of the same bounded-exhaustive domains is realised as
         exactly representable float images (several rms / sign / zero-value
         variants, two seed levels) and run through the real
         source_finder.find_islands; seeded random images (noise, blobs of both
         signs, NaN blocks, random bkg/rms maps, random 0 < flood <= seed) run
         the other way; a third of all calls are repeated in processes that have
         already completed a full source-finding run (process history must not
         matter).  TLC (spec/Islands_Trace.tla) computes IslandsOf on the
         class grid and compares pixel sets, boxes, masks.
"""
import multiprocessing as mp
import random

import numpy as np

from harness import common, islands_lib as L

LEVEL = "model_checking"


def _init():
    common.quiet_logging()


def _init_hist():
    common.quiet_logging()
    L.history()


def _exh(args):
    rid, codes, variant, seed_clip, k = args
    if rid.endswith("/h"):
        L.history()
    im, bkg, rms = L.realise(codes, variant)
    o = L.observe(im, bkg, rms, seed_clip, L.FLOOD)
    H, W = len(codes), len(codes[0])
    return {"id": rid, "kind": "detect", "H": H, "W": W, "grid": codes, "k": k, "variant": variant,
            "seed_clip": seed_clip, "err": o["err"], "islands": o["islands"]}


def _rand_h(seed):
    L.history()
    r = _rand(seed)
    if r is not None:
        r["id"] += "/h"
    return r


def _rand(seed):
    rng = random.Random(seed)
    for _ in range(50):
        im, bkg, rms, sd, fl = L.random_image(rng)
        g = L.classify(im, bkg, rms, sd, fl)
        if g is not None:
            break
    else:
        return None
    o = L.observe(im, bkg, rms, sd, fl)
    return {"id": "rand/%d" % seed, "kind": "detect", "H": int(im.shape[0]), "W": int(im.shape[1]),
            "grid": [[int(x) for x in row] for row in g], "k": 5, "seed": seed,
            "err": o["err"], "islands": o["islands"]}


def key_of(rec, fails):
    hist = " after-earlier-run" if rec["id"].endswith("/h") else ""
    if rec["id"].startswith("rand/"):
        return "random-image%s fails=%s" % (hist, ",".join(fails))
    zero = bool(rec.get("variant", 0) & 4)
    return "grid %dx%d%s zero-valued-members=%s k=%d fails=%s" % (rec["H"], rec["W"], hist, zero, rec["k"], ",".join(fails))


def selftest(ctx):
    good = _exh(("st-good", [[1, 3, 5], [1, 1, 1], [5, 3, 0]], 0, L.SEED, 5))
    if good["err"]:
        return
    import copy
    b1 = copy.deepcopy(good)
    b1["id"] = "st-extra-pixel"
    b1["islands"][0]["pix"].append([2, 2])
    b2 = copy.deepcopy(good)
    b2["id"] = "st-box"
    b2["islands"][0]["box"][1] += 1
    b3 = copy.deepcopy(good)
    b3["id"] = "st-missing"
    b3["islands"] = b3["islands"][:-1]
    rej = {r["id"]: f for r, f in L.validate(ctx, [good, b1, b2, b3], "selftest")}
    if "st-good" in rej:
        return
    if set(rej) != {"st-extra-pixel", "st-box", "st-missing"}:
        raise common.MachineryError("Islands_Trace self-test failed: %r" % rej)


def run(ctx):
    quick = ctx.tier == "quick"
    inv = ["DisjointThm", "NoBlankThm", "MaximalThm", "SeededThm", "CoverThm", "MonotoneThm", "FilterThm"]
    domains = [(3, 3, {1, 3, 5}), (2, 3, {0, 1, 2, 3, 4, 5})] if quick else \
              [(3, 3, {1, 3, 4, 5}), (2, 3, {0, 1, 2, 3, 4, 5}), (1, 6, {0, 1, 2, 3, 4, 5}), (2, 4, {1, 3, 5}), (3, 4, {1, 5})]
    for (H, W, cl) in domains:
        res = ctx.tlc("MC_Islands", common.cfg(spec="Spec", constants={"H": H, "W": W, "Classes": cl},
                                                invariants=inv, deadlock=False),
                      name="model_%dx%d_%d" % (H, W, len(cl)), coverage=(H * W <= 6))
    selftest(ctx)
    jobs = []
    for (H, W, cl) in domains:
        for i, codes in enumerate(L.all_grids(H, W, sorted(cl))):
            variant = i % 8
            jobs.append(("g%dx%d/%d/s5" % (H, W, i), codes, variant, L.SEED, 5))
            if i % 3 == 0:     # a lower seed level: classes >= 3 seed (monotonicity on the code side)
                jobs.append(("g%dx%d/%d/s425" % (H, W, i), codes, variant, 4.25, 3))
            if i % 3 == 1:
                # seed level == flood level (allowed: 0 < flood <= seed; what the finder uses when outerclip is
                # clamped to innerclip): pixels exactly AT the common level (class 2) are flooded but seed nothing
                tie = [[2 if v == 3 else v for v in row] for row in codes]
                jobs.append(("g%dx%d/%d/seqf" % (H, W, i), tie, variant, L.FLOOD, 3))
    # structured family: faint U around a separate bright pixel inside its bounding box, etc.
    special = [
        [[3, 3, 3, 3, 3], [3, 1, 1, 1, 3], [3, 1, 5, 1, 3]],
        [[3, 1, 5], [3, 1, 1], [3, 3, 3]],
        [[5, 1, 3, 1, 5], [1, 1, 3, 1, 1]],
        [[3, 1, 1], [1, 5, 1], [1, 1, 3]],
        [[5]], [[3]], [[0]], [[1, 1], [1, 1]],
        [[3, 3, 3, 3], [3, 0, 0, 3], [3, 0, 5, 3], [3, 3, 3, 1]],
    ]
    for i, codes in enumerate(special):
        for variant in range(8):
            jobs.append(("special/%d/v%d" % (i, variant), codes, variant, L.SEED, 5))
    with mp.Pool(16, initializer=_init) as pool:
        recs = pool.map(_exh, jobs, chunksize=256)
        nrand = 300 if quick else 5000
        rrecs = [r for r in pool.map(_rand, [ctx.seed * 7919 + i for i in range(nrand)], chunksize=16) if r is not None]
    # the same calls in processes with a history (an earlier complete source-finding run): every third
    # grid, all structured grids, a third of the random images
    hjobs = [(j[0] + "/h",) + j[1:] for n, j in enumerate(jobs) if n % 3 == 1 or j[0].startswith("special/")]
    with mp.Pool(16, initializer=_init_hist) as pool:
        recs += pool.map(_exh, hjobs, chunksize=256)
        rrecs += [r for r in pool.map(_rand_h, [ctx.seed * 7919 + i for i in range(0, nrand, 3)], chunksize=16) if r is not None]
    rejected = L.validate_parallel(ctx, recs, "exh")
    rejected += L.validate_parallel(ctx, rrecs, "rand", chunk=400)
    ctx.count(evaluations=len(recs) + len(rrecs), nontrivial=len(recs) + len(rrecs), traces=len(recs) + len(rrecs))
    ctx.cov["rule"] = ("every class grid of the domains %s (x 8 realisation variants cyclically, x 2 seed levels for a third), "
                       "structured special grids, and seeded random images up to 28x28; distinct = distinct (grid, variant, seed level)"
                       % [(d[0], d[1], sorted(d[2])) for d in domains])
    ctx.cov["exhaustive"] = True
    ctx.sample(recs[4321 % len(recs)])
    ctx.sample({k: v for k, v in rrecs[0].items() if k != "grid"})
    ctx.assumptions += ["no pixel of a random image lies within 1e-9 of a threshold (such images are regenerated)",
                        "rms > 0 everywhere, 0 < flood <= seed"]
    for rec, fails in rejected:
        ctx.violation(key_of(rec, fails), {"record": {k: v for k, v in rec.items() if k != "islands"},
                                           "observed": rec["islands"][:6], "fails": fails})


def replay(ctx, rec):
    r = rec["detail"]["record"]
    _init()
    if r["id"].startswith("rand/"):
        out = (_rand_h if r["id"].endswith("/h") else _rand)(r["seed"])
    else:
        out = _exh((r["id"], r["grid"], r["variant"], r["seed_clip"], r["k"]))
    for rr, fails in L.validate(ctx, [out], "replay"):
        ctx.violation(key_of(rr, fails), {"record": {k: v for k, v in rr.items() if k != "islands"}, "fails": fails})
    ctx.count(evaluations=1, nontrivial=2, traces=1)
