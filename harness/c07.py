"""
C07 - BANE always terminates, is schedule-independent and fails cleanly.

model  : spec/Bane.tla (pool + Python Barrier + shared memory + parent get()),
         spec/MC_Bane.tla (TLC: every interleaving for NS<=3(4) stripes,
         Cores<=3(4), mask on/off, every single fault; safety + liveness),
         design switches reproduce the four pre-fix designs (counterexamples).
binding: spec -> code : TLC -simulate behaviours of spec/MC_BaneSched.tla give
         (configuration, schedule, outcome); each schedule is forced on a real
         filter_image run through the env-guarded gate hook and the observed
         outcome / digest is compared with the model's;
         code -> spec : free-running and fault-injected real runs are recorded
         through the hook and validated by TLC against spec/Bane_Trace.tla
         (silent barrier steps); property-level observables of every run are
         decided by TLC with spec/BaneRun_Trace.tla.
"""
import json
import os
import random
import shutil
import signal
import subprocess
import sys
import threading
import time
from concurrent.futures import ThreadPoolExecutor

import numpy as np

from harness import common

LEVEL = "model_checking"
WATCHDOG = 150.0         # a normal run takes < 2 s on an idle machine; generous so that a loaded machine cannot produce a "blocked" verdict
CHILD = os.path.join(os.path.dirname(os.path.abspath(__file__)), "bane_child.py")
FIXES = {"FixPool": True, "FixNoReset": True, "FixAbort": True, "FixOverlap": True}


def read_events(d):
    p = os.path.join(d, "events.ndjson")
    if not os.path.exists(p):
        return []
    out = []
    with open(p) as f:
        for line in f:
            line = line.strip()
            if line:
                try:
                    out.append(json.loads(line))
                except ValueError:
                    pass
    out.sort(key=lambda e: e["seq"])
    return out


def scheduler(d, layout_holder, sched, stop):
    """release gates in the order of the model schedule."""
    gate = os.path.join(d, "gate")

    def seen(stripe_ymin, point, after_seq=0):
        for e in read_events(d):
            if e["stripe"] == stripe_ymin and e["point"] == point and e["seq"] > after_seq:
                return e
        return None

    # wait for main_created to learn the layout
    t0 = time.time()
    while not stop.is_set():
        ev = [e for e in read_events(d) if e["point"] == "main_created"]
        if ev:
            layout_holder["ymins"] = ev[0]["ymins"]
            break
        if time.time() - t0 > 20:
            return
        time.sleep(0.005)
    ymins = layout_holder.get("ymins", [])
    for (s, g) in sched:
        if stop.is_set() or s > len(ymins):
            return
        y = ymins[s - 1]
        t0 = time.time()
        while seen(y, g) is None:          # the stripe must have reached the gate
            if stop.is_set() or time.time() - t0 > 15:
                return
            time.sleep(0.003)
        open(os.path.join(gate, "%d.%s" % (y, g)), "w").close()
        if g in ("p1_done", "p2_done"):
            time.sleep(0.06)               # let it enter barrier.wait() before the next release
        else:
            nxt = {"start": "p1_done", "b1_after": "p2_done", "b2_after": "mask_done"}[g]
            t0 = time.time()
            while seen(y, nxt) is None and seen(y, "task_raised") is None:
                if stop.is_set() or time.time() - t0 > 15:
                    return
                time.sleep(0.003)


def run_bane(ctx, name, spec, sched=None, fault=None):
    """one real run in a child process under a watchdog."""
    d = os.path.join(ctx.workdir, "runs", name)
    shutil.rmtree(d, ignore_errors=True)
    os.makedirs(d)
    spec = dict(spec, dir=d)
    if sched is not None:
        os.makedirs(os.path.join(d, "gate"))
        # points that are never part of a schedule are open from the start
        for p in ("mask_done", "end", "task_raised"):
            pass
    if fault is not None:
        with open(os.path.join(d, "fault"), "w") as f:
            f.write("%d %s" % (fault[0], fault[1]))
    env = dict(os.environ, AEGEAN_VERIF="1", AEGEAN_VERIF_DIR=d, PYTHONPATH=common.REPO,
               AEGEAN_VERIF_GATE_TIMEOUT="60")
    t0 = time.time()
    proc = subprocess.Popen(["/venv/bin/python", "-W", "ignore", CHILD, json.dumps(spec)], env=env,
                            stdout=subprocess.PIPE, stderr=subprocess.DEVNULL, start_new_session=True)
    stop = threading.Event()
    holder = {}
    th = None
    if sched is not None:
        # gates for points outside the schedule alphabet: open them for every stripe as soon as the layout is known
        def opener():
            while not stop.is_set() and "ymins" not in holder:
                time.sleep(0.005)
            for y in holder.get("ymins", []):
                for p in ("mask_done", "end", "task_raised", "p2_done" if not spec["mask"] else "mask_done"):
                    open(os.path.join(d, "gate", "%d.%s" % (y, p)), "w").close()
            for p in ("main_created", "main_got", "main_finally"):
                open(os.path.join(d, "gate", "-1.%s" % p), "w").close()
        # parent's own hook points must never block
        for p in ("main_created", "main_got", "main_finally"):
            open(os.path.join(d, "gate", "-1.%s" % p), "w").close()
        th = threading.Thread(target=scheduler, args=(d, holder, sched, stop), daemon=True)
        th.start()
        th2 = threading.Thread(target=opener, daemon=True)
        th2.start()
    try:
        out, _ = proc.communicate(timeout=WATCHDOG)
        hung = False
    except subprocess.TimeoutExpired:
        hung = True
        out = b""
    stop.set()
    events = read_events(d)
    mem = [e.get("memory_id") for e in events if e["point"] == "main_created"]
    left = []
    if mem:
        for pre in ("ibkg_", "irms_"):
            if os.path.exists("/dev/shm/%s%s" % (pre, mem[0])):
                left.append(pre + mem[0])
    try:                                   # reap the run's whole process group
        os.killpg(proc.pid, signal.SIGKILL)
    except Exception:
        pass
    if hung:
        proc.wait()
    # never leave segments behind ourselves
    for name_ in left:
        try:
            os.remove("/dev/shm/" + name_)
        except OSError:
            pass
    res = {"outcome": "hung"} if hung else None
    if not hung:
        for line in out.decode("utf-8", "replace").splitlines():
            if line.startswith("BANE_CHILD_RESULT "):
                res = json.loads(line[len("BANE_CHILD_RESULT "):])
        if res is None:
            res = {"outcome": "raised", "error": "child died", "text": "rc=%s" % proc.returncode}
    res["wall"] = round(time.time() - t0, 2)
    res["events"] = events
    res["shmleft"] = sorted(set(left) | set(res.get("shm_after_call", [])))
    res["dir"] = d
    return res


def layout_of(res):
    ev = [e for e in res["events"] if e["point"] == "main_created"]
    return (ev[0]["ymins"], ev[0]["ymaxs"]) if ev else ([], [])


def run_record(rid, spec, res, expect, extra=None):
    r = {"id": rid, "kind": "run", "expect": expect, "outcome": res["outcome"],
         "unwritten": int(res.get("unwritten", 0)), "shmleft": len(res["shmleft"]),
         "shapeok": bool(res.get("shape_ok", False)), "wall_ms": int(res["wall"] * 1000)}
    if extra:
        r.update(extra)
    return r


def to_trace(rid, res, fault):
    """hook events -> Bane_Trace record (stripes renumbered 1..ns)."""
    ymins, ymaxs = layout_of(res)
    if not ymins:
        return None
    cores = [e for e in res["events"] if e["point"] == "main_created"][0]
    idx = {y: k + 1 for k, y in enumerate(ymins)}
    evs = []
    for e in res["events"]:
        s = 0 if e["stripe"] == -1 else idx.get(e["stripe"], 99)
        evs.append({"stripe": s, "point": e["point"], "index": int(e.get("index", -1)),
                    "fault": bool(e.get("fault", False))})
    conf = {"ns": len(ymins), "cores": int(cores["cores"]), "domask": bool(cores["domask"]),
            "fs": 0, "fp": "none"}
    if fault is not None:
        conf["fs"] = idx.get(fault[0], 99)
        conf["fp"] = fault[1]
    return {"id": rid, "conf": conf, "events": evs}


def validate_traces(ctx, traces, name):
    """Bane_Trace: returns list of (id, consumed, total) for rejected traces."""
    if not traces:
        return []
    tf = os.path.join(ctx.workdir, name + ".json")
    common.dump_json(tf, traces)
    res = ctx.tlc("Bane_Trace", common.cfg(
        spec="TraceSpec", constants=dict({"Confs": set()}, **FIXES),
        constraints=["Track"], post="TraceDone", deadlock=False),
        name=name, workers=1, env={"TRACE_FILE": tf})
    v = [p for p in res.printed if isinstance(p, dict) and "verdicts" in p]
    if not v:
        raise common.MachineryError("Bane_Trace produced no verdicts")
    bad = [(x["id"], x["consumed"], x["total"]) for x in v[0]["verdicts"] if x["consumed"] != x["total"]]
    return bad


def validate_runs(ctx, recs, name):
    tf = os.path.join(ctx.workdir, name + ".json")
    byid = {r["id"]: r for r in recs}
    keep = ("id", "kind", "expect", "outcome", "unwritten", "shmleft", "shapeok", "digests",
            "dbkg_milli", "drms_milli")
    common.dump_json(tf, [{k: v for k, v in r.items() if k in keep} for r in recs])
    res = ctx.tlc("BaneRun_Trace", common.cfg(spec="Spec", post="BatchDone", deadlock=False),
                  name=name, workers=1, env={"TRACE_FILE": tf})
    summary = [p for p in res.printed if isinstance(p, dict) and "accepted" in p]
    rej = [p for p in res.printed if isinstance(p, dict) and "fails" in p]
    if not summary or summary[0]["total"] != len(recs) or summary[0]["accepted"] + len(rej) != len(recs):
        raise common.MachineryError("run batch not fully consumed")
    return [(byid[p["id"]], p["fails"]) for p in rej]


def selftest(ctx, good_run, good_trace):
    bad = dict(good_run, id="st-hung", outcome="hung")
    bad2 = dict(good_run, id="st-shm", shmleft=1)
    bad3 = {"id": "st-dig", "kind": "digests", "digests": ["a", "a", "b"]}
    rej = {r["id"]: f for r, f in validate_runs(ctx, [good_run, bad, bad2, bad3], "selftest_runs")}
    if set(rej) != {"st-hung", "st-shm", "st-dig"}:
        raise common.MachineryError("BaneRun_Trace self-test failed: %r" % rej)
    if good_trace is not None:
        import copy
        t2 = copy.deepcopy(good_trace)
        t2["id"] = "st-dropped-hook"
        t2["events"] = [e for e in t2["events"] if not (e["point"] == "p1_done" and e["stripe"] == 1)]
        t3 = copy.deepcopy(good_trace)
        t3["id"] = "st-index"
        for e in t3["events"]:
            if e["point"] == "b1_after":
                e["index"] = (e["index"] + 1) % max(1, good_trace["conf"]["ns"]) if good_trace["conf"]["ns"] > 1 else 5
                break
        bad = validate_traces(ctx, [good_trace, t2, t3], "selftest_traces")
        ids = {b[0] for b in bad}
        if good_trace["id"] in ids:
            ctx.warnings.append("model drift: a free-running trace of the real code is not a behaviour of Bane.tla: %r" % (bad,))
        elif ids != {"st-dropped-hook", "st-index"}:
            raise common.MachineryError("Bane_Trace self-test failed: %r" % (bad,))


def model_jobs(ctx, quick):
    n = 3 if quick else 4
    c = common.cfg(spec="Spec", constants=dict({"MaxNS": n, "MaxCores": n, "WithFaults": True, "Confs": "@AllConfs"}, **FIXES),
                   invariants=["TypeOK", "NoSpuriousFailure", "AllWritten", "RaceFree", "ShmSafe"],
                   properties=["Termination", "FaultPrompt", "CleanReturn"], deadlock=True)
    c = c.replace("Confs = AllConfs", "Confs <- AllConfs")
    res = ctx.tlc("MC_Bane", c, name="bane_model", coverage=False, deadlock=True)
    if not quick:
        c5 = common.cfg(spec="Spec", constants=dict({"MaxNS": 5, "MaxCores": 3, "WithFaults": False, "Confs": "@AllConfs"}, **FIXES),
                        invariants=["TypeOK", "NoSpuriousFailure", "AllWritten", "RaceFree", "ShmSafe"],
                        properties=["Termination", "CleanReturn"], deadlock=True).replace("Confs = AllConfs", "Confs <- AllConfs")
        ctx.tlc("MC_Bane", c5, name="bane_model_ns5", deadlock=True)
    # sensitivity: each pre-fix design must give a counterexample
    for sw in ("FixPool", "FixNoReset", "FixAbort"):
        f2 = dict(FIXES)
        f2[sw] = False
        c2 = common.cfg(spec="Spec", constants=dict({"MaxNS": 3, "MaxCores": 3, "WithFaults": True, "Confs": "@AllConfs"}, **f2),
                        invariants=["TypeOK", "NoSpuriousFailure", "AllWritten", "RaceFree", "ShmSafe"],
                        properties=["Termination", "FaultPrompt", "CleanReturn"], deadlock=True).replace("Confs = AllConfs", "Confs <- AllConfs")
        r2 = ctx.tlc("MC_Bane", c2, name="switch_%s_off" % sw, must_pass=False, deadlock=True)
        if r2.violated is None:
            raise common.MachineryError("Bane model insensitive to %s" % sw)
        ctx.notes["design_counterexample_" + sw] = r2.violated


def emit_schedules(ctx, n, maxns):
    c = common.cfg(spec="SSpec", constants=dict({"MaxNS": maxns, "MaxCores": 4, "Confs": "@SchedConfs"}, **FIXES),
                   constraints=["EmitAtEnd"], deadlock=False).replace("Confs = SchedConfs", "Confs <- SchedConfs")
    res = ctx.tlc("MC_BaneSched", c, name="schedules", workers=1, simulate="num=%d" % n, depth=300, seed=ctx.seed + 11)
    sch = [p for p in res.printed if isinstance(p, dict) and "sched" in p]
    # distinct (conf, schedule)
    seen, out = set(), []
    for s in sch:
        k = json.dumps(s, sort_keys=True)
        if k not in seen:
            seen.add(k)
            out.append(s)
    if not out:
        raise common.MachineryError("no schedules emitted")
    return out


def spec_for(ns, cores, mask, rows_per=8, cols=24, grid=4, box=8, **kw):
    s = {"rows": rows_per * ns, "cols": cols, "grid": grid, "box": box, "cores": cores,
         "nslice": ns, "mask": bool(mask), "imgseed": 5, "dc": 30.0, "nan": [[3, 6, 4, 9]]}
    s.update(kw)
    return s


def run(ctx):
    quick = ctx.tier == "quick"
    model_jobs(ctx, quick)
    runs = []          # BaneRun_Trace records
    traces = []        # Bane_Trace records (free and fault runs)
    digests = {}       # (image/layout key) -> list of (id, digest)
    pool = ThreadPoolExecutor(max_workers=6)

    # ---- spec -> code: forced schedules -------------------------------------
    scheds = emit_schedules(ctx, 30 if quick else 400, 3 if quick else 4)
    scheds = scheds[: (24 if quick else 300)]
    futs = []
    for i, s in enumerate(scheds):
        cf = s["conf"]
        spec = spec_for(cf["ns"], cf["cores"], cf["domask"])
        futs.append((i, s, spec, pool.submit(run_bane, ctx, "sched%d" % i, spec, [tuple(x) for x in s["sched"]])))
    for i, s, spec, f in futs:
        res = f.result()
        rid = "sched/%d/ns=%d/cores=%d/mask=%s" % (i, s["conf"]["ns"], s["conf"]["cores"], s["conf"]["domask"])
        runs.append(run_record(rid, spec, res, s["outcome"], {"sched": s["sched"], "spec": spec, "mode": "sched"}))
        if res["outcome"] == "returned":
            digests.setdefault(("ns", s["conf"]["ns"], s["conf"]["domask"]), []).append((rid, res["digest"]))
        shutil.rmtree(res["dir"], ignore_errors=True)

    # ---- code -> spec: free runs over (rows, grid, cores, stripes) ----------------
    free = []
    grid_cfgs = [(24, 4, 2, 2, True), (24, 4, 3, 3, False), (24, 4, 2, 4, True), (32, 4, 2, 3, True),
                 (100, 8, 3, None, True), (40, 4, 1, 4, True), (17, 4, 4, 2, True), (24, 4, 4, 8, False),
                 (64, 4, 4, None, True), (9, 4, 2, 2, True)]
    if not quick:
        rng = random.Random(ctx.seed)
        for _ in range(60):
            cores = rng.choice([1, 2, 3, 4, 6])
            grid_cfgs.append((rng.randint(8, 120), rng.choice([2, 4, 8]), cores,
                              rng.choice([None, 1, 2, 3, 5, 2 * cores]), rng.random() < 0.5))
    for i, (rows, grid, cores, nsl, mask) in enumerate(grid_cfgs):
        spec = {"rows": rows, "cols": 24, "grid": grid, "box": 2 * grid, "cores": cores, "nslice": nsl,
                "mask": mask, "imgseed": 7, "dc": 10.0, "nan": [[2, 4, 3, 7]]}
        free.append((i, spec, pool.submit(run_bane, ctx, "free%d" % i, spec)))
    good_run, good_trace = None, None
    for i, spec, f in free:
        res = f.result()
        rid = "free/%d/rows=%d/grid=%d/cores=%d/nslice=%s/mask=%s" % (i, spec["rows"], spec["grid"], spec["cores"], spec["nslice"], spec["mask"])
        rec = run_record(rid, spec, res, "returned", {"spec": spec, "mode": "free"})
        runs.append(rec)
        ym = layout_of(res)[0]
        if res["outcome"] == "returned":
            digests.setdefault(("layout", spec["rows"], spec["grid"], tuple(ym), spec["mask"]), []).append((rid, res["digest"]))
            t = to_trace(rid, res, None)
            if t is not None and t["conf"]["ns"] <= 5:
                traces.append(t)
                if good_trace is None and t["conf"]["ns"] >= 2:
                    good_run, good_trace = rec, t
        shutil.rmtree(res["dir"], ignore_errors=True)
    # same layout, different worker counts -> identical bytes
    for cores in (2, 3, 5):
        spec = {"rows": 36, "cols": 24, "grid": 4, "box": 8, "cores": cores, "nslice": 3, "mask": True,
                "imgseed": 9, "dc": 3.0, "nan": []}
        res = run_bane(ctx, "cores%d" % cores, spec)
        rid = "cores/%d" % cores
        runs.append(run_record(rid, spec, res, "returned", {"spec": spec, "mode": "free"}))
        if res["outcome"] == "returned":
            digests.setdefault(("cores-group", tuple(layout_of(res)[0])), []).append((rid, res["digest"]))
        shutil.rmtree(res["dir"], ignore_errors=True)

    # ---- fault enumeration ---------------------------------------------------------
    faults = []
    for ns in ((2,) if quick else (2, 3)):
        for mask in (True, False):
            pts = ["start", "p1_done", "b1_after", "p2_done"] + (["b2_after", "mask_done"] if mask else [])
            for st in range(ns):
                for p in pts:
                    faults.append((ns, mask, st, p))
    futs = []
    for i, (ns, mask, st, p) in enumerate(faults):
        spec = spec_for(ns, ns, mask)
        futs.append((i, (ns, mask, st, p), spec, pool.submit(run_bane, ctx, "fault%d" % i, spec, None, (st * 8, p))))
    for i, (ns, mask, st, p), spec, f in futs:
        res = f.result()
        rid = "fault/ns=%d/mask=%s/stripe=%d/point=%s" % (ns, mask, st + 1, p)
        runs.append(run_record(rid, spec, res, "raised", {"spec": spec, "mode": "fault", "fault": [st * 8, p]}))
        t = to_trace(rid, res, (st * 8, p))
        if t is not None and res["outcome"] != "hung":
            traces.append(t)
        shutil.rmtree(res["dir"], ignore_errors=True)

    # ---- stripe-count sensitivity (same image, different stripe counts) ---------------
    sens = []
    base = {"rows": 96, "cols": 48, "grid": 4, "box": 16, "cores": 4, "mask": False, "imgseed": 21,
            "dc": 100.0, "gradient": 5.0, "nan": []}
    ref = run_bane(ctx, "sens1", dict(base, nslice=1, cores=1))
    runs.append(run_record("sens/nslice=1", base, ref, "returned", {"spec": dict(base, nslice=1, cores=1), "mode": "free"}))
    if ref["outcome"] == "returned":
        b1 = np.load(os.path.join(ref["dir"], "bkg.npy")).astype(float)
        r1 = np.load(os.path.join(ref["dir"], "rms.npy")).astype(float)
        for nsl in ((2, 4) if quick else (2, 3, 4, 6, 8)):
            res = run_bane(ctx, "sens%d" % nsl, dict(base, nslice=nsl))
            runs.append(run_record("sens/nslice=%d" % nsl, base, res, "returned", {"spec": dict(base, nslice=nsl), "mode": "free"}))
            if res["outcome"] == "returned":
                b = np.load(os.path.join(res["dir"], "bkg.npy")).astype(float)
                r = np.load(os.path.join(res["dir"], "rms.npy")).astype(float)
                noise = np.maximum(r1, 1e-6)
                sens.append({"id": "sens/1-vs-%d" % nsl, "kind": "sens", "nslice": nsl,
                             "dbkg_milli": int(min(2 ** 30, round(float(np.nanmax(np.abs(b - b1) / noise)) * 1000))),
                             "drms_milli": int(min(2 ** 30, round(float(np.nanmax(np.abs(r - r1) / noise)) * 1000)))})
            shutil.rmtree(res["dir"], ignore_errors=True)
    shutil.rmtree(ref["dir"], ignore_errors=True)
    # the same with boxes that are not square (first element larger, and second element larger) on a background that
    # rises by 0.4 sigma per row (with the unchanged code each stripe boundary shifts the background by about half a
    # row, i.e. 0.2 sigma here; backgrounds that change by more than a sigma per pixel are outside what "a small
    # fraction of the local noise" can mean for a grid-based estimator - assumption listed in the evidence)
    for tag, box in (("tall", [24, 8]), ("wide", [8, 24])):
        b2 = dict(base, box=box, imgseed=22, gradient=0.4 * base["rows"])     # 0.4 sigma per row
        ref = run_bane(ctx, "sens%s1" % tag, dict(b2, nslice=1, cores=1))
        runs.append(run_record("sens-%s/nslice=1" % tag, b2, ref, "returned", {"spec": dict(b2, nslice=1, cores=1), "mode": "free"}))
        if ref["outcome"] == "returned":
            b1 = np.load(os.path.join(ref["dir"], "bkg.npy")).astype(float)
            r1 = np.load(os.path.join(ref["dir"], "rms.npy")).astype(float)
            for nsl in ((4,) if quick else (2, 4, 6)):
                res = run_bane(ctx, "sens%s%d" % (tag, nsl), dict(b2, nslice=nsl))
                runs.append(run_record("sens-%s/nslice=%d" % (tag, nsl), b2, res, "returned", {"spec": dict(b2, nslice=nsl), "mode": "free"}))
                if res["outcome"] == "returned":
                    b = np.load(os.path.join(res["dir"], "bkg.npy")).astype(float)
                    r = np.load(os.path.join(res["dir"], "rms.npy")).astype(float)
                    noise = np.maximum(r1, 1e-6)
                    sens.append({"id": "sens-%s/1-vs-%d" % (tag, nsl), "kind": "sens", "nslice": nsl,
                                 "dbkg_milli": int(min(2 ** 30, round(float(np.nanmax(np.abs(b - b1) / noise)) * 1000))),
                                 "drms_milli": int(min(2 ** 30, round(float(np.nanmax(np.abs(r - r1) / noise)) * 1000)))})
                shutil.rmtree(res["dir"], ignore_errors=True)
        shutil.rmtree(ref["dir"], ignore_errors=True)
    pool.shutdown()

    # ---- verdicts (TLC) --------------------------------------------------------------
    drecs = [{"id": "digests/" + "/".join(str(x) for x in k), "kind": "digests",
              "digests": [d for _, d in v], "members": [i for i, _ in v]}
             for k, v in digests.items() if len(v) >= 2]
    if good_run is not None:
        selftest(ctx, good_run, good_trace)
    rejected = validate_runs(ctx, runs + drecs + sens, "bane_runs")
    bad_traces = validate_traces(ctx, traces, "bane_traces")
    for b in bad_traces:
        ctx.warnings.append("model drift: trace %s consumed %d of %d events" % b)
    ctx.count(evaluations=len(runs), nontrivial=len({json.dumps(r.get("sched", r["id"])) for r in runs}),
              traces=len(runs) + len(traces))
    ctx.cov["rule"] = ("real filter_image executions: forced schedules from TLC -simulate behaviours of MC_BaneSched, free runs over "
                       "(rows, grid, cores, stripes), one injected fault per (stripe, phase); distinct = distinct (configuration, schedule/fault)")
    ctx.cov["forced_schedules"] = len(scheds)
    ctx.assumptions.append("stripe-count sensitivity is judged on backgrounds that change by at most 0.4 sigma per pixel row")
    ctx.cov["fault_runs"] = len(faults)
    ctx.cov["free_runs"] = len(free) + 3
    ctx.cov["hook_traces_validated"] = len(traces)
    ctx.cov["hook_traces_rejected_model_drift"] = len(bad_traces)
    ctx.sample({"schedule": scheds[0]})
    if traces:
        ctx.sample({"hook_trace": {"id": traces[0]["id"], "conf": traces[0]["conf"], "events": traces[0]["events"][:12]}})
    if sens:
        ctx.sample(sens[0])
    ctx.assumptions += ["Linux fork start method", "hook events are totally ordered by the flock'ed sequence counter",
                        "a run that has not finished after %ds (normal: < 2 s) is blocked" % int(WATCHDOG),
                        "worker death by signal is not injected (Pool loses the task; residue)"]
    for rec, fails in rejected:
        if rec["kind"] == "run":
            sp = rec.get("spec", {})
            cls = rec.get("mode", "")
            if cls == "free":
                ym = ""
                key = "free-run %s rows=%s grid=%s cores=%s nslice=%s fails=%s" % (
                    rec["outcome"], sp.get("rows"), sp.get("grid"), sp.get("cores"), sp.get("nslice"), ",".join(fails))
            elif cls == "fault":
                key = "fault-run %s point=%s fails=%s" % (rec["outcome"], rec["fault"][1], ",".join(fails))
            else:
                key = "forced-schedule %s ns=%s fails=%s" % (rec["outcome"], sp.get("nslice"), ",".join(fails))
        else:
            key = "%s fails=%s" % (rec["id"], ",".join(fails))
        ctx.violation(key, {"record": rec, "fails": fails})


def replay(ctx, rec):
    r = rec["detail"]["record"]
    if r.get("kind") != "run":
        raise common.MachineryError("only single runs can be replayed; rerun the tier for group records")
    sched = [tuple(x) for x in r["sched"]] if r.get("mode") == "sched" else None
    fault = tuple(r["fault"]) if r.get("mode") == "fault" else None
    res = run_bane(ctx, "replay", r["spec"], sched, fault)
    out = run_record(r["id"], r["spec"], res, r["expect"], {"spec": r["spec"], "mode": r.get("mode")})
    for rr, fails in validate_runs(ctx, [out], "replay"):
        ctx.violation("replay %s fails=%s" % (rr["outcome"], ",".join(fails)), {"record": rr, "fails": fails})
    ctx.count(evaluations=1, nontrivial=2, traces=1)
