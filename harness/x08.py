"""
X08 (growth, not one of the twenty listed properties) - a flat catalogue becomes "one island at a time".

model  : spec/IslandGroups.tla - Groups(cat) (components in (island, source) order, ties in input
         order, cut where the island changes) as the specification, models.island_itergen as the
         machine the code is (reversed sorted stack that is popped, island counter incremented
         through the gaps); TLC checks YieldsGroups, NeverLost, CounterBounded, RefusedIffEmpty and
         Terminates (liveness) on every catalogue of the bounded domain, and models.classify_catalog
         as three order-preserving filters.
binding: every catalogue of the model's domain and seeded larger ones (gaps, negative and repeated
         island numbers, duplicates, shuffled) are built from real ComponentSource objects and given
         to the real island_itergen; mixed lists go through classify_catalog; the harness reports
         input positions only and TLC (spec/IslandGroups_Trace.tla) compares with Groups / Classify.
"""
import itertools
import os
import random

from harness import common

LEVEL = "model_checking"
ISLANDS = [0, 1, 3]
SOURCES = [0, 1]


def observe_groups(rid, cat):
    from AegeanTools import models
    objs = []
    for isl, src in cat:
        c = models.ComponentSource()
        c.island, c.source = isl, src
        objs.append(c)
    pos = {id(o): k + 1 for k, o in enumerate(objs)}
    rec = {"id": rid, "what": "groups", "cat": [list(c) for c in cat], "groups": [], "error": ""}
    try:
        given = list(objs)
        rec["groups"] = [[pos[id(o)] for o in g] for g in models.island_itergen(objs)]
        if [id(o) for o in objs] != [id(o) for o in given]:
            rec["error"] = "input list modified"
    except Exception as e:
        rec["error"] = type(e).__name__
    return rec


def observe_classes(rid, kinds):
    from AegeanTools import models
    make = {"component": models.ComponentSource, "island": models.IslandSource, "simple": models.SimpleSource, "other": dict}
    objs = [make[k]() for k in kinds]
    pos = {id(o): k + 1 for k, o in enumerate(objs)}
    rec = {"id": rid, "what": "classes", "kinds": list(kinds), "components": [], "islands": [], "simples": []}
    try:
        c, i, s = models.classify_catalog(objs)
        rec["components"], rec["islands"], rec["simples"] = [[pos[id(o)] for o in q] for q in (c, i, s)]
    except Exception as e:
        rec["components"] = [-1]
        rec["error"] = type(e).__name__
    return rec


def validate(ctx, recs, name):
    tf = os.path.join(ctx.workdir, name + ".json")
    byid = {r["id"]: r for r in recs}
    common.dump_json(tf, recs)
    res = ctx.tlc("IslandGroups_Trace", common.cfg(spec="Spec", post="BatchDone", deadlock=False),
                  name=name, workers=1, env={"TRACE_FILE": tf})
    summary = [p for p in res.printed if isinstance(p, dict) and "accepted" in p]
    rej = [p for p in res.printed if isinstance(p, dict) and "fails" in p]
    if not summary or summary[0]["total"] != len(recs) or summary[0]["accepted"] + len(rej) != len(recs):
        raise common.MachineryError("trace batch %s not fully consumed" % name)
    return [(byid[p["id"]], p["fails"]) for p in rej]


def run(ctx):
    thorough = ctx.tier == "thorough"
    maxlen = 5 if thorough else 4
    res = ctx.tlc("IslandGroups", common.cfg(spec="Spec", constants={"MaxLen": maxlen, "Islands": set(ISLANDS), "Sources": set(SOURCES)},
                                             invariants=["NeverLost", "CounterBounded", "YieldsGroups", "RefusedIffEmpty", "GroupFacts"],
                                             properties=["Terminates"], deadlock=False), name="groups_model", coverage=True)
    ctx.require_actions(res, ["Same", "Other"], "groups_model")
    comps = list(itertools.product(ISLANDS, SOURCES))
    recs = []
    for n in range(0, maxlen + 1):
        for cat in itertools.product(comps, repeat=n):
            recs.append(observe_groups("dom/%d" % len(recs), cat))
    rng = random.Random(ctx.seed)
    for k in range(600 if thorough else 150):
        n = rng.randint(1, 12)
        base = rng.choice([-5, 0, 1, 40])
        cat = [(base + rng.choice([0, 1, 2, 5, 9]), rng.randint(0, 3)) for _ in range(n)]
        recs.append(observe_groups("rnd/%d" % k, cat))
    kinds = ["component", "island", "simple", "other"]
    for n in range(0, 5):
        for ks in itertools.product(kinds, repeat=n):
            recs.append(observe_classes("cls/%d" % len(recs), ks))
    rejected = validate(ctx, recs, "groups")
    bad = {r["id"] for r, _ in rejected}
    good = next((r for r in recs if r["id"] not in bad and r["what"] == "groups" and len(r["groups"]) >= 2 and len(r["groups"][0]) >= 2), None)
    if good is not None:
        sw = [list(g) for g in good["groups"]]
        sw[0][0], sw[0][1] = sw[0][1], sw[0][0]
        rej = {r["id"] for r, _ in validate(ctx, [dict(good, id="st-good"), dict(good, id="st-order", groups=sw),
                                                  dict(good, id="st-merge", groups=[sum(good["groups"], [])])], "selftest")}
        if rej != {"st-order", "st-merge"}:
            raise common.MachineryError("IslandGroups_Trace self-test failed: %r" % rej)
    ctx.count(evaluations=len(recs), nontrivial=len(recs), traces=len(recs))
    ctx.cov["rule"] = ("every catalogue of the model's domain (<= %d components over islands %s x sources %s, incl. the empty one) + seeded "
                       "catalogues up to 12 components with gaps / negative ids / duplicates + every list of <= 4 objects over 4 kinds" % (maxlen, ISLANDS, SOURCES))
    ctx.sample(recs[len(recs) // 2])
    for rec, fails in rejected:
        ctx.violation("%s fails=%s input=%s" % (rec["what"], ",".join(fails), rec.get("cat", rec.get("kinds"))), {"record": rec, "fails": fails})


def replay(ctx, rec):
    r = rec["detail"]["record"]
    out = observe_groups(r["id"], [tuple(c) for c in r["cat"]]) if r["what"] == "groups" else observe_classes(r["id"], r["kinds"])
    for rr, fails in validate(ctx, [out], "replay"):
        ctx.violation("%s fails=%s" % (rr["what"], ",".join(fails)), {"record": rr, "fails": fails})
    ctx.count(evaluations=1, nontrivial=1, traces=1)
