"""
Driving and observing source_finder.find_islands (shared by C02 and C11).
Class codes (spec/Islands.tla): 0 blank, 1 below flood, 2 at flood, 3 between,
4 at seed, 5 above seed.
"""
import itertools
import math
import os
import random

import numpy as np

from harness import common

FLOOD = 4.0
SEED = 5.0
SNR = {1: 1.0, 2: 4.0, 3: 4.5, 4: 5.0, 5: 8.0}


def realise(codes, variant=0):
    """class grid -> (im, bkg, rms) with exactly representable values.
    variant bit0: rms 0.5 instead of 1; bit1: alternate signs; bit2: member
    pixels on a checkerboard have value exactly 0 (signal carried by bkg)."""
    g = np.array(codes, dtype=int)
    H, W = g.shape
    rmsv = 0.5 if variant & 1 else 1.0
    im = np.zeros((H, W))
    bkg = np.zeros((H, W))
    rms = np.full((H, W), rmsv)
    for r in range(H):
        for c in range(W):
            k = g[r, c]
            if k == 0:
                im[r, c] = np.nan
                continue
            sign = -1.0 if (variant & 2 and (r + c) % 2 == 1) else 1.0
            s = SNR[k] * rmsv * sign
            if variant & 4 and (r * 3 + c) % 2 == 0:
                im[r, c] = 0.0
                bkg[r, c] = -s
            else:
                im[r, c] = s
    return im, bkg, rms


def observe(im, bkg, rms, seed_clip, flood_clip, region=None, wcs=None):
    from AegeanTools.source_finder import find_islands
    out = {"err": "", "islands": []}
    try:
        isl = find_islands(im, bkg, rms, seed_clip=seed_clip, flood_clip=flood_clip, region=region, wcs=wcs)
        for i in isl:
            (r0, r1), (c0, c1) = [[int(x) for x in b] for b in i.bounding_box]
            m = np.asarray(i.mask)
            ok = m.shape == (r1 - r0, c1 - c0)
            pix = []
            if ok:
                rr, cc = np.where(~m)
                pix = [[int(a) + r0 + 1, int(b) + c0 + 1] for a, b in zip(rr, cc)]
            out["islands"].append({"pix": pix, "box": [r0 + 1, r1 + 1, c0 + 1, c1 + 1], "maskok": bool(ok)})
    except Exception as e:
        out["err"] = "%s: %s" % (type(e).__name__, e)
    return out


_HISTORY = [False]


def history():
    """ordinary earlier use of the package in this process (once per process): a complete
    find_sources_in_image run (flood, summit segmentation, fitting, characterisation) on a small
    two-source image and a component estimation of a plateau island.  The islands of a later
    find_islands call are a function of its arguments only - never of what the process did before."""
    if _HISTORY[0]:
        return
    _HISTORY[0] = True
    import contextlib
    import io
    import tempfile
    from harness import synth
    from AegeanTools import source_finder as sf
    from AegeanTools.wcs_helpers import WCSHelper
    shape = (40, 44)
    h = synth.make_header(shape, cdelt_arcsec=20.0, beam_arcsec=(60.0, 60.0, 0.0))
    s3 = 3 * synth.FWHM2SIG
    img = synth.render(shape, [(12.0, 11.0, 13.0, s3, s3, 0.0), (9.0, 14.5, 15.5, s3, s3, 0.0),
                               (-8.0, 30.0, 27.0, 2 * s3, s3, 0.4)])
    img += np.random.default_rng(5).normal(0, 0.2, shape)
    with tempfile.TemporaryDirectory(dir=common.WORKROOT if os.path.isdir(common.WORKROOT) else None) as d, \
            contextlib.redirect_stderr(io.StringIO()):
        path = synth.write(os.path.join(d, "hist.fits"), img, h)
        try:
            sf.SourceFinder().find_sources_in_image(path, rms=0.2, bkg=0.0, cores=1, nonegative=False)
        except Exception:
            pass
        other = np.zeros((12, 12))
        other[3:8, 3:8] = 6.0
        other[5, 5] = 9.0
        try:
            isl = sf.find_islands(other, np.zeros_like(other), np.ones_like(other))
            sf.estimate_parinfo_image(isl, im=other, rms=np.ones_like(other), wcshelper=WCSHelper.from_header(h))
        except Exception:
            pass


def classify(im, bkg, rms, seed_clip, flood_clip, eps=1e-9):
    """class grid of an arbitrary image; returns None if a pixel is within eps
    of a threshold (input-domain assumption: no ties from rounding)."""
    with np.errstate(invalid="ignore", divide="ignore"):
        snr = np.abs(im - bkg) / rms
    g = np.zeros(im.shape, dtype=int)
    fin = np.isfinite(snr)
    if np.any(fin & ((np.abs(snr - seed_clip) < eps) | (np.abs(snr - flood_clip) < eps))):
        return None
    g[fin & (snr < flood_clip)] = 1
    g[fin & (snr >= flood_clip) & (snr <= seed_clip)] = 3
    g[fin & (snr > seed_clip)] = 5
    return g


def validate(ctx, recs, name):
    tf = os.path.join(ctx.workdir, name + ".json")
    byid = {r["id"]: r for r in recs}
    if len(byid) != len(recs):
        raise common.MachineryError("duplicate ids in " + name)
    common.dump_json(tf, recs)
    res = ctx.tlc("Islands_Trace", common.cfg(spec="Spec", post="BatchDone", deadlock=False),
                  name=name, workers=1, env={"TRACE_FILE": tf}, heap="12g")
    summary = [p for p in res.printed if isinstance(p, dict) and "accepted" in p]
    rej = [p for p in res.printed if isinstance(p, dict) and "fails" in p]
    if not summary or summary[0]["total"] != len(recs) or summary[0]["accepted"] + len(rej) != len(recs):
        raise common.MachineryError("trace batch %s not fully consumed" % name)
    os.remove(tf)
    return [(byid[p["id"]], p["fails"]) for p in rej]


def validate_parallel(ctx, recs, name, chunk=6000):
    from concurrent.futures import ThreadPoolExecutor
    parts = list(common.chunks(recs, chunk))
    with ThreadPoolExecutor(max_workers=8) as ex:
        futs = [ex.submit(validate, ctx, p, "%s_%d" % (name, i)) for i, p in enumerate(parts)]
        out = []
        for f in futs:
            out += f.result()
    return out


def all_grids(H, W, classes):
    for t in itertools.product(classes, repeat=H * W):
        yield [list(t[r * W:(r + 1) * W]) for r in range(H)]


def random_image(rng, maxsize=28):
    H, W = rng.randint(1, maxsize), rng.randint(1, maxsize)
    nrng = np.random.default_rng(rng.randint(0, 2 ** 31))
    rms = nrng.uniform(0.5, 2.0, (H, W)) if rng.random() < 0.5 else np.full((H, W), rng.uniform(0.1, 3))
    bkg = nrng.normal(0, 2, (H, W)) if rng.random() < 0.5 else np.full((H, W), rng.uniform(-5, 5))
    im = bkg + rms * nrng.normal(0, 1.6, (H, W))
    for _ in range(rng.randint(0, 4)):      # blobs of either sign
        r0, c0 = rng.uniform(0, H), rng.uniform(0, W)
        s = rng.uniform(0.6, 2.5)
        a = rng.uniform(4, 15) * rng.choice([-1, 1])
        rr, cc = np.mgrid[0:H, 0:W]
        im = im + a * rms * np.exp(-((rr - r0) ** 2 + (cc - c0) ** 2) / (2 * s * s))
    for _ in range(rng.randint(0, 2)):      # NaN blocks
        r0, c0 = rng.randint(0, H - 1), rng.randint(0, W - 1)
        im[r0:r0 + rng.randint(1, 4), c0:c0 + rng.randint(1, 4)] = np.nan
    if rng.random() < 0.3:                    # exact zeros with non-zero background
        r0, c0 = rng.randint(0, H - 1), rng.randint(0, W - 1)
        im[r0, c0] = 0.0
        bkg[r0, c0] = -rng.uniform(5, 9) * rms[r0, c0]
    flood = rng.uniform(2.5, 4.5)
    seed = flood + rng.choice([0.0, rng.uniform(0, 2)])
    return im, bkg, rms, seed, flood
