"""C11 (b): pairs of real find_sources_in_image runs with / without a region."""
import math
import os
import random
import multiprocessing as mp

import numpy as np

from harness import common, synth


def run_one(args):
    seed, workdir = args[0], args[1]
    force_whole = len(args) > 2 and args[2]
    common.quiet_logging()
    import contextlib
    import io
    from astropy.wcs import WCS
    from AegeanTools.regions import Region
    from AegeanTools.source_finder import SourceFinder, find_islands
    rng = random.Random(seed)
    rec = {"id": "pair/%d" % seed, "seed": seed, "err": "", "islands": [], "unrestricted": [],
           "restricted": [], "whole": False}
    try:
        proj = rng.choice(["SIN", "TAN", "ZEA"])
        shape = (rng.randint(40, 64), rng.randint(40, 64))
        cd = 120.0
        h = synth.make_header(shape, proj=proj, crval=(rng.uniform(0, 360), rng.uniform(-70, 70)),
                              cdelt_arcsec=cd, beam_arcsec=(3 * cd, 3 * cd, 0.0))
        w = WCS(h, naxis=2)
        comps = []
        nsrc = rng.randint(3, 7)
        for _ in range(nsrc):
            x, y = rng.uniform(6, shape[1] - 6), rng.uniform(6, shape[0] - 6)
            s = 3 * synth.FWHM2SIG
            kind = rng.random()
            if kind < 0.3:      # elongated
                comps.append((rng.uniform(8, 30), x, y, s * rng.uniform(2, 3.5), s, rng.uniform(0, math.pi)))
            else:
                comps.append((rng.uniform(8, 30) * rng.choice([1, 1, -1]), x, y, s, s, 0.0))
        img = synth.render(shape, comps)
        nrng = np.random.default_rng(seed)
        img += nrng.normal(0, 0.3, shape)
        path = os.path.join(workdir, "pair_%d_%d.fits" % (seed, os.getpid()))
        synth.write(path, img, h)
        # region: a circle (or polygon) somewhere on the image, depth 12 (52" pixels < 120" image pixels)
        reg = Region(maxdepth=12)
        mode = rng.random()
        if mode < 0.2 or force_whole:
            ra0, dec0 = w.all_pix2world([[shape[1] / 2.0, shape[0] / 2.0]], 0)[0]
            if seed % 2 and not force_whole:
                reg.add_circles(math.radians(ra0), math.radians(dec0), math.radians(5.0))
            else:                      # the whole sky, stored as coarse pixels (shallow region: cheap to demote)
                reg = Region(maxdepth=6)
                reg.add_circles(math.radians(ra0), math.radians(dec0), math.radians(40.0))
                reg.add_pixels(list(range(48)), 1)
                reg._renorm()
            rec["whole"] = True
        elif mode < 0.55:
            # a coarse (MIMAS default depth 8, 13.7' pixels >> 2' image pixels) mask made of several separate
            # patches: many pixels of one island share one HEALPix pixel, and the pixel list spans the sphere
            reg = Region(maxdepth=8)
            cx, cy = rng.uniform(0, shape[1]), rng.uniform(0, shape[0])
            ra0, dec0 = w.all_pix2world([[cx, cy]], 0)[0]
            reg.add_circles([math.radians(ra0), math.radians((ra0 + 170.0) % 360.0)],
                            [math.radians(dec0), math.radians(-dec0 * 0.5)],
                            [math.radians(rng.uniform(0.3, 0.7)), math.radians(0.6)])
            rec["coarse"] = True
        else:
            cx, cy = rng.uniform(0, shape[1]), rng.uniform(0, shape[0])
            ra0, dec0 = w.all_pix2world([[cx, cy]], 0)[0]
            reg.add_circles(math.radians(ra0), math.radians(dec0), math.radians(rng.uniform(4, 25) * cd / 3600.0))
        # membership oracle that does not use the query code under test: the deepest-level pixel set
        # (get_demoted is pinned by C08) and healpy's ang2pix of each pixel centre
        import copy
        import healpy as hp
        member = set(int(p) for p in copy.deepcopy(reg).get_demoted())
        nside = 2 ** reg.maxdepth
        kw = dict(rms=0.3, bkg=0.0, cores=1, nonegative=False, innerclip=rng.choice([5, 6]), outerclip=rng.choice([3, 4]))
        with contextlib.redirect_stderr(io.StringIO()):
            sf = SourceFinder()
            A = sf.find_sources_in_image(path, **kw)
            gd = sf.global_data
            isl = find_islands(im=gd.img, bkg=np.zeros_like(gd.img), rms=gd.rmsimg,
                               seed_clip=kw["innerclip"], flood_clip=min(kw["outerclip"], kw["innerclip"]))
            sf2 = SourceFinder()
            B = sf2.find_sources_in_image(path, mask=reg, **kw)
        os.remove(path)
        for n, i in enumerate(isl, start=1):
            (r0, r1), (c0, c1) = [[int(x) for x in b] for b in i.bounding_box]
            rr, cc = np.where(~np.asarray(i.mask))
            pix = [(int(a) + r0, int(b) + c0) for a, b in zip(rr, cc)]
            sky = w.all_pix2world([[c, r] for r, c in pix], 0)
            hpx = hp.ang2pix(nside, np.radians(90.0 - sky[:, 1]), np.radians(sky[:, 0]), nest=True)
            inside = [int(p) in member for p in hpx]
            rec["islands"].append({"num": n, "pix": [[r + 1, c + 1] for r, c in pix],
                                   "inside": [[r + 1, c + 1] for (r, c), b in zip(pix, inside) if b]})
        rec["unrestricted"] = [{"island": int(s.island), "tok": synth.src_token(s)} for s in A]
        rec["restricted"] = [{"tok": synth.src_token(s)} for s in B]
        if rec["whole"] and not all(len(i["inside"]) == len(i["pix"]) for i in rec["islands"]):
            rec["whole"] = False
        ins = [bool(i["inside"]) for i in rec["islands"]]
        rec["cls"] = "mixed" if (any(ins) and not all(ins)) else ("all" if all(ins) else "none")
    except Exception as e:
        rec["err"] = "%s: %s" % (type(e).__name__, e)
    return rec


def run(ctx, n, seeds=None):
    seeds = seeds if seeds is not None else [ctx.seed * 31337 + i for i in range(n)]
    with mp.Pool(min(16, max(1, len(seeds)))) as pool:
        recs = pool.map(run_one, [(s, ctx.workdir, k == 0) for k, s in enumerate(seeds)], chunksize=1)
    tf = os.path.join(ctx.workdir, "finder_region.json")
    common.dump_json(tf, [{k: v for k, v in r.items() if k not in ("cls", "seed", "coarse")} for r in recs])
    res = ctx.tlc("FinderRegion_Trace", common.cfg(spec="Spec", post="BatchDone", deadlock=False),
                  name="finder_region", workers=1, env={"TRACE_FILE": tf})
    byid = {r["id"]: r for r in recs}
    summary = [p for p in res.printed if isinstance(p, dict) and "accepted" in p]
    rej = [p for p in res.printed if isinstance(p, dict) and "fails" in p]
    if not summary or summary[0]["total"] != len(recs) or summary[0]["accepted"] + len(rej) != len(recs):
        raise common.MachineryError("finder_region batch not fully consumed")
    return recs, [(byid[p["id"]], p["fails"]) for p in rej]
