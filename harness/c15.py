"""
C15 - compress then expand restores shape, WCS and grid-node values.

model  : spec/MC_Expand.tla (TLC: the coded decimation/interpolation design,
         one axis, satisfies NodeExact / InRange / AffineExact / CrpixBack)
binding: all (R, C, f) of a bounded domain are run through the real
         fits_tools.compress -> expand (file or in-memory HDU, CDELT or CD
         header, SR6 CLI for a subset); TLC validates every observation against
         spec/Expand_Trace.tla (predicates over spec/Tiles.tla).
"""
import os
import random
import multiprocessing as mp

import numpy as np

from harness import common

LEVEL = "model_checking"
_DIR = None
_N = [0]


def _init(d):
    global _DIR
    _DIR = d
    common.quiet_logging()


def make_hdu(R, C, hdrkind, affine, seed):
    from astropy.io import fits
    rng = random.Random(seed)
    r = np.arange(R)[:, None]
    c = np.arange(C)[None, :]
    if affine:
        a, b, g = rng.randint(-50, 50), rng.choice([-7, -2, 1, 3, 11]), rng.choice([-5, -1, 2, 13])
        img = a + b * r + g * c
    else:
        img = (r * r * 7 + c * c * 3 + r * c * 5 + rng.randint(0, 9)) % 997 - 300
    img = img.astype(np.float32)
    hdu = fits.PrimaryHDU(img)
    h = hdu.header
    h['CTYPE1'] = 'RA---SIN'
    h['CTYPE2'] = 'DEC--SIN'
    h['CRVAL1'] = 123.4
    h['CRVAL2'] = -45.6
    h['CRPIX1'] = rng.choice([1.0, C / 2.0 + 0.5, -3.25, 17.0])
    h['CRPIX2'] = rng.choice([1.0, R / 2.0 + 0.5, 40.5, -2.0])
    if hdrkind == "cdelt":
        h['CDELT1'] = -0.0123
        h['CDELT2'] = 0.0123
    else:
        h['CD1_1'] = -0.0071
        h['CD2_2'] = 0.0071
        # a slightly rotated / skewed CD matrix: every CD keyword must come back unchanged
        h['CD1_2'] = rng.choice([0.0, 0.0005, -0.0011])
        h['CD2_1'] = rng.choice([0.0, 0.0007, -0.0003])
    return hdu, img


WCSKEYS = {"cdelt": ['CRPIX1', 'CRPIX2', 'CDELT1', 'CDELT2'],
           "cd": ['CRPIX1', 'CRPIX2', 'CD1_1', 'CD2_2', 'CD1_2', 'CD2_1']}


def observe(args):
    R, C, f, hdrkind, inputkind, affine, seed = args
    from astropy.io import fits
    from AegeanTools import fits_tools
    rid = "R=%d/C=%d/f=%d/%s/%s/%s" % (R, C, f, hdrkind, inputkind, "affine" if affine else "token")
    rec = {"id": rid, "kind": "roundtrip", "R": R, "C": C, "f": f, "hdr": hdrkind,
           "input": inputkind, "affine": bool(affine), "seed": seed, "err": "",
           "inp": [], "out1000": [], "shape": [], "wcsdev": [], "bnleft": False}
    hdu, img = make_hdu(R, C, hdrkind, affine, seed)
    orig = {k: hdu.header[k] for k in WCSKEYS[hdrkind]}
    rec["inp"] = [[int(v) for v in row] for row in img]
    _N[0] += 1
    base = os.path.join(_DIR, "c15_%d_%d_%d_%s_%s_%d_%d_%d" % (R, C, f, hdrkind, inputkind, int(affine), os.getpid(), _N[0]))
    try:
        if inputkind == "hdu":
            comp = fits_tools.compress(fits.HDUList([hdu]), f)
            if comp is None:
                raise RuntimeError("compress returned None")
            exp = fits_tools.expand(comp)
        elif inputkind == "file":
            hdu.writeto(base + ".fits", overwrite=True)
            if fits_tools.compress(base + ".fits", f, outfile=base + "_c.fits") is None:
                raise RuntimeError("compress returned None")
            fits_tools.expand(base + "_c.fits", outfile=base + "_x.fits")
            exp = fits.open(base + "_x.fits")
        else:  # cli
            from AegeanTools.CLI import SR6
            hdu.writeto(base + ".fits", overwrite=True)
            SR6.main([base + ".fits", "-f", str(f), "-o", base + "_c.fits"])
            SR6.main([base + "_c.fits", "-x", "-o", base + "_x.fits"])
            exp = fits.open(base + "_x.fits")
        if exp is None:
            raise RuntimeError("expand returned None")
        out = np.asarray(exp[0].data, dtype=np.float64)
        h = exp[0].header
        rec["shape"] = [int(s) for s in out.shape]
        if out.shape == (R, C) and np.all(np.isfinite(out)):
            rec["out1000"] = [[int(round(v * 1000)) for v in row] for row in out]
        elif out.shape == (R, C):
            rec["err"] = "non-finite values in expanded image"
        for k in WCSKEYS[hdrkind]:
            if k not in h:
                rec["wcsdev"].append(10 ** 6)
            else:
                rec["wcsdev"].append(min(10 ** 6, int(round(abs(h[k] - orig[k]) / (abs(orig[k]) or 1e-3) * 1e12))))
        rec["bnleft"] = any(k.startswith("BN_") for k in h.keys())
        if hasattr(exp, "close"):
            exp.close()
    except Exception as e:
        rec["err"] = "%s: %s" % (type(e).__name__, e)
    for sfx in (".fits", "_c.fits", "_x.fits"):
        if os.path.exists(base + sfx):
            os.remove(base + sfx)
    return rec


def observe_identity(d):
    """expand() of a file that was never compressed returns it unchanged."""
    from astropy.io import fits
    from AegeanTools import fits_tools
    recs = []
    for (R, C) in [(2, 2), (5, 7), (9, 4)]:
        hdu, img = make_hdu(R, C, "cdelt", False, R * 100 + C)
        p = os.path.join(d, "ident_%d_%d.fits" % (R, C))
        hdu.writeto(p, overwrite=True)
        rec = {"id": "identity/R=%d/C=%d" % (R, C), "kind": "identity", "err": "", "same": False}
        try:
            out = fits_tools.expand(p)
            rec["same"] = bool(np.array_equal(out[0].data, img)
                               and all(out[0].header[k] == hdu.header[k] for k in WCSKEYS["cdelt"]))
        except Exception as e:
            rec["err"] = "%s: %s" % (type(e).__name__, e)
        os.remove(p)
        recs.append(rec)
    return recs


def observe_aux(d, shapes_factors):
    """a compressed bkg/rms file is accepted by the source finder's aux loader
    and by load_image_band and yields the image's shape."""
    from astropy.io import fits
    from AegeanTools import fits_tools
    from AegeanTools.source_finder import SourceFinder
    recs = []
    for (R, C, f) in shapes_factors:
        hdu, img = make_hdu(R, C, "cdelt", True, 7)
        p = os.path.join(d, "aux_%d_%d_%d.fits" % (R, C, f))
        pc = p.replace(".fits", "_c.fits")
        hdu.writeto(p, overwrite=True)
        rec = {"id": "aux/R=%d/C=%d/f=%d" % (R, C, f), "kind": "aux", "err": "",
               "shape": [], "imshape": [R, C]}
        try:
            fits_tools.compress(p, f, outfile=pc)
            sf = SourceFinder()
            aux = sf._load_aux_image(img, pc)
            rec["shape"] = [int(s) for s in aux.shape]
        except Exception as e:
            rec["err"] = "%s: %s" % (type(e).__name__, e)
        for q in (p, pc):
            if os.path.exists(q):
                os.remove(q)
        recs.append(rec)
    return recs


def observe_bane(d, cases):
    """BANE's own compressed outputs (filter_image(compressed=True)) expand to the image's shape and WCS."""
    from astropy.io import fits
    from AegeanTools import fits_tools, BANE
    recs = []
    for (R, C, g) in cases:
        hdu, img = make_hdu(R, C, "cdelt", True, R * 7 + C)
        rng = np.random.default_rng(R * 100 + C)
        hdu.data = (img + rng.normal(0, 1, img.shape)).astype(np.float32)
        p = os.path.join(d, "bane_%d_%d_%d.fits" % (R, C, g))
        hdu.writeto(p, overwrite=True)
        orig = {k: hdu.header[k] for k in WCSKEYS["cdelt"]}
        base = p.replace(".fits", "_out")
        err = ""
        try:
            BANE.filter_image(p, base, step_size=(g, g), box_size=(2 * g, 2 * g), cores=1, compressed=True)
        except Exception as e:
            err = "%s: %s" % (type(e).__name__, e)
        for which in ("bkg", "rms"):
            rec = {"id": "baneout/R=%d/C=%d/g=%d/%s" % (R, C, g, which), "kind": "baneout", "R": R, "C": C, "f": g,
                   "which": which, "err": err, "shape": [], "wcsdev": [], "bnleft": False}
            f = "%s_%s.fits" % (base, which)
            if not err:
                try:
                    exp = fits_tools.expand(f)
                    h = exp[0].header
                    rec["shape"] = [int(x) for x in exp[0].data.shape]
                    for k in WCSKEYS["cdelt"]:
                        rec["wcsdev"].append(10 ** 6 if k not in h else
                                             min(10 ** 6, int(round(abs(h[k] - orig[k]) / abs(orig[k]) * 1e12))))
                    rec["bnleft"] = any(k.startswith("BN_") for k in h.keys())
                except Exception as e:
                    rec["err"] = "%s: %s" % (type(e).__name__, e)
            if os.path.exists(f):
                os.remove(f)
            recs.append(rec)
        os.remove(p)
    return recs


def key_of(rec, fails):
    if rec["kind"] == "roundtrip":
        return "roundtrip R=%d C=%d f=%d hdr=%s input=%s fails=%s" % (
            rec["R"], rec["C"], rec["f"], rec["hdr"], rec["input"], ",".join(fails))
    return "%s fails=%s" % (rec["id"], ",".join(fails))


def validate(ctx, recs, name):
    tf = os.path.join(ctx.workdir, name + ".json")
    byid = {r["id"]: r for r in recs}
    if len(byid) != len(recs):
        raise common.MachineryError("duplicate record ids in batch " + name)
    common.dump_json(tf, recs)
    res = ctx.tlc("Expand_Trace", common.cfg(spec="Spec", post="BatchDone", deadlock=False),
                  name=name, workers=1, env={"TRACE_FILE": tf})
    summary = [p for p in res.printed if "accepted" in p]
    rej = [p for p in res.printed if "fails" in p]
    if not summary or summary[0]["total"] != len(recs) or summary[0]["accepted"] + len(rej) != len(recs):
        raise common.MachineryError("trace batch %s not fully consumed" % name)
    os.remove(tf)
    return [(byid[p["id"]], p["fails"]) for p in rej]


def selftest(ctx):
    _init(ctx.workdir)
    good = observe((5, 7, 2, "cdelt", "hdu", True, 1))
    good["id"] = "st-good"
    if good["err"]:
        return   # the real code fails; reported by the main run
    b1 = dict(good, id="st-node", out1000=[list(r) for r in good["out1000"]])
    b1["out1000"][2][4] += 1000
    b2 = dict(good, id="st-bn", bnleft=True)
    b3 = dict(good, id="st-shape", shape=[5, 8])
    b4 = dict(good, id="st-wcs", wcsdev=[0, 5000, 0, 0])
    rej = validate(ctx, [good, b1, b2, b3, b4], "selftest")
    got = {r["id"]: f for r, f in rej}
    if set(got) != {"st-node", "st-bn", "st-shape", "st-wcs"} or "nodes_exact" not in got["st-node"]:
        raise common.MachineryError("Expand_Trace self-test failed: %r" % got)


def run(ctx):
    quick = ctx.tier == "quick"
    # unbounded: TLAPS proves that the reference pixel survives compress + expand for every factor
    ctx.cov["tlaps_obligations_proved"] = common.run_tlapm("ExpandProof", os.path.join(ctx.workdir, "tlaps"))
    res = ctx.tlc("MC_Expand", common.cfg(
        spec="Spec", constants={"MaxR": 14 if quick else 24, "MaxF": 16 if quick else 32,
                                "SmallR": 5 if quick else 6, "Vals": {0, 1, 2}},
        invariants=["NodeExact", "InRange", "AffineExact", "CrpixBack", "KeysGone", "NodesInside"],
        deadlock=False), coverage=True)
    ctx.require_actions(res, ["Compress", "Expand"], "MC_Expand")
    selftest(ctx)
    rng = random.Random(ctx.seed)
    jobs = []
    sizes = range(2, 10) if quick else range(2, 15)
    factors = list(range(1, 11)) + [16, 64] if quick else list(range(1, 17)) + [23, 32, 64]
    k = 0
    for R in sizes:
        for C in sizes:
            for f in factors:
                for affine in (True, False):
                    k += 1
                    hdr = "cdelt" if k % 3 else "cd"
                    inp = ("hdu", "file", "hdu", "file", "cli")[k % 5] if (quick and k % 20) or not quick else "cli"
                    jobs.append((R, C, f, hdr, inp, affine, rng.randint(0, 10 ** 6)))
    for _ in range(60 if quick else 600):
        R, C = rng.randint(10, 40), rng.randint(10, 40)
        jobs.append((R, C, rng.randint(1, 64), rng.choice(["cdelt", "cd"]),
                     rng.choice(["hdu", "file"]), rng.random() < 0.5, rng.randint(0, 10 ** 6)))
    # long axes (thousands of rows or columns, a few pixels across): block-wise or chunked implementations
    big = [(1500, 3, 16), (2100, 2, 7), (1030, 4, 64), (3, 1500, 16), (2, 2600, 300), (4100, 2, 1000)]
    if not quick:
        big += [(rng.randint(1025, 5000), rng.randint(2, 4), rng.choice([3, 16, 100, 1024, 2000])) for _ in range(20)]
        big += [(rng.randint(2, 4), rng.randint(1025, 5000), rng.choice([3, 16, 100, 1024, 2000])) for _ in range(10)]
    for n, (R, C, f) in enumerate(big):
        jobs.append((R, C, f, ("cdelt", "cd")[n % 2], ("hdu", "file")[n // 2 % 2], n % 3 != 0, rng.randint(0, 10 ** 6)))
    d = os.path.join(ctx.workdir, "files")
    os.makedirs(d, exist_ok=True)
    with mp.Pool(16, initializer=_init, initargs=(d,)) as pool:
        recs = pool.map(observe, jobs, chunksize=8)
    # ids can collide for the seeded part: make unique
    seen = {}
    for r in recs:
        n = seen.get(r["id"], 0)
        seen[r["id"]] = n + 1
        if n:
            r["id"] += "#%d" % n
    _init(d)
    recs += observe_identity(d)
    recs += observe_aux(d, [(8, 8, 2), (9, 7, 4), (33, 20, 5), (16, 16, 16)] if quick else
                        [(R, C, f) for R in (8, 9, 33) for C in (7, 16, 20) for f in (1, 2, 3, 4, 5, 8, 16)])
    recs += observe_bane(d, [(24, 20, 4), (33, 27, 4), (40, 40, 8)] if quick else
                         [(R, C, g) for R in (24, 33, 40) for C in (20, 27, 48) for g in (2, 4, 8)])
    rejected = []
    for i, part in enumerate(common.chunks(recs, 1500)):
        rejected += validate(ctx, part, "expand_trace_%d" % i)
    ctx.count(evaluations=len(recs), nontrivial=len({(r.get("R"), r.get("C"), r.get("f"), r.get("hdr"), r.get("input"), r.get("affine"), r["kind"]) for r in recs}),
              traces=len(recs))
    ctx.cov["rule"] = ("one trace per compress->expand execution; distinct = distinct "
                       "(R, C, f, header kind, input kind, image kind)")
    ctx.cov["exhaustive"] = True
    ctx.cov["domain"] = {"R,C": "%d..%d" % (sizes[0], sizes[-1]), "factors": factors,
                         "plus_seeded_shapes": "10..40 with f in 1..64"}
    ctx.sample({k: recs[37][k] for k in ("id", "R", "C", "f", "shape", "wcsdev", "bnleft", "err")})
    ctx.sample(recs[-1])
    ctx.assumptions += ["pixel values < 2^24/1000 so float32 holds the integers exactly",
                        "rotation-free headers (CDELT or diagonal CD)"]
    for rec, fails in rejected:
        small = {k: v for k, v in rec.items() if k not in ("inp", "out1000")}
        ctx.violation(key_of(rec, fails), {"record": small, "fails": fails})


def replay(ctx, rec):
    r = rec["detail"]["record"]
    d = os.path.join(ctx.workdir, "files")
    os.makedirs(d, exist_ok=True)
    _init(d)
    if r["kind"] == "roundtrip":
        recs = [observe((r["R"], r["C"], r["f"], r["hdr"], r["input"], r["affine"], r["seed"]))]
    elif r["kind"] == "identity":
        recs = [x for x in observe_identity(d) if x["id"] == r["id"]]
    elif r["kind"] == "baneout":
        recs = [x for x in observe_bane(d, [(r["R"], r["C"], r["f"])]) if x["id"] == r["id"]]
    else:
        R, C = r["imshape"]
        recs = observe_aux(d, [(R, C, int(r["id"].split("f=")[1]))])
    for rr, fails in validate(ctx, recs, "replay"):
        ctx.violation(key_of(rr, fails), {"record": {k: v for k, v in rr.items() if k not in ("inp", "out1000")}, "fails": fails})
    ctx.count(evaluations=len(recs), nontrivial=2, traces=len(recs))
