"""
C19 - regrouping = eps-connected partition of the catalogue, independent of
row order; flux-ordered unique labels; nothing else changes; resize(1) is the
identity and larger ratios never shrink a source.

model  : spec/Regroup.tla (Groups = connected components of Close, labels,
         permutations) checked by TLC in spec/MC_Regroup.tla on every multiset
         of <= MaxN points of a 3x4 lattice x flux pattern x linking length
         class (theorems: partition, chain-connectedness, permutation
         invariance, labels valid/injective).  MC_Regroup also emits every
         case it enumerated.
binding: every emitted case is realised on the sky (tangent plane at several
         anchors: equator, RA wrap, dec -60 at the wrap, next to the pole;
         lattice spacing 20 arcsec), the linking length is converted by the
         real callers (AeReg / source_finder, intercepted), and the real
         cluster.regroup_dbscan is executed on fresh ComponentSource objects
         in many row orders.  Seeded random catalogues of 1..500 sources
         (lattice and free-form, all-sky, linking lengths 0.3'..10 deg),
         threshold probes, the AeReg command line, the priorized-fit entry of
         source_finder, the elliptical variant cluster.regroup and
         cluster.resize are driven the same way.  Everything observed is
         projected to integers and judged by TLC with spec/Regroup_Trace.tla.
"""
import itertools
import math
import os
import random
import re
import multiprocessing as mp
from concurrent.futures import ThreadPoolExecutor

import numpy as np

from harness import common

LEVEL = "model_checking"

U_ARCSEC = 20.0
LATW, LATH = 3, 4
ANCHORS = {"equator": (180.0, 0.0), "wrap0": (0.0, 0.0), "wrap-60": (359.999, -60.0),
           "pole": (10.0, 89.9), "pole-in-field": (10.0, 89.99), "south": (200.0, -89.95)}
MC_ANCHORS = ["equator", "wrap0", "wrap-60", "pole"]
Q = 10 ** 9
MARGIN = 1000            # 1e-6 relative, in units of 1e-9
_DIR = None
_FILES = {}


class _Stop(Exception):
    pass


def _init(d):
    global _DIR
    _DIR = os.path.join(d, "p%d" % os.getpid())
    os.makedirs(_DIR, exist_ok=True)
    _FILES.clear()
    _CONV.clear()
    common.quiet_logging()


# --------------------------------------------------------------------------
# geometry of the inputs (input construction only; no grouping logic here)
# --------------------------------------------------------------------------
def _basis(ra0, dec0):
    a, d = math.radians(ra0), math.radians(dec0)
    c = np.array([math.cos(d) * math.cos(a), math.cos(d) * math.sin(a), math.sin(d)])
    e = np.array([-math.sin(a), math.cos(a), 0.0])
    n = np.array([-math.sin(d) * math.cos(a), -math.sin(d) * math.sin(a), math.cos(d)])
    return c, e, n


def _vec2radec(v):
    ra = np.degrees(np.arctan2(v[:, 1], v[:, 0])) % 360.0
    ra[ra >= 360.0] = 0.0
    dec = np.degrees(np.arctan2(v[:, 2], np.hypot(v[:, 0], v[:, 1])))
    return ra, dec


def tangent_realise(anchor, off_arcsec):
    """points of the tangent plane at `anchor` (offsets east/north in arcsec)
    projected onto the sphere"""
    c, e, n = _basis(*anchor)
    off = np.radians(np.asarray(off_arcsec, dtype=float).reshape(-1, 2) / 3600.0)
    v = c[None, :] + off[:, :1] * e[None, :] + off[:, 1:] * n[None, :]
    v /= np.linalg.norm(v, axis=1)[:, None]
    return _vec2radec(v)


def sep_matrix(ra, dec):
    """true angular separations (radians), Vincenty formula"""
    a = np.radians(ra)
    d = np.radians(dec)
    dl = a[:, None] - a[None, :]
    s1, c1 = np.sin(d)[:, None], np.cos(d)[:, None]
    s2, c2 = np.sin(d)[None, :], np.cos(d)[None, :]
    num = np.hypot(c2 * np.sin(dl), c1 * s2 - s1 * c2 * np.cos(dl))
    den = s1 * s2 + c1 * c2 * np.cos(dl)
    return np.arctan2(num, den)


def adjacency(ra, dec, eps_rad):
    """adj lists (1-based j, separation/eps in 1e-9) of all pairs within 2 eps,
    the smallest ratio of the remaining pairs, and the smallest distance of
    any ratio from 1 (all in 1e-9)"""
    n = len(ra)
    q = sep_matrix(ra, dec) / eps_rad * Q
    np.fill_diagonal(q, np.inf)
    near = q <= 2.0 * Q
    adj = []
    for i in range(n):
        js = np.nonzero(near[i])[0]
        adj.append([[int(j) + 1, int(round(q[i, j]))] for j in js])
    far = q[~near & np.isfinite(q)]
    farmin = int(min(far.min(), common.INT_MAX)) if far.size else common.INT_MAX
    fin = q[np.isfinite(q)]
    margin = float(np.abs(fin - Q).min()) if fin.size else float(Q)
    return adj, farmin, margin


# --------------------------------------------------------------------------
# sources
# --------------------------------------------------------------------------
def make_source(ra, dec, fluxq, oid, salt=0):
    from AegeanTools.models import ComponentSource
    r = random.Random(oid * 7919 + salt)
    s = ComponentSource()
    s.ra, s.dec = float(ra), float(dec)
    s.peak_flux = fluxq * 0.001
    s.err_peak_flux = 0.0001 * r.randint(1, 9)
    s.int_flux = fluxq * 0.001 * (1 + r.random())
    s.err_int_flux = 0.0002
    s.a = 20.0 + 40 * r.random()
    s.b = s.a * (0.3 + 0.7 * r.random())
    s.pa = -90 + 180 * r.random()
    s.err_a, s.err_b, s.err_pa = 0.5, 0.25, 1.5
    s.err_ra, s.err_dec = 1e-5, 2e-5
    s.background, s.local_rms = 0.001 * r.random(), 0.0005
    s.psf_a, s.psf_b, s.psf_pa = 25.0 + r.random(), 18.0, 3.0
    s.residual_mean, s.residual_std = 1e-4, 2e-4
    s.flags = r.choice([0, 1, 4])
    s.ra_str, s.dec_str = "00:00:00.00", "+00:00:00.00"
    s.uuid = "u%06d-%d" % (oid, salt)
    s.island, s.source = r.choice([0, 7, 7, 12]), r.choice([0, 3])   # stale labels
    return s


def snapshot(s, skip):
    return {k: v for k, v in vars(s).items() if k not in skip}


def _same(x, y):
    try:
        if x is y:
            return True
        if isinstance(x, (float, np.floating)) and isinstance(y, (float, np.floating)):
            return (x == y) or (x != x and y != y)
        r = (x == y)
        return bool(np.all(r))
    except Exception:
        return False


def changed_names(before, s, skip):
    now = snapshot(s, skip)
    names = set(before) ^ set(now)
    for k in set(before) & set(now):
        if not _same(before[k], now[k]):
            names.add(k)
    return sorted(names)


LABELS = ("island", "source")


# --------------------------------------------------------------------------
# the callers' conversion of the linking length (arcmin -> what they hand to
# regroup_dbscan), obtained from the real callers by interception
# --------------------------------------------------------------------------
_CONV = {}


def _tiny_catalogue():
    if "cat" not in _FILES:
        from AegeanTools.catalogs import save_catalog
        p = os.path.join(_DIR, "tiny.csv")
        save_catalog(p, [make_source(12.0, 3.0, 5, 1)])
        _FILES["cat"] = os.path.join(_DIR, "tiny_comp.csv")
    return _FILES["cat"]


def _tiny_image():
    if "img" not in _FILES:
        from astropy.io import fits
        h = fits.PrimaryHDU(np.zeros((16, 16), dtype=np.float32))
        hd = h.header
        hd['CTYPE1'], hd['CTYPE2'] = 'RA---SIN', 'DEC--SIN'
        hd['CRVAL1'], hd['CRVAL2'] = 12.0, 3.0
        hd['CRPIX1'], hd['CRPIX2'] = 8, 8
        hd['CDELT1'], hd['CDELT2'] = -10 / 3600, 10 / 3600
        hd['BMAJ'], hd['BMIN'], hd['BPA'] = 30 / 3600, 30 / 3600, 0.0
        hd['BUNIT'] = 'Jy/beam'
        p = os.path.join(_DIR, "tiny.fits")
        h.writeto(p, overwrite=True)
        _FILES["img"] = p
    return _FILES["img"]


def sf_call(catalogue, eps_arcmin, handler):
    """run source_finder's priorized-fit entry up to its regroup_dbscan call,
    which is handed to `handler(srccat, eps)`"""
    from AegeanTools import cluster
    from AegeanTools.source_finder import SourceFinder
    orig = cluster.regroup_dbscan

    def hook(srccat, eps=4):
        handler(orig, srccat, eps)
        raise _Stop()
    cluster.regroup_dbscan = hook
    try:
        SourceFinder().priorized_fit_islands(
            _tiny_image(), catalogue=catalogue, rms=1.0, bkg=0.0, cores=1, ratio=1.0,
            doregroup=True, regroup_eps=eps_arcmin, progress=False)
    except _Stop:
        return True
    finally:
        cluster.regroup_dbscan = orig
    return False


def caller_eps(eps_arcmin, which="cli"):
    key = (which, eps_arcmin)
    if key in _CONV:
        return _CONV[key]
    got = {}
    if which == "cli":
        from AegeanTools.CLI import AeReg

        def hook(srccat, eps=4):
            got["eps"] = eps
            raise _Stop()
        orig = AeReg.regroup_dbscan
        AeReg.regroup_dbscan = hook
        try:
            AeReg.main(['--input', _tiny_catalogue(), '--table', os.path.join(_DIR, "tiny_out.csv"),
                        '--eps', repr(float(eps_arcmin))])
        except _Stop:
            pass
        finally:
            AeReg.regroup_dbscan = orig
    else:
        sf_call([make_source(12.0, 3.0, 5, 1)], eps_arcmin,
                lambda orig, srccat, eps: got.__setitem__("eps", eps))
    if "eps" not in got:
        raise RuntimeError("caller %s never reached regroup_dbscan" % which)
    _CONV[key] = float(got["eps"])
    return _CONV[key]


# --------------------------------------------------------------------------
# executions
# --------------------------------------------------------------------------
def _project_run(perm, srcs, groups, before, skip=LABELS):
    idx = {id(s): k + 1 for k, s in enumerate(srcs)}
    run = {"perm": [p + 1 for p in perm], "err": "",
           "groups": [[idx.get(id(s), 0) for s in g] for g in groups],
           "isl": [], "src": [], "changed": []}
    for s in srcs:
        run["isl"].append(int(s.island))
        run["src"].append(int(s.source))
        if int(s.island) != s.island or int(s.source) != s.source:
            run["err"] = "non-integral label"
    ch = set()
    for b, s in zip(before, srcs):
        ch.update(changed_names(b, s, skip))
    run["changed"] = sorted(ch)
    return run


def _err_run(perm, e):
    return {"perm": [p + 1 for p in perm], "err": "%s: %s" % (type(e).__name__, e),
            "groups": [], "isl": [], "src": [], "changed": []}


def run_direct(ra, dec, flux, perm, eps_arcmin, container, which="cli"):
    from AegeanTools import cluster
    try:
        eps = caller_eps(eps_arcmin, which)
        srcs = [make_source(ra[p], dec[p], flux[p], p) for p in perm]
        before = [snapshot(s, LABELS) for s in srcs]
        inp = np.array(srcs) if container == "array" else list(srcs)
        groups = cluster.regroup_dbscan(inp, eps=eps)
        return _project_run(perm, srcs, groups, before)
    except Exception as e:
        return _err_run(perm, e)


def run_sf(ra, dec, flux, perm, eps_arcmin):
    """through source_finder.priorized_fit_islands (resize ratio=1, callers' eps
    conversion), regroup_dbscan executed on what the finder hands over"""
    try:
        srcs = [make_source(ra[p], dec[p], flux[p], p) for p in perm]
        before = [snapshot(s, LABELS) for s in srcs]
        out = {}

        def handler(orig, srccat, eps):
            out["groups"] = orig(srccat, eps=eps)
        if not sf_call(list(srcs), eps_arcmin, handler) or "groups" not in out:
            raise RuntimeError("priorized_fit_islands never regrouped")
        return _project_run(perm, srcs, out["groups"], before)
    except Exception as e:
        return _err_run(perm, e)


CLI_COMPARE = ['ra', 'dec', 'peak_flux', 'err_peak_flux', 'int_flux', 'err_int_flux', 'a', 'b',
               'pa', 'err_a', 'err_b', 'err_pa', 'err_ra', 'err_dec', 'background', 'local_rms',
               'psf_a', 'psf_b', 'psf_pa', 'flags']


def run_cli(ra, dec, flux, perm, eps_arcmin, fmt, tag, ratio1):
    """AeReg command line: catalogue file in, regrouped table out"""
    from AegeanTools.CLI import AeReg
    from AegeanTools.catalogs import save_catalog, load_table, table_to_source_list
    base = os.path.join(_DIR, "cli_%s" % tag)
    fin, fout = base + "_comp." + fmt, base + "_out_comp." + fmt
    try:
        srcs = [make_source(ra[p], dec[p], flux[p], p) for p in perm]
        save_catalog(base + "." + fmt, srcs)
        args = ['--input', fin, '--table', base + "_out." + fmt, '--eps', repr(float(eps_arcmin))]
        if ratio1:
            args += ['--ratio', '1']
        rc = AeReg.main(args)
        if rc != 0:
            raise RuntimeError("AeReg returned %r" % rc)
        out = table_to_source_list(load_table(fout))
        row = {s.uuid: k + 1 for k, s in enumerate(srcs)}
        run = {"perm": [p + 1 for p in perm], "err": "", "groups": [], "isl": [0] * len(srcs),
               "src": [0] * len(srcs), "changed": []}
        buckets, ch = {}, set()
        for o in out:
            k = row.get(str(o.uuid), 0)
            buckets.setdefault(int(o.island), []).append(k)
            if k:
                run["isl"][k - 1], run["src"][k - 1] = int(o.island), int(o.source)
                for name in CLI_COMPARE:
                    if not _same(float(getattr(o, name)), float(getattr(srcs[k - 1], name))):
                        ch.add(name)
        run["groups"] = [buckets[k] for k in sorted(buckets)]
        run["changed"] = sorted(ch)
        return run
    except Exception as e:
        return _err_run(perm, e)
    finally:
        for p in (fin, fout):
            if os.path.exists(p):
                os.remove(p)


# --------------------------------------------------------------------------
# catalogue generators (seeded)
# --------------------------------------------------------------------------
def _perms(n, limit, rng):
    if math.factorial(min(n, 8)) <= limit and n <= 8:
        return [list(p) for p in itertools.permutations(range(n))]
    out = [list(range(n)), list(range(n))[::-1]]
    while len(out) < limit:
        p = list(range(n))
        rng.shuffle(p)
        out.append(p)
    return out[:max(1, limit)]


def _flux_vector(n, rng):
    mode = rng.choice(["distinct", "ties", "flat", "signed"])
    if mode == "distinct":
        f = list(range(1, n + 1))
        rng.shuffle(f)
        return [v * 3 for v in f]
    if mode == "ties":
        return [rng.randint(1, max(2, n // 3)) for _ in range(n)]
    if mode == "flat":
        return [42] * n
    return [rng.randint(-50, 50) for _ in range(n)]


def gen_lattice(job):
    """random points of a G x G lattice (spacing 20 arcsec), clustered or
    sparse, with duplicated positions"""
    rng = random.Random(job["seed"])
    n, G = job["n"], job["G"]
    xy = []
    if job["style"] == "clustered":
        centres = [(rng.randrange(G), rng.randrange(G)) for _ in range(max(1, n // 12))]
        while len(xy) < n:
            cx, cy = rng.choice(centres)
            x, y = cx + rng.randint(-3, 3), cy + rng.randint(-3, 3)
            if 0 <= x < G and 0 <= y < G:
                xy.append([x, y])
    else:
        xy = [[rng.randrange(G), rng.randrange(G)] for _ in range(n)]
    for _ in range(n // 10):
        xy[rng.randrange(n)] = list(xy[rng.randrange(n)])      # duplicates
    return xy, _flux_vector(n, rng), rng


def _unit(ra, dec):
    a, d = math.radians(ra), math.radians(dec)
    return np.array([math.cos(d) * math.cos(a), math.cos(d) * math.sin(a), math.sin(d)])


def _step(v, theta, rng_or_dir):
    """the point at angular distance theta (rad) from unit vector v in a
    direction perpendicular to v"""
    if isinstance(rng_or_dir, np.ndarray):
        t = rng_or_dir
    else:
        t = np.array([rng_or_dir.gauss(0, 1) for _ in range(3)])
    t = t - v * np.dot(t, v)
    t /= np.linalg.norm(t)
    return v * math.cos(theta) + t * math.sin(theta), t


SPECIAL = [(0.0, 0.0), (359.9999, 10.0), (0.00005, -45.0), (123.0, 89.999), (77.0, -89.9995),
           (180.0, 0.0), (359.99, -60.0), (10.0, 89.9), (45.0, 90.0), (300.0, -90.0)]


def gen_sky(job):
    """free-form catalogue: clusters whose scatter is a few linking lengths,
    anywhere on the sphere, preferably at awkward places"""
    rng = random.Random(job["seed"])
    n, eps = job["n"], math.radians(job["eps_arcmin"] / 60.0)
    ncl = max(1, int(n / rng.choice([2, 5, 15, 60])))
    centres = []
    for _ in range(ncl):
        if rng.random() < 0.6:
            centres.append(_unit(*rng.choice(SPECIAL)))
        else:
            centres.append(_unit(rng.uniform(0, 360), math.degrees(math.asin(rng.uniform(-1, 1)))))
    spread = rng.choice([0.7, 1.5, 4.0])
    vs = []
    for _ in range(n):
        c = rng.choice(centres)
        u = rng.random()
        if u < 0.08 and vs:
            vs.append(vs[rng.randrange(len(vs))].copy())          # exact duplicate
        elif u < 0.12:
            vs.append(c.copy())
        else:
            v, _t = _step(c, eps * spread * math.sqrt(rng.random()) * rng.choice([1, 1, 3]), rng)
            vs.append(v)
    ra, dec = _vec2radec(np.array(vs))
    for k in range(n):                       # the pole has many names
        if abs(dec[k]) > 89.9999999:
            dec[k] = 90.0 if dec[k] > 0 else -90.0
            ra[k] = rng.uniform(0, 360)
    return ra, dec, _flux_vector(n, rng), rng


def gen_probe(job):
    """a chain of m sources whose consecutive separations are eps*(1+delta)"""
    rng = random.Random(job["seed"])
    eps = math.radians(job["eps_arcmin"] / 60.0)
    v = _unit(*ANCHORS[job["anchor"]])
    vs = [v]
    t = None
    for _ in range(job["m"] - 1):
        v, t = _step(v, eps * (1.0 + job["delta_ppm"] * 1e-6), rng if t is None else t)
        t = t - v * np.dot(t, v)
        vs.append(v)
    ra, dec = _vec2radec(np.array(vs))
    return ra, dec, _flux_vector(job["m"], rng), rng


# --------------------------------------------------------------------------
# observation of one job (runs in a worker process)
# --------------------------------------------------------------------------
def observe(job):
    t = job["t"]
    try:
        if t in ("mc", "lattice", "sky", "probe"):
            return observe_dbscan(job)
        if t == "ellip":
            return observe_ellip(job)
        if t == "resize":
            return observe_resize(job)
    except Exception as e:      # harness trouble, not a verdict
        return {"id": job["id"], "kind": "harness_error", "err": "%s: %s" % (type(e).__name__, e)}
    return {"id": job["id"], "kind": "harness_error", "err": "unknown job type"}


def observe_dbscan(job):
    t = job["t"]
    rec = {"id": job["id"], "kind": "dbscan", "lat": t in ("mc", "lattice"), "origin": job.get("via", "direct")}
    tries = 0
    while True:
        if t == "mc":
            xy = [[p % LATW, p // LATW] for p in job["pts"]]
            flux = list(job["flux"])
            off = [((x - (LATW - 1) / 2.0) * U_ARCSEC, (y - (LATH - 1) / 2.0) * U_ARCSEC) for x, y in xy]
            ra, dec = tangent_realise(ANCHORS[job["anchor"]], off)
            perms = job["perms"]
        elif t == "lattice":
            xy, flux, rng = gen_lattice(dict(job, seed=job["seed"] + 7919 * tries))
            G = job["G"]
            off = [((x - (G - 1) / 2.0) * U_ARCSEC, (y - (G - 1) / 2.0) * U_ARCSEC) for x, y in xy]
            ra, dec = tangent_realise(ANCHORS[job["anchor"]], off)
            perms = _perms(len(xy), job["nperm"], rng)
        elif t == "sky":
            ra, dec, flux, rng = gen_sky(dict(job, seed=job["seed"] + 7919 * tries))
            perms = _perms(len(ra), job["nperm"], rng)
        else:
            ra, dec, flux, rng = gen_probe(dict(job, seed=job["seed"] + 7919 * tries))
            perms = _perms(len(ra), job["nperm"], rng)
        if rec["lat"]:
            rec["xy"], rec["E"] = xy, job["E"]
            eps_arcmin = U_ARCSEC * math.sqrt(job["E"] / 2.0) / 60.0
        else:
            eps_arcmin = job["eps_arcmin"]
        adj, farmin, margin = adjacency(ra, dec, math.radians(eps_arcmin / 60.0))
        if margin >= 2 * MARGIN or t == "mc" or tries >= 50:
            break
        tries += 1                 # a pair too close to the threshold: regenerate
    n = len(ra)
    rec.update(n=n, flux=[int(f) for f in flux], adj=adj, farmin=farmin,
               eps_mas=common.fx(eps_arcmin * 60.0, 1e3), tries=tries)
    runs = []
    via = job.get("via", "direct")
    for k, perm in enumerate(perms):
        if via == "cli":
            runs.append(run_cli(ra, dec, flux, perm, eps_arcmin, job.get("fmt", "csv"),
                                "%s_%d" % (re.sub(r"[^A-Za-z0-9]", "_", job["id"]), k), ratio1=(k % 2 == 1)))
        elif via == "sf":
            runs.append(run_sf(ra, dec, flux, perm, eps_arcmin))
        else:
            runs.append(run_direct(ra, dec, flux, perm, eps_arcmin,
                                   "array" if (k + n) % 2 else "list",
                                   "sf" if via == "direct-sfconv" else "cli"))
    rec["runs"] = runs
    return rec


def observe_ellip(job):
    """cluster.regroup (elliptical normalised distance) on a small field with
    pairwise distinct declinations"""
    from AegeanTools import cluster
    rec = {"id": job["id"], "kind": "ellip"}
    n, eps = job["n"], job["eps"]
    tries = 0
    while True:
        rng = random.Random(job["seed"] + 7919 * tries)
        ra0, dec0 = ANCHORS[job["anchor"]]
        field = job["field_arcsec"]
        decq = rng.sample(range(-int(field), int(field) + 1), n)      # distinct, units of 0.5 arcsec
        off = [(rng.uniform(-field, field) / 2.0, q * 0.5) for q in decq]
        ra, dec = tangent_realise((ra0, dec0), off)
        # distinct declinations after projection as well
        shapes = []
        for k in range(n):
            a = rng.uniform(5, 60)
            shapes.append((a, a * rng.uniform(0.3, 1.0), rng.uniform(-90, 90)))
        flux = _flux_vector(n, rng)
        arr = np.rec.fromrecords([(ra[k], dec[k], shapes[k][0], shapes[k][1], shapes[k][2], flux[k] * 0.001)
                                  for k in range(n)], names=['ra', 'dec', 'a', 'b', 'pa', 'peak_flux'])
        lt = [[] for _ in range(n)]
        margin = float(Q)
        for i in range(n):
            for j in range(n):
                if i == j:
                    continue
                nd = float(cluster.norm_dist(arr[i], arr[j]))
                margin = min(margin, abs(nd / eps - 1.0) * Q)
                if nd < eps:
                    if j + 1 not in lt[i]:
                        lt[i].append(j + 1)
                    if i + 1 not in lt[j]:
                        lt[j].append(i + 1)
        order = np.argsort(dec)
        distinct = len(set(dec.tolist())) == n
        if (margin >= 2 * MARGIN and distinct) or tries >= 50:
            break
        tries += 1
    rank = np.empty(n, dtype=int)
    rank[order] = np.arange(n)
    rec.update(n=n, lt=[sorted(x) for x in lt], ndmargin=int(min(margin, common.INT_MAX)),
               decq=[int(r) for r in rank] if distinct else [0] * n, flux=[int(f) for f in flux],
               epsq=common.fx(eps, 1e6))
    runs = []
    for perm in _perms(n, job["nperm"], rng):
        try:
            srcs = []
            for p in perm:
                s = make_source(ra[p], dec[p], flux[p], p)
                s.a, s.b, s.pa = shapes[p]
                srcs.append(s)
            before = [snapshot(s, LABELS) for s in srcs]
            groups = cluster.regroup(srcs, eps=eps)
            runs.append(_project_run(perm, srcs, groups, before))
        except Exception as e:
            runs.append(_err_run(perm, e))
    rec["runs"] = runs
    return rec


def observe_resize(job):
    from AegeanTools import cluster
    rng = random.Random(job["seed"])
    n, ratio = job["n"], job["ratioq"] / 1e6
    rec = {"id": job["id"], "kind": "resize", "n": n, "ratioq": job["ratioq"], "err": "",
           "kept": [], "da": [], "db": [], "finite": True, "changed": []}
    try:
        srcs = []
        for k in range(n):
            s = make_source(rng.uniform(0, 360), rng.uniform(-90, 90), rng.randint(1, 99), k)
            s.a = rng.choice([rng.uniform(1, 300), 1e-3, 45.0, 3600.0])
            s.b = s.a * rng.choice([1.0, rng.uniform(0.05, 1.0)])
            s.psf_a = rng.choice([rng.uniform(1, 200), 0.0, s.a, 1e4])
            s.psf_b = rng.choice([rng.uniform(1, 200), 0.0, s.b])
            srcs.append(s)
        a0 = [(s.a, s.b) for s in srcs]
        skip = ("a", "b")
        before = [snapshot(s, skip) for s in srcs]
        inp = np.array(srcs) if job["container"] == "array" else list(srcs)
        out = cluster.resize(inp, ratio=ratio)
        idx = {id(s): k + 1 for k, s in enumerate(srcs)}
        rec["kept"] = [idx.get(id(s), 0) for s in out]
        ch = set()
        for (a, b), s, bf in zip(a0, srcs, before):
            fin = bool(np.isfinite(s.a) and np.isfinite(s.b))
            rec["finite"] = rec["finite"] and fin
            rec["da"].append(common.fx((s.a - a) / a, 1e9) if fin else 0)
            rec["db"].append(common.fx((s.b - b) / b, 1e9) if fin else 0)
            ch.update(changed_names(bf, s, skip))
        rec["changed"] = sorted(ch)
    except Exception as e:
        rec["err"] = "%s: %s" % (type(e).__name__, e)
    return rec


# --------------------------------------------------------------------------
# validation by TLC
# --------------------------------------------------------------------------
def validate(ctx, recs, name):
    tf = os.path.join(ctx.workdir, name + ".json")
    byid = {r["id"]: r for r in recs}
    if len(byid) != len(recs):
        raise common.MachineryError("duplicate record ids in batch " + name)
    bad = [r for r in recs if r["kind"] == "harness_error"]
    if bad:
        raise common.MachineryError("harness error while driving %s: %s" % (bad[0]["id"], bad[0]["err"]))
    common.dump_json(tf, recs)
    res = ctx.tlc("Regroup_Trace", common.cfg(spec="Spec", post="BatchDone", deadlock=False),
                  name=name, workers=1, heap="3g", env={"TRACE_FILE": tf})
    summary = [p for p in res.printed if "accepted" in p]
    rej = [p for p in res.printed if "fails" in p]
    if not summary or summary[0]["total"] != len(recs) or summary[0]["accepted"] + len(rej) != len(recs):
        raise common.MachineryError("trace batch %s not fully consumed" % name)
    os.remove(tf)
    return [(byid[p["id"]], p["fails"]) for p in rej]


def _good_dbscan():
    """hand-made accepted record: (0,0) (1,0) | (2,2), E = 3"""
    return {"id": "st-good", "kind": "dbscan", "lat": True, "n": 3, "xy": [[0, 0], [1, 0], [2, 2]], "E": 3,
            "flux": [5, 9, 1], "adj": [[[2, 816496581]], [[1, 816496581]], []], "farmin": 1825741858,
            "runs": [{"perm": [1, 2, 3], "err": "", "groups": [[1, 2], [3]], "isl": [0, 0, 1],
                      "src": [1, 0, 0], "changed": []},
                     {"perm": [3, 1, 2], "err": "", "groups": [[1], [2, 3]], "isl": [4, 2, 2],
                      "src": [0, 1, 0], "changed": []}]}


def selftest(ctx):
    import copy
    good = _good_dbscan()

    def mut(i, f):
        r = copy.deepcopy(good)
        r["id"] = i
        f(r)
        return r
    recs = [good,
            mut("st-merge", lambda r: r["runs"][0].update(groups=[[1, 2, 3]], isl=[0, 0, 0], src=[1, 0, 2])),
            mut("st-split", lambda r: r["runs"][0].update(groups=[[1], [2], [3]], isl=[0, 1, 2], src=[0, 0, 0])),
            mut("st-perm", lambda r: r["runs"][1].update(groups=[[1, 2], [3]], isl=[1, 1, 2], src=[0, 1, 0])),
            mut("st-flux", lambda r: r["runs"][0].update(src=[0, 1, 0])),
            mut("st-zero", lambda r: r["runs"][0].update(src=[2, 1, 0])),
            mut("st-uniq", lambda r: r["runs"][0].update(isl=[0, 0, 0])),
            mut("st-isl", lambda r: r["runs"][0].update(isl=[0, 5, 1])),
            mut("st-attr", lambda r: r["runs"][1].update(changed=["ra"])),
            mut("st-drop", lambda r: r["runs"][0].update(groups=[[1, 2]])),
            mut("st-twice", lambda r: r["runs"][0].update(groups=[[1, 2], [3, 1]])),
            mut("st-err", lambda r: r["runs"][0].update(err="boom")),
            mut("st-unfaithful", lambda r: r.update(E=11)),
            mut("st-margin", lambda r: r.update(adj=[[[2, Q - 10]], [[1, Q - 10]], []])),
            mut("st-sky", lambda r: r.update(lat=False)),
            mut("st-sky-bad", lambda r: (r.update(lat=False), r["runs"][0].update(groups=[[1], [2], [3]], isl=[0, 1, 2], src=[0, 0, 0]))),
            {"id": "st-ell-good", "kind": "ellip", "n": 3, "lt": [[2], [1], []], "ndmargin": 5000, "decq": [0, 1, 2],
             "flux": [5, 9, 1], "runs": [{"perm": [1, 2, 3], "err": "", "groups": [[1], [2], [3]], "isl": [0, 1, 2],
                                          "src": [0, 0, 0], "changed": []}]},
            {"id": "st-ell-bad", "kind": "ellip", "n": 3, "lt": [[2], [1], []], "ndmargin": 5000, "decq": [0, 1, 2],
             "flux": [5, 9, 1], "runs": [{"perm": [1, 2, 3], "err": "", "groups": [[1, 3], [2]], "isl": [0, 1, 0],
                                          "src": [0, 0, 1], "changed": []}]},
            {"id": "st-ell-perm", "kind": "ellip", "n": 3, "lt": [[2], [1], []], "ndmargin": 5000, "decq": [0, 1, 2],
             "flux": [5, 9, 1], "runs": [{"perm": [1, 2, 3], "err": "", "groups": [[1], [2], [3]], "isl": [0, 1, 2],
                                          "src": [0, 0, 0], "changed": []},
                                         {"perm": [1, 2, 3], "err": "", "groups": [[1, 2], [3]], "isl": [0, 0, 2],
                                          "src": [1, 0, 0], "changed": []}]},
            {"id": "st-rs-good", "kind": "resize", "n": 2, "ratioq": 1000000, "err": "", "kept": [1, 2],
             "da": [0, 0], "db": [0, 0], "finite": True, "changed": []},
            {"id": "st-rs-ident", "kind": "resize", "n": 2, "ratioq": 1000000, "err": "", "kept": [1, 2],
             "da": [0, 7], "db": [0, 0], "finite": True, "changed": []},
            {"id": "st-rs-shrink", "kind": "resize", "n": 2, "ratioq": 2000000, "err": "", "kept": [1, 2],
             "da": [10, 10], "db": [-5, 10], "finite": True, "changed": []},
            {"id": "st-rs-lost", "kind": "resize", "n": 2, "ratioq": 2000000, "err": "", "kept": [2],
             "da": [10, 10], "db": [5, 10], "finite": True, "changed": []}]
    got = {r["id"]: f for r, f in validate(ctx, recs, "selftest")}
    want = {"st-merge": "groups_are_eps_components", "st-split": "groups_are_eps_components",
            "st-perm": "permutation_invariant", "st-flux": "flux_ordered", "st-zero": "numbered_from_zero",
            "st-uniq": "labels_unique", "st-isl": "island_per_group", "st-attr": "other_attributes_unchanged",
            "st-drop": "every_source_in_exactly_one_group", "st-twice": "every_source_in_exactly_one_group",
            "st-err": "completed", "st-unfaithful": "input_lattice_realised_faithfully",
            "st-margin": "input_margin", "st-sky-bad": "groups_are_eps_components",
            "st-ell-bad": "groups_chain_connected", "st-ell-perm": "permutation_invariant",
            "st-rs-ident": "ratio1_is_identity", "st-rs-shrink": "larger_ratio_never_shrinks",
            "st-rs-lost": "larger_ratio_never_shrinks"}
    if set(got) != set(want) or any(want[k] not in got[k] for k in want):
        raise common.MachineryError("Regroup_Trace self-test failed: got %r" % got)
    # a record observed on the real code, then corrupted
    _init(ctx.workdir)
    job = {"t": "mc", "id": "st-real", "pts": [0, 1, 8], "flux": [5, 9, 1], "E": 3, "anchor": "pole",
           "perms": [[0, 1, 2], [2, 0, 1]]}
    real = observe(job)
    if real["kind"] == "dbscan" and all(r["err"] == "" and len(r["groups"]) == 2 for r in real["runs"]):
        bad = copy.deepcopy(real)
        bad["id"] = "st-real-bad"
        g = bad["runs"][1]["groups"]
        bad["runs"][1]["groups"] = [g[0] + g[1]]
        got = {r["id"]: f for r, f in validate(ctx, [real, bad], "selftest2")}
        if "st-real-bad" not in got or "groups_are_eps_components" not in got["st-real-bad"]:
            raise common.MachineryError("self-test: corrupted real record accepted: %r" % got)


# --------------------------------------------------------------------------
# job lists
# --------------------------------------------------------------------------
def mc_jobs(cases, quick, rng):
    """cases emitted by TLC -> replay jobs"""
    jobs = []
    cases = sorted(cases, key=lambda c: (c["n"], c["pts"], c["E"], c["flux"]))
    for k, c in enumerate(cases):
        n = c["n"]
        if quick:
            limit = 6 if n <= 3 else 4
            anchors = [MC_ANCHORS[k % 4]]
        else:
            limit = 6 if n <= 3 else (8 if n == 4 else 6)
            anchors = [MC_ANCHORS[k % 4]] if n >= 4 else MC_ANCHORS
        for a in anchors:
            perms = _perms(n, limit, rng)
            via = "direct"
            if k % 997 == 5:
                via, perms = "cli", perms[:2]
            elif k % 997 == 11:
                via, perms = "sf", perms[:2]
            elif k % 5 == 2:
                via = "direct-sfconv"
            jobs.append({"t": "mc", "id": "mc/%s/E%d/f%s/%s" % ("-".join(map(str, c["pts"])), c["E"],
                                                                 ".".join(map(str, c["flux"])), a),
                         "pts": c["pts"], "flux": c["flux"], "E": c["E"], "anchor": a, "perms": perms,
                         "via": via})
    return jobs


def full_perm_jobs(cases, count, rng):
    """all n! row orders for a seeded sample of the largest cases"""
    big = [c for c in cases if c["n"] == max(x["n"] for x in cases)]
    rng.shuffle(big)
    jobs = []
    for k, c in enumerate(big[:count]):
        a = MC_ANCHORS[k % 4]
        jobs.append({"t": "mc", "id": "mcfull/%s/E%d/f%s/%s" % ("-".join(map(str, c["pts"])), c["E"],
                                                                 ".".join(map(str, c["flux"])), a),
                     "pts": c["pts"], "flux": c["flux"], "E": c["E"], "anchor": a,
                     "perms": [list(p) for p in itertools.permutations(range(c["n"]))], "via": "direct"})
    return jobs


SIZES = [1, 2, 3, 4, 6, 9, 14, 22, 35, 60, 100, 170, 300, 500]
ODD_E = [1, 3, 5, 9, 11, 17, 19, 21, 27, 33, 51]
EPS_ARCMIN = [0.3, 1.0, 4.0, 9.0, 30.0, 120.0, 600.0]


def random_jobs(quick, rng):
    jobs = []
    nl, ns, ne, nr = (60, 60, 40, 40) if quick else (700, 700, 400, 300)
    anchors = sorted(ANCHORS)
    for k in range(nl):
        n = SIZES[k % len(SIZES)] if k % 3 else rng.randint(1, 500)
        style = "clustered" if k % 2 else "sparse"
        G = rng.choice([8, 20, 45, 90]) if style == "sparse" else rng.choice([20, 45, 90])
        via = "direct"
        if k % 10 == 3:
            via = "cli"
        elif k % 10 == 7:
            via = "sf"
        jobs.append({"t": "lattice", "id": "lattice/%d" % k, "seed": rng.randint(0, 10 ** 9), "n": n, "G": G,
                     "style": style, "E": rng.choice(ODD_E), "anchor": anchors[k % len(anchors)],
                     "nperm": 3, "via": via, "fmt": "vot" if k % 20 == 3 else "csv"})
    for k in range(ns):
        n = SIZES[(k * 5) % len(SIZES)] if k % 3 else rng.randint(1, 500)
        via = "direct"
        if k % 10 == 4:
            via = "cli"
        elif k % 10 == 8:
            via = "sf"
        jobs.append({"t": "sky", "id": "sky/%d" % k, "seed": rng.randint(0, 10 ** 9), "n": n,
                     "eps_arcmin": EPS_ARCMIN[k % len(EPS_ARCMIN)], "nperm": 3, "via": via})
    k = 0
    for eps in EPS_ARCMIN:
        for delta in (-100, -3, 3, 100):
            for a in (MC_ANCHORS if quick else anchors):
                for m in ((2,) if quick else (2, 3)):
                    k += 1
                    jobs.append({"t": "probe", "id": "probe/%g/%d/%s/%d" % (eps, delta, a, m),
                                 "seed": rng.randint(0, 10 ** 9), "eps_arcmin": eps, "delta_ppm": delta,
                                 "anchor": a, "m": m, "nperm": 2,
                                 "via": ("direct", "direct-sfconv", "cli", "sf")[k % 4]})
    esz = [1, 2, 3, 5, 8, 12, 20, 30] if quick else [1, 2, 3, 5, 8, 12, 20, 30, 45, 70, 100]
    for k in range(ne):
        n = esz[k % len(esz)]
        jobs.append({"t": "ellip", "id": "ellip/%d" % k, "seed": rng.randint(0, 10 ** 9), "n": n,
                     "eps": rng.choice([0.4, 0.8, 1.3, 2.5]), "anchor": anchors[k % len(anchors)],
                     "field_arcsec": rng.choice([60, 200, 600]) + 2 * n, "nperm": 3})
    ratios = [1000000, 1000000, 1000001, 1250000, 2000000, 10000000, 1000000000]
    for k in range(nr):
        jobs.append({"t": "resize", "id": "resize/%d" % k, "seed": rng.randint(0, 10 ** 9),
                     "n": rng.choice([1, 2, 5, 17, 60]), "ratioq": ratios[k % len(ratios)],
                     "container": "array" if k % 2 else "list"})
    return jobs


def eps_class(rec, job):
    if job["t"] in ("mc", "lattice"):
        arcmin = U_ARCSEC * math.sqrt(job["E"] / 2.0) / 60.0
    elif job["t"] in ("sky", "probe"):
        arcmin = job["eps_arcmin"]
    else:
        return ""
    return " eps<10'" if arcmin < 10 else " eps>=10'"


def key_of(rec, job, fails):
    return "%s/%s via=%s%s fails=%s" % (rec["kind"], job["t"], job.get("via", "direct"),
                                        eps_class(rec, job), ",".join(fails))


def drive_and_validate(ctx, jobs, batch):
    """drive the real code in 16 processes, validate batches with parallel TLC
    runs; returns (records summary, rejected)"""
    byid = {j["id"]: j for j in jobs}
    if len(byid) != len(jobs):
        raise common.MachineryError("duplicate job ids")
    stats = {"records": 0, "runs": 0, "distinct": set(), "samples": [], "multi": 0, "regen": 0}
    rejected = []
    futures = []
    nb = [0]

    def account(rec):
        stats["records"] += 1
        if rec["kind"] in ("dbscan", "ellip"):
            stats["runs"] += len(rec["runs"])
            ok = [r for r in rec["runs"] if not r["err"]]
            if ok and 1 < len(ok[0]["groups"]) < rec["n"]:
                stats["multi"] += 1
            stats["regen"] += rec.get("tries", 0)
        else:
            stats["runs"] += 1
        j = byid[rec["id"]]
        stats["distinct"].add((j["t"], j.get("via"), rec.get("n"), j.get("E", j.get("eps_arcmin", j.get("eps"))),
                               j.get("anchor"), tuple(j.get("pts", ())), tuple(j.get("flux", ())),
                               j.get("seed"), j.get("ratioq")))
        if len(stats["samples"]) < 3 and rec["kind"] == "dbscan" and 2 <= rec["n"] <= 4 and stats["records"] % 97 == 0:
            stats["samples"].append({k: rec[k] for k in ("id", "n", "xy", "E", "flux", "adj") if k in rec}
                                    | {"run1": rec["runs"][0]})

    with ThreadPoolExecutor(max_workers=8) as tp, \
            mp.Pool(16, initializer=_init, initargs=(ctx.workdir,)) as pool:
        buf, weight = [], 0
        order = sorted(jobs, key=lambda j: -j.get("n", 1))          # big ones first
        for rec in pool.imap_unordered(observe, order, chunksize=4):
            if rec["kind"] == "harness_error":
                raise common.MachineryError("harness error while driving %s: %s" % (rec["id"], rec["err"]))
            account(rec)
            buf.append(rec)
            weight += 1 + (rec.get("n", 1) ** 2) // 300
            if weight >= batch:
                nb[0] += 1
                futures.append(tp.submit(validate, ctx, buf, "trace_%d" % nb[0]))
                buf, weight = [], 0
        if buf:
            nb[0] += 1
            futures.append(tp.submit(validate, ctx, buf, "trace_%d" % nb[0]))
        for f in futures:
            rejected += f.result()
    return stats, [(rec, byid[rec["id"]], fails) for rec, fails in rejected]


def report(ctx, rejected):
    for rec, job, fails in rejected:
        if any(f.startswith("input_") for f in fails):
            raise common.MachineryError("harness produced an ill-formed input %s: %s" % (rec["id"], fails))
        errs = sorted({r["err"] for r in rec.get("runs", []) if r.get("err")} | ({rec["err"]} if rec.get("err") else set()))
        ctx.violation(key_of(rec, job, fails), {"job": job, "fails": fails, "errors": errs[:3]})


def run(ctx):
    quick = ctx.tier == "quick"
    rng = random.Random(ctx.seed)
    consts = {"W": LATW, "H": LATH, "MaxN": 4 if quick else 5, "DupMaxN": 4,
              "Es": {1, 3, 5, 9, 11, 17} if quick else {1, 3, 5, 9, 11, 17, 19, 21, 27},
              "FluxPats": {"zig", "tie", "neg"} if quick else {"down", "neg", "zig", "tie", "flat"}}
    res = ctx.tlc("MC_Regroup", common.cfg(
        spec="Spec", constants=consts,
        invariants=["WellPosed", "PartitionThm", "ChainThm", "ComponentsThm", "PermInvariantThm",
                    "LabelsThm", "LabelsPermThm"], deadlock=False), coverage=True, timeout=5400)
    ctx.require_actions(res, ["Pick", "Group", "Label"], "MC_Regroup")
    cases = [p for p in res.printed if "pts" in p]
    uniq = {(tuple(c["pts"]), tuple(c["flux"]), c["E"]): c for c in cases}
    cases = list(uniq.values())
    if len(cases) < 1000:
        raise common.MachineryError("MC_Regroup emitted only %d cases" % len(cases))
    selftest(ctx)
    jobs = mc_jobs(cases, quick, rng)
    jobs += full_perm_jobs(cases, 150 if quick else 3000, rng)
    jobs += random_jobs(quick, rng)
    stats, rejected = drive_and_validate(ctx, jobs, 4000 if quick else 6000)
    ctx.count(evaluations=stats["runs"], nontrivial=len(stats["distinct"]), traces=stats["records"])
    ctx.cov["rule"] = ("evaluation = one execution of regroup_dbscan / regroup / resize / AeReg / priorized-fit "
                       "regroup step on one row order of one catalogue; trace = one catalogue record (all its row "
                       "orders) judged by TLC; distinct = distinct (generator, route, positions, linking length, "
                       "flux pattern, anchor)")
    ctx.cov["exhaustive"] = True
    ctx.cov["domain"] = {"model": "point sets of <=%d points (multisets up to %d) on %dx%d lattice x flux %s x E %s: %d cases, each replayed"
                                  % (consts["MaxN"], consts["DupMaxN"], LATW, LATH, sorted(consts["FluxPats"]), sorted(consts["Es"]), len(cases)),
                         "jobs": len(jobs), "catalogues_with_2..n-1_groups": stats["multi"],
                         "regenerated_inputs": stats["regen"]}
    for s in stats["samples"]:
        ctx.sample(s)
    ctx.assumptions += [
        "no pair of sources within 1e-6 (relative) of the linking length (inputs regenerated otherwise; lattice "
        "linking lengths have eps^2 = E/2 with E odd so the nearest lattice distance is >= 1% away)",
        "lattice points are realised in the tangent plane at the anchor (field <= 30 arcmin); TLC confirms per record "
        "that the true angular separations give the same Close relation as the lattice",
        "true separations are computed by the harness (Vincenty, float64) and handed to TLC as integers (1e-9 of eps)",
        "elliptical variant: pairwise distinct declinations, no pair within 1e-6 of norm_dist = eps, the logged "
        "relation is the one computed by the real norm_dist on the rows regroup builds",
        "resize: sources with finite psf_a, psf_b >= 0 (sources without psf are dropped by design)",
        "peak fluxes are finite (integers * 1e-3), including negative and equal values"]
    report(ctx, rejected)


def replay(ctx, rec):
    job = rec["detail"]["job"]
    _init(ctx.workdir)
    out = observe(job)
    rej = validate(ctx, [out], "replay")
    report(ctx, [(r, job, fails) for r, fails in rej])
    ctx.count(evaluations=len(out.get("runs", [1])), nontrivial=1, traces=1)
    ctx.sample({k: v for k, v in out.items() if k in ("id", "kind", "n", "xy", "E", "flux", "adj", "runs", "lt")
                and len(str(v)) < 2000})
