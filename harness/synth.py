"""
Synthetic images for the source-finder checks (C01, C03, C05, C11, C13, C14).

Everything here is independent of AegeanTools: headers are built by hand,
ellipses are defined ON THE SKY (position, FWHM axes in degrees, position angle
East of North) and converted to pixel space with astropy.wcs plus small-circle
offsets computed here, then rendered with a pixel-space Gaussian defined here.
"""
import math

import numpy as np

FWHM2SIG = 1.0 / (2.0 * math.sqrt(2.0 * math.log(2.0)))


def make_header(shape, proj="SIN", crval=(150.0, -30.0), cdelt_arcsec=10.0, beam_arcsec=(40.0, 40.0, 0.0),
                crpix=None):
    from astropy.io import fits
    H, W = shape
    h = fits.Header()
    h['SIMPLE'] = True
    h['BITPIX'] = -32
    h['NAXIS'] = 2
    h['NAXIS1'] = W
    h['NAXIS2'] = H
    h['CTYPE1'] = 'RA---' + proj
    h['CTYPE2'] = 'DEC--' + proj
    h['CRVAL1'] = float(crval[0])
    h['CRVAL2'] = float(crval[1])
    h['CRPIX1'] = float(crpix[0]) if crpix else W / 2.0 + 0.5
    h['CRPIX2'] = float(crpix[1]) if crpix else H / 2.0 + 0.5
    h['CDELT1'] = -cdelt_arcsec / 3600.0
    h['CDELT2'] = cdelt_arcsec / 3600.0
    h['CUNIT1'] = 'deg'
    h['CUNIT2'] = 'deg'
    h['BMAJ'] = beam_arcsec[0] / 3600.0
    h['BMIN'] = beam_arcsec[1] / 3600.0
    h['BPA'] = float(beam_arcsec[2])
    h['BUNIT'] = 'JY/BEAM'
    h['EQUINOX'] = 2000.0
    return h


def offset(ra, dec, r, pa):
    """point at great-circle distance r (deg) along position angle pa (deg, East of North)."""
    d0, r_, t = math.radians(dec), math.radians(r), math.radians(pa)
    sd = math.sin(d0) * math.cos(r_) + math.cos(d0) * math.sin(r_) * math.cos(t)
    d1 = math.asin(max(-1.0, min(1.0, sd)))
    y = math.sin(t) * math.sin(r_) * math.cos(d0)
    x = math.cos(r_) - math.sin(d0) * sd
    return (ra + math.degrees(math.atan2(y, x))) % 360.0, math.degrees(d1)


def sky_ellipse_to_pix(wcs, ra, dec, a_deg, b_deg, pa_deg):
    """sky ellipse (FWHM a,b in deg, pa E of N) -> pixel-space (x, y, sx, sy, theta) with 0-based
    array coordinates x = column, y = row, sx/sy = sigma along the major/minor axis in pixels and
    theta = angle of the major axis from the +x (column) axis towards +y (row), in radians.
    Local linearisation from the end points of the two semi-axes."""
    x0, y0 = wcs.all_world2pix([[ra, dec]], 0)[0]
    ra1, dec1 = offset(ra, dec, a_deg / 2.0, pa_deg)
    ra2, dec2 = offset(ra, dec, a_deg / 2.0, pa_deg + 180.0)
    xa1, ya1 = wcs.all_world2pix([[ra1, dec1]], 0)[0]
    xa2, ya2 = wcs.all_world2pix([[ra2, dec2]], 0)[0]
    rb1, db1 = offset(ra, dec, b_deg / 2.0, pa_deg + 90.0)
    rb2, db2 = offset(ra, dec, b_deg / 2.0, pa_deg + 270.0)
    xb1, yb1 = wcs.all_world2pix([[rb1, db1]], 0)[0]
    xb2, yb2 = wcs.all_world2pix([[rb2, db2]], 0)[0]
    amaj = math.hypot(xa1 - xa2, ya1 - ya2)          # FWHM in pixels
    bmin = math.hypot(xb1 - xb2, yb1 - yb2)
    theta = math.atan2(ya1 - ya2, xa1 - xa2)
    return float(x0), float(y0), amaj * FWHM2SIG, bmin * FWHM2SIG, theta


def render(shape, comps):
    """sum of pixel-space Gaussians; comps = [(amp, x, y, sx, sy, theta)], x = column, y = row (0-based)."""
    H, W = shape
    yy, xx = np.mgrid[0:H, 0:W].astype(float)
    img = np.zeros(shape)
    for (amp, x, y, sx, sy, th) in comps:
        c, s = math.cos(th), math.sin(th)
        u = (xx - x) * c + (yy - y) * s
        v = -(xx - x) * s + (yy - y) * c
        img += amp * np.exp(-0.5 * ((u / sx) ** 2 + (v / sy) ** 2))
    return img


def write(path, img, header):
    from astropy.io import fits
    hdu = fits.PrimaryHDU(np.asarray(img, dtype=np.float32))
    for k, v in header.items():
        if k in ('SIMPLE', 'BITPIX', 'NAXIS', 'NAXIS1', 'NAXIS2', 'EXTEND'):
            continue
        hdu.header[k] = v
    hdu.writeto(path, overwrite=True)
    return path


def src_token(s, fields=None):
    """float-identity token of a catalogue row (uuid excluded)."""
    from harness.common import hexf
    fields = fields or ("ra", "dec", "peak_flux", "int_flux", "a", "b", "pa", "err_ra", "err_dec",
                        "err_peak_flux", "err_int_flux", "err_a", "err_b", "err_pa", "local_rms",
                        "background", "residual_mean", "residual_std", "psf_a", "psf_b", "psf_pa")
    out = []
    for f in fields:
        v = getattr(s, f, None)
        out.append("none" if v is None else hexf(v))
    out.append(str(int(getattr(s, "flags", 0))))
    return ":".join(out)
