"""
Scenes and catalogue projection for the finder checks C03 / C05.
"""
import contextlib
import io
import json
import math
import os
import random
import re
import subprocess
import sys

import numpy as np

from harness import common, synth

NOTFIT, FITERR, WCSERR = 16, 2, 32
CDELT = 15.0          # arcsec per pixel
BEAM_PX = 3.5         # beam FWHM in pixels


def make_scene(seed, kind):
    """returns dict(shape, header, img, comps(pixel), kw(finder kwargs))."""
    rng = random.Random(seed)
    nrng = np.random.default_rng(seed)
    size = {"many": 200, "tiny": 96, "empty": 64}.get(kind, rng.choice([96, 128]))
    shape = (size, size + rng.choice([0, 8]))
    proj = rng.choice(["SIN", "TAN", "ZEA"])
    crval = (rng.choice([10.0, 359.9, 180.0, 77.3]), rng.choice([-55.0, -5.0, 30.0, 72.0]))
    beam = BEAM_PX * CDELT
    crpix = None
    if kind == "far":
        proj = rng.choice(["SIN", "TAN"])        # (ZEA is equal-area: the beam AREA would not change)
        # the image lies 10-25 degrees from the projection's reference point (a cut-out of a wide mosaic): the sky
        # beam at the sources differs from the header beam by the local scale of the projection
        off = rng.uniform(10.0, 25.0) * 3600.0 / CDELT
        t = rng.uniform(0, 2 * math.pi)
        crpix = (shape[1] / 2.0 + off * math.cos(t), shape[0] / 2.0 + off * math.sin(t))
        crval = (crval[0], rng.choice([-30.0, -5.0, 30.0]))
    h = synth.make_header(shape, proj=proj, crval=crval, cdelt_arcsec=CDELT, beam_arcsec=(beam, beam, 0.0), crpix=crpix)
    s0 = BEAM_PX * synth.FWHM2SIG
    comps = []
    H, W = shape

    def src(x, y, amp, fa=1.0, fb=1.0, th=0.0):
        comps.append((amp, x, y, s0 * fa, s0 * fb, th))

    if kind in ("sparse", "far", "mixedmaps"):
        for _ in range(rng.randint(3, 8)):
            src(rng.uniform(12, W - 12), rng.uniform(12, H - 12), rng.uniform(8, 60) * rng.choice([1, 1, -1]),
                rng.uniform(1, 2), rng.uniform(1, 1.5), rng.uniform(0, math.pi))
    elif kind == "blends":
        for _ in range(rng.randint(2, 5)):
            x, y = rng.uniform(20, W - 20), rng.uniform(20, H - 20)
            a1 = rng.uniform(15, 50)
            src(x, y, a1)
            d = rng.uniform(1.1, 1.8) * BEAM_PX
            t = rng.uniform(0, 2 * math.pi)
            src(x + d * math.cos(t), y + d * math.sin(t), a1 * rng.uniform(0.5, 1.0))
            if rng.random() < 0.3:
                src(x - d * math.cos(t), y - d * math.sin(t), a1 * rng.uniform(0.4, 0.9))
    elif kind == "psfmap":
        # blends on a psf map whose cells alternate between two psf sizes (20 % apart) every W/8 pixels: several
        # blended islands straddle a cell border
        for k in range(rng.randint(5, 8)):
            y = 14 + k * (H - 28) / 7.0 + rng.uniform(-1, 1)
            x = rng.uniform(14, W - 14)
            a1 = rng.uniform(20, 50)
            d = rng.uniform(1.2, 1.7) * BEAM_PX
            src(x - d / 2.0, y, a1)
            src(x + d / 2.0, y + rng.uniform(-0.5, 0.5), a1 * rng.uniform(0.6, 1.0))
    elif kind == "tiny":
        for _ in range(rng.randint(4, 9)):
            # narrow faint peaks: islands of 1-6 pixels
            src(rng.uniform(8, W - 8), rng.uniform(8, H - 8), rng.uniform(5.3, 7.5) * rng.choice([1, -1]),
                rng.uniform(0.25, 0.6), rng.uniform(0.25, 0.6))
    elif kind == "many":
        n = 0
        for gy in range(7):
            for gx in range(7):
                if rng.random() < 0.08:
                    continue
                x, y = 16 + gx * 28 + rng.uniform(-3, 3), 16 + gy * 28 + rng.uniform(-3, 3)
                src(x, y, rng.uniform(10, 40) * rng.choice([1, 1, 1, -1]))
                if rng.random() < 0.25:
                    src(x + 1.4 * BEAM_PX, y + 0.3, rng.uniform(8, 30))
                n += 1
    elif kind == "edge":
        for _ in range(rng.randint(3, 6)):
            side = rng.choice("NSEW")
            x = {"E": rng.uniform(-1, 2), "W": W - 1 - rng.uniform(-1, 2)}.get(side, rng.uniform(5, W - 5))
            y = {"S": rng.uniform(-1, 2), "N": H - 1 - rng.uniform(-1, 2)}.get(side, rng.uniform(5, H - 5))
            src(x, y, rng.uniform(10, 50))
        src(W / 2.0, H / 2.0, 30.0)
    elif kind == "nanregion":
        for _ in range(rng.randint(3, 6)):
            src(rng.uniform(12, W - 12), rng.uniform(12, H - 12), rng.uniform(10, 60), rng.uniform(1, 1.6))
    elif kind == "coincident":
        x, y = W / 2.0 + 0.3, H / 2.0 - 0.2
        src(x, y, 40.0)
        src(x + 0.05, y, 35.0)          # two nearly coincident components (near-singular fit when refit)
        src(20, 20, 25.0, 3.0, 3.0)     # a very extended source
    elif kind == "empty":
        pass
    img = synth.render(shape, comps) if comps else np.zeros(shape)
    img = img + nrng.normal(0, 1.0, shape)
    if kind == "nanregion":
        for (amp, x, y, sx, sy, th) in comps[:2]:
            r0, c0 = int(y) + rng.randint(-2, 1), int(x) + rng.randint(1, 3)
            img[max(0, r0):r0 + rng.randint(2, 6), max(0, c0):c0 + rng.randint(2, 6)] = np.nan
        img[0:6, :] = np.nan
    kw = dict(rms=1.0, bkg=0.0, cores=1, nonegative=False, innerclip=5, outerclip=4, docov=rng.random() < 0.5)
    if kind == "empty":
        kw["innerclip"] = 9
        kw["outerclip"] = 8
    if kind == "mixedmaps":
        # the caller insists on a background constant (that is NOT what an estimator would find) and supplies the
        # noise as a map file: islands are those of |image - 1.5| / noise map
        kw = dict(kw, bkg=1.5)
        del kw["rms"]
    sc = {"shape": shape, "header": h, "img": img, "comps": comps, "kw": kw, "kind": kind, "seed": seed}
    if kind == "psfmap":
        from astropy.io import fits
        ph = fits.Header()
        ph["CTYPE1"], ph["CTYPE2"] = h["CTYPE1"], h["CTYPE2"]
        ph["CRVAL1"], ph["CRVAL2"] = h["CRVAL1"], h["CRVAL2"]
        ph["CRPIX1"], ph["CRPIX2"] = 4.5, 1.0
        ph["CDELT1"], ph["CDELT2"] = h["CDELT1"] * W / 8.0, h["CDELT2"] * H
        cube = np.zeros((3, 1, 8), dtype=np.float32)
        cube[0, 0, :] = [beam / 3600.0 * (1.2 if c % 2 else 1.0) for c in range(8)]
        cube[1, 0, :] = [beam / 3600.0 * (1.1 if c % 2 else 1.0) for c in range(8)]
        sc["psfmap"] = (cube, ph)
    return sc


_RA = re.compile(r"^(\d+):(\d+):(\d+)\.(\d+)$")
_DE = re.compile(r"^([+-])(\d+):(\d+):(\d+)\.(\d+)$")


def errkind(e):
    try:
        if e is None:
            return 2
        e = float(e)
    except Exception:
        return 2
    if e == -1.0:
        return 0
    if math.isfinite(e) and e > 0:
        return 1
    return 2


def proj_row(s):
    """component row -> integers / strings for Finder_Trace."""
    flags = int(s.flags)
    r = {"island": int(s.island), "source": int(s.source), "uuid": str(s.uuid),
         "a_mas": common.fx(s.a, 1000), "b_mas": common.fx(s.b, 1000), "pa_udeg": common.fx(s.pa, 1e6),
         "ra_udeg": common.fx(s.ra, 1e6), "dec_udeg": common.fx(s.dec, 1e6), "flags": flags,
         "fitok": not bool(flags & (NOTFIT | FITERR | WCSERR)),
         "errk": [errkind(getattr(s, k)) for k in ("err_ra", "err_dec", "err_peak_flux", "err_int_flux", "err_a", "err_b", "err_pa")],
         "tok": synth.src_token(s)}
    for k in ("a_mas", "b_mas", "pa_udeg", "ra_udeg", "dec_udeg"):
        if not isinstance(r[k], int):
            r[k] = -(2 ** 30)
    m = _RA.match(str(s.ra_str).strip())
    d = _DE.match(str(s.dec_str).strip())
    if m and len(m.group(4)) == 2:
        r["rah"], r["ram"], r["racs"] = int(m.group(1)), int(m.group(2)), int(m.group(3)) * 100 + int(m.group(4))
        val = (r["rah"] + r["ram"] / 60.0 + r["racs"] / 360000.0) * 15.0
        dev = abs((val - float(s.ra) + 180.0) % 360.0 - 180.0)
        r["radev_ndeg"] = min(2 ** 30, int(round(dev * 1e9)))
    else:
        r["rah"], r["ram"], r["racs"], r["radev_ndeg"] = -1, -1, -1, 2 ** 30
    if d and len(d.group(5)) == 2:
        r["ded"], r["dem"], r["decs"] = int(d.group(2)), int(d.group(3)), int(d.group(4)) * 100 + int(d.group(5))
        val = (r["ded"] + r["dem"] / 60.0 + r["decs"] / 360000.0) * (-1 if d.group(1) == '-' else 1)
        r["dedev_ndeg"] = min(2 ** 30, int(round(abs(val - float(s.dec)) * 1e9)))
    else:
        r["ded"], r["dem"], r["decs"], r["dedev_ndeg"] = -1, -1, -1, 2 ** 30
    try:
        ref = float(s.peak_flux) * float(s.a) * float(s.b) / (float(s.psf_a) * float(s.psf_b))
        ratio = float(s.int_flux) / ref
        r["lnr_unep"] = int(round(1e6 * math.log(ratio))) if ratio > 0 else 2 ** 30
    except Exception:
        r["lnr_unep"] = 2 ** 30
    return r


def quiet():
    return contextlib.ExitStack()


def run_blind(path, kw, doislandflux=False):
    from AegeanTools.source_finder import SourceFinder
    with contextlib.redirect_stderr(io.StringIO()), contextlib.redirect_stdout(io.StringIO()):
        sf = SourceFinder()
        out = sf.find_sources_in_image(path, doislandflux=doislandflux, **kw)
    return sf, out


def run_prior(path, cat, kw, stage, regroup, ratio=None):
    from AegeanTools.source_finder import SourceFinder
    k2 = {k: v for k, v in kw.items() if k in ("rms", "bkg", "cores", "docov")}
    with contextlib.redirect_stderr(io.StringIO()), contextlib.redirect_stdout(io.StringIO()):
        sf = SourceFinder()
        out = sf.priorized_fit_islands(path, catalogue=cat, stage=stage, doregroup=regroup, ratio=ratio, **k2)
    return sf, out


def oracle_islands(sf, kw, raw=None):
    from AegeanTools.source_finder import find_islands
    gd = sf.global_data
    if raw is not None:
        # independent of the maps the pipeline ended up with: the image as written, the forced background, unit noise
        # (the image is held in single precision and the constant is subtracted in single precision)
        data = (np.array(raw, dtype=np.float32) - np.float32(kw["bkg"])).astype(float)
        isl = find_islands(im=data, bkg=np.zeros_like(data), rms=np.ones_like(data), seed_clip=kw["innerclip"],
                           flood_clip=min(kw["outerclip"], kw["innerclip"]))
        gd = type("G", (), {"img": data})()
    else:
        isl = find_islands(im=gd.img, bkg=np.zeros_like(gd.img), rms=gd.rmsimg, seed_clip=kw["innerclip"],
                           flood_clip=min(kw["outerclip"], kw["innerclip"]))
    out = []
    for n, i in enumerate(isl, start=1):
        (r0, r1), (c0, c1) = [[int(x) for x in b] for b in i.bounding_box]
        d = np.array(gd.img[r0:r1, c0:c1], dtype=float)
        d[np.asarray(i.mask)] = np.nan
        # the island's peak pixel = its strongest pixel (largest absolute value)
        pk = np.nanmax(d)
        if -np.nanmin(d) > pk:
            pk = np.nanmin(d)
        out.append({"num": n, "npix": int(np.sum(np.isfinite(d))), "peaktok": common.hexf(pk),
                    "extent": [r0, r1, c0, c1]})
    return out


def child_tokens(spec):
    """run the same finder call in a fresh python process; returns the row tokens."""
    env = dict(os.environ, PYTHONPATH=common.REPO + ":" + common.VERIF, PYTHONHASHSEED=str(spec.get("hashseed", 1)))
    p = subprocess.run(["/venv/bin/python", "-W", "ignore", "-m", "harness.finder_child", json.dumps(spec)],
                       env=env, stdout=subprocess.PIPE, stderr=subprocess.DEVNULL, timeout=600, cwd=common.VERIF)
    for line in p.stdout.decode("utf-8", "replace").splitlines():
        if line.startswith("FINDER_CHILD "):
            return json.loads(line[len("FINDER_CHILD "):])
    return {"err": "child produced no result (rc=%s)" % p.returncode}
