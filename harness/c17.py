"""
C17 - spherical geometry and sexagesimal primitives are exact and well formed.

model   : spec/Sexa.tla (integer model of [+-]DD:MM:SS.SS / HH:MM:SS.SS with
          explicit carry) checked by TLC in spec/MC_Sexa.tla on every non-tie
          input of the carry windows around the minute / degree / hour
          boundaries (FieldRanges, InverseLaw, ParseIsRound, RAModulo, SignKept,
          DesignsAgree); the defective "no carry" design must be rejected.
binding : * the same window domain + seeded random inputs are run through the
            real dec2dms / dec2hms (python float, numpy scalar, 0-d array) and
            dec2dec / ra2dec; the returned text is split into its integer
            fields and TLC validates every call against spec/Sexa_Trace.tla;
          * TLC-emitted canonical texts (MC_Sexa, Emit = TRUE) and separator /
            sign / two-field variants are replayed on the real parsers;
          * gcd / bear / translate (scalar and array calls): exact great
            circles (ExactCircles), metric laws on triples (MetricLaws) and
            translate loops (TranslateLoop) are validated by TLC against
            spec/SphereGeom_Trace.tla in two-limb integers (1e-6 / 1e-12 deg).
The harness only generates inputs, calls the code and projects the results;
every verdict is a clause of the TLA+ modules evaluated by TLC.
"""
import math
import multiprocessing as mp
import os
import random
import re

import numpy as np

from harness import common

LEVEL = "model_checking"

# --------------------------------------------------------------------------
# exact projection helpers (no verdicts here)
# --------------------------------------------------------------------------
PD = 10 ** 12          # pico-degrees per degree
LIMB = 10 ** 6
HMAX = 10 ** 9


def tl(pd):
    """integer pico-degrees -> two-limb [h micro-deg, l pico-deg], |l| <= 5e5"""
    h = (pd + LIMB // 2) // LIMB
    if h > HMAX:
        return [HMAX, 0]
    if h < -HMAX:
        return [-HMAX, 0]
    return [int(h), int(pd - h * LIMB)]


def pd_of(t):
    return t[0] * LIMB + t[1]


def scaled(x, scale):
    """exact nearest integer of (double x) * scale, scale a positive int"""
    num, den = float(x).as_integer_ratio()
    return (2 * num * scale + den) // (2 * den)


def fl(pd):
    """integer pico-degrees -> nearest double (degrees)"""
    return pd / PD          # int / int true division is correctly rounded


def proj(x):
    return tl(scaled(x, PD))


def deg(x):
    """decimal text or number of degrees -> pico-degrees (exact for texts)"""
    from fractions import Fraction
    return int(Fraction(str(x)) * PD)


# --------------------------------------------------------------------------
# sexagesimal part
# --------------------------------------------------------------------------
FINE_PER_DEG = {"dms": 3600000, "hms": 240000}
FINE_PER_MIN = 60000
TURN_FINE = 86400000
MAX_DEC_FINE = 324000000
RE_DMS = re.compile(r"^([+-]?)(\d{2,3}):(\d{2}):(\d{2})\.(\d{2})$")
RE_HMS = re.compile(r"^()(\d{2,3}):(\d{2}):(\d{2})\.(\d{2})$")
ARGTYPES = ("float", "np.float64", "ndarray0d")


def sexa_domain(kind, W, stride):
    """python enumeration of MC_Sexa!Dom(kind) (Sexa_Trace re-checks InDomain)"""
    ks = range(0, 5401) if kind == "dms" else range(0, 1441)
    out = set()
    for k in ks:
        if k % stride == 0 or k % 60 == 0 or k % 60 == 59:
            for o in range(-W, W + 1):
                n = k * FINE_PER_MIN + o
                out.add(n)
                if kind == "dms":
                    out.add(-n)
    if kind == "dms":
        return sorted(n for n in out if abs(n) % 10 != 5 and abs(n) <= MAX_DEC_FINE)
    return sorted(n for n in out if n % 10 != 5 and 0 <= n < TURN_FINE)


def sexa_class(kind, n):
    """label of the input class (only used in violation keys)"""
    a = abs(n) if kind == "dms" else n % TURN_FINE
    if a % FINE_PER_MIN == 0:
        return "exact-minute"
    if a % FINE_PER_MIN >= FINE_PER_MIN - 5:
        nxt = (a // FINE_PER_MIN + 1)
        if kind == "hms" and nxt == 1440:
            return "rounds-up-to-24h"
        if nxt % 60 == 0:
            return "rounds-up-to-next-" + ("degree" if kind == "dms" else "hour")
        return "rounds-up-to-next-minute"
    return "generic"


def _arg(x, argtype):
    if argtype == "float":
        return float(x)
    if argtype == "np.float64":
        return np.float64(x)
    if argtype == "ndarray0d":
        return np.array(x, dtype=np.float64)
    if argtype == "int":
        return int(x)
    if argtype == "np.float32":
        return np.float32(x)
    if argtype in ("np.int16", "np.uint8", "np.int64"):
        return getattr(np, argtype[3:])(int(x))
    raise ValueError(argtype)


def _split_text(kind, s, rec):
    m = (RE_DMS if kind == "dms" else RE_HMS).match(s) if isinstance(s, str) else None
    if m is None:
        rec["wf"] = False
        return
    rec["wf"] = True
    rec["neg"] = m.group(1) == "-"
    rec["u"] = int(m.group(2))
    rec["m"] = int(m.group(3))
    rec["cs"] = int(m.group(4)) * 100 + int(m.group(5))


def _proj_fine(y, kind, rec):
    """returned degrees -> yi + ydev*1e-6 fine units (exact, clamped)"""
    if not math.isfinite(y):
        rec["err"] = "parser returned %r" % (y,)
        return
    v = scaled(y, FINE_PER_DEG[kind] * 10 ** 6)        # units of 1e-6 fine
    yi = (v + 500000) // 10 ** 6
    rec["yi"] = int(max(-10 ** 9, min(10 ** 9, yi)))
    rec["ydev"] = int(v - yi * 10 ** 6)


def observe_fmt(job):
    kind, n, argtype = job
    from AegeanTools import angle_tools as at
    fn = "dec2dms" if kind == "dms" else "dec2hms"
    rec = {"id": "%s/%d/%s" % (fn, n, argtype), "kind": "fmt", "fn": fn, "n": n,
           "arg": argtype, "cls": sexa_class(kind, n), "err": "", "wf": False,
           "neg": False, "u": 0, "m": 0, "cs": 0, "text": "", "rt": False, "yi": 0, "ydev": 0}
    x = n / FINE_PER_DEG[kind]           # nearest double of the exact rational
    if argtype == "np.float32":
        # the value handed over is the single-precision number itself: re-express it in fine units (it is within
        # half a fine unit of an integer N; values closer than one fine unit to a rounding tie are left out)
        f = float(np.float32(x)) * FINE_PER_DEG[kind]
        n = int(round(f))
        if abs(abs(f) % 10 - 5) <= 1.0 or (kind == "hms" and not 0 <= n < TURN_FINE):
            return None
        rec["n"] = n
        rec["id"] = "%s/%d/%s" % (fn, n, argtype)
        rec["cls"] = sexa_class(kind, n)
    try:
        s = getattr(at, fn)(_arg(x, argtype))
        rec["text"] = s if isinstance(s, str) else repr(s)
        _split_text(kind, s, rec)
    except Exception as e:               # the formatter must not raise
        rec["err"] = "%s: %s" % (type(e).__name__, e)
        return rec
    if rec["wf"]:
        try:
            y = (at.dec2dec if kind == "dms" else at.ra2dec)(s)
            _proj_fine(float(y), kind, rec)
            rec["rt"] = rec["err"] == ""
        except Exception as e:
            rec["err"] = "parser on %r: %s: %s" % (s, type(e).__name__, e)
    return rec


def text_variant(kind, neg, u, m, cs, variant):
    sign = "-" if neg else ("+" if kind == "dms" else "")
    sec = "%02d.%02d" % (cs // 100, cs % 100)
    if variant in ("tlc", "colon"):
        return "%s%02d:%02d:%s" % (sign, u, m, sec)
    if variant == "space":
        return "%s%02d %02d %s" % (sign, u, m, sec)
    if variant == "nosign":
        return "%s%02d:%02d:%s" % ("-" if neg else "", u, m, sec)
    if variant == "twofield":       # hh:mm[:ss.s] - seconds optional (cs = 0)
        return "%s%02d:%02d" % (sign, u, m)
    if variant == "short":          # one decimal, unpadded seconds
        return "%s%d:%d:%s" % (sign, u, m, ("%.1f" % (cs / 100.0)))
    raise ValueError(variant)


def observe_parse(job):
    kind, neg, u, m, cs, variant, text = job
    from AegeanTools import angle_tools as at
    fn = "dec2dec" if kind == "dms" else "ra2dec"
    if text is None:
        text = text_variant(kind, neg, u, m, cs, variant)
    rec = {"id": "%s/%s/%s" % (fn, variant, text), "kind": "parse", "fn": fn,
           "variant": variant, "text": text, "neg": bool(neg), "u": u, "m": m, "cs": cs,
           "err": "", "yi": 0, "ydev": 0}
    try:
        _proj_fine(float(getattr(at, fn)(text)), kind, rec)
    except Exception as e:
        rec["err"] = "%s: %s" % (type(e).__name__, e)
    return rec


# --------------------------------------------------------------------------
# geometry part
# --------------------------------------------------------------------------
def _finite(*vals):
    return bool(all(np.all(np.isfinite(v)) for v in vals))


def _call(fn, mode, *cols):
    """call an angle_tools function on columns, either once with numpy arrays
    or element by element with python floats; returns list(s) of floats"""
    if mode == "array":
        out = fn(*[np.array(c, dtype=np.float64) for c in cols])
        if isinstance(out, tuple):
            return tuple(np.broadcast_to(np.asarray(o, dtype=np.float64), (len(cols[0]),)) for o in out)
        return np.broadcast_to(np.asarray(out, dtype=np.float64), (len(cols[0]),))
    res = [fn(*[float(c[i]) for c in cols]) for i in range(len(cols[0]))]
    if res and isinstance(res[0], tuple):
        return tuple(np.array([float(r[k]) for r in res]) for k in range(len(res[0])))
    return np.array([float(r) for r in res])


def _safe_proj(x):
    return proj(x) if math.isfinite(x) else [0, 0]


def observe_circles(job):
    """job = (mode, [ (id, cls, band, ra1, dec1, ra2, dec2) ... ]) in pico-degrees"""
    mode, items = job
    from AegeanTools import angle_tools as at
    cols = [[fl(it[k]) for it in items] for k in (3, 4, 5, 6)]
    recs = []
    try:
        d = _call(at.gcd, mode, *cols)
        b = _call(at.bear, mode, *cols)
        err = ""
    except Exception as e:
        err = "%s: %s" % (type(e).__name__, e)
        d = b = np.zeros(len(items))
    for i, it in enumerate(items):
        recs.append({"id": "circle/%s/%s" % (mode, it[0]), "kind": "circle", "mode": mode,
                     "cls": it[1], "band": it[2],
                     "p1": [tl(it[3]), tl(it[4])], "p2": [tl(it[5]), tl(it[6])],
                     "d": _safe_proj(float(d[i])), "b": _safe_proj(float(b[i])),
                     "fin": _finite(d[i], b[i]), "err": err})
    return recs


def observe_metric(job):
    """job = (mode, [ (id, band, [(ra,dec)]*3 ) ... ])"""
    mode, items = job
    from AegeanTools import angle_tools as at
    D = {}
    err = ""
    try:
        for i in range(3):
            for j in range(3):
                D[i, j] = _call(at.gcd, mode,
                                [fl(it[2][i][0]) for it in items], [fl(it[2][i][1]) for it in items],
                                [fl(it[2][j][0]) for it in items], [fl(it[2][j][1]) for it in items])
    except Exception as e:
        err = "%s: %s" % (type(e).__name__, e)
        D = {(i, j): np.zeros(len(items)) for i in range(3) for j in range(3)}
    recs = []
    for k, it in enumerate(items):
        vals = [[float(D[i, j][k]) for j in range(3)] for i in range(3)]
        recs.append({"id": "metric/%s/%s" % (mode, it[0]), "kind": "metric", "mode": mode,
                     "band": it[1], "P": [[tl(p[0]), tl(p[1])] for p in it[2]],
                     "D": [[_safe_proj(v) for v in row] for row in vals],
                     "Z": [[(1 if v > 0 else (-1 if v < 0 else 0)) for v in row] for row in vals],
                     "fin": _finite(*[v for row in vals for v in row]), "err": err})
    return recs


def observe_loops(job):
    """job = (mode, [ (id, band, ra, dec, r, t) ... ])"""
    mode, items = job
    from AegeanTools import angle_tools as at
    cols = [[fl(it[k]) for it in items] for k in (2, 3, 4, 5)]
    err = ""
    argsok = True
    try:
        if mode == "array":
            # the same array objects are used for the call and afterwards, as a caller would
            arrs = [np.array(c, dtype=np.float64) for c in cols]
            keep = [a.copy() for a in arrs]
            qra, qdec = at.translate(*arrs)
            qra = np.broadcast_to(np.asarray(qra, dtype=np.float64), (len(items),)).copy()
            qdec = np.broadcast_to(np.asarray(qdec, dtype=np.float64), (len(items),)).copy()
            argsok = bool(all(np.array_equal(a, k) for a, k in zip(arrs, keep)))
            d = np.broadcast_to(np.asarray(at.gcd(arrs[0], arrs[1], qra, qdec), dtype=np.float64), (len(items),))
            b = np.broadcast_to(np.asarray(at.bear(arrs[0], arrs[1], qra, qdec), dtype=np.float64), (len(items),))
        else:
            qra, qdec = _call(at.translate, mode, *cols)
            d = _call(at.gcd, mode, cols[0], cols[1], list(qra), list(qdec))
            b = _call(at.bear, mode, cols[0], cols[1], list(qra), list(qdec))
    except Exception as e:
        err = "%s: %s" % (type(e).__name__, e)
        d = b = qra = qdec = np.zeros(len(items))
    recs = []
    for i, it in enumerate(items):
        recs.append({"id": "loop/%s/%s" % (mode, it[0]), "kind": "loop", "mode": mode,
                     "band": it[1], "p": [tl(it[2]), tl(it[3])], "r": tl(it[4]), "t": tl(it[5]),
                     "q": [_safe_proj(float(qra[i])), _safe_proj(float(qdec[i]))],
                     "d": _safe_proj(float(d[i])), "b": _safe_proj(float(b[i])),
                     "fin": _finite(d[i], b[i], qra[i], qdec[i]), "err": err, "argsok": argsok})
    return recs


# ---- input lattices (pico-degrees) ---------------------------------------
SEPS = ["0.000000001", "0.000000002", "0.00000001", "0.0000001", "0.000001", "0.00001",
        "0.0001", "0.001", "0.01", "0.1", "1", "10", "45", "89.999999999", "90",
        "90.000000001", "135", "179", "179.9", "179.99", "179.999", "179.9999",
        "179.99999", "179.999999", "179.9999999", "179.99999999", "179.999999999", "180"]


def band_of(sep_pd):
    s = sep_pd / PD
    if s < 1e-6:
        return "sep<1e-6"
    if s < 1e-2:
        return "sep<1e-2"
    if s <= 179.99:
        return "sep-mid"
    if s <= 180 - 1e-6:
        return "antipodal-within-1e-2"
    return "antipodal-within-1e-6"


def circle_lattice(rng, extra):
    seps = [deg(s) for s in SEPS]
    for _ in range(extra):
        e = rng.choice([-9, -8, -7, -6, -5, -4, -3, -2, -1, 0, 1, 2])
        s = int(rng.uniform(1, 10) * 10 ** (12 + e))
        seps.append(min(s, 180 * PD) if rng.random() < 0.5 else max(180 * PD - s, 1000))
    decs = [deg(x) for x in ("-90", "-89.999999999", "-89.5", "-45.5", "-0.000000001", "0",
                              "0.000000001", "30", "60.123456", "89", "89.999999", "90")]
    ras = [deg(x) for x in ("0", "0.000001", "12.5", "123.456789", "180", "270.5", "359.999999",
                             "359.999999999")]
    items = []
    D90, D180, D360 = 90 * PD, 180 * PD, 360 * PD

    def add(cls, s, a1, d1, a2, d2):
        items.append(["%s/%d/%d/%d/%d" % (cls, a1, d1, a2, d2), cls, band_of(s), a1, d1, a2, d2])

    for s in seps:
        for d1 in decs:
            for a in ras[:5] if s % 7 else ras:
                # same meridian
                for d2 in (d1 + s, d1 - s):
                    if -D90 <= d2 <= D90:
                        add("meridian", s, a, d1, a, d2)
                # meridian continued over a pole: d = 180 - |d1 + d2|
                a2 = a + D180 if a + D180 <= D360 else a - D180
                for d2 in ((D180 - s) - d1, -(D180 - s) - d1):
                    if -D90 <= d2 <= D90:
                        add("anti", s, a, d1, a2, d2)
        # equator with RA wrap
        for a in ras:
            for a2 in ((a + s) % D360, (a - s) % D360):
                add("equator", s, a, 0, a2, 0)
    # poles
    for a1 in ras[:4]:
        for a2 in (0, deg("77.7"), deg("359")):
            for d1 in decs + [deg(x) for x in ("-89.99", "-1", "12.345678901", "89.999999999")]:
                for pole in (D90, -D90):
                    s = D90 - d1 if pole > 0 else D90 + d1
                    add("pole", s, a1, d1, a2, pole)
                    add("pole", s, a2, pole, a1, d1)
    # unique ids
    seen = set()
    out = []
    for it in items:
        if it[0] not in seen:
            seen.add(it[0])
            out.append(it)
    return out


def rand_point(rng):
    z = rng.uniform(-1, 1)
    return [int(rng.uniform(0, 360) * 10 ** 6) * LIMB + rng.randrange(-400000, 400000),
            int(math.degrees(math.asin(z)) * 10 ** 6) * LIMB + rng.randrange(-400000, 400000)]


def clampdec(d):
    return max(-90 * PD, min(90 * PD, d))


def metric_triples(rng, nrand):
    items = []
    D180, D360 = 180 * PD, 360 * PD

    def add(band, pts):
        items.append(["%d" % len(items), band, [[int(p[0]), int(p[1])] for p in pts]])

    tiny = [deg(s) for s in SEPS[:9]]
    for _ in range(nrand):
        add("random", [rand_point(rng) for _ in range(3)])
    for _ in range(nrand // 2):
        # clustered: offsets in declination (and in RA on low latitudes)
        p = rand_point(rng)
        p[1] = max(-60 * PD, min(60 * PD, p[1]))
        q = [p[0], p[1] + rng.choice(tiny) * rng.choice((-1, 1))]
        r_ = [(p[0] + rng.choice(tiny)) % D360, p[1]]
        add("clustered", [p, q, r_])
    for _ in range(nrand // 2):
        # near antipodal pair + a third point on / off the connecting circle
        p = rand_point(rng)
        e = rng.choice(tiny)
        anti = [(p[0] + D180) % D360, clampdec(-p[1] + e * rng.choice((-1, 1)))]
        third = rand_point(rng) if rng.random() < 0.5 else [p[0], clampdec(p[1] + rng.choice(tiny + [deg("10"), deg("60")]))]
        add("antipodal", [p, anti, third])
    for _ in range(nrand // 4):
        # collinear on the equator / a meridian (triangle inequality is tight)
        a = int(rng.uniform(0, 360) * 10 ** 6) * LIMB
        s1, s2 = rng.choice(tiny + [deg("1"), deg("89")]), rng.choice(tiny + [deg("2"), deg("90")])
        add("collinear-equator", [[a, 0], [(a + s1) % D360, 0], [(a + s1 + s2) % D360, 0]])
        d0 = int(rng.uniform(-80, 0) * 10 ** 6) * LIMB
        add("collinear-meridian", [[a, d0], [a, d0 + s1], [a, clampdec(d0 + s1 + s2)]])
    # one point, several coordinates (RA wrap, poles) and identical triples
    for a in (0, deg("10"), deg("359.999999")):
        add("same-point", [[0, deg("12.5")], [D360, deg("12.5")], [a, deg("-30")]])
        add("same-point", [[a, 90 * PD], [deg("200"), 90 * PD], [deg("45"), -90 * PD]])
        add("same-point", [[a, deg("33.3")], [a, deg("33.3")], [a, deg("33.3")]])
    return items


def loop_lattice(rng, nrand):
    items = []
    D90 = 90 * PD

    def add(band, ra, dec, r, t):
        items.append(["%d" % len(items), band, int(ra), int(dec), int(r), int(t)])

    ras = [0, deg("123.456789"), deg("359.999999")]
    decs = [deg(x) for x in ("-90", "-89.999999", "-89.9", "-60", "0", "0.000000001", "45.5", "89.9", "89.999999", "90")]
    rs = [deg(x) for x in ("0", "0.000000001", "0.000001", "0.00001", "0.001", "0.1", "1", "45", "90", "135",
                            "179", "179.9", "179.999", "179.999999", "179.999999999")]
    ts = [deg(x) for x in ("0", "0.000000001", "45", "90", "135.5", "180", "225", "270", "359.999999")]
    for ra in ras:
        for dec in decs:
            polar = abs(dec) >= deg("89.9")
            for r in rs:
                for t in ts:
                    add(("start-at-pole/" if abs(dec) == D90 else "start-near-pole/" if polar else "") + band_r(r),
                        ra, dec, r, t)
    # translations that end exactly on / next to a pole
    for ra in ras:
        for dec in [deg(x) for x in ("-89.9", "-45", "0", "30", "60.123456", "89", "89.9")]:
            for off in (0, 1000, 10 ** 6, 10 ** 8):
                if 0 <= D90 - dec - off < 180 * PD:
                    add("lands-near-pole/" + band_r(D90 - dec - off), ra, dec, D90 - dec - off, 0)
                if 0 <= D90 + dec - off < 180 * PD:
                    add("lands-near-pole/" + band_r(D90 + dec - off), ra, dec, D90 + dec - off, 180 * PD)
    for _ in range(nrand):
        p = rand_point(rng)
        u = rng.random()
        if u < 0.6:
            r = int(rng.uniform(0, 180) * 10 ** 6) * LIMB
        elif u < 0.8:
            r = int(rng.uniform(1, 10) * 10 ** (12 + rng.choice([-9, -7, -5, -3, -1])))
        else:
            r = 180 * PD - int(rng.uniform(1, 10) * 10 ** (12 + rng.choice([-9, -7, -5, -3, -1])))
        t = int(rng.uniform(0, 360) * 10 ** 6) * LIMB + rng.randrange(-400000, 400000)
        t = max(0, min(t, 360 * PD - 1000))
        add("random/" + band_r(r), p[0], p[1], r, t)
    return items


def band_r(r):
    x = r / PD
    if x < 1e-2:
        return "r<1e-2"
    if x <= 179.99:
        return "r-mid"
    return "r>179.99"


# --------------------------------------------------------------------------
# TLC glue
# --------------------------------------------------------------------------
def validate(ctx, module, recs, name, keep=False):
    tf = os.path.join(ctx.workdir, name + ".json")
    byid = {r["id"]: r for r in recs}
    if len(byid) != len(recs):
        raise common.MachineryError("duplicate record ids in batch " + name)
    common.dump_json(tf, recs)
    res = ctx.tlc(module, common.cfg(spec="Spec", post="BatchDone", deadlock=False),
                  name=name, workers=1, env={"TRACE_FILE": tf})
    summary = [p for p in res.printed if "accepted" in p]
    rej = [p for p in res.printed if "fails" in p]
    if not summary or summary[0]["total"] != len(recs) or summary[0]["accepted"] + len(rej) != len(recs):
        raise common.MachineryError("trace batch %s not fully consumed" % name)
    os.remove(tf)
    return [(byid[p["id"]], p["fails"]) for p in rej]


def validate_all(ctx, module, recs, name, size, par=4):
    """validate the chunks with `par` concurrent single-worker TLC processes"""
    from concurrent.futures import ThreadPoolExecutor
    parts = list(common.chunks(recs, size))
    with ThreadPoolExecutor(par) as ex:
        outs = list(ex.map(lambda a: validate(ctx, module, a[1], "%s_%d" % (name, a[0])),
                           enumerate(parts)))
    # the per-job list is appended atomically; recompute the totals from it
    ctx.cov["states"] = sum(j["distinct"] for j in ctx.cov["tlc_jobs"])
    ctx.cov["transitions"] = sum(j["generated"] for j in ctx.cov["tlc_jobs"])
    return [x for o in outs for x in o]


def key_of(rec, fails):
    f = ",".join(fails)
    if rec["kind"] == "fmt":
        return "%s fails=%s input=%s" % (rec["fn"], f, rec["cls"])
    if rec["kind"] == "parse":
        return "%s fails=%s variant=%s" % (rec["fn"], f, rec["variant"])
    if rec["kind"] == "circle":
        return "gcd/bear circle=%s fails=%s %s" % (rec["cls"], f, rec["band"])
    if rec["kind"] == "metric":
        return "gcd metric fails=%s %s" % (f, rec["band"])
    return "translate loop fails=%s %s" % (f, rec["band"])


def mc_cfg(W, stride, design, emit):
    return common.cfg(spec="Spec",
                      constants={"W": W, "Stride": stride, "Design": design, "Emit": emit},
                      invariants=["FieldRanges", "InverseLaw", "ParseIsRound", "RAModulo",
                                  "SignKept", "TextShape"]
                      + (["DesignsAgree"] if design != "naive" else []),
                      deadlock=False)


def selftest(ctx):
    """binding demonstration: accepted records, each corrupted in one field,
    must be rejected with the expected clause; the defective design must
    violate the field-range theorem on the model."""
    res = ctx.tlc("MC_Sexa", mc_cfg(6, 600, "naive", False), name="MC_Sexa_naive_design",
                  must_pass=False)
    if res.violated not in ("FieldRanges", "InverseLaw"):
        raise common.MachineryError("MC_Sexa accepts the no-carry design (violated=%r)" % res.violated)
    g = {"id": "st-good", "kind": "fmt", "fn": "dec2dms", "n": -39599994, "arg": "float", "cls": "x",
         "err": "", "wf": True, "neg": True, "u": 10, "m": 59, "cs": 5999, "text": "-10:59:59.99",
         "rt": True, "yi": -39599990, "ydev": 12}
    h = {"id": "st-good-h", "kind": "fmt", "fn": "dec2hms", "n": 86399996, "arg": "float", "cls": "x",
         "err": "", "wf": True, "neg": False, "u": 0, "m": 0, "cs": 0, "text": "00:00:00.00",
         "rt": True, "yi": 0, "ydev": 0}
    p = {"id": "st-good-p", "kind": "parse", "fn": "dec2dec", "variant": "colon", "text": "-00:30:00.00",
         "neg": True, "u": 0, "m": 30, "cs": 0, "err": "", "yi": -1800000, "ydev": 0}
    batch = [g, h, p,
             dict(g, id="st-sec60", m=59, cs=6000),
             dict(g, id="st-min60", u=9, m=60, cs=5999),
             dict(g, id="st-trunc", cs=5998),
             dict(g, id="st-sign", neg=False),
             dict(g, id="st-rt", yi=-39599984),
             dict(g, id="st-wf", wf=False),
             dict(h, id="st-24h", u=24),
             dict(h, id="st-nowrap", u=23, m=59, cs=5999, yi=86399990),
             dict(p, id="st-parse-sign", yi=1800000)]
    got = {r["id"]: f for r, f in validate(ctx, "Sexa_Trace", batch, "selftest_sexa")}
    want = {"st-sec60": "seconds_below_60", "st-min60": "minutes_below_60",
            "st-trunc": "inverse_within_half_unit", "st-sign": "inverse_within_half_unit",
            "st-rt": "parse_of_format_within_half_unit", "st-wf": "text_well_formed",
            "st-24h": "hours_below_24", "st-nowrap": "inverse_within_half_unit",
            "st-parse-sign": "parse_is_value_of_fields"}
    if set(got) != set(want) or any(want[k] not in got[k] for k in want):
        raise common.MachineryError("Sexa_Trace self-test failed: %r" % got)

    P = lambda a, d: [tl(deg(a)), tl(deg(d))]
    c = {"id": "sg-good-c", "kind": "circle", "mode": "scalar", "cls": "anti", "band": "x",
         "p1": P("12.5", "30"), "p2": P("192.5", "-29.99999"), "d": tl(deg("179.99999")),
         "b": tl(deg("0")), "fin": True, "err": ""}
    e = {"id": "sg-good-e", "kind": "circle", "mode": "scalar", "cls": "equator", "band": "x",
         "p1": P("359.5", "0"), "p2": P("0.5", "0"), "d": tl(deg("1") + 400), "b": tl(deg("90")),
         "fin": True, "err": ""}
    m = {"id": "sg-good-m", "kind": "metric", "mode": "array", "band": "x",
         "P": [P("0", "0"), P("0", "10"), P("0", "30")],
         "D": [[tl(0), tl(deg("10")), tl(deg("30"))], [tl(deg("10")), tl(0), tl(deg("20"))],
               [tl(deg("30")), tl(deg("20")), tl(0)]],
         "Z": [[0, 1, 1], [1, 0, 1], [1, 1, 0]], "fin": True, "err": ""}
    lp = {"id": "sg-good-l", "kind": "loop", "mode": "scalar", "band": "x", "p": P("10", "20"),
          "r": tl(deg("30")), "t": tl(deg("270")), "q": P("0", "0"), "d": tl(deg("30") + 900),
          "b": tl(deg("-90") - 500), "fin": True, "err": "", "argsok": True}
    D2 = [list(map(list, row)) for row in m["D"]]
    D2[0][2] = tl(deg("30") + 5000)
    D3 = [list(map(list, row)) for row in m["D"]]
    D3[0][2] = D3[2][0] = tl(deg("30.00001"))
    batch = [c, e, m, lp,
             dict(c, id="sg-antipodal-lost", d=tl(deg("180"))),
             dict(e, id="sg-nowrap", d=tl(deg("359"))),
             dict(e, id="sg-bearing", b=tl(deg("-90"))),
             dict(m, id="sg-asym", D=D2),
             dict(m, id="sg-triangle", D=D3),
             dict(m, id="sg-zero", Z=[[0, 0, 1], [0, 0, 1], [1, 1, 0]]),
             dict(lp, id="sg-loop-d", d=tl(deg("30") + 40000)),
             dict(lp, id="sg-loop-b", b=tl(deg("90")))]
    got = {r["id"]: f for r, f in validate(ctx, "SphereGeom_Trace", batch, "selftest_geom")}
    want = {"sg-antipodal-lost": "circle_distance_exact", "sg-nowrap": "circle_distance_exact",
            "sg-bearing": "circle_bearing_exact", "sg-asym": "metric_symmetric",
            "sg-triangle": "metric_triangle", "sg-zero": "metric_positive_for_distinct",
            "sg-loop-d": "loop_distance_is_r", "sg-loop-b": "loop_bearing_is_t"}
    if set(got) != set(want) or any(want[k] not in got[k] for k in want):
        raise common.MachineryError("SphereGeom_Trace self-test failed: %r" % got)


def _pool_map(fn, jobs, chunksize):
    with mp.Pool(16, initializer=common.quiet_logging) as pool:
        return pool.map(fn, jobs, chunksize=chunksize)


def split_modes(items, size, scalar_every):
    """array-mode jobs of `size` items + every `scalar_every`-th item again in scalar mode"""
    jobs = [("array", part) for part in common.chunks(items, size)]
    sc = items[::scalar_every]
    jobs += [("scalar", part) for part in common.chunks(sc, max(1, size // 8))]
    return jobs


def run(ctx):
    quick = ctx.tier == "quick"
    rng = random.Random(ctx.seed)

    # ---- 1. the model ------------------------------------------------------
    # unbounded: TLAPS proves the four theorems of the "round, then split" design for every declination and RA
    ctx.cov["tlaps_obligations_proved"] = common.run_tlapm("SexaProof", os.path.join(ctx.workdir, "tlaps"))
    W, stride = (20, 30) if quick else (20, 1)
    res = ctx.tlc("MC_Sexa", mc_cfg(W, stride, "carry", False), name="MC_Sexa", coverage=quick)
    if quick:
        ctx.require_actions(res, ["Format", "Parse"], "MC_Sexa")
    doms = {kind: sexa_domain(kind, W, stride) for kind in ("dms", "hms")}
    if res.distinct != 3 * sum(len(d) for d in doms.values()):
        raise common.MachineryError("the harness' input domain (%d values) is not MC_Sexa's (%d states / 3)"
                                    % (sum(len(d) for d in doms.values()), res.distinct))
    res2 = ctx.tlc("MC_Sexa", mc_cfg(W, 30 if quick else 5, "round", False), name="MC_Sexa_round_design",
                   coverage=True)
    ctx.require_actions(res2, ["Format", "Parse"], "MC_Sexa_round_design")
    emit = ctx.tlc("MC_Sexa", mc_cfg(6, 60 if quick else 20, "carry", True), name="MC_Sexa_emit")
    texts = [p for p in emit.printed if "text" in p]
    if len(texts) < 1000:
        raise common.MachineryError("MC_Sexa emitted only %d texts" % len(texts))
    selftest(ctx)

    # ---- 2. sexagesimal: spec domain + random on the real code --------------
    jobs = []
    k = 0
    for kind in ("dms", "hms"):
        for n in doms[kind]:
            k += 1
            jobs.append((kind, n, ARGTYPES[k % 3]))
        lim = MAX_DEC_FINE if kind == "dms" else TURN_FINE - 1
        for _ in range(15000 if quick else 150000):
            n = rng.randint(-lim if kind == "dms" else 0, lim)
            if abs(n) % 10 == 5:          # rounding tie: direction is not fixed by the property
                n += 1 if n < lim else -1
            jobs.append((kind, n, ARGTYPES[rng.randrange(3)]))
        for d in range(0, 91 if kind == "dms" else 360, 1 if kind == "dms" else 7):   # python ints
            jobs.append((kind, d * FINE_PER_DEG[kind], "int"))
            jobs.append((kind, d * FINE_PER_DEG[kind], ("np.int16", "np.int64", "np.uint8")[d % 3] if d < 256 else "np.int16"))
            if kind == "dms" and d:
                jobs.append((kind, -d * FINE_PER_DEG[kind], "int"))
                jobs.append((kind, -d * FINE_PER_DEG[kind], ("np.int16", "np.int64")[d % 2]))
        # single-precision inputs (a float32 catalogue column)
        for _ in range(3000 if quick else 30000):
            n = rng.randint(-lim if kind == "dms" else 0, lim)
            jobs.append((kind, n, "np.float32"))
    jobs = sorted(set(jobs))
    fmt_recs, seen_ids = [], set()
    for r in _pool_map(observe_fmt, jobs, 500):
        if r is not None and r["id"] not in seen_ids:      # (two single-precision inputs can round to the same value)
            seen_ids.add(r["id"])
            fmt_recs.append(r)
    n_window = sum(1 for r in fmt_recs
                   if min((abs(r["n"]) % FINE_PER_MIN), FINE_PER_MIN - abs(r["n"]) % FINE_PER_MIN) <= W)

    pjobs = []
    for p in texts:
        kind = p["kind"]
        rec = {}
        _split_text(kind, p["text"], rec)
        if not rec.get("wf"):
            raise common.MachineryError("TLC emitted a malformed text %r" % (p,))
        pjobs.append((kind, rec["neg"], rec["u"], rec["m"], rec["cs"], "tlc", p["text"]))
        for v in ("space", "nosign", "short"):
            if (len(pjobs) + len(v)) % 3 == 0:
                pjobs.append((kind, rec["neg"], rec["u"], rec["m"], rec["cs"] - rec["cs"] % 10 if v == "short" else rec["cs"], v, None))
        if rec["cs"] == 0:
            pjobs.append((kind, rec["neg"], rec["u"], rec["m"], 0, "twofield", None))
    for kind in ("dms", "hms"):
        for _ in range(3000 if quick else 30000):
            u = rng.randint(0, 89 if kind == "dms" else 23)
            pjobs.append((kind, kind == "dms" and rng.random() < 0.5, u, rng.randint(0, 59),
                          rng.randint(0, 5999), rng.choice(["colon", "space", "nosign"]), None))
    pjobs = list({(j[0], j[5], j[6] or text_variant(*j[:6])): j for j in pjobs}.values())
    parse_recs = _pool_map(observe_parse, pjobs, 500)

    sexa_recs = fmt_recs + parse_recs
    rejected = validate_all(ctx, "Sexa_Trace", sexa_recs, "sexa_trace", 40000)

    # ---- 3. geometry ---------------------------------------------------------
    circ = circle_lattice(rng, 20 if quick else 400)
    trip = metric_triples(rng, 4000 if quick else 60000)
    loops = loop_lattice(rng, 15000 if quick else 300000)
    crecs = [r for part in _pool_map(observe_circles, split_modes(circ, 2000, 3), 1) for r in part]
    mrecs = [r for part in _pool_map(observe_metric, split_modes(trip, 2000, 5), 1) for r in part]
    lrecs = [r for part in _pool_map(observe_loops, split_modes(loops, 2000, 5), 1) for r in part]
    geom_recs = crecs + mrecs + lrecs
    rejected += validate_all(ctx, "SphereGeom_Trace", geom_recs, "geom_trace", 12000)

    # ---- 4. evidence ---------------------------------------------------------
    allrecs = sexa_recs + geom_recs
    ctx.count(evaluations=len(fmt_recs) * 2 + len(parse_recs) + 2 * len(crecs) + 9 * len(mrecs) + 3 * len(lrecs),
              nontrivial=n_window + len(crecs) + len(mrecs) + len(lrecs) + len(parse_recs),
              traces=len(allrecs))
    ctx.cov["rule"] = ("one trace record per call (chain) of the real angle_tools functions; non-trivial = "
                       "formatter inputs within the carry windows + every parser "
                       "text + every great-circle pair / triple / translate loop")
    ctx.cov["exhaustive"] = True
    ctx.cov["domain"] = {
        "sexagesimal_windows": "every non-tie N within +-%d fine units of minute boundaries k*60000, "
                               "k %% %d = 0 or k %% 60 in {0,59}; dms +-90 deg, hms [0,24h)" % (W, stride),
        "sexagesimal_inputs": len(fmt_recs), "carry_window_inputs": n_window, "parser_texts": len(parse_recs),
        "tlc_emitted_texts": len(texts),
        "exact_circle_pairs": len(crecs), "metric_triples": len(mrecs), "translate_loops": len(lrecs),
        "separations": "1e-9 .. 180 deg incl. 180 - 1e-9", "call_modes": ["array", "scalar"]}
    for pick in (fmt_recs[len(fmt_recs) // 3], crecs[len(crecs) // 2], lrecs[7]):
        ctx.sample({k: v for k, v in pick.items() if k not in ("P", "D", "Z")})
    ctx.assumptions += [
        "exact rounding ties of the printed digit (|N| mod 10 = 5 in units of 1e-3 arcsec / 1e-3 s) are not generated: the property does not fix the tie direction",
        "the documented text format [+-]DD:MM:SS.SS / HH:MM:SS.SS (two decimals) is the 'last printed digit'",
        "formatter arguments are python floats, numpy float64 / float32 scalars, 0-d arrays, python ints and numpy int16 / int64 / uint8 scalars (the formatters are documented for one number); array arguments are exercised on gcd / bear / translate",
        "RA inputs to dec2hms are in [0,360) as in the property's quantifier",
        "inputs are exact two-limb integers passed as the nearest double (<= 3e-14 deg off), far inside the 1e-9 deg tolerance",
        "bearing clauses are evaluated only where the bearing is a well conditioned function of double inputs: separation in [0.01,179.99] deg (loops: r in [0.1,179.9] deg) and the first point >= 1 deg from a pole; bearings are compared modulo 360 deg",
        "translate-loop tolerance is 1e-9 deg absolute or 1e-9 relative, whichever is larger",
        "agreement of gcd with an independent formula away from the exactly known great circles is not decided (residue named in DESIGN.md)"]
    for rec, fails in rejected:
        ctx.violation(key_of(rec, fails), {"record": slim(rec), "fails": fails})


def slim(rec):
    return {k: v for k, v in rec.items()}


def replay(ctx, rec):
    r = rec["detail"]["record"]
    kind = r["kind"]
    if kind == "fmt":
        recs = [x for x in [observe_fmt(("dms" if r["fn"] == "dec2dms" else "hms", r["n"], r["arg"]))] if x is not None]
        mod = "Sexa_Trace"
    elif kind == "parse":
        recs = [observe_parse(("dms" if r["fn"] == "dec2dec" else "hms", r["neg"], r["u"], r["m"],
                               r["cs"], r["variant"], r["text"]))]
        mod = "Sexa_Trace"
    elif kind == "circle":
        recs = observe_circles((r["mode"], [[r["id"].split("/", 2)[2], r["cls"], r["band"],
                                             pd_of(r["p1"][0]), pd_of(r["p1"][1]),
                                             pd_of(r["p2"][0]), pd_of(r["p2"][1])]]))
        mod = "SphereGeom_Trace"
    elif kind == "metric":
        recs = observe_metric((r["mode"], [[r["id"].split("/", 2)[2], r["band"],
                                            [[pd_of(p[0]), pd_of(p[1])] for p in r["P"]]]]))
        mod = "SphereGeom_Trace"
    else:
        recs = observe_loops((r["mode"], [[r["id"].split("/", 2)[2], r["band"], pd_of(r["p"][0]),
                                           pd_of(r["p"][1]), pd_of(r["r"]), pd_of(r["t"])]]))
        mod = "SphereGeom_Trace"
    for rr, fails in validate(ctx, mod, recs, "replay"):
        ctx.violation(key_of(rr, fails), {"record": slim(rr), "fails": fails})
    ctx.count(evaluations=len(recs), nontrivial=1, traces=len(recs))
    ctx.sample(recs[0])
