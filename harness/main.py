"""Entry point of /verif/check."""
import argparse
import importlib
import json
import os
import sys
import traceback

sys.path.insert(0, os.path.dirname(os.path.dirname(os.path.abspath(__file__))))
from harness import common  # noqa: E402

LEVELS = {}


def main():
    ap = argparse.ArgumentParser()
    ap.add_argument("pid")
    ap.add_argument("--tier", default=os.environ.get("VERIF_TIER", "quick"),
                    choices=["quick", "thorough"])
    ap.add_argument("--replay", default=None)
    ap.add_argument("--seed", type=int,
                    default=int(os.environ.get("VERIF_SEED", "0") or 0))
    a = ap.parse_args()
    pid = a.pid.upper()
    common.quiet_logging()
    try:
        mod = importlib.import_module("harness.%s" % pid.lower())
    except ImportError:
        traceback.print_exc()
        print("MACHINERY-ERROR: no harness for %s" % pid)
        return 2
    ctx = common.Ctx(pid, a.tier, a.seed, getattr(mod, "LEVEL", "model_checking"))
    try:
        if a.replay:
            with open(a.replay) as f:
                rec = json.load(f)
            mod.replay(ctx, rec)
        else:
            mod.run(ctx)
    except common.MachineryError as e:
        print("MACHINERY-ERROR: %s" % e)
        ctx.notes["machinery_error"] = str(e)[:2000]
        ctx.finish()
        return 2
    except Exception:
        traceback.print_exc()
        print("MACHINERY-ERROR: unexpected exception in harness")
        ctx.finish()
        return 2
    rc = ctx.finish()
    print("%s tier=%s seed=%d: %s (%d violation(s), %d known finding(s)) in %.1fs" % (
        pid, a.tier, a.seed, "FAIL" if rc else "PASS", len(ctx.violations),
        len(ctx.known), common.time.time() - ctx.t0))
    return rc


if __name__ == "__main__":
    sys.exit(main())
