"""
C04 - model derivatives and per-parameter 1-sigma errors are the true ones.

model  : spec/FitParams.tla (declarative FreeOrder / JacRows / Assign) and
         spec/MC_FitParams.tla (TLC: the walking design of fitting.jacobian /
         covar_errors realises them for EVERY vary pattern of 1 and 2
         components and a covering sample Masks^3, Masks^4; negative control:
         a per-component restart of the sigma index violates StderrThm).
         The MC job emits every vary pattern; they are the inputs replayed on
         the real code.
binding: for each emitted pattern (and for seeded random models / masks) the
         real fitting.jacobian, lmfit_jacobian and covar_errors are called; the
         observations are projected to integers:
           * which (component, parameter) each Jacobian row differentiates
             (shape match against central differences of the code's own model
             function for every candidate) and the ppm deviation from it,
           * lmfit_jacobian against J, J/errs, J.B,
           * which entry of sqrt(diag(inv(Fisher))) (recomputed from the
             code's own Jacobian and the call's noise model) each parameter's
             stderr now holds,
         and TLC validates every record against spec/FitParams_Trace.tla.
"""
import copy
import math
import multiprocessing as mp
import os
import random

import numpy as np

from harness import common

LEVEL = "model_checking"

PN = ['amp', 'xo', 'yo', 'sx', 'sy', 'theta']
NP = 6
H = 1e-4                 # finite-difference step, parameter's own units
BIG = 2 ** 31 - 1
MODES = ["plain", "errs", "errsvec", "B", "C"]
MAX_ATTEMPTS = 40


def _init():
    common.quiet_logging()


# --------------------------------------------------------------------------
# input generation (pure functions of the seed)
# --------------------------------------------------------------------------
def gen_case(seed, ncomp):
    """model parameters, pixel grid and mask, noise model; the property's
    quantifier: amp in +-[0.1, 50], sx/sy in [1.2, 4] differing by >= 20 %,
    theta in (-180, 180] at least 5 deg away from multiples of 90 deg."""
    rng = random.Random(seed)
    ny = rng.randint(10, 12) + ncomp
    nx = rng.randint(10, 12) + ncomp
    comps = []
    for i in range(ncomp):
        for _ in range(200):
            xo = rng.uniform(2.5, ny - 3.5)
            yo = rng.uniform(2.5, nx - 3.5)
            if all(math.hypot(xo - c[1], yo - c[2]) >= 2.5 for c in comps):
                break
        amp = rng.choice([-1, 1]) * math.exp(rng.uniform(math.log(0.1), math.log(50)))
        while True:
            sx, sy = rng.uniform(1.2, 4), rng.uniform(1.2, 4)
            if max(sx, sy) / min(sx, sy) >= 1.2:
                break
        while True:
            theta = rng.uniform(-180, 180)
            r = abs(theta) % 90
            if 5 <= r <= 85 and theta != -180:
                break
        comps.append([amp, xo, yo, sx, sy, theta])
    frac = rng.choice([0, 0, 0.1, 0.25])
    mask = [[rng.random() >= frac for _ in range(nx)] for _ in range(ny)]
    errs = math.exp(rng.uniform(math.log(0.2), math.log(5)))
    errsvec_seed = rng.randint(0, 10 ** 9)
    while True:
        bsx, bsy = rng.uniform(0.5, 1.0), rng.uniform(0.5, 1.0)
        if abs(bsx - bsy) > 0.05:
            break
    bth = rng.uniform(-90, 90)
    return {"comps": comps, "shape": (ny, nx), "mask": mask, "errs": errs,
            "errsvec_seed": errsvec_seed, "beam": (bsx, bsy, bth)}


def make_params(comps, vary, via):
    import lmfit
    p = lmfit.Parameters()
    entries = [('c%d_%s' % (i, n), float(val), bool(vv)) for i, (c, v) in enumerate(zip(comps, vary))
               for n, val, vv in zip(PN, c, v)]
    # the order in which a caller happens to add the entries to the Parameters object is not part of the model:
    if via == "bykind":          # c0_amp, c1_amp, ..., c0_xo, c1_xo, ...
        entries.sort(key=lambda e: (PN.index(e[0].split('_', 1)[1]), int(e[0][1:].split('_')[0])))
    elif via == "shapefirst":    # per component: sx, sy, theta, amp, xo, yo; last component first
        order = {n: k for k, n in enumerate(list(PN[3:]) + list(PN[:3]))}
        entries.sort(key=lambda e: (-int(e[0][1:].split('_')[0]), order[e[0].split('_', 1)[1]]))
    if via in ("bykind", "shapefirst"):
        p.add('components', value=len(comps), vary=False)
    for name, val, vv in entries:
        p.add(name, value=val, vary=vv)
    if via not in ("bykind", "shapefirst"):
        p.add('components', value=len(comps), vary=False)
    if via == "deepcopy":       # what do_lmfit / lmfit.minimize hand on
        p = copy.deepcopy(p)
    return p


def sentinel(i, p):
    return 1000.0 + 10 * i + p


def to_ppm(x):
    if x is None or not np.isfinite(x):
        return BIG
    return int(min(BIG, round(float(x) * 1e6)))


def reldev(a, ref):
    a = np.asarray(a, dtype=float)
    ref = np.asarray(ref, dtype=float)
    if a.shape != ref.shape or a.size == 0:
        return BIG
    m = np.max(np.abs(ref))
    if not np.isfinite(m) or m == 0:
        return BIG
    return to_ppm(np.max(np.abs(a - ref)) / m)


def fd_candidates(fitting, params, x, y, ncomp):
    """central differences of the code's own model function for every
    (component, parameter), free or not; candidate c = 6*i + p (0-based)."""
    out = []
    for i in range(ncomp):
        for n in PN:
            par = params['c%d_%s' % (i, n)]
            v0 = par.value
            par.value = v0 + H
            fp = np.array(fitting.ntwodgaussian_lmfit(params)(x, y), dtype=float)
            par.value = v0 - H
            fm = np.array(fitting.ntwodgaussian_lmfit(params)(x, y), dtype=float)
            par.value = v0
            out.append((fp - fm) / (2 * H))
    return out


def usable(cands, vary):
    """identifiability of the generated input (independent of the code's
    Jacobian): candidate derivative shapes pairwise distinct, Fisher matrix of
    the free candidates regular."""
    A = np.array(cands)
    if not np.all(np.isfinite(A)):
        return False
    nrm = np.sqrt((A * A).sum(axis=1))
    if np.any(nrm == 0):
        return False
    U = A / nrm[:, None]
    G = U.dot(U.T)
    np.fill_diagonal(G, 0)
    if np.max(G * G) > 0.98:
        return False
    free = [NP * i + p for i, v in enumerate(vary) for p in range(NP) if v[p]]
    if free:
        Uf = U[free]
        if np.linalg.cond(Uf.dot(Uf.T)) > 1e8:
            return False
    return True


def identify_rows(J, cands):
    rowmap, shape_ppm, dev_ppm = [], [], []
    C = np.array(cands)
    cn = (C * C).sum(axis=1)
    for k in range(J.shape[0]):
        r = np.asarray(J[k], dtype=float)
        rn = float((r * r).sum())
        if not np.all(np.isfinite(r)) or rn == 0:
            rowmap.append(0)
            shape_ppm.append(BIG)
            dev_ppm.append(BIG)
            continue
        cos2 = (C.dot(r)) ** 2 / (cn * rn)
        c = int(np.argmax(cos2))
        rowmap.append(c + 1)
        shape_ppm.append(to_ppm(max(0.0, 1.0 - cos2[c])))
        dev_ppm.append(to_ppm(np.max(np.abs(r - C[c])) / np.max(np.abs(r))))
    return rowmap, shape_ppm, dev_ppm


# --------------------------------------------------------------------------
# one job = one (vary pattern, seed): a handful of records
# --------------------------------------------------------------------------
def observe(job):
    from AegeanTools import fitting
    from scipy.linalg import inv
    jid, vary, seed, modes, via, dowrap = job
    ncomp = len(vary)
    nfree = sum(sum(1 for b in v if b) for v in vary)
    base = {"ncomp": ncomp, "vary": [[bool(b) for b in v] for v in vary],
            "seed": seed, "via": via, "err": ""}
    # ---- a usable input (regenerated deterministically) -------------------
    case = None
    for att in range(MAX_ATTEMPTS):
        c = gen_case(seed * 1000 + att, ncomp)
        data = np.where(np.array(c["mask"]), 1.0, np.nan)
        x, y = np.where(np.isfinite(data))
        pf = make_params(c["comps"], vary, "fresh")
        cands = fd_candidates(fitting, pf, x, y, ncomp)
        if len(x) >= 6 * ncomp + 20 and usable(cands, vary):
            case = c
            break
    if case is None:
        return [dict(base, id=jid + "/gen", kind="none", attempt=-1)]
    base["attempt"] = att
    base["npix"] = int(len(x))
    recs = []

    # ---- jac ---------------------------------------------------------------
    rec = dict(base, id=jid + "/jac", kind="jac", fn="jacobian", nrows=0, npix_ok=True,
               rowmap=[], shape_ppm=[], dev_ppm=[])
    J = None
    try:
        params = make_params(case["comps"], vary, via)
        Jraw = fitting.jacobian(params, x, y)
        J = np.asarray(Jraw, dtype=float)
        if J.size == 0:
            J = J.reshape(0, len(x))
        if J.ndim != 2 or J.shape[1] != len(x):
            rec["npix_ok"] = False
            rec["nrows"] = int(J.shape[0]) if J.ndim >= 1 else 0
            J = None
        else:
            rec["nrows"] = int(J.shape[0])
            rec["rowmap"], rec["shape_ppm"], rec["dev_ppm"] = identify_rows(J, cands)
    except Exception as e:
        rec["err"] = "%s: %s" % (type(e).__name__, e)
        J = None
    recs.append(rec)
    if nfree == 0:
        return recs

    ny, nx = case["shape"]
    errs = case["errs"]
    evec = np.exp(np.random.RandomState(case["errsvec_seed"] % (2 ** 31)).uniform(
        math.log(0.3), math.log(3), size=len(x)))
    B = C = None
    if dowrap or "B" in modes or "C" in modes:
        bsx, bsy, bth = case["beam"]
        C = fitting.Cmatrix(x, y, bsx, bsy, bth)
        B = fitting.Bmatrix(C)

    # ---- wrap --------------------------------------------------------------
    if dowrap:
        rec = dict(base, id=jid + "/wrap", kind="wrap", shape=[], plain_ppm=BIG, errs_ppm=BIG,
                   errsvec_ppm=BIG, B_ppm=BIG, errsB_ppm=BIG)
        try:
            params = make_params(case["comps"], vary, via)
            L = fitting.lmfit_jacobian(params, x, y)
            if J is None:
                raise RuntimeError("fitting.jacobian gave no matrix to compare with")
            rec["shape"] = [int(s) for s in np.shape(L)]
            rec["plain_ppm"] = reldev(np.transpose(L), J)
            rec["errs_ppm"] = reldev(np.transpose(fitting.lmfit_jacobian(params, x, y, errs=errs)), J / errs)
            rec["errsvec_ppm"] = reldev(np.transpose(fitting.lmfit_jacobian(params, x, y, errs=evec)), J / evec)
            rec["B_ppm"] = reldev(np.transpose(fitting.lmfit_jacobian(params, x, y, B=B)), J.dot(B))
            rec["errsB_ppm"] = reldev(np.transpose(fitting.lmfit_jacobian(params, x, y, errs=errs, B=B)),
                                      (J / errs).dot(B))
        except Exception as e:
            rec["err"] = "%s: %s" % (type(e).__name__, e)
        recs.append(rec)

    # ---- cov ---------------------------------------------------------------
    for mode in modes:
        rec = dict(base, id=jid + "/cov-" + mode, kind="cov", mode=mode, stdidx=[], ambiguous=False)
        kw = {"plain": dict(errs=None, B=None), "errs": dict(errs=errs, B=None),
              "errsvec": dict(errs=evec, B=None), "B": dict(errs=errs, B=B),
              "C": dict(errs=errs, B=B, C=C)}[mode]
        try:
            params = make_params(case["comps"], vary, via)
            for i in range(ncomp):
                for p, n in enumerate(PN):
                    params['c%d_%s' % (i, n)].stderr = sentinel(i, p)
            after = fitting.covar_errors(params, data, **kw)
            # one-sigma vector of the Fisher matrix built from the code's own
            # Jacobian and this call's noise model
            pr = make_params(case["comps"], vary, via)
            if mode == "C":
                Jl = fitting.lmfit_jacobian(pr, x, y, errs=errs)
                fisher = np.transpose(Jl).dot(inv(C)).dot(Jl)
            else:
                Jl = fitting.lmfit_jacobian(pr, x, y, errs=kw["errs"], B=kw["B"])
                fisher = np.transpose(Jl).dot(Jl)
            with np.errstate(all="ignore"):
                sigma = np.sqrt(np.diag(inv(fisher)))
            sg = np.where(np.isfinite(sigma), sigma, -1.0)
            srt = np.sort(sg)
            if len(srt) > 1 and np.min(np.abs(np.diff(srt)) / np.maximum(np.abs(srt[1:]), 1e-300)) < 1e-6:
                rec["ambiguous"] = True
            for i in range(ncomp):
                row = []
                for p, n in enumerate(PN):
                    s = after['c%d_%s' % (i, n)].stderr
                    if s is not None and float(s) == sentinel(i, p):
                        row.append(0)
                        continue
                    k = -1
                    if s is not None and np.isfinite(s):
                        for q in range(len(sigma)):
                            if np.isfinite(sigma[q]) and (s == sigma[q] or
                                                          abs(s - sigma[q]) <= 1e-9 * abs(sigma[q])):
                                k = q + 1
                                break
                    row.append(k)
                rec["stdidx"].append(row)
        except Exception as e:
            rec["err"] = "%s: %s" % (type(e).__name__, e)
        recs.append(rec)
    return recs


# --------------------------------------------------------------------------
# TLC side
# --------------------------------------------------------------------------
INVARIANTS = ["WellFormedThm", "LenThm", "InjThm", "OntoThm", "CharThm", "AssignTotalThm",
              "NoInheritThm", "RowsThm", "StderrThm", "CountThm"]


def model_check(ctx, quick):
    consts = {"MaxExh": 2, "M3": 8, "M4": 4 if quick else 8,
              "RestartPerComponent": False, "Emit": True}
    res = ctx.tlc("MC_FitParams", common.cfg(spec="Spec", constants=consts, invariants=INVARIANTS,
                                             deadlock=False), coverage=True)
    ctx.require_actions(res, ["VisitFree", "VisitFixed", "NextComponent", "Finish"], "MC_FitParams")
    pats = [p for p in res.printed if isinstance(p, dict) and "vary" in p]
    expect = 64 + 4096 + consts["M3"] ** 3 + consts["M4"] ** 4
    if len(pats) != expect:
        raise common.MachineryError("MC_FitParams emitted %d patterns, expected %d" % (len(pats), expect))
    # negative control: the per-component restart must be refuted by TLC
    neg = ctx.tlc("MC_FitParams", common.cfg(
        spec="Spec", constants=dict(consts, RestartPerComponent=True, Emit=False, M3=0, M4=0),
        invariants=["StderrThm"], deadlock=False), name="MC_FitParams_restart", must_pass=False)
    if neg.violated != "StderrThm":
        raise common.MachineryError("negative control: restart design not refuted (violated=%r)" % neg.violated)
    ctx.cov["tlc_jobs"][-1]["expected_violation"] = "StderrThm"
    pats.sort(key=lambda p: (len(p["vary"]), p["vary"]))
    return pats


def validate(ctx, recs, name):
    tf = os.path.join(ctx.workdir, name + ".json")
    byid = {r["id"]: r for r in recs}
    if len(byid) != len(recs):
        raise common.MachineryError("duplicate record ids in batch " + name)
    common.dump_json(tf, recs)
    res = ctx.tlc("FitParams_Trace", common.cfg(spec="Spec", post="BatchDone", deadlock=False),
                  name=name, workers=1, env={"TRACE_FILE": tf})
    summary = [p for p in res.printed if isinstance(p, dict) and "accepted" in p]
    rej = [p for p in res.printed if isinstance(p, dict) and "fails" in p]
    if not summary or summary[0]["total"] != len(recs) or summary[0]["accepted"] + len(rej) != len(recs):
        raise common.MachineryError("trace batch %s not fully consumed" % name)
    os.remove(tf)
    return [(byid[p["id"]], p["fails"]) for p in rej]


def selftest(ctx, pats):
    """good records synthesised from a TLC-emitted pattern must be accepted,
    each single-field corruption must be rejected with the right clause."""
    want = [[True, False, True, False, True, True], [False, True, True, False, False, True]]
    pat = [p for p in pats if p["vary"] == want]
    if not pat:
        raise common.MachineryError("self-test pattern not emitted by MC_FitParams")
    order = pat[0]["order"]                     # TLC's FreeOrder as candidate indices
    n = len(order)
    idx = [[(order.index(NP * i + p + 1) + 1) if (NP * i + p + 1) in order else 0
            for p in range(NP)] for i in range(2)]
    b = {"ncomp": 2, "vary": want, "seed": 0, "via": "fresh", "err": "", "npix": 100}
    gj = dict(b, id="st-jac", kind="jac", nrows=n, npix_ok=True, rowmap=list(order),
              shape_ppm=[0] * n, dev_ppm=[10] * n)
    gw = dict(b, id="st-wrap", kind="wrap", shape=[100, n], plain_ppm=0, errs_ppm=0, errsvec_ppm=1,
              B_ppm=0, errsB_ppm=10)
    gc = dict(b, id="st-cov", kind="cov", mode="errs", stdidx=idx)
    sw = list(order)
    sw[1], sw[2] = sw[2], sw[1]
    restart = [list(idx[0]), [0] * NP]
    # per-component restart: component 2's free parameters get 1, 2, 3
    j = 0
    for p in range(NP):
        if want[1][p]:
            j += 1
            restart[1][p] = j
        else:
            restart[1][p] = 0
    keep = [list(idx[0]), list(idx[1])]
    keep[0][1] = 2                               # fixed parameter overwritten
    bad = [
        (dict(gj, id="st-order", rowmap=sw), "row_order"),
        (dict(gj, id="st-count", nrows=n - 1, rowmap=order[:-1], dev_ppm=[0] * (n - 1)), "row_count"),
        (dict(gj, id="st-theta", dev_ppm=[0] * (n - 1) + [11]), "jacobian_fd_theta"),
        (dict(gj, id="st-amp", dev_ppm=[982547] + [0] * (n - 1)), "jacobian_fd_amp"),
        (dict(gj, id="st-ident", rowmap=[0] + order[1:]), "rows_identified"),
        (dict(gj, id="st-err", err="TypeError: x"), "jacobian_completed"),
        (dict(gw, id="st-B", B_ppm=11), "whitening_J_times_B"),
        (dict(gw, id="st-errs", errs_ppm=500000), "errs_divide_once"),
        (dict(gw, id="st-shape", shape=[n, 100]), "lmfit_shape_npix_by_nfree"),
        (dict(gc, id="st-restart", stdidx=restart), "stderr_own_fisher_entry_later_components"),
        (dict(gc, id="st-nomatch", stdidx=[[-1 if v else 0 for v in idx[0]], idx[1]]),
         "stderr_own_fisher_entry_first_component"),
        (dict(gc, id="st-keep", stdidx=keep), "fixed_parameters_keep_stderr"),
        (dict(gc, id="st-coverr", err="AttributeError: y"), "covar_errors_completed"),
    ]
    rej = validate(ctx, [gj, gw, gc] + [r for r, _ in bad], "selftest")
    got = {r["id"]: f for r, f in rej}
    for g in ("st-jac", "st-wrap", "st-cov"):
        if g in got:
            raise common.MachineryError("self-test: conforming record %s rejected: %r" % (g, got[g]))
    for r, clause in bad:
        if r["id"] not in got or clause not in got[r["id"]]:
            raise common.MachineryError("self-test: corrupted record %s not rejected by %s (got %r)"
                                        % (r["id"], clause, got.get(r["id"])))


def key_of(rec, fails):
    nc = "1" if rec["ncomp"] == 1 else "2+"
    k = "%s ncomp=%s via=%s" % (rec["kind"], nc, rec["via"])
    if rec["kind"] == "cov":
        k += " mode=%s" % rec["mode"]
    return k + " fails=" + ",".join(fails)


def small(rec):
    return {k: v for k, v in rec.items()}


def make_jobs(ctx, pats, quick):
    rng = random.Random(ctx.seed)
    jobs = []
    # (1) every TLC-emitted pattern
    for n, p in enumerate(pats):
        v = p["vary"]
        modes = [MODES[n % 5]] if quick else list(MODES)
        dowrap = (n % 4 == 0) if quick else True
        jobs.append(("pat%05d" % n, v, rng.randint(1, 10 ** 6), modes, "fresh", dowrap))
    # (2) seeded random models / masks / subsets, 1-4 components
    nrand = 800 if quick else 20000
    for n in range(nrand):
        ncomp = 1 + n % 4
        while True:
            v = [[rng.random() < 0.7 for _ in range(NP)] for _ in range(ncomp)]
            if any(any(r) for r in v):
                break
        modes = [rng.choice(MODES)] if quick else rng.sample(MODES, 2)
        jobs.append(("rnd%05d" % n, v, rng.randint(1, 10 ** 6), modes, ("fresh", "fresh", "bykind", "shapefirst")[n // 4 % 4], True))
    # (3) the parameter objects the optimiser / pipeline actually hands over
    #     (do_lmfit and lmfit.minimize deep-copy the Parameters)
    for n, v in enumerate([[[True] * 6], [[True] * 6, [True, True, True, False, False, False]],
                           [[True, True, True, False, False, False]] * 3]):
        jobs.append(("cpy%02d" % n, v, rng.randint(1, 10 ** 6), ["errs", "B"], "deepcopy", True))
    return jobs


def probe_singular(ctx):
    """informational only (no verdict, the property is silent here): what
    covar_errors does when no inverse Fisher matrix exists."""
    try:
        from AegeanTools import fitting
        c = [3.0, 5.2, 4.7, 2.5, 1.5, 30.0]
        v = [True, False, False, False, False, False]
        for tag, comps in (("identical_components", [c, c]),
                           ("nan_model", [c, [3.0, float("nan"), 4.7, 2.5, 1.5, 30.0]])):
            p = make_params(comps, [v, v], "fresh")
            try:
                after = fitting.covar_errors(p, np.ones((10, 10)), errs=1.0, B=None)
                ctx.notes["singular_fisher_probe_" + tag] = "returned; stderr=%r" % (
                    [float(after['c%d_amp' % i].stderr) for i in range(2)],)
            except Exception as e:
                ctx.notes["singular_fisher_probe_" + tag] = "raised %s: %s" % (type(e).__name__, e)
    except Exception as e:
        ctx.notes["singular_fisher_probe"] = "probe failed: %r" % (e,)


def drive(ctx, jobs):
    with mp.Pool(16, initializer=_init) as pool:
        out = pool.map(observe, jobs, chunksize=4)
    recs = [r for rs in out for r in rs]
    nogen = [r for r in recs if r["kind"] == "none"]
    if len(nogen) > max(2, len(jobs) // 100):
        raise common.MachineryError("input generator found no identifiable model for %d of %d jobs"
                                    % (len(nogen), len(jobs)))
    recs = [r for r in recs if r["kind"] != "none"]
    amb = [r for r in recs if r.get("ambiguous")]
    recs = [r for r in recs if not r.get("ambiguous")]
    return recs, len(nogen), len(amb)


def run(ctx):
    quick = ctx.tier == "quick"
    pats = model_check(ctx, quick)
    selftest(ctx, pats)
    jobs = make_jobs(ctx, pats, quick)
    jobidx = {j[0]: j for j in jobs}
    recs, nogen, namb = drive(ctx, jobs)
    rejected = []
    for i, part in enumerate(common.chunks(recs, 6000)):
        rejected += validate(ctx, part, "fitparams_trace_%d" % i)
    probe_singular(ctx)
    kinds = {}
    for r in recs:
        kinds[r["kind"]] = kinds.get(r["kind"], 0) + 1
    ctx.count(evaluations=len(recs),
              nontrivial=len({(str(r["vary"]), r["kind"], r.get("mode"), r["via"]) for r in recs}),
              traces=len(recs))
    ctx.cov["rule"] = ("one trace record per call of fitting.jacobian ('jac'), per lmfit_jacobian "
                       "comparison set ('wrap') and per covar_errors call ('cov'); distinct = distinct "
                       "(vary pattern, record kind, noise-model mode, parameter-object origin)")
    ctx.cov["exhaustive"] = True
    ctx.cov["domain"] = {"vary_patterns_exhaustive": "1 and 2 components (64 + 4096)",
                         "vary_patterns_sample": "8 masks ^3, %d masks ^4" % (4 if quick else 8),
                         "random_jobs": sum(1 for j in jobs if j[0].startswith("rnd")),
                         "records_by_kind": kinds, "jobs_without_identifiable_input": nogen,
                         "cov_records_dropped_sigma_ties": namb}
    ok = [r for r in recs if r["kind"] == "jac" and r["ncomp"] == 2 and len(r["rowmap"]) > 3]
    if ok:
        ctx.sample({k: ok[0][k] for k in ("id", "vary", "nrows", "rowmap", "shape_ppm", "dev_ppm", "err")})
    okc = [r for r in recs if r["kind"] == "cov" and r["ncomp"] >= 2]
    if okc:
        ctx.sample({k: okc[len(okc) // 2][k] for k in ("id", "vary", "mode", "stdidx", "err")})
    okw = [r for r in recs if r["kind"] == "wrap"]
    if okw:
        ctx.sample({k: v for k, v in okw[0].items() if k not in ("seed", "attempt")})
    ctx.assumptions += [
        "'true partial derivative' = central difference (h=1e-4, parameter's own units) of the code's own "
        "model function ntwodgaussian_lmfit; tolerance 10 ppm of the row's largest entry",
        "generated models are regenerated (deterministically) until the candidate derivative shapes are pairwise "
        "distinct (1-cos^2 > 0.02), the Fisher matrix of the free parameters has condition < 1e8 on unit-normalised "
        "rows and at least 6*ncomp+20 pixels are unmasked; cov records whose sigma entries tie to 1e-6 are dropped",
        "amp in +-[0.1,50], sx/sy in [1.2,4] differing >= 20 %, theta >= 5 deg from multiples of 90 deg, "
        "component centres >= 2.5 px apart, correlation (beam) sigma 0.5-1.0 px",
        "lmfit_jacobian / covar_errors are exercised with at least one free parameter",
        "stderr identification: bitwise or 1e-9 relative equality with sqrt(diag(inv(Fisher))) recomputed from the "
        "code's own lmfit_jacobian output (scipy.linalg.inv)",
    ]
    for rec, fails in rejected:
        job = jobidx[rec["id"].rsplit("/", 1)[0]]
        ctx.violation(key_of(rec, fails), {"job": list(job), "record": small(rec), "fails": fails})


def replay(ctx, rec):
    d = rec["detail"]
    job = tuple(d["job"])
    want = d["record"]["id"]
    _init()
    recs = [r for r in observe(job) if r["id"] == want]
    if not recs:
        raise common.MachineryError("replay: record %s not reproduced" % want)
    for rr, fails in validate(ctx, recs, "replay"):
        ctx.violation(key_of(rr, fails), {"job": list(job), "record": small(rr), "fails": fails})
    ctx.count(evaluations=len(recs), nontrivial=1, traces=len(recs))
    ctx.sample(recs[0])
