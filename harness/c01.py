"""
C01 - closed loop: an injected isolated Gaussian is found and characterised.

model  : spec/Recovery.tla (Report(Inject(src)) = {src}, tolerances of the
         property as integer predicates), spec/MC_RecoveryConfig.tla (TLC
         enumerates the discrete configuration lattice: projection x docov x
         forced/internal bkg-rms x cores x dec zone x RA class x pixel scale x
         beam class x noise = 4800 admissible configurations).
binding: for each selected configuration the harness draws the continuous
         parameters from the seed, defines the ellipse ON THE SKY, converts it
         to pixel space with astropy + its own small-circle offsets
         (harness/synth.py, independent of AegeanTools), renders it, runs the
         real SourceFinder.find_sources_in_image (and the aegean CLI for a
         subset), projects the reported row back with astropy and logs integer
         deviations; TLC validates the records (spec/Recovery_Trace.tla).
"""
import contextlib
import io
import math
import multiprocessing as mp
import os
import random

import numpy as np

from harness import common, synth

LEVEL = "exploration"


def continuous(conf, seed):
    """seeded continuous parameters of one configuration."""
    rng = random.Random(seed)
    scale = float(conf["scale"])
    beam_px = rng.uniform(3.0, 4.5)
    if conf["beam"] == "circ":
        bmaj = bmin = beam_px * scale
        bpa = 0.0
    else:
        bmin = 3.0 * scale
        bmaj = 2.0 * bmin
        # the header may give the same position angle in any equivalent form, and beams a few degrees
        # either side of the class value
        bpa = {"2to1pa0": 0.0, "2to1pa45": 45.0, "2to1pa120": 120.0}[conf["beam"]]
        bpa += rng.choice([0.0, 0.0, 180.0, -180.0]) + rng.choice([0.0, 0.0, 5.0, -5.0])
    kind = rng.choice(["point", "extended", "extended"] + (["crossed", "compact"] if conf["beam"] != "circ" else []))
    if kind == "point":
        a, b, pa = bmaj, bmin, bpa
    elif kind == "compact":
        # each axis at least the corresponding beam axis (a >= bmaj, b >= bmin) at ANY orientation, in particular
        # across the beam: the fit has to exchange the roles of its two widths
        kind = "extended"
        a = bmaj * rng.uniform(1.0, 1.3)
        b = bmin * rng.uniform(1.0, 1.3)
        pa = ((bpa + rng.choice([90.0, 90.0, 0.0, 40.0, 75.0]) + rng.uniform(-10, 10) + 90.0) % 180.0) - 90.0
    elif kind == "crossed":
        # elongated across the beam: the fitted minor axis has to grow well beyond the beam
        kind = "extended"
        b = bmaj * rng.uniform(1.0, 1.2)
        a = b * rng.uniform(2.5, 4.0)
        pa = ((bpa + 90.0 + rng.uniform(-10, 10) + 90.0) % 180.0) - 90.0
    else:
        b = bmaj * rng.uniform(1.0, 1.5)
        a = b * rng.choice([1.0, rng.uniform(1.05, 2.0), rng.uniform(1.05, 2.0), rng.uniform(2.0, 4.0)])
        pa = rng.uniform(-89.9, 90.0)
    internal = conf["bkgrms"] == "internal"
    size = 300 if internal else (160 if a / scale > 30 else 96)
    phase = rng.choice([(0.0, 0.0), (0.5, 0.5), (0.5, 0.0), (rng.random(), rng.random()), (rng.random(), rng.random())])
    x0 = size // 2 + rng.randint(-12, 12) + phase[0]
    y0 = size // 2 + rng.randint(-12, 12) + phase[1]
    # with noise the 5-sigma clause relies on linear (Fisher) error propagation: S/N >= 30
    lo = 30.0 if conf["noise"] else 10.0
    amp = math.exp(rng.uniform(math.log(lo), math.log(200.0 if internal else 1000.0)))
    if rng.random() < 0.5:       # both polarities equally often (the amplitude limits differ by sign in the code)
        amp = -amp
    ra0 = 30.0 if conf["ra"] == "generic" else 359.99
    return {"scale": scale, "beam": (bmaj, bmin, bpa), "a": a, "b": b, "pa": pa, "size": size,
            "x0": x0, "y0": y0, "amp": amp, "phase": ("half-half" if phase == (0.5, 0.5) else "half-int" if phase == (0.5, 0.0)
                                                     else "int-int" if phase == (0.0, 0.0) else "generic"), "crval": (ra0, float(conf["dec"])), "kind": kind,
            "noise_seed": rng.randint(0, 2 ** 31)}


def correlated_noise(shape, beam_pix, seed):
    """unit-variance Gaussian noise correlated on the beam scale."""
    from scipy.signal import fftconvolve
    rng = np.random.default_rng(seed)
    white = rng.normal(0, 1, (shape[0] + 40, shape[1] + 40))
    sx, sy, th = beam_pix
    k = synth.render((41, 41), [(1.0, 20.0, 20.0, sx / math.sqrt(2), sy / math.sqrt(2), th)])
    out = fftconvolve(white, k, mode="same")[20:-20, 20:-20]
    return out / out.std()


COARSE = [(sign, bp, ph, None) for sign in (1, -1) for bp in (3.0, 3.3, 3.6)
          for ph in ((0.5, 0.5), (0.45, 0.55), (0.5, 0.25))] + \
         [(sign, 3.0, ph, bpa) for sign in (1, -1) for bpa in (0.0, 90.0)
          for ph in ((0.5, 0.0), (0.0, 0.5), (0.45, 0.05))]       # 2:1 beams: only the minor axis is coarsely sampled


def coarse(conf, seed, k):
    """the coarsest admissible sampling: a point source of either sign under a round beam of 3.0-3.6 pixels, centred
    on or near a pixel corner (the brightest pixel is up to 15 % below the true peak)."""
    p = continuous(dict(conf, beam="circ"), seed)
    sign, bp, ph, bpa = COARSE[k % len(COARSE)]
    b = bp * p["scale"]
    a = b if bpa is None else 2.0 * b
    p.update(beam=(a, b, bpa or 0.0), a=a, b=b, pa=bpa or 0.0, kind="point", amp=sign * 2000.0,
             x0=int(p["x0"]) + ph[0], y0=int(p["y0"]) + ph[1],
             phase="half-half" if ph == (0.5, 0.5) else "generic")
    return p


ACROSS = [(ratio, amp, elong, off) for ratio in (3.0, 4.0) for amp in (15.0, 60.0) for elong in (False, True)
          for off in (0.0, 10.0)]


def across(conf, seed, k):
    """an elongated source lying ACROSS the beam's major axis (for a round beam: East-West, along a pixel axis) at
    modest peak / rms: the fit has to let its second width grow to the source's length within an island that is
    much longer than high."""
    p = continuous(dict(conf, beam="circ"), seed)
    ratio, amp, elong, off = ACROSS[k % len(ACROSS)]
    sc = p["scale"]
    beam = (6.0 * sc, 3.0 * sc, 0.0) if elong else (3.5 * sc, 3.5 * sc, 0.0)
    b = beam[0] * 1.05
    a = b * ratio
    p.update(beam=beam, a=a, b=b, pa=((90.0 + off + 90.0) % 180.0) - 90.0, kind="extended", amp=amp * (-1 if k % 3 == 0 else 1),
             size=(160 if a / sc > 30 else 96))
    p["x0"] = p["size"] // 2 + (p["x0"] - int(p["x0"]))
    p["y0"] = p["size"] // 2 + (p["y0"] - int(p["y0"]))
    return p


NARROW = [(amp, pa, ph) for amp in (10.5, 12.0) for pa in (0.0, 90.0) for ph in ((0.0, 0.0), (0.5, 0.0))]


def narrow(conf, seed, k):
    """a faint elongated source as narrow as a 3 pixel beam, along a pixel axis: its island is exactly three pixels
    wide - the narrowest island that is still fitted with all its shape parameters free."""
    p = continuous(dict(conf, beam="circ"), seed)
    amp, pa, ph = NARROW[k % len(NARROW)]
    b = 3.0 * p["scale"]
    p.update(beam=(b, b, 0.0), a=2.5 * b, b=b, pa=pa, kind="extended", amp=amp * (-1 if k % 2 else 1), size=96,
             phase="int-int" if ph == (0.0, 0.0) else "half-int")
    p["x0"], p["y0"] = 48 + ph[0], 50 + ph[1]
    p["crval"] = (p["crval"][0], 0.0)        # (no rotation of the pixel axes against North)
    return p


def failed_run(args, why):
    """the finder call did not come back (killed, out of memory, out of time): a verdict, not a machinery failure"""
    rid, conf, seed, workdir, use_cli = args
    p = continuous(conf, seed)
    return {"id": rid, "conf": conf, "seed": seed, "err": "run did not complete: " + why, "noise": bool(conf["noise"]),
            "n_components": -1, "dpos_1e4px": 0, "peak_ppm": 0, "a_ppm": 0, "b_ppm": 0, "dpa_udeg": 0, "int_ppm": 0,
            "ratio_1e3": 1000, "z_milli": [], "kind": p["kind"], "cli": bool(use_cli), "phase": p["phase"]}


def observe(args):
    rid, conf, seed, workdir, use_cli = args
    common.quiet_logging()
    from astropy.wcs import WCS
    if rid.startswith("coarse/"):
        p = coarse(conf, seed, int(rid.split("/")[1]))
    elif rid.startswith("across/"):
        p = across(conf, seed, int(rid.split("/")[1]))
    elif rid.startswith("narrow/"):
        p = narrow(conf, seed, int(rid.split("/")[1]))
    else:
        p = continuous(conf, seed)
    rec = {"id": rid, "conf": conf, "seed": seed, "err": "", "noise": bool(conf["noise"]), "n_components": -1,
           "dpos_1e4px": 0, "peak_ppm": 0, "a_ppm": 0, "b_ppm": 0, "dpa_udeg": 0, "int_ppm": 0,
           "ratio_1e3": int(round(1000 * p["a"] / p["b"])), "z_milli": [], "kind": p["kind"], "cli": bool(use_cli), "phase": p["phase"]}
    path = os.path.join(workdir, "c01_%s_%d.fits" % (rid.replace("/", "_"), os.getpid()))
    try:
        shape = (p["size"], p["size"])
        h = synth.make_header(shape, proj=conf["proj"], crval=p["crval"], cdelt_arcsec=p["scale"], beam_arcsec=p["beam"])
        w = WCS(h, naxis=2)
        ra, dec = [float(v) for v in w.all_pix2world([[p["x0"], p["y0"]]], 0)[0]]
        x, y, sx, sy, th = synth.sky_ellipse_to_pix(w, ra, dec, p["a"] / 3600.0, p["b"] / 3600.0, p["pa"])
        img = synth.render(shape, [(p["amp"], x, y, sx, sy, th)])
        if conf["noise"]:
            # noise model: beam-correlated noise is what the covariance-weighted fit assumes; an
            # unweighted fit (docov off) assumes independent pixels, so it gets white noise
            if conf["docov"]:
                _, _, bsx, bsy, bth = synth.sky_ellipse_to_pix(w, ra, dec, p["beam"][0] / 3600.0, p["beam"][1] / 3600.0, p["beam"][2])
                img = img + correlated_noise(shape, (bsx, bsy, bth), p["noise_seed"])
                rec["noise_kind"] = "correlated"
            else:
                img = img + np.random.default_rng(p["noise_seed"]).normal(0, 1, shape)
                rec["noise_kind"] = "white"
        kw = dict(cores=int(conf["cores"]), docov=bool(conf["docov"]), nonegative=False)
        if conf["bkgrms"] == "forced":
            kw.update(rms=1.0, bkg=0.0)
        cube = conf["bkgrms"] == "internal" and seed % 2 == 1 and not use_cli
        if cube:
            # the image is plane 1 of a cube whose plane 0 is another channel (offset zero level, a third of the
            # noise): everything - also the internal background / noise estimate - has to come from the plane asked for
            from astropy.io import fits
            decoy = np.random.default_rng(p["noise_seed"] + 1).normal(2.5, 0.3, shape)
            hdu = fits.PrimaryHDU(np.stack([decoy, img]).astype(np.float32))
            for k_, v_ in h.items():
                if k_ not in ('SIMPLE', 'BITPIX', 'NAXIS', 'NAXIS1', 'NAXIS2', 'EXTEND'):
                    hdu.header[k_] = v_
            hdu.writeto(path, overwrite=True)
            kw["cube_index"] = 1
            rec["cube"] = True
        else:
            synth.write(path, img, h)
        rows = None
        with contextlib.redirect_stderr(io.StringIO()), contextlib.redirect_stdout(io.StringIO()):
            if use_cli:
                from AegeanTools.CLI import aegean as cli
                from AegeanTools.catalogs import load_table, table_to_source_list
                out = path.replace(".fits", "_out.csv")
                argv = [path, "--table", out, "--negative", "--cores", str(kw["cores"])]
                if "rms" in kw:
                    argv += ["--forcerms", "1.0", "--forcebkg", "0.0"]
                if not kw["docov"]:
                    argv += ["--nocov"]
                cli.main(argv)
                comp = out.replace(".csv", "_comp.csv")
                rows = table_to_source_list(load_table(comp)) if os.path.exists(comp) else []
                for f in (comp,):
                    if os.path.exists(f):
                        os.remove(f)
            else:
                from AegeanTools.source_finder import SourceFinder
                rows = SourceFinder().find_sources_in_image(path, **kw)
        # a noise image may contain unrelated noise peaks: only components within 5 beams of the source count
        near = []
        for s in rows:
            xs, ys = w.all_world2pix([[s.ra, s.dec]], 0)[0]
            if math.hypot(xs - x, ys - y) <= 5 * max(sx, sy) / synth.FWHM2SIG:
                near.append((s, xs, ys))
        rec["n_components"] = len(near) if conf["noise"] else len(rows)
        if len(near) == 1 and rec["n_components"] == 1:
            s, xs, ys = near[0]
            true_int = p["amp"] * p["a"] * p["b"] / (p["beam"][0] * p["beam"][1])
            dpa = (s.pa - p["pa"] + 90.0) % 180.0 - 90.0
            rec["dpos_1e4px"] = common.fx(math.hypot(xs - x, ys - y), 1e4)
            rec["peak_ppm"] = common.ppm(s.peak_flux, p["amp"])
            rec["a_ppm"] = common.ppm(s.a, p["a"])
            rec["b_ppm"] = common.ppm(s.b, p["b"])
            rec["dpa_udeg"] = common.fx(dpa, 1e6)
            rec["int_ppm"] = common.ppm(s.int_flux, true_int)
            if conf["noise"]:
                cd = math.cos(math.radians(dec))
                dra = ((s.ra - ra + 180.0) % 360.0 - 180.0) * cd
                pairs = [(dra, s.err_ra), (s.dec - dec, s.err_dec), (s.peak_flux - p["amp"], s.err_peak_flux),
                         (s.a - p["a"], s.err_a), (s.b - p["b"], s.err_b), (s.int_flux - true_int, s.err_int_flux)]
                if rec["ratio_1e3"] >= 1200:
                    pairs.append((dpa, s.err_pa))
                z = []
                for dv, e in pairs:
                    z.append(0 if (e is None or not np.isfinite(e) or e <= 0) else common.fx(dv / e, 1e3))
                rec["z_milli"] = [v if isinstance(v, int) else 2 ** 30 for v in z]
            for k in ("dpos_1e4px", "peak_ppm", "a_ppm", "b_ppm", "dpa_udeg", "int_ppm"):
                if not isinstance(rec[k], int):
                    rec[k] = 2 ** 30
            rec["reported"] = {"ra": s.ra, "dec": s.dec, "peak": s.peak_flux, "a": s.a, "b": s.b, "pa": s.pa,
                               "int": s.int_flux, "flags": int(s.flags)}
        rec["truth"] = {"ra": ra, "dec": dec, "x": x, "y": y, "amp": p["amp"], "a": p["a"], "b": p["b"], "pa": p["pa"],
                        "beam": p["beam"], "sx": sx, "sy": sy}
    except Exception as e:
        rec["err"] = "%s: %s" % (type(e).__name__, e)
    for f in (path, path.replace(".fits", "_out.csv")):
        if os.path.exists(f):
            os.remove(f)
    return rec


KEEP = ("id", "err", "noise", "n_components", "dpos_1e4px", "peak_ppm", "a_ppm", "b_ppm", "dpa_udeg", "int_ppm",
        "ratio_1e3", "z_milli")


def validate(ctx, recs, name):
    tf = os.path.join(ctx.workdir, name + ".json")
    byid = {r["id"]: r for r in recs}
    common.dump_json(tf, [{k: r[k] for k in KEEP} for r in recs])
    res = ctx.tlc("Recovery_Trace", common.cfg(spec="Spec", post="BatchDone", deadlock=False),
                  name=name, workers=1, env={"TRACE_FILE": tf})
    summary = [p for p in res.printed if isinstance(p, dict) and "accepted" in p]
    rej = [p for p in res.printed if isinstance(p, dict) and "fails" in p]
    if not summary or summary[0]["total"] != len(recs) or summary[0]["accepted"] + len(rej) != len(recs):
        raise common.MachineryError("trace batch %s not fully consumed" % name)
    return [(byid[p["id"]], p["fails"]) for p in rej]


def selftest(ctx):
    good = {"id": "st-good", "err": "", "noise": False, "n_components": 1, "dpos_1e4px": 3, "peak_ppm": -12,
            "a_ppm": 40, "b_ppm": -8, "dpa_udeg": 1200, "int_ppm": 35, "ratio_1e3": 1600, "z_milli": []}
    recs = [good, dict(good, id="st-pos", dpos_1e4px=201), dict(good, id="st-pa", dpa_udeg=-500001),
            dict(good, id="st-two", n_components=2), dict(good, id="st-circ", ratio_1e3=1000, dpa_udeg=40000000),
            dict(good, id="st-noise", noise=True, a_ppm=9000, z_milli=[100, -200, 30, -5200, 10, 20]),
            dict(good, id="st-noise-ok", noise=True, a_ppm=9000, z_milli=[100, -200, 30, -4900, 10, 20]),
            dict(good, id="st-noise-tol", noise=True, a_ppm=900, z_milli=[100, -200, 30, -9900, 10, 20])]
    rej = {r["id"]: f for r, f in validate(ctx, recs, "selftest")}
    if set(rej) != {"st-pos", "st-pa", "st-two", "st-noise"}:
        raise common.MachineryError("Recovery_Trace self-test failed: %r" % rej)


def key_of(rec, fails):
    c = rec["conf"]
    cls = ("noise(%s,docov=%s,%s)" % (rec.get("noise_kind"), c["docov"], c["bkgrms"])) if c["noise"] else "noise-free"
    kind = rec.get("kind", "")
    if kind == "extended" and rec.get("ratio_1e3", 0) >= 2200:
        kind = "extended(axis-ratio>=2.2)"
    return "%s %s subpixel=%s fails=%s" % (cls, kind, rec.get("phase"), ",".join(fails))


def run(ctx):
    quick = ctx.tier == "quick"
    res = ctx.tlc("MC_RecoveryConfig", common.cfg(spec="Spec", invariants=["AdmissibleInv"], constraints=["Emit"],
                                                  deadlock=False), name="config_lattice", workers=1)
    lattice = [p for p in res.printed if isinstance(p, dict) and "proj" in p]
    if len(lattice) != 4800:
        raise common.MachineryError("expected 4800 configurations, TLC emitted %d" % len(lattice))
    lattice.sort(key=lambda c: common.json.dumps(c, sort_keys=True))
    selftest(ctx)
    rng = random.Random(ctx.seed)
    # a seeded sample of the lattice that hits every value of every dimension; the (slow) internal
    # BANE configurations are thinned
    forced = [c for c in lattice if c["bkgrms"] == "forced"]
    internal = [c for c in lattice if c["bkgrms"] == "internal"]
    chosen = rng.sample(forced, 80 if quick else len(forced)) + rng.sample(internal, 8 if quick else 400)
    for k in lattice[0]:
        for v in {c[k] for c in lattice} - {c[k] for c in chosen}:
            chosen.append(rng.choice([c for c in lattice if c[k] == v]))
    jobs = []
    for i, c in enumerate(chosen):
        reps = 1 if c["bkgrms"] == "internal" else (2 if quick else 3)
        for k in range(reps):
            jobs.append(("cfg%d/%d" % (i, k), c, ctx.seed * 1000003 + i * 17 + k, ctx.workdir,
                         (not quick or i % 10 == 0) and k == 0 and c["bkgrms"] == "forced" and i % 5 == 0))
    # coarse-sampling sweep (both signs x beam width x sub-pixel phase), noise-free, forced maps
    cc = [c for c in forced if c["beam"] == "circ" and not c["noise"]]
    for k in range(len(COARSE)):
        jobs.append(("coarse/%d" % k, cc[(k * 7) % len(cc)], ctx.seed * 1000003 + 900000 + k, ctx.workdir, False))
    for k in range(len(NARROW)):
        jobs.append(("narrow/%d" % k, cc[(k * 5 + 1) % len(cc)], ctx.seed * 1000003 + 970000 + k, ctx.workdir, False))
    for k in range(len(ACROSS)):
        jobs.append(("across/%d" % k, cc[(k * 11 + 3) % len(cc)], ctx.seed * 1000003 + 950000 + k, ctx.workdir, False))
    # (not multiprocessing.Pool: its workers are daemonic and BANE needs child processes)
    import AegeanTools.source_finder, AegeanTools.CLI.aegean, astropy.wcs      # noqa: imported once, inherited by the forked runs
    recs = common.map_isolated(observe, jobs, workers=16, timeout=900, mem_gb=10, on_fail=failed_run)
    rejected = validate(ctx, recs, "recovery")
    ctx.count(evaluations=len(recs),
              nontrivial=len({common.json.dumps(r["conf"], sort_keys=True) + r["kind"] for r in recs}),
              traces=len(recs))
    ctx.cov["rule"] = ("one inject->find->report execution per (configuration of the TLC-enumerated lattice, seeded continuous parameters); "
                       "distinct = distinct (configuration, source kind)")
    ctx.cov["lattice_size"] = len(lattice)
    ctx.cov["configurations_run"] = len(chosen)
    ctx.cov["dimension_values_hit"] = {k: sorted({str(c[k]) for c in chosen}) for k in chosen[0]}
    for r in recs[:2]:
        ctx.sample({k: r.get(k) for k in ("id", "conf", "n_components", "dpos_1e4px", "peak_ppm", "a_ppm", "b_ppm",
                                          "dpa_udeg", "int_ppm", "z_milli", "truth", "reported")})
    ctx.assumptions += ["isolated: one source, >= 30 px from every image edge", "source at least as large as the beam in both axes "
                        "(point source = beam; a >= beam major and b >= beam minor at any orientation; or minor axis >= beam major axis)", "PA compared only for axis ratio >= 1.02 (noise: >= 1.2)",
                        "noise is Gaussian, correlated on the beam scale (the noise model Aegean's covariance matrix assumes), sigma = 1",
                        "internal bkg/rms only with noise (a noise-free image has rms 0)",
                        "sampling strength in the continuous parameters; the 5-sigma clause is statistical"]
    for rec, fails in rejected:
        ctx.violation(key_of(rec, fails), {"record": {k: v for k, v in rec.items()}, "fails": fails})


def replay(ctx, rec):
    r = rec["detail"]["record"]
    out = observe((r["id"], r["conf"], r["seed"], ctx.workdir, r.get("cli", False)))
    for rr, fails in validate(ctx, [out], "replay"):
        ctx.violation(key_of(rr, fails), {"record": rr, "fails": fails})
    ctx.count(evaluations=1, nontrivial=2, traces=1)
