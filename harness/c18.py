"""
C18 - catalogues survive a write/read round trip in every readable format.

model  : spec/Catalogue.tla (store state machine BeginSave/WriteRow/EndSave/Load,
         precision classes, documented schema) model-checked by
         spec/MC_Catalogue.tla over all catalogues of <= N rows drawn from
         (type x value class) row shapes x formats x prefix.
binding: the same shapes (printed by TLC together with the documented column
         lists) are realised with seeded values, pushed through the real
         save_catalog -> load_table -> table_to_source_list (sqlite3 for .db),
         plus seeded random catalogues of 1..3000 rows; inputs and read-back
         attributes are projected to identity tokens (IEEE-754 hex, ints,
         strings) and TLC validates every execution against
         spec/Catalogue_Trace.tla (Expected(s) of Catalogue.tla).
The harness never compares values itself.
"""
import os
import random
import shutil
import sqlite3
import multiprocessing as mp
from multiprocessing.pool import ThreadPool

import numpy as np

from harness import common
from harness.common import hexf

LEVEL = "model_checking"

EXTS = ["csv", "tab", "tex", "vot", "xml", "fits", "db"]
PREFIX = "pp"
MC_INVARIANTS = ["SplitHolds", "OnlyDocumentedFiles", "PrefixHolds", "ConcatLaw",
                 "FilesDisjoint", "IdentityExact", "Exact64", "Single32",
                 "NaNPreserved", "MinusOnePreserved", "LoadReturnsStored",
                 "ShapesWellFormed", "ConformanceSound"]
MC_ACTIONS = ["MCBegin", "WriteRow", "EndSave", "MCLoad"]
DBTABLE = {"components": "comp", "islands": "isle", "simples": "simp"}
ERRCOLS = {"err_ra", "err_dec", "err_peak_flux", "err_int_flux", "err_a", "err_b", "err_pa"}
INTCOLS = {"components", "x_width", "y_width", "pixels"}     # integer-valued island measurements
META = {"PROGRAM": "Aegean", "PROGVER": "2.3.0-(2022-08-17)", "FITSFILE": "image_1904-66.fits",
        "RUN-AS": "aegean image_1904-66.fits --island --table out.fits,out.csv,out.db"}

_DIR = None
_SCHEMA = None          # {"names": {t: [...]}, "identity": [...]}  (printed by TLC from Catalogue.tla)


def _init(d, schema):
    global _DIR, _SCHEMA
    _DIR = d
    _SCHEMA = schema
    common.quiet_logging()


# --------------------------------------------------------------------------
# realising a catalogue shape with seeded values
# --------------------------------------------------------------------------
def _uuid(rng, used, length):
    while True:
        u = "%08x-%04x-%04x-%04x-%012x" % (rng.getrandbits(32), rng.getrandbits(16), rng.getrandbits(16),
                                            rng.getrandbits(16), rng.getrandbits(48))
        head = u[:8]
        # keep the token unambiguously a string for the text formats
        if head in used or not any(c in "abcdf" for c in head):
            continue
        used.add(head)
        return u[:length]


def _sexa(rng, sign):
    s = "%02d:%02d:%05.2f" % (rng.randint(0, 89 if sign else 23), rng.randint(0, 59),
                               rng.randint(0, 5999) / 100.0)
    return (rng.choice("+-") + s) if sign else s


def _number(rng, name):
    if name == "ra":
        return rng.uniform(0.0, 360.0)
    if name == "dec":
        return rng.uniform(-90.0, 90.0)
    if name in INTCOLS:
        return rng.randint(1, 10 ** 6)
    r = rng.random()
    if r < 0.4:
        x = rng.uniform(0.001, 200.0)
    else:                                   # extreme magnitudes 1e-30 .. 1e30
        x = rng.uniform(1.0, 9.999999) * 10.0 ** rng.randint(-30, 29)
    if name not in ERRCOLS and rng.random() < 0.35:
        x = -x                              # negative fluxes / backgrounds / residuals
    return x


def make_rows(shape, seed):
    """shape: list of [t, v]; returns list of (t, {name: python value})."""
    rng = random.Random(seed)
    names, ident = _SCHEMA["names"], set(_SCHEMA["identity"])
    used = set()
    rows = []
    for pos, (t, v) in enumerate(shape):
        vals = {}
        numeric = [n for n in names[t] if n not in ident]
        nanset = set()
        if v == "nan":
            k = rng.randint(1, len(numeric))
            nanset = set(rng.sample(numeric, k))
        for n in names[t]:
            if n == "island":
                vals[n] = 0 if v == "atyp" else rng.randint(1, 99999)
            elif n == "source":
                vals[n] = 0 if v == "atyp" else rng.randint(0, 40)
            elif n == "flags":
                vals[n] = 0 if v == "atyp" else rng.randint(0, 127)
            elif n == "uuid":
                vals[n] = _uuid(rng, used, 8 if v == "atyp" else rng.choice([36, 36, 36, 36, 23, 18, 13]))
            elif n in ("ra_str", "dec_str"):
                pass
            elif n in nanset:
                vals[n] = float("nan")
            elif n in ERRCOLS and v in ("m1", "atyp"):
                vals[n] = -1 if (v == "atyp" or rng.random() < 0.5) else -1.0
            elif v == "atyp":
                if n == "dec":
                    vals[n] = float("nan")      # -> shortest coordinate string
                elif n in INTCOLS:
                    vals[n] = rng.randint(1, 9)
                else:
                    vals[n] = float(rng.randint(-5, 500))    # integer-valued floats
            else:
                vals[n] = _number(rng, n)
        if "ra_str" in names[t]:
            vals["ra_str"] = "XX:XX:XX.XX" if vals["ra"] != vals["ra"] else _sexa(rng, False)
            vals["dec_str"] = "XX:XX:XX.XX" if vals["dec"] != vals["dec"] else _sexa(rng, True)
        rows.append((t, vals))
    return rows


def random_shape(n, seed):
    rng = random.Random(seed * 7919 + n)
    mix = rng.choice(["comp", "mixed", "mixed", "isle+comp", "simp"])
    types = {"comp": ["comp"], "mixed": ["comp", "isle", "simp"], "isle+comp": ["isle", "comp", "comp"],
             "simp": ["simp"]}[mix]
    first = rng.choice(["atyp", "atyp", "nan", "m1", "typ"])
    shape = []
    for i in range(n):
        v = first if i == 0 else rng.choice(["typ", "typ", "typ", "typ", "nan", "m1", "atyp"] if n < 50 else
                                            ["typ"] * 12 + ["nan", "m1", "m1", "atyp"])
        shape.append([rng.choice(types), v])
    return shape


def job_shape(job):
    return job["shape"] if job["mode"] == "explicit" else random_shape(job["n"], job["seed"])


# --------------------------------------------------------------------------
# projection to tokens
# --------------------------------------------------------------------------
def _f32_bracket(x):
    with np.errstate(all="ignore"):
        f = np.float32(x)
        fd = float(f)
        if fd == x:
            return x, x
        if fd < x:
            return fd, float(np.nextafter(f, np.float32(np.inf)))
        return float(np.nextafter(f, np.float32(-np.inf))), fd


def cell_in(v, is_ident, single):
    if is_ident:
        return ["s:" + v] if isinstance(v, str) else [str(int(v))]
    x = float(v)
    if x != x:
        return ["nan", "nan", "nan"] if single else ["nan"]
    if not single:
        return [hexf(x)]
    lo, hi = _f32_bracket(x)
    return [hexf(x), hexf(lo), hexf(hi)]


_F32 = [False]


def tok_out(v, is_ident):
    if v is np.ma.masked or isinstance(v, np.ma.core.MaskedConstant):
        return "masked"
    if v is None:
        return "null"
    if isinstance(v, bytes):
        v = v.decode("utf-8", "replace")
    if isinstance(v, str):
        return "s:" + str(v)
    if isinstance(v, (bool, np.bool_)):
        return "b:%s" % bool(v)
    try:
        x = float(v)
    except Exception:
        return "other:%s" % type(v).__name__
    if x != x:
        return "nan"
    if is_ident:
        return str(int(x)) if x == int(x) else "f:" + hexf(x)
    if _F32[0] and abs(x) < 3e38:
        # the catalogue under test holds numpy.float32 attributes: a value read back is compared at the precision
        # the attribute has (the text writers print the shortest decimal that denotes the same float32)
        x = float(np.float32(x))
    return hexf(x)


# --------------------------------------------------------------------------
# one execution of the real code
# --------------------------------------------------------------------------
def _classes():
    from AegeanTools.models import ComponentSource, IslandSource, SimpleSource
    return {"comp": ComponentSource, "isle": IslandSource, "simp": SimpleSource}


def observe(job):
    from AegeanTools import catalogs
    names, ident = _SCHEMA["names"], set(_SCHEMA["identity"])
    ext, prefix = job["ext"], job["prefix"]
    shape = job_shape(job)
    rows = make_rows(shape, job["seed"])
    _F32[0] = job["seed"] % 3 == 1
    if _F32[0]:
        # measurements taken from single-precision maps reach the writers as numpy.float32 attributes; the
        # catalogue under test is then those values (float32 -> double is exact) and every format must keep them
        rows = [(t, {n: (np.float32(v) if isinstance(v, float) and (v != v or v == 0 or 1e-30 < abs(v) < 1e30) else v)
                     for n, v in vals.items()}) for t, vals in rows]
    single = ext == "fits"
    rec = {"id": job["id"], "base": "o", "ext": ext, "prefix": prefix, "err": "", "files": [],
           "cat": [{"t": t, "c": [cell_in(vals[n], n in ident, single) for n in names[t]]}
                   for t, vals in rows]}
    cls = _classes()
    d = os.path.join(_DIR, "job_%d_%s" % (os.getpid(), job["id"].replace("/", "_")))
    os.makedirs(d, exist_ok=True)
    try:
        cat = []
        for t, vals in rows:
            s = cls[t]()
            for n in names[t]:
                setattr(s, n, vals[n])
            cat.append(s)
        meta = dict(META) if job["meta"] else None
        try:
            if ext == "db" and job["seed"] % 2 == 0:
                # a database file that already holds an earlier, mixed catalogue is replaced by the
                # save under test (Catalogue!BeginSave on a non-fresh base.db)
                pre = []
                for t, vals in make_rows([["comp", "typ"], ["isle", "typ"], ["simp", "typ"], ["isle", "m1"]], job["seed"] + 17):
                    ps = cls[t]()
                    for n in names[t]:
                        setattr(ps, n, vals[n])
                    pre.append(ps)
                catalogs.save_catalog(os.path.join(d, "o." + ext), pre, meta=None, prefix=None)
            catalogs.save_catalog(os.path.join(d, "o." + ext), cat, meta=meta, prefix=prefix or None)
        except Exception as e:
            rec["err"] = "save_catalog: %s: %s" % (type(e).__name__, str(e)[:200])
            return rec
        for fn in sorted(os.listdir(d)):
            path = os.path.join(d, fn)
            try:
                if ext == "db" and fn == "o.db":
                    rec["files"] += read_db(path, names, ident, prefix)
                    continue
                t = None
                for k in cls:
                    if fn == "o_%s.%s" % (k, ext):
                        t = k
                if t is None:
                    rec["files"].append({"name": fn, "cols": [], "rows": []})
                    continue
                tab = catalogs.load_table(path)
                cols = [str(c) for c in tab.colnames]
                if prefix:          # documented naming: "prefix_" + name; undo it to rebuild sources
                    for c in cols:
                        if c.startswith(prefix + "_"):
                            tab.rename_column(c, c[len(prefix) + 1:])
                srcs = catalogs.table_to_source_list(tab, cls[t])
                rec["files"].append({"name": fn, "cols": cols,
                                     "rows": [[tok_out(getattr(s, n, None), n in ident) for n in names[t]]
                                              for s in srcs]})
            except Exception as e:
                rec["err"] = "read %s: %s: %s" % (fn, type(e).__name__, str(e)[:200])
                return rec
    finally:
        shutil.rmtree(d, ignore_errors=True)
    return rec


def observe_json(job):
    """worker entry: the record as compact JSON text plus the few fields the
    parent needs (records of 3000 rows are not pickled as python objects)."""
    r = observe(job)
    info = {"id": r["id"], "ext": r["ext"], "prefix": r["prefix"], "err": r["err"], "n": len(r["cat"])}
    return info, common.json.dumps(r, separators=(",", ":"))


def as_item(r):
    return ({"id": r["id"], "ext": r["ext"], "prefix": r["prefix"], "err": r["err"], "n": len(r["cat"])},
            common.json.dumps(r, separators=(",", ":")))


def read_db(path, names, ident, prefix):
    out = []
    con = sqlite3.connect(path)
    try:
        tables = [r[0] for r in con.execute("SELECT name FROM sqlite_master WHERE type='table' ORDER BY name")]
        for tn in tables:
            if tn == "meta":            # documented meta-data table
                continue
            cur = con.execute('SELECT * FROM "%s" ORDER BY rowid' % tn)
            cols = [str(c[0]) for c in cur.description]
            data = cur.fetchall()
            t = DBTABLE.get(tn)
            if t is None:
                out.append({"name": "o.db:" + tn, "cols": cols, "rows": []})
                continue
            bare = [c[len(prefix) + 1:] if prefix and c.startswith(prefix + "_") else c for c in cols]
            idx = [bare.index(n) if n in bare else None for n in names[t]]
            out.append({"name": "o.db:" + tn, "cols": cols,
                        "rows": [[("missing" if k is None else tok_out(r[k], n in ident))
                                  for k, n in zip(idx, names[t])] for r in data]})
    finally:
        con.close()
    return out


# --------------------------------------------------------------------------
# TLC side
# --------------------------------------------------------------------------
def mc_job(ctx, name, max_rows, max_saves, vals, prefixes, emit=False, exts=EXTS):
    res = ctx.tlc("MC_Catalogue", common.cfg(
        spec="MCSpec",
        constants={"MaxRows": max_rows, "MaxSaves": max_saves, "Vals": set(vals),
                   "Prefixes": set(prefixes), "Exts": set(exts), "Emit": emit},
        invariants=MC_INVARIANTS, deadlock=False),
        name=name, coverage=True)
    ctx.require_actions(res, MC_ACTIONS, name)
    if not emit:
        return res, None
    em = [p for p in res.printed if isinstance(p, dict) and "shapes" in p]
    if not em:
        raise common.MachineryError("MC job %s did not emit its shapes" % name)
    return res, em[0]


def validate(ctx, items, name):
    """items: list of (info, record JSON text).  Returns [(info, fails)]."""
    tf = os.path.join(ctx.workdir, name + ".json")
    byid = {i["id"]: i for i, _ in items}
    if len(byid) != len(items):
        raise common.MachineryError("duplicate record ids in batch " + name)
    with open(tf, "w") as f:
        f.write("[")
        for k, (_, js) in enumerate(items):
            if k:
                f.write(",")
            f.write(js)
        f.write("]")
    res = ctx.tlc("Catalogue_Trace", common.cfg(spec="Spec", post="BatchDone", deadlock=False),
                  name=name, workers=1, env={"TRACE_FILE": tf}, heap="3g")
    summary = [p for p in res.printed if isinstance(p, dict) and "accepted" in p]
    rej = [p for p in res.printed if isinstance(p, dict) and "fails" in p]
    if not summary or summary[-1]["total"] != len(items) or summary[-1]["accepted"] + len(rej) != len(items):
        raise common.MachineryError("trace batch %s not fully consumed" % name)
    os.remove(tf)
    out = [(byid[p["id"]], list(p["fails"])) for p in rej]
    for i, fails in out:
        if any(f.startswith("MACHINERY") for f in fails):
            raise common.MachineryError("record %s: %s" % (i["id"], fails))
    return out


def validate_all(ctx, items, stem, par=12):
    """split into batches of bounded size and validate them concurrently
    (each TLC run is single-threaded)."""
    batches, cur, weight = [], [], 0
    for it in sorted(items, key=lambda it: it[0]["n"]):
        w = 1 + 3 * it[0]["n"]
        if cur and (weight + w > 9000 or len(cur) >= 1200):
            batches.append(cur)
            cur, weight = [], 0
        cur.append(it)
        weight += w
    if cur:
        batches.append(cur)
    with ThreadPool(par) as tp:
        parts = tp.map(lambda kb: validate(ctx, kb[1], "%s_%d" % (stem, kb[0])), list(enumerate(batches)))
    return [x for p in parts for x in p]


def keys_of(rec, fails):
    """one key per violated clause (type prefix dropped) so that findings can be matched clause by clause"""
    if fails == ["completed"]:
        parts = rec["err"].split(": ")
        clauses = ["completed(%s %s)" % (parts[0].split(" ")[0], parts[1] if len(parts) > 1 else "")]
    else:
        clauses = sorted({f.split(":", 1)[1] if f[:5] in ("comp:", "isle:", "simp:") else f for f in fails})
    return ["ext=%s prefix=%s fails=%s" % (rec["ext"], "yes" if rec["prefix"] else "no", c) for c in clauses]


# --------------------------------------------------------------------------
# self-test: the trace specification accepts an ideal round trip and rejects
# each kind of corruption with the right clause
# --------------------------------------------------------------------------
def ideal_record(rid, shape, seed, ext, prefix):
    names, ident = _SCHEMA["names"], set(_SCHEMA["identity"])
    rows = make_rows(shape, seed)
    single = ext == "fits"
    rec = {"id": rid, "base": "o", "ext": ext, "prefix": prefix, "err": "", "files": [],
           "cat": [{"t": t, "c": [cell_in(vals[n], n in ident, single) for n in names[t]]}
                   for t, vals in rows]}
    for t in ("comp", "isle", "simp"):
        sel = [r for r in rec["cat"] if r["t"] == t]
        if sel:
            fn = ("o.db:" + {v: k for k, v in DBTABLE.items()}[t]) if ext == "db" else "o_%s.%s" % (t, ext)
            pre = "" if ext == "db" or not prefix else prefix + "_"
            rec["files"].append({"name": fn, "cols": [pre + n for n in names[t]],
                                 "rows": [[c[0] for c in r["c"]] for r in sel]})
    return rec


def _clone(rec, rid):
    import copy
    r = copy.deepcopy(rec)
    r["id"] = rid
    return r


def selftest(ctx):
    names = _SCHEMA["names"]
    shape = [["comp", "typ"], ["isle", "nan"], ["comp", "m1"], ["simp", "typ"], ["comp", "nan"]]
    recs, expect = [], {}
    for ext in ("csv", "fits", "db"):
        good = ideal_record("st-good-" + ext, shape, 11, ext, PREFIX if ext == "csv" else "")
        recs.append(good)
        fcomp = 0                               # files are in comp, isle, simp order
        jx = names["comp"].index("peak_flux")
        ju = names["comp"].index("uuid")
        jd = names["comp"].index("dec_str")
        je = names["comp"].index("err_ra")
        b = _clone(good, "st-num-" + ext)
        b["files"][fcomp]["rows"][0][jx] = hexf(1.0000001 * float.fromhex("0x1p0") * 3.25)
        recs.append(b); expect[b["id"]] = "numeric_equal_"
        b = _clone(good, "st-order-" + ext)
        rr = b["files"][fcomp]["rows"]
        rr[0], rr[1] = rr[1], rr[0]
        recs.append(b); expect[b["id"]] = "identity_token_equal:uuid"
        b = _clone(good, "st-uuid-" + ext)
        b["files"][fcomp]["rows"][2][ju] = b["files"][fcomp]["rows"][2][ju][:8]
        recs.append(b); expect[b["id"]] = "identity_token_equal:uuid"
        b = _clone(good, "st-decstr-" + ext)
        b["files"][fcomp]["rows"][1][jd] = b["files"][fcomp]["rows"][1][jd][:-1]
        recs.append(b); expect[b["id"]] = "identity_token_equal:dec_str"
        b = _clone(good, "st-m1-" + ext)
        b["files"][fcomp]["rows"][1][je] = "null"
        recs.append(b); expect[b["id"]] = "minus_one_preserved"
        b = _clone(good, "st-nan-" + ext)
        k = [j for j, c in enumerate(good["cat"][4]["c"]) if c[0] == "nan"][0]
        b["files"][fcomp]["rows"][2][k] = "masked"
        recs.append(b); expect[b["id"]] = "nan_preserved"
        b = _clone(good, "st-lost-" + ext)
        b["files"][fcomp]["rows"].pop()
        recs.append(b); expect[b["id"]] = "same_number_of_rows"
        b = _clone(good, "st-nofile-" + ext)
        b["files"].pop(1)
        recs.append(b); expect[b["id"]] = "files_exactly_the_documented_split"
        b = _clone(good, "st-wrongfile-" + ext)
        b["files"][fcomp]["rows"][0][ju] = good["files"][1]["rows"][0][names["isle"].index("uuid")]
        recs.append(b); expect[b["id"]] = "holds_only_rows_of_its_type"
        b = _clone(good, "st-cols-" + ext)
        b["files"][2]["cols"] = list(reversed(b["files"][2]["cols"]))
        recs.append(b); expect[b["id"]] = "columns_named_as_documented"
    # single precision: the bracketing singles are accepted, the next one is not
    g = ideal_record("st-f32-ok", [["simp", "typ"]], 5, "fits", "")
    jx = names["simp"].index("peak_flux")
    g["files"][0]["rows"][0][jx] = g["cat"][0]["c"][jx][2]
    recs.append(g)
    b = _clone(g, "st-f32-far")
    x = float(np.float32(np.frombuffer(bytes.fromhex(g["cat"][0]["c"][jx][2]), dtype=">f8")[0]))
    b["files"][0]["rows"][0][jx] = hexf(float(np.nextafter(np.float32(x), np.float32(np.inf))))
    recs.append(b); expect[b["id"]] = "numeric_equal_single32"
    # sqlite may hold NULL for NaN, no other format may
    g = ideal_record("st-dbnull-ok", [["simp", "nan"]], 6, "db", "")
    k = [j for j, c in enumerate(g["cat"][0]["c"]) if c[0] == "nan"][0]
    g["files"][0]["rows"][0][k] = "null"
    recs.append(g)
    b = ideal_record("st-csvnull", [["simp", "nan"]], 6, "csv", "")
    b["files"][0]["rows"][0][k] = "null"
    recs.append(b); expect[b["id"]] = "nan_preserved"
    got = {i["id"]: f for i, f in validate(ctx, [as_item(r) for r in recs], "selftest")}
    bad = [(i, got.get(i)) for i, e in expect.items() if not any(e in f for f in got.get(i, []))]
    extra = [i for i in got if i not in expect]
    if bad or extra:
        raise common.MachineryError("Catalogue_Trace self-test failed: missing=%r unexpectedly rejected=%r"
                                    % (bad, [(i, got[i]) for i in extra]))
    return len(recs)


def selftest_real(ctx, items, rejected_ids):
    """corrupt one field of a record of the real code that TLC accepted."""
    for info, js in items:
        if info["id"] not in rejected_ids and info["ext"] == "csv" and not info["err"] and 1 <= info["n"] <= 50:
            r = common.json.loads(js)
            if not r["files"] or not r["files"][0]["rows"]:
                continue
            b = _clone(r, "st-real-corrupt")
            row = b["files"][0]["rows"][-1]
            row[-1] = row[-1] + "0"          # last column of every type is numeric or the uuid
            g = _clone(r, "st-real-good")
            got = {i["id"]: f for i, f in validate(ctx, [as_item(g), as_item(b)], "selftest_real")}
            if set(got) != {"st-real-corrupt"}:
                raise common.MachineryError("self-test on a real record failed: %r" % got)
            return True
    return False


# --------------------------------------------------------------------------
def build_jobs(ctx, shapes_small, shapes_mix, quick):
    rng = random.Random(ctx.seed)
    jobs = []
    k = 0
    for shapes, tag in ((shapes_small, "v"), (shapes_mix, "m")):
        for si, shape in enumerate(shapes):
            for ext in EXTS:
                for prefix in ("", PREFIX):
                    k += 1
                    jobs.append({"id": "%s%d/%s/%s" % (tag, si, ext, prefix or "-"), "mode": "explicit",
                                 "shape": [[r["t"], r["v"]] for r in shape], "seed": rng.randint(0, 10 ** 9),
                                 "ext": ext, "prefix": prefix, "meta": bool(k % 3)})
    sizes = [1, 2, 3, 7, 40, 250, 3000] if quick else \
        [1, 2, 3, 4, 5, 7, 12, 40, 100, 250, 600, 1000, 1700, 3000, 3000]
    reps = 1 if quick else 3
    for n in sizes:
        for rep in range(reps):
            for ext in EXTS:
                for prefix in ("", PREFIX):
                    if quick and n >= 1000 and prefix and ext != "fits":
                        continue
                    k += 1
                    jobs.append({"id": "r%d.%d/%s/%s" % (n, rep, ext, prefix or "-"), "mode": "random", "n": n,
                                 "seed": rng.randint(0, 10 ** 9), "ext": ext, "prefix": prefix,
                                 "meta": bool(k % 2)})
    return jobs


def report(ctx, rejected, jobs_by_id):
    for rec, fails in rejected:
        job = jobs_by_id.get(rec["id"])
        for key in keys_of(rec, fails):
            ctx.violation(key, {"job": job, "fails": fails, "err": rec["err"]})


def run(ctx):
    quick = ctx.tier == "quick"
    allvals = ["typ", "nan", "m1", "atyp"]
    # model checking: value classes x types on short catalogues, type mixes on longer ones,
    # two saves into the same store
    _, em = mc_job(ctx, "mc_values", 2 if quick else 3, 1, allvals, ["", PREFIX], emit=True)
    _, em2 = mc_job(ctx, "mc_typemix", 4, 1, ["typ"] if quick else ["typ", "atyp"], [""], emit=True)
    mc_job(ctx, "mc_two_saves", 1 if quick else 2, 2, ["typ"], [""], exts=EXTS if quick else ["csv", "fits", "db"])
    schema = {"names": em["names"], "identity": sorted(em["identity"])}
    d = os.path.join(ctx.workdir, "files")
    os.makedirs(d, exist_ok=True)
    _init(d, schema)
    nself = selftest(ctx)
    shapes_small = em["shapes"]
    shapes_mix = [s for s in em2["shapes"] if len(s) > (2 if quick else 3)]
    jobs = build_jobs(ctx, shapes_small, shapes_mix, quick)
    jobs_by_id = {j["id"]: j for j in jobs}
    # waves of bounded volume: drive the code, let TLC validate, release the records
    waves, cur, vol = [], [], 0
    for j in sorted(jobs, key=lambda j: j.get("n", len(j.get("shape", [])))):
        n = j.get("n", len(j.get("shape", [])))
        if cur and (vol + n > 45000 or len(cur) >= 8000):
            waves.append(cur)
            cur, vol = [], 0
        cur.append(j)
        vol += n
    if cur:
        waves.append(cur)
    rejected, nrec, nrows, tested_real, sample = [], 0, 0, False, None
    ctx.notes["drive_s"] = ctx.notes["validate_s"] = 0.0
    with mp.Pool(16, initializer=_init, initargs=(d, schema)) as pool:
        for w, wave in enumerate(waves):
            wave.sort(key=lambda j: -(j.get("n", 0)))          # long ones first
            t0 = common.time.time()
            items = pool.map(observe_json, wave, chunksize=1)
            t1 = common.time.time()
            rej = validate_all(ctx, items, "cat_trace_w%d" % w)
            ctx.notes["drive_s"] = round(ctx.notes["drive_s"] + t1 - t0, 1)
            ctx.notes["validate_s"] = round(ctx.notes["validate_s"] + common.time.time() - t1, 1)
            rejected += rej
            nrec += len(items)
            nrows += sum(i["n"] for i, _ in items)
            if not tested_real:
                tested_real = selftest_real(ctx, items, {i["id"] for i, _ in rej})
            if sample is None:
                for info, js in items:
                    if info["n"] == 2 and info["ext"] == "fits":
                        r = common.json.loads(js)
                        sample = {"id": r["id"], "ext": "fits", "cat_row1": r["cat"][0],
                                  "files": r["files"][:1], "err": r["err"]}
                        break
    if not tested_real:
        ctx.warnings.append("no accepted csv record of the real code available for the corruption self-test")
    ctx.count(evaluations=nrec,
              nontrivial=len({(tuple(map(tuple, j["shape"])) if j["mode"] == "explicit" else ("r", j["n"], j["seed"]),
                               j["ext"], j["prefix"]) for j in jobs}),
              traces=nrec)
    ctx.cov["rule"] = ("one trace per save_catalog -> read-back execution; distinct = distinct "
                       "(catalogue shape or random catalogue, format, prefix)")
    ctx.cov["rows_round_tripped"] = nrows
    ctx.cov["exhaustive"] = True        # every shape emitted by the MC jobs x format x prefix is executed
    ctx.cov["selftest_records"] = nself
    ctx.cov["domain"] = {"shapes_values": len(shapes_small), "shapes_typemix": len(shapes_mix),
                         "formats": EXTS, "prefix": ["", PREFIX],
                         "random_rows": "1..3000"}
    if sample:
        ctx.sample(sample)
    if rejected:
        i, f = rejected[0]
        ctx.sample({"rejected": i["id"], "fails": f, "err": i["err"]})
    ctx.assumptions += [
        "uuids are hex/hyphen strings containing a letter of 'abcdf' in their first block (never parseable as a number)",
        "coordinate strings are non-empty (HH:MM:SS.SS, [+-]DD:MM:SS.SS or XX:XX:XX.XX for a non-finite coordinate)",
        "finite numeric values have magnitude 1e-30..1e30 (inside the single precision range); no infinities",
        "island/source/flags are python ints below 2^31; the -1 marker is the int -1 (as fitting.py sets it) or -1.0",
        "single precision = either of the two float32 neighbours of the value, or the value itself",
        "SQLite cannot store NaN: NULL is accepted for a NaN cell in .db only; sqlite column names may or may not carry the prefix",
        "with a prefix the reader strips 'prefix_' from the column names before table_to_source_list (the API has no reading counterpart)",
    ]
    report(ctx, rejected, jobs_by_id)


def replay(ctx, rec):
    res, em = mc_job(ctx, "mc_schema", 1, 1, ["typ"], [""], emit=True)
    schema = {"names": em["names"], "identity": sorted(em["identity"])}
    d = os.path.join(ctx.workdir, "files")
    os.makedirs(d, exist_ok=True)
    _init(d, schema)
    job = rec["detail"]["job"]
    r = observe(job)
    rejected = validate(ctx, [as_item(r)], "replay")
    ctx.count(evaluations=1, nontrivial=1, traces=1)
    ctx.sample({"id": r["id"], "err": r["err"], "fails": [f for _, f in rejected]})
    report(ctx, rejected, {job["id"]: job})
