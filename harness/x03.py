"""
X03 (growth, not one of the twenty listed properties) - the `MIMAS` command line program as
a priority dispatch, and which side of a region its masking modes remove.

model  : spec/MimasCLI.tla (machine of guarded early exits; TLC checks on all 12 288
         option-class vectors that it computes Outcome(conf), FailureDoesNothing,
         BuildNeedsOutfile, and the masking polarity BlankedPixels / RemovedRows).
binding: every option vector of a seeded sample (all of them in the thorough tier) becomes
         argv for the real AegeanTools.CLI.MIMAS.main with real files (two region files, a
         DS9 region file, an image with blank pixels, a mask image, a catalogue);
         observed: exit status, WHICH output appeared (the region written to -o is classified
         by its pixel set: intersection of the inputs / the region built from +c / neither),
         and for --maskimage / --maskcat the index sets of all, inside (oracle: healpy pixel of
         the position in the region's deepest-level pixel set) and removed items.  TLC
         (spec/MimasCLI_Trace.tla) validates against MimasCLI!Outcome and MimasCLI!Removed.
"""
import contextlib
import io
import itertools
import math
import os
import random
from concurrent.futures import ProcessPoolExecutor

import numpy as np

from harness import common, synth

LEVEL = "model_checking"

DIMS = {"cite": [False, True], "fitsmask": [False, True], "mim2reg": [False, True], "reg2mim": [False, True],
        "mim2fits": [False, True], "area": [False, True], "intersect": [0, 1, 2], "outfile": [False, True],
        "maskimage": [False, True], "maskcat": [False, True], "mask2mim": [False, True], "build": [False, True],
        "negate": [False, True]}
SHAPE = (12, 14)
CIRCLE = (150.02, -29.97, 0.12)       # +c of the build mode (degrees)


def prepare(d):
    from astropy.table import Table
    from astropy.wcs import WCS
    from AegeanTools.regions import Region
    h = synth.make_header(SHAPE, cdelt_arcsec=180.0, beam_arcsec=(540.0, 540.0, 0.0), crval=(150.0, -30.0))
    img = np.arange(SHAPE[0] * SHAPE[1], dtype=float).reshape(SHAPE) + 1.0
    img[0, 0] = np.nan
    img[5, 7] = np.nan
    synth.write(os.path.join(d, "im.fits"), img, h)
    mask = np.zeros(SHAPE)
    mask[3:8, 4:9] = 1.0
    synth.write(os.path.join(d, "mask.fits"), mask, h)
    r1 = Region(maxdepth=8)
    r1.add_circles(math.radians(150.05), math.radians(-29.95), math.radians(0.2))
    r1.save(os.path.join(d, "r1.mim"))
    r2 = Region(maxdepth=8)
    r2.add_circles(math.radians(149.9), math.radians(-30.1), math.radians(0.25))
    r2.save(os.path.join(d, "r2.mim"))
    with open(os.path.join(d, "in.reg"), "w") as f:
        f.write('# Region file format: DS9\nfk5\ncircle(150.0,-30.0,600")\n')
    w = WCS(h, naxis=2)
    rng = np.random.default_rng(4)
    xs, ys = rng.uniform(0, SHAPE[1] - 1, 30), rng.uniform(0, SHAPE[0] - 1, 30)
    ra, dec = w.all_pix2world(xs, ys, 0)
    Table({"id": np.arange(1, 31), "ra": ra, "dec": dec}).write(os.path.join(d, "cat.csv"), overwrite=True)
    return d


def pixset(reg):
    import copy
    return set(int(p) for p in copy.deepcopy(reg).get_demoted())


def observe(args):
    rid, conf, d = args
    common.quiet_logging()
    import healpy as hp
    from astropy.io import fits
    from astropy.table import Table
    from astropy.wcs import WCS
    from AegeanTools.CLI import MIMAS as cli
    from AegeanTools.regions import Region
    tag = os.path.join(d, "%s_%d" % (rid.replace("/", "_"), os.getpid()))
    out = {k: tag + s for k, s in (("reg", "_o.reg"), ("fromreg", "_fromreg.mim"), ("moc", "_moc.fits"),
                                   ("outfile", "_out.mim"), ("mimage", "_masked.fits"), ("mcat", "_masked.csv"),
                                   ("frommask", "_frommask.mim"))}
    r1, r2 = os.path.join(d, "r1.mim"), os.path.join(d, "r2.mim")
    argv = []
    if conf["cite"]:
        argv.append("--cite")
    if conf["fitsmask"]:
        argv += ["--fitsmask", os.path.join(d, "mask.fits"), os.path.join(d, "im.fits"), tag + "_fm.fits"]
    if conf["mim2reg"]:
        argv += ["--mim2reg", r1, out["reg"]]
    if conf["reg2mim"]:
        argv += ["--reg2mim", os.path.join(d, "in.reg"), out["fromreg"]]
    if conf["mim2fits"]:
        argv += ["--mim2fits", r1, out["moc"]]
    if conf["area"]:
        argv += ["--area", r1]
    for f in [r1, r2][:conf["intersect"]]:
        argv += ["--intersect", f]
    if conf["outfile"]:
        argv += ["-o", out["outfile"]]
    if conf["maskimage"]:
        argv += ["--maskimage", r1, os.path.join(d, "im.fits"), out["mimage"]]
    if conf["maskcat"]:
        argv += ["--maskcat", r1, os.path.join(d, "cat.csv"), out["mcat"]]
    if conf["mask2mim"]:
        argv += ["--mask2mim", os.path.join(d, "mask.fits"), out["frommask"]]
    if conf["build"]:
        argv += ["+c"] + [repr(v) for v in CIRCLE]
    if conf["negate"]:
        argv.append("--negate")
    rec = {"id": rid, "conf": conf, "err": "", "rc": -1, "did": [], "all": [], "inside": [], "gone": []}
    so = io.StringIO()
    try:
        with contextlib.redirect_stderr(io.StringIO()), contextlib.redirect_stdout(so):
            rc = cli.main(argv)
        rec["rc"] = int(rc) if rc is not None else 0
    except SystemExit as e:
        rec["err"] = "SystemExit(%s)" % e.code
    except Exception as e:
        rec["err"] = "%s: %s" % (type(e).__name__, str(e)[:200])
    did = []
    try:
        if os.path.exists(out["reg"]):
            did.append("reg")
        if os.path.exists(out["fromreg"]):
            did.append("mim_from_reg")
        if os.path.exists(out["moc"]):
            did.append("moc")
        if "represents an area of" in so.getvalue():
            did.append("area")
        if os.path.exists(out["frommask"]):
            did.append("mim_from_mask")
        if os.path.exists(out["outfile"]):
            got = pixset(Region.load(out["outfile"]))
            inter = pixset(Region.load(r1)) & pixset(Region.load(r2))
            b = Region(maxdepth=8)
            if conf["build"]:
                b.add_circles(*[math.radians(v) for v in CIRCLE])
            built = pixset(b)
            did.append("intersection" if got == inter else "combined" if got == built else "outfile_with_another_region")
        member = pixset(Region.load(r1))
        if os.path.exists(out["mimage"]):
            did.append("maskedimage")
            src = np.asarray(fits.getdata(os.path.join(d, "im.fits")), dtype=float)
            res = np.asarray(fits.getdata(out["mimage"]), dtype=float)
            w = WCS(fits.getheader(os.path.join(d, "im.fits")), naxis=2)
            rr, cc = np.where(np.isfinite(src))
            ra, dec = w.all_pix2world(cc, rr, 0)
            hpx = hp.ang2pix(2 ** 8, np.radians(90.0 - dec), np.radians(ra), nest=True)
            idx = (rr * SHAPE[1] + cc + 1).tolist()
            rec["all"] = idx
            rec["inside"] = [i for i, p in zip(idx, hpx) if int(p) in member]
            ok = res.shape == src.shape
            rec["gone"] = [i for i, r, c in zip(idx, rr, cc) if not ok or not np.isfinite(res[r, c]) or res[r, c] != src[r, c]]
        if os.path.exists(out["mcat"]):
            did.append("maskedcat")
            src = Table.read(os.path.join(d, "cat.csv"))
            res = Table.read(out["mcat"])
            hpx = hp.ang2pix(2 ** 8, np.radians(90.0 - np.asarray(src["dec"])), np.radians(np.asarray(src["ra"])), nest=True)
            rec["all"] = [int(i) for i in src["id"]]
            rec["inside"] = [int(i) for i, p in zip(src["id"], hpx) if int(p) in member]
            kept = set(int(i) for i in res["id"])
            rec["gone"] = [i for i in rec["all"] if i not in kept]
    except Exception as e:
        rec["err"] = rec["err"] or "observation: %s: %s" % (type(e).__name__, str(e)[:200])
    for f in list(out.values()) + [tag + "_fm.fits"]:
        if os.path.exists(f):
            os.remove(f)
    rec["did"] = did
    return rec


def validate(ctx, recs, name):
    tf = os.path.join(ctx.workdir, name + ".json")
    byid = {r["id"]: r for r in recs}
    common.dump_json(tf, recs)
    res = ctx.tlc("MimasCLI_Trace", common.cfg(spec="Spec", post="BatchDone", deadlock=False),
                  name=name, workers=1, env={"TRACE_FILE": tf})
    summary = [p for p in res.printed if isinstance(p, dict) and "accepted" in p]
    rej = [p for p in res.printed if isinstance(p, dict) and "fails" in p]
    if not summary or summary[0]["total"] != len(recs) or summary[0]["accepted"] + len(rej) != len(recs):
        raise common.MachineryError("trace batch %s not fully consumed" % name)
    return [(byid[p["id"]], p["fails"]) for p in rej]


def run(ctx):
    quick = ctx.tier == "quick"
    ctx.tlc("MimasCLI", common.cfg(spec="Spec", invariants=["MachineIsOutcome", "FailureDoesNothing", "BuildNeedsOutfile"],
                                   deadlock=False), name="cli_model", coverage=True)
    d = os.path.join(ctx.workdir, "cli")
    os.makedirs(d, exist_ok=True)
    common.quiet_logging()
    prepare(d)
    rng = random.Random(ctx.seed)
    keys = list(DIMS)
    allc = [dict(zip(keys, v)) for v in itertools.product(*[DIMS[k] for k in keys])]
    # most vectors stop at an early mode: stratify so that every mode is reached often
    late = [c for c in allc if not (c["cite"] or c["fitsmask"] or c["mim2reg"] or c["reg2mim"] or c["mim2fits"] or c["area"])]
    chosen = allc if not quick else rng.sample(allc, 200) + late
    with ProcessPoolExecutor(max_workers=16) as pool:
        recs = list(pool.map(observe, [("cfg/%d" % i, c, d) for i, c in enumerate(chosen)], chunksize=4))
    rejected = validate(ctx, recs, "cli_runs")
    bad_ids = {r["id"] for r, _ in rejected}
    good = next((r for r in recs if r["id"] not in bad_ids and "maskedimage" in r["did"]), None)
    if good is not None:
        g = dict(good, id="st-good")
        b1 = dict(g, id="st-rc", rc=1)
        b2 = dict(g, id="st-side", gone=sorted(set(g["all"]) - set(g["gone"])))
        b3 = dict(g, id="st-mode", did=["maskedcat"])
        rej = {r["id"] for r, _ in validate(ctx, [g, b1, b2, b3], "selftest")}
        if rej != {"st-rc", "st-side", "st-mode"}:
            raise common.MachineryError("MimasCLI_Trace self-test failed: %r" % rej)
    ctx.count(evaluations=len(recs), nontrivial=len({common.json.dumps(r["conf"], sort_keys=True) for r in recs}), traces=len(recs))
    ctx.cov["rule"] = ("one real `MIMAS` CLI run per option-class vector (%s of the 12288; quick: 200 random + all 192 past the "
                       "conversion modes)" % ("all" if not quick else len(chosen)))
    ctx.cov["exhaustive"] = not quick
    ctx.cov["outcomes_seen"] = sorted({"rc=%d did=%s" % (r["rc"], ",".join(r["did"])) for r in recs})
    ctx.sample({k: recs[-1][k] for k in ("id", "conf", "rc", "did")})
    ctx.assumptions += ["all input files exist and are valid; the region written to -o is recognised by its pixel set"]
    for rec, fails in rejected:
        c = rec["conf"]
        mode = next((k for k in ("cite", "fitsmask", "mim2reg", "reg2mim", "mim2fits", "area") if c[k]), None) or \
            ("intersect%d" % c["intersect"] if c["intersect"] else next((k for k in ("maskimage", "maskcat", "mask2mim") if c[k]), "build"))
        ctx.violation("mimas-cli fails=%s first-mode=%s outfile=%s negate=%s" % (",".join(fails), mode, c["outfile"], c["negate"]),
                      {"record": rec, "fails": fails})


def replay(ctx, rec):
    r = rec["detail"]["record"]
    d = os.path.join(ctx.workdir, "cli")
    os.makedirs(d, exist_ok=True)
    prepare(d)
    out = observe((r["id"], r["conf"], d))
    for rr, fails in validate(ctx, [out], "replay"):
        ctx.violation("mimas-cli fails=%s" % ",".join(fails), {"record": rr, "fails": fails})
    ctx.count(evaluations=1, nontrivial=2, traces=1)
