"""
X06 (growth, not one of the twenty listed properties) - how a FITS header is interpreted.

model  : spec/HeaderRules.tla (which keywords give pixel scale, pixel area, beam, BANE's default
         grid; when a header is refused) as rules and as a machine that inspects the keywords in
         the code's order; TLC checks MachineIsRules on all 96 header classes and the facts
         CdeltWins, RotationIgnoredInScale, NoScaleIsZero, RefusedIffNoBeam.
binding: one real header per class, every keyword with its own sentinel number, is given to the
         real wcs_helpers.get_pixinfo, get_beam, WCSHelper.from_header and BANE.get_step_size;
         each returned number is matched against the candidate rules and TLC
         (spec/HeaderRules_Trace.tla) accepts iff the specified rule is among the matches.
"""
import itertools
import math
import os

from harness import common

LEVEL = "model_checking"
DIMS = {"scale": ["cdelt", "cd_diag0", "cd_rot", "cd_two", "both", "none"], "bmaj": [False, True], "bmin": [False, True],
        "bpa": [False, True], "beamarg": [False, True]}
CDELT = (-0.004, 0.0045)
CD = (-0.005, 0.0055)
OFF = (0.0011, -0.0012)
BM = (0.02, 0.015, 30.0)
ARG = (0.05, 0.04, -20.0)


def header_of(conf):
    from astropy.io import fits
    h = fits.Header()
    h["NAXIS"] = 2
    h["NAXIS1"] = 64
    h["NAXIS2"] = 64
    h["CTYPE1"] = "RA---SIN"
    h["CTYPE2"] = "DEC--SIN"
    h["CRVAL1"] = 50.0
    h["CRVAL2"] = -20.0
    h["CRPIX1"] = 32.0
    h["CRPIX2"] = 33.0
    s = conf["scale"]
    if s in ("cdelt", "both"):
        h["CDELT1"], h["CDELT2"] = CDELT
    if s in ("cd_diag0", "cd_rot", "both", "cd_two"):
        h["CD1_1"], h["CD2_2"] = CD
    if s in ("cd_diag0", "both"):
        h["CD1_2"], h["CD2_1"] = 0.0, 0.0
    if s == "cd_rot":
        h["CD1_2"], h["CD2_1"] = OFF
    if conf["bmaj"]:
        h["BMAJ"] = BM[0]
    if conf["bmin"]:
        h["BMIN"] = BM[1]
    if conf["bpa"]:
        h["BPA"] = BM[2]
    return h


def same(a, b):
    return abs(a - b) <= 1e-12 * max(abs(a), abs(b), 1e-300)


def observe(args):
    rid, conf = args
    common.quiet_logging()
    import warnings
    warnings.simplefilter("ignore")
    from AegeanTools import wcs_helpers
    from AegeanTools.BANE import get_step_size
    h = header_of(conf)
    rec = {"id": rid, "conf": conf, "pixscale": [], "pixarea": [], "beamfrom": [], "beampa": [], "step": [], "raw": {}}
    try:
        area, scale = wcs_helpers.get_pixinfo(h)
        scale = tuple(float(x) for x in scale)
        rec["raw"]["pixscale"] = list(scale)
        for name, val in (("cdelt", CDELT), ("cd_diagonal", CD), ("zero", (0.0, 0.0))):
            if same(scale[0], val[0]) and same(scale[1], val[1]):
                rec["pixscale"].append(name)
        det = abs(CD[0] * CD[1] - (OFF[0] * OFF[1] if conf["scale"] == "cd_rot" else 0.0))
        for name, val in (("cdelt_product", abs(CDELT[0] * CDELT[1])), ("cd_determinant", det),
                          ("cd_diagonal_product", abs(CD[0] * CD[1])), ("zero", 0.0)):
            if same(float(area), val):
                rec["pixarea"].append(name)
    except Exception as e:
        rec["raw"]["pixinfo_error"] = "%s: %s" % (type(e).__name__, e)
    try:
        beam = wcs_helpers.Beam(*ARG) if conf["beamarg"] else None
        w = wcs_helpers.WCSHelper.from_header(h, beam=beam)
        b = w.beam
        if same(b.a, ARG[0]) and same(b.b, ARG[1]):
            rec["beamfrom"].append("argument")
        if same(b.a, BM[0]) and same(b.b, BM[1]):
            rec["beamfrom"].append("header")
        for name, val in (("argument", ARG[2]), ("bpa", BM[2]), ("zero", 0.0)):
            if same(float(b.pa), val):
                rec["beampa"].append(name)
        # the helper's own pixel scale must be the one get_pixinfo reports
        if "pixscale" in rec["raw"] and [float(x) for x in w.pixscale] != rec["raw"]["pixscale"]:
            rec["pixscale"] = []
    except AssertionError:
        rec["beamfrom"].append("refused")
    except Exception as e:
        rec["raw"]["helper_error"] = "%s: %s" % (type(e).__name__, e)
    try:
        step = get_step_size(h)
        rec["raw"]["step"] = [int(step[0]), int(step[1])]
        beam_size = math.sqrt(BM[0] * BM[1])
        for name, val in (("sixteen", 16), ("four_beams_by_cdelt", int(math.ceil(4 * beam_size / math.sqrt(abs(CDELT[0] * CDELT[1]))))),
                          ("four_beams_by_cd_diagonal", int(math.ceil(4 * beam_size / math.sqrt(abs(CD[0] * CD[1])))))):
            if int(step[0]) == val and int(step[1]) == val:
                rec["step"].append(name)
    except Exception as e:
        rec["raw"]["step_error"] = "%s: %s" % (type(e).__name__, e)
    return rec


def validate(ctx, recs, name):
    tf = os.path.join(ctx.workdir, name + ".json")
    byid = {r["id"]: r for r in recs}
    common.dump_json(tf, [{k: v for k, v in r.items() if k != "raw"} for r in recs])
    res = ctx.tlc("HeaderRules_Trace", common.cfg(spec="Spec", post="BatchDone", deadlock=False),
                  name=name, workers=1, env={"TRACE_FILE": tf})
    summary = [p for p in res.printed if isinstance(p, dict) and "accepted" in p]
    rej = [p for p in res.printed if isinstance(p, dict) and "fails" in p]
    if not summary or summary[0]["total"] != len(recs) or summary[0]["accepted"] + len(rej) != len(recs):
        raise common.MachineryError("trace batch %s not fully consumed" % name)
    return [(byid[p["id"]], p["fails"]) for p in rej]


def run(ctx):
    ctx.tlc("HeaderRules", common.cfg(spec="Spec", invariants=["MachineIsRules"], deadlock=False), name="rules_model", coverage=True)
    keys = list(DIMS)
    confs = [dict(zip(keys, v)) for v in itertools.product(*[DIMS[k] for k in keys])]
    recs = [observe(("hdr/%d" % i, c)) for i, c in enumerate(confs)]
    rejected = validate(ctx, recs, "headers")
    bad = {r["id"] for r, _ in rejected}
    good = next((r for r in recs if r["id"] not in bad and r["conf"]["scale"] == "both" and r["conf"]["bmaj"] and r["conf"]["bmin"]
                 and not r["conf"]["beamarg"]), None)
    if good is not None:
        g = dict(good, id="st-good")
        rej = {r["id"] for r, _ in validate(ctx, [g, dict(g, id="st-scale", pixscale=["cd_diagonal"]), dict(g, id="st-beam", beamfrom=["argument"]),
                                                  dict(g, id="st-step", step=["sixteen"])], "selftest")}
        if rej != {"st-scale", "st-beam", "st-step"}:
            raise common.MachineryError("HeaderRules_Trace self-test failed: %r" % rej)
    ctx.count(evaluations=len(recs), nontrivial=len(recs), traces=len(recs))
    ctx.cov["rule"] = "one real header per class of HeaderRules!Confs (6 scale classes x BMAJ x BMIN x BPA x explicit beam = 96): exhaustive"
    ctx.cov["exhaustive"] = True
    ctx.sample({k: v for k, v in recs[-1].items()})
    for rec, fails in rejected:
        ctx.violation("header fails=%s scale=%s beam-keys=%s%s%s beamarg=%s" % (",".join(fails), rec["conf"]["scale"], int(rec["conf"]["bmaj"]),
                                                                              int(rec["conf"]["bmin"]), int(rec["conf"]["bpa"]), rec["conf"]["beamarg"]),
                      {"record": rec, "fails": fails})


def replay(ctx, rec):
    r = rec["detail"]["record"]
    out = observe((r["id"], r["conf"]))
    for rr, fails in validate(ctx, [out], "replay"):
        ctx.violation("header fails=%s" % ",".join(fails), {"record": rr, "fails": fails})
    ctx.count(evaluations=1, nontrivial=2, traces=1)
