"""
X01 (growth, not one of the twenty listed properties) - the option machine of the
`aegean` command line program.

model  : spec/AegeanCLI.tla (the program as a machine of guarded early exits; TLC checks
         on all 82 944 option-class vectors that the machine computes Outcome(conf) and the
         user-level facts SaveNeverFinds / TablesNeedSources / FailureWritesNoTable).
binding: option vectors are turned into argv and run through the real
         AegeanTools.CLI.aegean.main; exit status and observable effects (rows of a blind run /
         PRIORIZED rows in --out, background files, table files) are validated by TLC against
         AegeanCLI!Outcome (spec/AegeanCLI_Trace.tla).
"""
import contextlib
import io
import itertools
import os
import random
from concurrent.futures import ProcessPoolExecutor

import numpy as np

from harness import common, synth

LEVEL = "model_checking"

DIMS = {"cite": [False, True], "tformats": [False, True], "versions": [False, True],
        "image": ["none", "missing", "ok"], "nopositive": [False, True], "negative": [False, True],
        "save": [False, True], "find": [False, True], "prior": [0, 1, 2, 3],
        "input": ["none", "missing", "ok"], "tables": ["none", "bad", "ok"],
        "noise": ["none", "missing"], "ratio": ["none", "neg", "ok"]}


def prepare(d):
    """image with one positive and one negative source + a catalogue of it."""
    from astropy.wcs import WCS
    shape = (64, 64)
    h = synth.make_header(shape, cdelt_arcsec=15.0, beam_arcsec=(52.0, 52.0, 0.0))
    s0 = 52.0 / 15.0 * synth.FWHM2SIG
    img = synth.render(shape, [(30.0, 20.3, 22.6, s0, s0, 0.0), (-25.0, 44.2, 40.1, s0, s0, 0.0)])
    img = img + np.random.default_rng(3).normal(0, 0.5, shape)
    im = os.path.join(d, "im.fits")
    synth.write(im, img, h)
    from AegeanTools.source_finder import SourceFinder
    from AegeanTools.catalogs import save_catalog
    with contextlib.redirect_stderr(io.StringIO()):
        src = SourceFinder().find_sources_in_image(im, rms=0.5, bkg=0.0, cores=1, nonegative=False)
    save_catalog(os.path.join(d, "cat.csv"), src)
    return im, os.path.join(d, "cat_comp.csv")


def observe(args):
    rid, conf, d = args
    common.quiet_logging()
    from AegeanTools.CLI import aegean as cli
    im, cat = os.path.join(d, "im.fits"), os.path.join(d, "cat_comp.csv")
    tag = "%s_%d" % (rid.replace("/", "_"), os.getpid())
    out = os.path.join(d, tag + "_out.txt")
    base = os.path.join(d, tag + "_bg")
    tab = os.path.join(d, tag + "_tab")
    argv = []
    if conf["image"] == "missing":
        argv.append(os.path.join(d, "nonexistent.fits"))
    elif conf["image"] == "ok":
        argv.append(im)
    for flag in ("cite", "tformats", "versions", "nopositive", "negative", "save", "find"):
        if conf[flag]:
            argv.append("--" + flag)
    if conf["save"]:
        argv += ["--outbase", base]
    if conf["prior"] > 0:
        argv += ["--priorized", str(conf["prior"])]
    if conf["input"] != "none":
        argv += ["--input", cat if conf["input"] == "ok" else os.path.join(d, "nocat.csv")]
    if conf["tables"] != "none":
        argv += ["--table", tab + (".csv" if conf["tables"] == "ok" else ".badext")]
    if conf["noise"] == "missing":
        argv += ["--noise", os.path.join(d, "norms.fits")]
    if conf["ratio"] != "none":
        argv += ["--ratio", "-1" if conf["ratio"] == "neg" else "1.0"]
    argv += ["--forcerms", "0.5", "--forcebkg", "0", "--cores", "1", "--out", out]
    rec = {"id": rid, "conf": conf, "err": "", "rc": -1, "did": []}
    try:
        with contextlib.redirect_stderr(io.StringIO()), contextlib.redirect_stdout(io.StringIO()):
            rc = cli.main(argv)
        rec["rc"] = int(rc) if rc is not None else 0
    except SystemExit as e:
        rec["err"] = "SystemExit(%s)" % e.code
    except Exception as e:
        rec["err"] = "%s: %s" % (type(e).__name__, str(e)[:200])
    did = set()
    if os.path.exists(out):
        for line in open(out):
            if line.startswith("("):
                did.add("prior" if line.split()[-1][0] == "1" else "found")
        os.remove(out)
    if os.path.exists(base + "_bkg.fits") and os.path.exists(base + "_rms.fits"):
        did.add("savedbkg")
    if os.path.exists(tab + "_comp.csv"):
        did.add("tables")
    for f in (base + "_bkg.fits", base + "_rms.fits", base + "_crv.fits", base + "_snr.fits", tab + "_comp.csv", tab + "_isle.csv"):
        if os.path.exists(f):
            os.remove(f)
    rec["did"] = sorted(did)
    return rec


def validate(ctx, recs, name):
    tf = os.path.join(ctx.workdir, name + ".json")
    byid = {r["id"]: r for r in recs}
    common.dump_json(tf, recs)
    res = ctx.tlc("AegeanCLI_Trace", common.cfg(spec="Spec", post="BatchDone", deadlock=False),
                  name=name, workers=1, env={"TRACE_FILE": tf})
    summary = [p for p in res.printed if isinstance(p, dict) and "accepted" in p]
    rej = [p for p in res.printed if isinstance(p, dict) and "fails" in p]
    if not summary or summary[0]["total"] != len(recs) or summary[0]["accepted"] + len(rej) != len(recs):
        raise common.MachineryError("trace batch %s not fully consumed" % name)
    return [(byid[p["id"]], p["fails"]) for p in rej]


def run(ctx):
    quick = ctx.tier == "quick"
    ctx.tlc("AegeanCLI", common.cfg(spec="Spec", invariants=["MachineIsOutcome", "SaveNeverFinds", "TablesNeedSources",
                                                             "FailureWritesNoTable"], deadlock=False),
            name="cli_model", coverage=True)
    d = os.path.join(ctx.workdir, "cli")
    os.makedirs(d, exist_ok=True)
    common.quiet_logging()
    prepare(d)
    rng = random.Random(ctx.seed)
    keys = list(DIMS)
    allc = [dict(zip(keys, v)) for v in itertools.product(*[DIMS[k] for k in keys])]
    # most vectors exit early: stratify so that half of the sample gets past the early exits
    deep = [c for c in allc if not (c["cite"] or c["tformats"] or c["versions"]) and c["image"] == "ok"
            and not (c["nopositive"] and not c["negative"]) and c["noise"] == "none"]
    n = 160 if quick else 2500
    chosen = rng.sample(allc, n // 2) + rng.sample(deep, n // 2)
    with ProcessPoolExecutor(max_workers=16) as pool:
        recs = list(pool.map(observe, [("cfg/%d" % i, c, d) for i, c in enumerate(chosen)], chunksize=2))
    good = dict(recs[0], id="st-good")
    rejected = validate(ctx, recs, "cli_runs")
    if recs[0]["id"] not in {r["id"] for r, _ in rejected}:
        bad = dict(good, id="st-bad", rc=1 - good["rc"] if good["rc"] in (0, 1) else 0)
        rej = {r["id"] for r, _ in validate(ctx, [good, bad], "selftest")}
        if rej != {"st-bad"}:
            raise common.MachineryError("AegeanCLI_Trace self-test failed")
    ctx.count(evaluations=len(recs), nontrivial=len({common.json.dumps(r["conf"], sort_keys=True) for r in recs}), traces=len(recs))
    ctx.cov["rule"] = "one real `aegean` CLI run per option-class vector (half random over all 82944, half past the early exits)"
    ctx.cov["outcomes_seen"] = sorted({"rc=%d did=%s" % (r["rc"], ",".join(r["did"])) for r in recs})
    ctx.sample({k: recs[-1][k] for k in ("id", "conf", "rc", "did")})
    ctx.assumptions += ["forced rms/bkg; the test image has one positive and one negative source, so a blind run and a priorized run always yield rows"]
    for rec, fails in rejected:
        c = rec["conf"]
        ctx.violation("cli fails=%s save=%s prior=%s find=%s tables=%s input=%s ratio=%s" % (
            ",".join(fails), c["save"], c["prior"], c["find"], c["tables"], c["input"], c["ratio"]), {"record": rec, "fails": fails})


def replay(ctx, rec):
    r = rec["detail"]["record"]
    d = os.path.join(ctx.workdir, "cli")
    os.makedirs(d, exist_ok=True)
    prepare(d)
    out = observe((r["id"], r["conf"], d))
    for rr, fails in validate(ctx, [out], "replay"):
        ctx.violation("cli fails=%s" % ",".join(fails), {"record": rr, "fails": fails})
    ctx.count(evaluations=1, nontrivial=2, traces=1)
