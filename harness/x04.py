"""
X04 (growth, not one of the twenty listed properties) - the small command line programs
BANE, AeRes, regroup (AeReg) and SR6 as machines of guarded early exits.

model  : spec/ToolCLIs.tla (Outcome(tool, conf) = exit status + set of observable effects; TLC
         checks MachineIsOutcome, FailureDoesNothing, OneArithmeticMode, PsfHeaderWins on every
         configuration of every tool).
binding: EVERY configuration (72 + 64 + 16 + 96) becomes argv for the real
         AegeanTools.CLI.{BANE,AeRes,AeReg,SR6}.main on real files; the effects are recognised by
         content against the library called directly (residual = image -/+ model or masked;
         catalogue shapes = resize by ratio / to the psf header; island numbers = regroup_dbscan;
         compressed map with the given / the beam-derived factor; expanded map, blanked where
         the mask file is blank) and validated by TLC (spec/ToolCLIs_Trace.tla).
"""
import contextlib
import io
import itertools
import os
from concurrent.futures import ProcessPoolExecutor

import numpy as np

from harness import common, synth

LEVEL = "model_checking"
SIG = 0.25
DIMS = {
    "AeRes": {"catalog": [False, True], "fits": [False, True], "rfile": [False, True], "mfile": [False, True],
              "add": [False, True], "mask": [False, True]},
    "regroup": {"input": ["missing", "ok"], "ratio": [False, True], "psfheader": [False, True],
                "regroup": [False, True], "tables": [1, 2]},
    "BANE": {"cite": [False, True], "image": ["none", "missing", "ok"], "noclobber": [False, True],
             "existing": ["none", "one", "both"], "compress": [False, True]},
    "SR6": {"noargs": [False, True], "cite": [False, True], "infile": ["missing", "ok"], "expand": [False, True],
            "maskfile": ["none", "missing", "ok"], "factor": [False, True]},
}


def prepare(d):
    from AegeanTools import fits_tools
    from AegeanTools.catalogs import save_catalog
    from AegeanTools.source_finder import SourceFinder
    shape = (48, 56)
    h = synth.make_header(shape, cdelt_arcsec=20.0, beam_arcsec=(60.0, 60.0, 0.0))
    s = 3 * synth.FWHM2SIG
    img = synth.render(shape, [(12.0, 14.3, 12.6, s, s, 0.0), (9.0, 19.0, 15.0, s, s, 0.0), (-8.0, 40.2, 30.1, s, s, 0.0),
                               (10.0, 30.0, 38.0, 1.6 * s, s, 0.5)])
    img = np.asarray(np.asarray(img + np.random.default_rng(8).normal(0, SIG, shape), dtype=np.float32), dtype=float)
    synth.write(os.path.join(d, "im.fits"), img, h)
    with contextlib.redirect_stderr(io.StringIO()):
        rows = SourceFinder().find_sources_in_image(os.path.join(d, "im.fits"), rms=SIG, bkg=0.0, cores=1, nonegative=False)
    if len(rows) < 3:
        raise common.MachineryError("preparation: fewer than 3 sources found")
    for n, r in enumerate(rows):            # arbitrary distinct island numbers: regrouping must renumber them
        r.island, r.source = 10 * (n + 1), 0
    save_catalog(os.path.join(d, "cat.csv"), rows)
    # target psf for `regroup --psfheader`: a header with another beam
    h2 = synth.make_header(shape, cdelt_arcsec=20.0, beam_arcsec=(150.0, 100.0, 20.0))
    synth.write(os.path.join(d, "psf.fits"), np.zeros(shape), h2)
    fits_tools.compress(os.path.join(d, "im.fits"), 4, os.path.join(d, "small.fits"))
    m = np.zeros(shape)
    m[5:12, 20:30] = np.nan
    synth.write(os.path.join(d, "blank.fits"), m, h)


def _cat(path):
    from AegeanTools import catalogs
    return catalogs.table_to_source_list(catalogs.load_table(path))


def obs_aeres(conf, d, tag):
    from astropy.io import fits
    from AegeanTools import AeRes
    from AegeanTools.CLI import AeRes as cli
    res, mod = tag + "_res.fits", tag + "_mod.fits"
    argv = []
    if conf["catalog"]:
        argv += ["-c", os.path.join(d, "cat_comp.csv")]
    if conf["fits"]:
        argv += ["-f", os.path.join(d, "im.fits")]
    if conf["rfile"]:
        argv += ["-r", res]
    if conf["mfile"]:
        argv += ["-m", mod]
    if conf["add"]:
        argv.append("--add")
    if conf["mask"]:
        argv.append("--mask")
    rc = cli.main(argv)
    did = []
    if os.path.exists(res):
        did.append("residual")
        got = np.asarray(fits.getdata(res), dtype=float)
        modes = []
        for name, kw in (("subtracted", {}), ("added", {"add": True}), ("masked", {"mask": True})):
            ref = tag + "_ref_%s.fits" % name
            AeRes.make_residual(os.path.join(d, "im.fits"), os.path.join(d, "cat_comp.csv"), ref, **kw)
            if np.array_equal(got, np.asarray(fits.getdata(ref), dtype=float), equal_nan=True):
                modes.append(name)
            os.remove(ref)
        did += modes or ["residual_of_no_known_mode"]
    if os.path.exists(mod):
        did.append("model")
    for f in (res, mod):
        if os.path.exists(f):
            os.remove(f)
    return rc, did


def obs_regroup(conf, d, tag):
    from astropy.io import fits
    from AegeanTools import cluster, wcs_helpers
    from AegeanTools.CLI import AeReg as cli
    t1, t2 = tag + "_t1.csv", tag + "_t2.vot"
    argv = ["--input", os.path.join(d, "cat_comp.csv") if conf["input"] == "ok" else os.path.join(d, "nocat.csv"),
            "--table", t1 if conf["tables"] == 1 else t1 + "," + t2]
    if conf["ratio"]:
        argv += ["--ratio", "2.0"]
    if conf["psfheader"]:
        argv += ["--psfheader", os.path.join(d, "psf.fits")]
    if not conf["regroup"]:
        argv.append("--noregroup")
    rc = cli.main(argv)
    did = []
    o1, o2 = tag + "_t1_comp.csv", tag + "_t2_comp.vot"
    if os.path.exists(o1):
        did.append("table1")
        out = _cat(o1)
        key = lambda s: (round(s.ra, 9), round(s.dec, 9))
        src = {key(s): s for s in _cat(os.path.join(d, "cat_comp.csv"))}
        a_out = {key(s): s.a for s in out}
        ref_ratio = {key(s): s.a for s in cluster.resize(_cat(os.path.join(d, "cat_comp.csv")), ratio=2.0)}
        helper = wcs_helpers.WCSHelper.from_header(fits.getheader(os.path.join(d, "psf.fits")))
        ref_psf = {key(s): s.a for s in cluster.resize(_cat(os.path.join(d, "cat_comp.csv")), psfhelper=helper)}
        same = lambda x, y: set(x) == set(y) and all(abs(x[k] - y[k]) <= 1e-9 * abs(y[k]) for k in x)
        if same(a_out, ref_psf):
            did.append("resized_to_psf")
        elif same(a_out, ref_ratio):
            did.append("resized_by_ratio")
        elif not same(a_out, {k: s.a for k, s in src.items()}):
            did.append("shapes_of_no_known_scaling")
        isl_out = {key(s): (s.island, s.source) for s in out}
        isl_in = {k: (s.island, s.source) for k, s in src.items()}
        if set(isl_out) == set(isl_in) and isl_out != isl_in:
            did.append("regrouped")
    if os.path.exists(o2):
        did.append("table2")
    for f in (o1, o2):
        if os.path.exists(f):
            os.remove(f)
    return rc, did


def obs_sr6(conf, d, tag):
    from astropy.io import fits
    from AegeanTools.BANE import get_step_size
    from AegeanTools.CLI import SR6 as cli
    out = tag + "_sr6.fits"
    plain, small = os.path.join(d, "im.fits"), os.path.join(d, "small.fits")
    if conf["noargs"]:
        argv = []
    else:
        src = (small if conf["expand"] else plain) if conf["infile"] == "ok" else os.path.join(d, "nofile.fits")
        argv = [src, "-o", out]
        if conf["cite"]:
            argv.append("--cite")
        if conf["expand"]:
            argv.append("-x")
        if conf["maskfile"] != "none":
            argv += ["-m", os.path.join(d, "blank.fits") if conf["maskfile"] == "ok" else os.path.join(d, "nomask.fits")]
        if conf["factor"]:
            argv += ["-f", "3"]
    rc = cli.main(argv)
    did = []
    if os.path.exists(out):
        hd = fits.getheader(out)
        data = np.asarray(fits.getdata(out), dtype=float)
        ref = np.asarray(fits.getdata(plain), dtype=float)
        if "BN_CFAC" in hd:
            did.append("compressed")
            auto = int(get_step_size(fits.getheader(plain))[0])
            if auto == 3:
                raise common.MachineryError("beam-derived factor equals the explicit one")
            did.append("factor_as_given" if int(hd["BN_CFAC"]) == 3 else "factor_from_beam" if int(hd["BN_CFAC"]) == auto
                       else "factor_of_unknown_origin")
        elif data.shape == ref.shape:
            did.append("expanded")
            blank = np.isnan(np.asarray(fits.getdata(os.path.join(d, "blank.fits")), dtype=float))
            if np.all(np.isnan(data[blank])) and not np.any(np.isnan(data[~blank])):
                did.append("blanked_by_mask")
            elif np.any(np.isnan(data)):
                did.append("blanked_elsewhere")
        else:
            did.append("output_of_unknown_kind")
        os.remove(out)
    return rc, did


def obs_bane(conf, d, tag):
    from astropy.io import fits
    from AegeanTools.CLI import BANE as cli
    base = tag + "_bane"
    fb, fr = base + "_bkg.fits", base + "_rms.fits"
    sentinel = b"old contents"
    if conf["existing"] in ("one", "both"):
        with open(fb, "wb") as f:
            f.write(sentinel)
    if conf["existing"] == "both":
        with open(fr, "wb") as f:
            f.write(sentinel)
    argv = []
    if conf["image"] != "none":
        argv.append(os.path.join(d, "im.fits") if conf["image"] == "ok" else os.path.join(d, "nofile.fits"))
    argv += ["--out", base, "--cores", "1", "--stripes", "1", "--grid", "4", "4", "--box", "16", "16"]
    if conf["cite"]:
        argv.append("--cite")
    if conf["noclobber"]:
        argv.append("--noclobber")
    if conf["compress"]:
        argv.append("--compress")
    rc = cli.main(argv)
    did = []
    shapes = set()
    for f, name in ((fb, "bkg_written"), (fr, "rms_written")):
        if os.path.exists(f):
            with open(f, "rb") as fh:
                new = fh.read(len(sentinel)) != sentinel
            if new:
                did.append(name)
                hd = fits.getheader(f)
                shapes.add("compressed_maps" if "BN_CFAC" in hd else
                           "full_size_maps" if (hd["NAXIS2"], hd["NAXIS1"]) == (48, 56) else "maps_of_another_size")
            os.remove(f)
    did += sorted(shapes)
    return rc, did


OBS = {"BANE": obs_bane, "AeRes": obs_aeres, "regroup": obs_regroup, "SR6": obs_sr6}


def observe(args):
    rid, tool, conf, d = args
    common.quiet_logging()
    tag = os.path.join(d, "%s_%d" % (rid.replace("/", "_"), os.getpid()))
    rec = {"id": rid, "tool": tool, "conf": conf, "err": "", "rc": -1, "did": []}
    try:
        with contextlib.redirect_stderr(io.StringIO()), contextlib.redirect_stdout(io.StringIO()):
            rc, did = OBS[tool](conf, d, tag)
        rec["rc"] = int(rc) if rc is not None else 0
        rec["did"] = did
    except SystemExit as e:
        rec["err"] = "SystemExit(%s)" % e.code
    except common.MachineryError:
        raise
    except Exception as e:
        rec["err"] = "%s: %s" % (type(e).__name__, str(e)[:200])
    return rec


def validate(ctx, recs, name):
    tf = os.path.join(ctx.workdir, name + ".json")
    byid = {r["id"]: r for r in recs}
    common.dump_json(tf, recs)
    res = ctx.tlc("ToolCLIs_Trace", common.cfg(spec="Spec", post="BatchDone", deadlock=False),
                  name=name, workers=1, env={"TRACE_FILE": tf})
    summary = [p for p in res.printed if isinstance(p, dict) and "accepted" in p]
    rej = [p for p in res.printed if isinstance(p, dict) and "fails" in p]
    if not summary or summary[0]["total"] != len(recs) or summary[0]["accepted"] + len(rej) != len(recs):
        raise common.MachineryError("trace batch %s not fully consumed" % name)
    return [(byid[p["id"]], p["fails"]) for p in rej]


def run(ctx):
    ctx.tlc("ToolCLIs", common.cfg(spec="Spec", invariants=["MachineIsOutcome", "FailureDoesNothing", "OneArithmeticMode",
                                                            "PsfHeaderWins"], deadlock=False), name="cli_model", coverage=True)
    d = os.path.join(ctx.workdir, "cli")
    os.makedirs(d, exist_ok=True)
    common.quiet_logging()
    prepare(d)
    jobs = []
    for tool, dims in DIMS.items():
        keys = list(dims)
        for i, v in enumerate(itertools.product(*[dims[k] for k in keys])):
            jobs.append(("%s/%d" % (tool, i), tool, dict(zip(keys, v)), d))
    with ProcessPoolExecutor(max_workers=16) as pool:
        recs = list(pool.map(observe, jobs, chunksize=2))
    rejected = validate(ctx, recs, "cli_runs")
    bad_ids = {r["id"] for r, _ in rejected}
    good = next((r for r in recs if r["id"] not in bad_ids and r["tool"] == "regroup" and "regrouped" in r["did"]), None)
    if good is not None:
        g = dict(good, id="st-good")
        rej = {r["id"] for r, _ in validate(ctx, [g, dict(g, id="st-rc", rc=1), dict(g, id="st-less", did=[x for x in g["did"] if x != "regrouped"]),
                                                  dict(g, id="st-more", did=g["did"] + ["resized_by_ratio", "resized_to_psf"])], "selftest")}
        if rej != {"st-rc", "st-less", "st-more"}:
            raise common.MachineryError("ToolCLIs_Trace self-test failed: %r" % rej)
    ctx.count(evaluations=len(recs), nontrivial=len(recs), traces=len(recs))
    ctx.cov["rule"] = "one real CLI run per configuration of ToolCLIs!Confs (BANE 72, AeRes 64, regroup 16, SR6 96): exhaustive"
    ctx.cov["exhaustive"] = True
    ctx.cov["outcomes_seen"] = sorted({"%s rc=%d did=%s" % (r["tool"], r["rc"], ",".join(sorted(r["did"]))) for r in recs})
    ctx.sample({k: recs[-1][k] for k in ("id", "tool", "conf", "rc", "did")})
    ctx.assumptions += ["input files that are given exist and are valid unless the configuration says 'missing'"]
    for rec, fails in rejected:
        ctx.violation("%s-cli fails=%s conf=%s" % (rec["tool"], ",".join(fails), ",".join("%s=%s" % kv for kv in sorted(rec["conf"].items()))),
                      {"record": rec, "fails": fails})


def replay(ctx, rec):
    r = rec["detail"]["record"]
    d = os.path.join(ctx.workdir, "cli")
    os.makedirs(d, exist_ok=True)
    prepare(d)
    out = observe((r["id"], r["tool"], r["conf"], d))
    for rr, fails in validate(ctx, [out], "replay"):
        ctx.violation("%s-cli fails=%s" % (rr["tool"], ",".join(fails)), {"record": rr, "fails": fails})
    ctx.count(evaluations=1, nontrivial=2, traces=1)
