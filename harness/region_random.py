"""
Code -> spec driver for C08/C12: seeded Region histories with real geometry,
projected to the Boolean-algebra quotient (atoms) and validated by TLC against
spec/Region_AtomTrace.tla.
"""
import copy
import math
import os
import random
import multiprocessing as mp

import numpy as np

from harness import common, region_lib

MIMS = ["tests/test_files/1904-66_SIN.mim", "tests/test_files/small.mim"]
MAXATOMS = 4096


def _vec(ra, dec):
    import healpy as hp
    return hp.ang2vec(math.pi / 2 - dec, ra)


def pixsize(d):
    return math.sqrt(4 * math.pi / (12 * 4 ** d))


def at_depth(P, d, D):
    """pixel set given at level d seen at level D (descendants / ancestors)."""
    out = set()
    if d <= D:
        k = 4 ** (D - d)
        for p in P:
            out.update(range(p * k, (p + 1) * k))
    else:
        k = 4 ** (d - D)
        out = set(p // k for p in P)
    return out


def near(rng, ra0, dec0, scale):
    dec = max(-math.pi / 2, min(math.pi / 2, dec0 + rng.uniform(-3, 3) * scale))
    c = max(math.cos(dec), 0.05)
    ra = (ra0 + rng.uniform(-3, 3) * scale / c) % (2 * math.pi)
    return ra, dec


def make_history(seed):
    """returns (D, calls); each call carries the python callable description and,
    for mutators, the operand pixel set at its own level."""
    import healpy as hp
    rng = random.Random(seed)
    D = rng.choice([3, 4, 5, 6, 7, 8, 8, 9, 10, 11, 12])
    mode = rng.random()
    if mode < 0.15:
        ra0, dec0 = rng.uniform(0, 2 * math.pi), rng.choice([-1, 1]) * (math.pi / 2 - rng.uniform(0, 2) * pixsize(D))
    elif mode < 0.3:
        ra0, dec0 = rng.choice([0.0, 2 * math.pi - 1e-9, 1e-7]), rng.uniform(-1.2, 1.2)
    else:
        ra0, dec0 = rng.uniform(0, 2 * math.pi), math.asin(rng.uniform(-1, 1))
    calls = []
    n = rng.randint(8, 14)
    for _ in range(n):
        u = rng.random()
        if u < 0.2:
            d = rng.choice([D, D, D - 1, None, D + 2])
            deff = D if (d is None or d > D) else d
            k = rng.choice([1, 1, 2])
            cs = [near(rng, ra0, dec0, pixsize(D)) for _ in range(k)]
            rs = [rng.uniform(0.8, 4.0) * pixsize(deff) for _ in range(k)]
            P = set()
            for (ra, dec), r in zip(cs, rs):
                P.update(int(x) for x in hp.query_disc(2 ** deff, _vec(ra, dec), r, inclusive=True, nest=True))
            calls.append({"op": "add_circles", "ra": [c[0] for c in cs], "dec": [c[1] for c in cs], "rad": rs,
                          "depth": d, "scalar": k == 1 and rng.random() < 0.5, "P": sorted(P), "Pd": deff})
        elif u < 0.3:
            d = rng.choice([D, D - 1, None])
            deff = D if d is None else d
            ra, dec = near(rng, ra0, dec0, pixsize(D))
            if abs(dec) > math.pi / 2 - 8 * pixsize(deff):
                continue
            nv = rng.randint(3, 6)
            r = rng.uniform(2, 5) * pixsize(deff)
            angs = sorted(rng.uniform(0, 2 * math.pi) for _ in range(nv))
            if max(b - a for a, b in zip(angs, angs[1:] + [angs[0] + 2 * math.pi])) > math.pi * 0.9:
                continue
            pos = [((ra + r * math.sin(a) / math.cos(dec)) % (2 * math.pi), dec + r * math.cos(a)) for a in angs]
            pos = pos[::-1]
            try:
                P = hp.query_polygon(2 ** deff, np.array([_vec(a, b) for a, b in pos]), inclusive=True, nest=True)
            except Exception:
                continue
            calls.append({"op": "add_poly", "pos": [[a, b] for a, b in pos], "depth": d,
                          "P": sorted(int(x) for x in P), "Pd": deff})
        elif u < 0.62:
            op = rng.choice(["union", "union", "union_norenorm", "without", "intersect", "symmetric_difference"])
            if op.startswith("union"):
                Do = rng.choice([D, D, D - 1, D + 1, D + 2, D + 3])
            else:
                Do = D if rng.random() < 0.9 else rng.choice([D - 1, D + 1])
            ra, dec = near(rng, ra0, dec0, pixsize(D))
            r = rng.uniform(0.8, 5.0) * pixsize(min(Do, D))
            P = [int(x) for x in hp.query_disc(2 ** Do, _vec(ra, dec), r, inclusive=True, nest=True)]
            if rng.random() < 0.3 and Do > 2:   # add some coarser pixels to the operand
                P2 = [int(x) for x in hp.query_disc(2 ** (Do - 1), _vec(*near(rng, ra0, dec0, pixsize(D))),
                                                    pixsize(Do - 1), inclusive=True, nest=True)]
            else:
                P2 = []
            calls.append({"op": op, "Do": Do, "P": sorted(P), "P2": sorted(P2), "renorm_operand": rng.random() < 0.5})
        elif u < 0.66 and D == 8:
            calls.append({"op": "union", "mim": rng.choice(MIMS)})
        elif u < 0.74:
            calls.append({"op": "get_demoted"})
        elif u < 0.80:
            calls.append({"op": "get_area"})
        elif u < 0.88:
            ra, dec = near(rng, ra0, dec0, pixsize(D))
            calls.append({"op": "sky_within", "ra": ra, "dec": dec, "degin": rng.random() < 0.5})
        elif u < 0.94:
            calls.append({"op": "save_load"})
        else:
            calls.append({"op": "export_moc"})
    return D, (ra0, dec0), calls


def run_one(args):
    seed, workdir = args
    import healpy as hp
    from AegeanTools.regions import Region
    common.quiet_logging()
    D, (ra0, dec0), calls = make_history(seed)
    rng = random.Random(seed + 7)
    region = Region(maxdepth=D)
    raw = []          # per step: (call, operand set at depth D or None, snapshot, ret)
    for k, c in enumerate(calls):
        op = c["op"]
        ret = {"kind": "none"}
        opset = None
        same = True
        try:
            if op == "add_circles":
                opset = at_depth(c["P"], c["Pd"], D)
                if c["scalar"]:
                    region.add_circles(c["ra"][0], c["dec"][0], c["rad"][0], depth=c["depth"])
                else:
                    region.add_circles(c["ra"], c["dec"], c["rad"], depth=c["depth"])
            elif op == "add_poly":
                opset = at_depth(c["P"], c["Pd"], D)
                region.add_poly([[a, b] for a, b in c["pos"]], depth=c["depth"])
            elif "mim" in c:
                o = Region.load(os.path.join(common.REPO, c["mim"]))
                opset = at_depth(set(int(x) for x in copy.deepcopy(o).get_demoted()), o.maxdepth, D)
                region.union(o)
            elif op in ("union", "union_norenorm", "without", "intersect", "symmetric_difference"):
                Do = c["Do"]
                o = Region(maxdepth=Do)
                o.add_pixels(c["P"], Do)
                if c["P2"]:
                    o.add_pixels(c["P2"], Do - 1)
                if c["renorm_operand"]:
                    o._renorm()
                opset = at_depth(c["P"], Do, D) | at_depth(c["P2"], Do - 1, D)
                same = (Do == D)
                if op.startswith("union"):
                    region.union(o, renorm=(op == "union"))
                else:
                    try:
                        getattr(region, op)(o)
                    except AssertionError:
                        ret = {"kind": "raised"}
            elif op == "get_demoted":
                val, ok = region_lib._intlist(region.get_demoted())
                ret = {"kind": "set", "val": val}
            elif op == "get_area":
                a = region.get_area(degrees=False) / hp.nside2pixarea(2 ** D)
                ret = {"kind": "int", "milli": int(round(a * 1000))}
            elif op == "sky_within":
                if c["degin"]:
                    r = region.sky_within(math.degrees(c["ra"]), math.degrees(c["dec"]), degin=True)
                else:
                    r = region.sky_within(c["ra"], c["dec"])
                ret = {"kind": "bool", "val": bool(np.all(r))}
            elif op == "save_load":
                p = os.path.join(workdir, "rr_%d_%d_%d.mim" % (seed, k, os.getpid()))
                region.save(p)
                region = Region.load(p)
                os.remove(p)
            elif op == "export_moc":
                p = os.path.join(workdir, "rr_%d_%d_%d.fits" % (seed, k, os.getpid()))
                region.write_fits(p)
                order, uniq, ordering = region_lib.read_moc(p)
                os.remove(p)
                ret = {"kind": "moc", "order": order, "uniq": uniq, "ordering": ordering}
        except Exception as e:
            ret = {"kind": "error", "text": "%s: %s" % (type(e).__name__, e)}
        # probe positions for membership
        probes = []
        for _ in range(5):
            ra, dec = near(rng, ra0, dec0, pixsize(D))
            probes.append(int(hp.ang2pix(2 ** D, math.pi / 2 - dec, ra, nest=True)))
        obs = region_lib.observe(region, D, probes)
        raw.append((c, opset, same, obs, ret))
    # ---- quotient ----------------------------------------------------------
    opsets = [r[1] for r in raw if r[1] is not None]
    universe = set().union(*opsets) if opsets else set()
    sig = {}
    for p in universe:
        sig[p] = tuple(p in s for s in opsets)
    atom_of_sig = {}
    atom = {}
    sizes = []
    for p in sorted(universe):
        s = sig[p]
        if s not in atom_of_sig:
            atom_of_sig[s] = len(sizes)
            sizes.append(0)
        atom[p] = atom_of_sig[s]
        sizes[atom[p]] += 1

    def to_atoms(pixels):
        cnt = {}
        outside = 0
        for p in pixels:
            a = atom.get(p)
            if a is None:
                outside += 1
            else:
                cnt[a] = cnt.get(a, 0) + 1
        exact = outside == 0 and all(cnt[a] == sizes[a] for a in cnt)
        return sorted(cnt), bool(exact)

    steps = []
    for (c, opset, same, obs, ret) in raw:
        op = c["op"]
        st = {"op": op, "samedepth": bool(same),
              "normalising": op in ("add_circles", "add_poly", "union", "without", "intersect", "symmetric_difference")}
        if opset is not None:
            st["atoms"], ex = to_atoms(opset)
        if op == "sky_within":
            q = int(hp.ang2pix(2 ** D, math.pi / 2 - c["dec"], c["ra"], nest=True))
            st["atom"] = atom.get(q, -1)
        o2 = {"error": obs["error"], "integral": obs["integral"], "pd": obs["pd"],
              "area_milli": obs["area_milli"]}
        o2["dem_atoms"], o2["exact"] = to_atoms(obs["dem"])
        o2["within"] = [[atom.get(q, -1), b] for q, b in obs["within"]]
        if ret["kind"] == "set":
            a, ex = to_atoms(ret["val"])
            ret = {"kind": "set", "atoms": a, "exact": ex}
        elif ret["kind"] == "moc":
            pix = set()
            valid = ret["ordering"] == "NUNIQ"
            for u in ret["uniq"]:
                d = 0
                while 4 * 4 ** (d + 1) <= u:
                    d += 1
                p = u - 4 * 4 ** d
                if not (1 <= d <= D and 0 <= p < 12 * 4 ** d):
                    valid = False
                    continue
                pix |= at_depth([p], d, D)
            a, ex = to_atoms(pix)
            ret = {"kind": "moc", "order": ret["order"], "atoms": a, "exact": ex, "valid": bool(valid)}
        o2["ret"] = ret
        st["obs"] = o2
        steps.append(st)
    return {"id": "rand/%d" % seed, "seed": seed, "D": 1, "Dreal": D, "atoms": sizes, "steps": steps}


def run_combine(args):
    """MIMAS.combine_regions / intersect_regions: the documented order of construction
    (add regions, subtract regions, add circles, subtract circles, add polygons, subtract polygons)
    as one history whose only observable state is the returned region."""
    seed, workdir = args
    import healpy as hp
    from AegeanTools.regions import Region
    from AegeanTools import MIMAS
    common.quiet_logging()
    rng = random.Random(seed)
    D = rng.choice([5, 6, 7, 8, 9])
    ra0, dec0 = rng.uniform(0, 2 * math.pi), math.asin(rng.uniform(-0.95, 0.95))
    files = []
    ops = []          # (kind, pixel set at depth D)

    def circle():
        ra, dec = near(rng, ra0, dec0, pixsize(D))
        return ra, dec, rng.uniform(1.0, 5.0) * pixsize(D)

    def poly():
        for _ in range(50):
            ra, dec = near(rng, ra0, dec0, pixsize(D))
            if abs(dec) > math.pi / 2 - 8 * pixsize(D):
                continue
            nv = rng.randint(3, 6)
            r = rng.uniform(2, 5) * pixsize(D)
            angs = sorted(rng.uniform(0, 2 * math.pi) for _ in range(nv))
            if max(b - a for a, b in zip(angs, angs[1:] + [angs[0] + 2 * math.pi])) > math.pi * 0.9:
                continue
            return [((ra + r * math.sin(a) / math.cos(dec)) % (2 * math.pi), dec + r * math.cos(a)) for a in angs][::-1]
        return None

    def disc_pixels(c):
        return set(int(x) for x in hp.query_disc(2 ** D, _vec(c[0], c[1]), c[2], inclusive=True, nest=True))

    def poly_pixels(p):
        return set(int(x) for x in hp.query_polygon(2 ** D, np.array([_vec(a, b) for a, b in p]), inclusive=True, nest=True))

    def mimfile(k):
        c = circle()
        r = Region(maxdepth=D)
        r.add_circles(c[0], c[1], c[2])
        f = os.path.join(workdir, "comb_%d_%d_%d.mim" % (seed, os.getpid(), k))
        r.save(f)
        files.append(f)
        return f, disc_pixels(c)

    rec = {"id": "combine/%d" % seed, "seed": seed, "D": 1, "Dreal": D, "atoms": [], "steps": []}
    mode = "intersect" if rng.random() < 0.25 else "combine"
    err = ""
    region = None
    try:
        if mode == "intersect":
            fl = [mimfile(k) for k in range(rng.randint(2, 4))]
            ops = [("union", fl[0][1])] + [("intersect", x[1]) for x in fl[1:]]
            region = MIMAS.intersect_regions([x[0] for x in fl])
        else:
            cont = MIMAS.Dummy(maxdepth=D)
            for k in range(rng.randint(0, 2)):
                f, P = mimfile(k)
                cont.add_region.append([f])
                ops.append(("union", P))
            for k in range(rng.randint(0, 2)):
                f, P = mimfile(10 + k)
                cont.rem_region.append([f])
                ops.append(("without", P))
            for kind, lst in (("union", cont.include_circles), ("without", cont.exclude_circles)):
                for _ in range(rng.randint(0, 2)):
                    cs = [circle() for _ in range(rng.randint(1, 2))]
                    # MIMAS takes degrees as [ra1, ra2.., dec1, dec2.., r1, r2..]
                    lst.append([math.degrees(c[0]) for c in cs] + [math.degrees(c[1]) for c in cs] + [math.degrees(c[2]) for c in cs])
                    circ = np.radians(np.array(lst[-1]))
                    ras, decs, radii = circ.reshape(3, circ.shape[0] // 3)
                    P = set()
                    for a, b, r in zip(ras, decs, radii):
                        P |= disc_pixels((float(a), float(b), float(r)))
                    ops.append((kind, P))
            for kind, lst in (("union", cont.include_polygons), ("without", cont.exclude_polygons)):
                for _ in range(rng.randint(0, 1)):
                    p = poly()
                    if p is None:
                        continue
                    flat = []
                    for a, b in p:
                        flat += [math.degrees(a), math.degrees(b)]
                    lst.append(flat)
                    pr = np.radians(np.array(flat)).reshape((len(flat) // 2, 2))
                    ops.append((kind, poly_pixels([(float(a), float(b)) for a, b in pr])))
            region = MIMAS.combine_regions(cont)
    except Exception as e:
        err = "%s: %s" % (type(e).__name__, e)
    for f in files:
        if os.path.exists(f):
            os.remove(f)
    if not ops:
        ops = [("union", set())]
    opsets = [o[1] for o in ops]
    universe = set().union(*opsets)
    atom_of_sig, atom, sizes = {}, {}, []
    for p in sorted(universe):
        sg = tuple(p in q for q in opsets)
        if sg not in atom_of_sig:
            atom_of_sig[sg] = len(sizes)
            sizes.append(0)
        atom[p] = atom_of_sig[sg]
        sizes[atom[p]] += 1

    def to_atoms(pixels):
        cnt, outside = {}, 0
        for p in pixels:
            a = atom.get(p)
            if a is None:
                outside += 1
            else:
                cnt[a] = cnt.get(a, 0) + 1
        return sorted(cnt), bool(outside == 0 and all(cnt[a] == sizes[a] for a in cnt))

    rec["atoms"] = sizes
    for k, (kind, P) in enumerate(ops):
        st = {"op": kind, "samedepth": True, "normalising": True, "atoms": to_atoms(P)[0], "obs": {"skip": True}}
        if k == len(ops) - 1:
            if err or region is None:
                st["obs"] = {"error": err or "no region returned", "ret": {"kind": "none"}}
            else:
                rng2 = random.Random(seed + 3)
                probes = []
                for _ in range(8):
                    ra, dec = near(rng2, ra0, dec0, pixsize(D))
                    probes.append(int(hp.ang2pix(2 ** D, math.pi / 2 - dec, ra, nest=True)))
                obs = region_lib.observe(region, D, probes)
                o2 = {"error": obs["error"], "integral": obs["integral"], "pd": obs["pd"], "area_milli": obs["area_milli"],
                      "ret": {"kind": "none"}}
                o2["dem_atoms"], o2["exact"] = to_atoms(obs["dem"])
                o2["within"] = [[atom.get(q, -1), b] for q, b in obs["within"]]
                st["obs"] = o2
        rec["steps"].append(st)
    rec["mode"] = mode
    return rec


def run(ctx, n, validate, seeds=None, combine_seeds=None):
    if combine_seeds is not None:
        recs = [run_combine((s, ctx.workdir)) for s in combine_seeds]
        return recs, validate(ctx, recs, 1, "atom_trace_combine", module="Region_AtomTrace", consts={"NB": MAXATOMS})
    seeds = seeds if seeds is not None else [ctx.seed * 100003 + i for i in range(n)]
    with mp.Pool(16) as pool:
        recs = pool.map(run_one, [(s, ctx.workdir) for s in seeds], chunksize=4)
        if len(seeds) > 1:      # MIMAS.combine_regions / intersect_regions as whole-call histories
            recs += pool.map(run_combine, [(s + 77, ctx.workdir) for s in seeds[:max(10, len(seeds) // 3)]], chunksize=4)
    rejected = []
    for i, chunk in enumerate(common.chunks(recs, 500)):
        rejected += validate(ctx, chunk, 1, "atom_trace_%d" % i, module="Region_AtomTrace",
                             consts={"NB": MAXATOMS})
    return recs, rejected
