"""
X07 (growth, not one of the twenty listed properties) - the marching-squares walker that draws
island contours (AegeanTools/msq2.py; IslandSource.contour, max_angular_size, island region files).

model  : spec/Marching.tla (the walker as a state machine over every non-empty mask of an H x W
         array: TLC checks termination (liveness under weak fairness), Bounded, NeverLost, Closed,
         OnBoundary, SpansBox4, SpansFirstPiece, MachineIsFunction; the named deviation SpansBox8
         MUST be violated: the contour of an 8-connected island leaves out parts that hang on by
         a corner).
binding: EVERY non-empty mask of the domain (3x4: 4095; thorough 4x4: 65535) is realised as a
         float array (empty cells 0 or NaN, solid cells of either sign) and walked by the real
         MarchingSquares; seeded larger random masks and the island rows of real
         find_sources_in_image runs (contour of each island vs the island's pixel mask from
         find_islands) run the other way; TLC (spec/Marching_Trace.tla) accepts a record iff the
         perimeter is Marching!Perimeter(mask).
"""
import contextlib
import io
import itertools
import math
import os
import random
from concurrent.futures import ProcessPoolExecutor

import numpy as np

from harness import common, synth

LEVEL = "model_checking"


def walk(args):
    rid, H, W, cells, variant = args
    from AegeanTools.msq2 import MarchingSquares
    data = np.full((H, W), np.nan if variant & 1 else 0.0)
    for n, (i, j) in enumerate(cells):
        data[i, j] = (-1.0 if (variant & 2 and n % 2) else 1.0) * (1.5 + n)
    rec = {"id": rid, "H": H, "W": W, "cells": [list(c) for c in cells], "variant": variant, "err": "", "perimeter": []}
    try:
        rec["perimeter"] = [[int(a), int(b)] for a, b in MarchingSquares(data).perimeter]
    except Exception as e:
        rec["err"] = "%s: %s" % (type(e).__name__, str(e)[:200])
    return rec


def walk_many(jobs):
    return [walk(j) for j in jobs]


def finder_islands(args):
    """island rows of a real run: contour vs the pixel mask of the island"""
    seed, d = args
    common.quiet_logging()
    from AegeanTools.source_finder import SourceFinder, find_islands
    rng = random.Random(seed)
    shape = (48, 48)
    h = synth.make_header(shape, cdelt_arcsec=20.0, beam_arcsec=(60.0, 60.0, 0.0))
    s = 3 * synth.FWHM2SIG
    comps = [(rng.uniform(8, 20) * rng.choice([1, 1, -1]), rng.uniform(6, 42), rng.uniform(6, 42), s * rng.uniform(1, 2), s, rng.uniform(0, 3))
             for _ in range(rng.randint(2, 4))]
    img = synth.render(shape, comps)
    # pixels attached to a source only through a corner, and a pixel of value exactly 0 inside a source
    for (amp, cx, cy, _, _, _) in comps[:2]:
        r, c = int(round(cy)), int(round(cx))
        sign = 1 if amp > 0 else -1
        for k in (3, 4, 5):
            if 0 <= r + k < shape[0] and 0 <= c + k < shape[1]:
                img[r + k, c + k] = sign * 4.6
                if c + k + 1 < shape[1]:
                    img[r + k, c + k + 1] = 0.0
                if r + k + 1 < shape[0]:
                    img[r + k + 1, c + k] = 0.0
    path = os.path.join(d, "msq_%d_%d.fits" % (seed, os.getpid()))
    synth.write(path, img, h)
    out = []
    try:
        with contextlib.redirect_stderr(io.StringIO()):
            sf = SourceFinder()
            rows = sf.find_sources_in_image(path, rms=1.0, bkg=0.0, cores=1, nonegative=False, doislandflux=True)
            data = sf.global_data.img
            isl = find_islands(im=data, bkg=np.zeros_like(data), rms=np.ones_like(data), seed_clip=5, flood_clip=4)
        byext = {}
        for i in isl:
            (r0, r1), (c0, c1) = i.bounding_box
            byext[(int(r0), int(r1), int(c0), int(c1))] = i
        for s_ in rows:
            if not hasattr(s_, "contour"):
                continue
            ext = tuple(int(v) for v in s_.extent)
            i = byext.get(ext)
            if i is None:
                out.append({"id": "isl/%d/%d" % (seed, s_.island), "H": 1, "W": 1, "cells": [], "err": "no island with this extent", "perimeter": [],
                            "seed": seed})
                continue
            m = ~np.asarray(i.mask)
            # the code contours the cut-out values kept by |value| > flood level * rms (NaN elsewhere)
            cut = np.array(data[ext[0]:ext[1], ext[2]:ext[3]], dtype=float)
            solid = m & (np.abs(cut) - 4 * 1.0 > 0) & (cut != 0)
            cells = [[int(a), int(b)] for a, b in zip(*np.where(solid))]
            out.append({"id": "isl/%d/%d" % (seed, s_.island), "H": int(m.shape[0]), "W": int(m.shape[1]), "cells": cells, "err": "",
                        "perimeter": [[int(a) - ext[0], int(b) - ext[2]] for a, b in s_.contour], "seed": seed})
    except Exception as e:
        out.append({"id": "isl/%d/x" % seed, "H": 1, "W": 1, "cells": [], "err": "%s: %s" % (type(e).__name__, str(e)[:200]), "perimeter": [], "seed": seed})
    if os.path.exists(path):
        os.remove(path)
    return out


def validate(ctx, recs, name):
    """records are grouped by array shape (H, W are constants of the trace module)"""
    rejected = []
    groups = {}
    for r in recs:
        groups.setdefault((r["H"], r["W"]), []).append(r)
    # one TLC run per distinct shape would be slow for island cut-outs: embed every record in the largest shape
    Hm, Wm = max(k[0] for k in groups), max(k[1] for k in groups)
    tf = os.path.join(ctx.workdir, name + ".json")
    byid = {r["id"]: r for r in recs}
    common.dump_json(tf, [{"id": r["id"], "err": r["err"], "cells": r["cells"], "perimeter": r["perimeter"]} for r in recs])
    res = ctx.tlc("Marching_Trace", common.cfg(spec="Spec", constants={"H": Hm, "W": Wm}, post="BatchDone", deadlock=False),
                  name=name, workers=1, env={"TRACE_FILE": tf})
    summary = [p for p in res.printed if isinstance(p, dict) and "accepted" in p]
    rej = [p for p in res.printed if isinstance(p, dict) and "fails" in p]
    if not summary or summary[0]["total"] != len(recs) or summary[0]["accepted"] + len(rej) != len(recs):
        raise common.MachineryError("trace batch %s not fully consumed" % name)
    return [(byid[p["id"]], p["fails"]) for p in rej]


def run(ctx):
    quick = ctx.tier == "quick"
    H, W = (3, 4) if quick else (4, 4)
    inv = ["TypeOK", "Bounded", "NeverLost", "Closed", "OnBoundary", "SpansBox4", "SpansFirstPiece", "MachineIsFunction"]
    ctx.tlc("Marching", common.cfg(spec="Spec", constants={"H": 3, "W": 4}, invariants=inv, properties=["Terminates"], deadlock=False),
            name="walker_3x4", coverage=True)
    if not quick:
        ctx.tlc("Marching", common.cfg(spec="Spec", constants={"H": 4, "W": 4}, invariants=inv, deadlock=False), name="walker_4x4")
    r = ctx.tlc("Marching", common.cfg(spec="Spec", constants={"H": 2, "W": 2}, invariants=["SpansBox8"], deadlock=False),
                name="deviation_SpansBox8", must_pass=False)
    if r.violated != "SpansBox8":
        raise common.MachineryError("the walker spans diagonally attached parts in the model: the named deviation is gone")
    cells = [(i, j) for i in range(H) for j in range(W)]
    jobs = []
    n = 0
    for k in range(1, len(cells) + 1):
        for sub in itertools.combinations(cells, k):
            jobs.append(("m%dx%d/%d" % (H, W, n), H, W, list(sub), n % 4))
            n += 1
    rng = random.Random(ctx.seed)
    for i in range(150 if quick else 2000):     # larger random masks (blobs with holes and diagonal bridges)
        Hh, Ww = rng.randint(4, 9), rng.randint(4, 9)
        p = rng.choice([0.3, 0.5, 0.7, 0.9])
        sub = [(a, b) for a in range(Hh) for b in range(Ww) if rng.random() < p]
        if sub:
            jobs.append(("rand/%d" % i, Hh, Ww, sub, rng.randrange(4)))
    chunks = [jobs[i::32] for i in range(32)]
    with ProcessPoolExecutor(max_workers=16) as pool:
        recs = [r for rs in pool.map(walk_many, chunks) for r in rs]
        d = os.path.join(ctx.workdir, "img")
        os.makedirs(d, exist_ok=True)
        irecs = [r for rs in pool.map(finder_islands, [(ctx.seed * 977 + i, d) for i in range(12 if quick else 120)]) for r in rs]
    rejected = []
    small = [r for r in recs if not r["id"].startswith("rand/")]
    for k in range(0, len(small), 20000):
        rejected += validate(ctx, small[k:k + 20000], "exh_%d" % (k // 20000))
    rejected += validate(ctx, [r for r in recs if r["id"].startswith("rand/")], "rand")
    if irecs:
        rejected += validate(ctx, irecs, "islands")
    bad = {r["id"] for r, _ in rejected}
    good = next((r for r in small if r["id"] not in bad and len(r["perimeter"]) >= 6), None)
    if good is not None:
        g = dict(good, id="st-good")
        b1 = dict(g, id="st-short", perimeter=g["perimeter"][:-1])
        b2 = dict(g, id="st-swapped", perimeter=[g["perimeter"][0]] + g["perimeter"][1:][::-1])
        rej = {r["id"] for r, _ in validate(ctx, [g, b1, b2], "selftest")}
        if rej != {"st-short", "st-swapped"}:
            raise common.MachineryError("Marching_Trace self-test failed: %r" % rej)
    diag = sum(1 for r in irecs if r["cells"] and len(r["perimeter"]) > 0)
    ctx.count(evaluations=len(recs) + len(irecs), nontrivial=len(recs) + len(irecs), traces=len(recs) + len(irecs))
    ctx.cov["rule"] = ("every non-empty mask of a %dx%d array (x empty = 0 / NaN, x sign pattern, cyclically), seeded random masks up to 9x9, and "
                       "the island rows of %d real finder runs (%d islands); distinct = distinct masks" % (H, W, 12 if quick else 120, len(irecs)))
    ctx.cov["exhaustive"] = True
    ctx.cov["island_rows"] = len(irecs)
    ctx.sample(recs[len(recs) // 3])
    if irecs:
        ctx.sample({k: v for k, v in irecs[0].items()})
    for rec, fails in rejected:
        kind = "island-row" if rec["id"].startswith("isl/") else "mask %dx%d" % (rec["H"], rec["W"])
        ctx.violation("contour %s fails=%s" % (kind, ",".join(fails)), {"record": rec, "fails": fails})


def replay(ctx, rec):
    r = rec["detail"]["record"]
    if r["id"].startswith("isl/"):
        d = os.path.join(ctx.workdir, "img")
        os.makedirs(d, exist_ok=True)
        out = [x for x in finder_islands((r["seed"], d)) if x["id"] == r["id"]]
    else:
        out = [walk((r["id"], r["H"], r["W"], [tuple(c) for c in r["cells"]], r["variant"]))]
    for rr, fails in validate(ctx, out, "replay"):
        ctx.violation("contour fails=%s" % ",".join(fails), {"record": rr, "fails": fails})
    ctx.count(evaluations=len(out), nontrivial=2, traces=len(out))
