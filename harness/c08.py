"""
C08 - Region operations are set algebra on sky pixels, for every history.

models : spec/Region.tla (abstract set-algebra machine), spec/RegionImpl.tla
         (the coded algorithms), spec/MC_RegionImpl.tla (TLC: RegionImpl refines
         Region step by step over a finite call alphabet), spec/MC_Region.tla
         (TLC: reachability + invariants of the abstract machine; emits every
         history of length K / random long histories).
binding: spec -> code : every emitted history is executed on the real
         AegeanTools.regions.Region and validated by TLC (spec/Region_Trace.tla);
         code -> spec : seeded histories with real geometry (circles, polygons,
         .mim files, mixed depths) are recorded and validated in the exact
         Boolean-algebra quotient (spec/Region_AtomTrace.tla).
"""
import json
import os
import random
import multiprocessing as mp

from harness import common, region_lib, region_random

LEVEL = "model_checking"
_CFG = {}


def _init(workdir):
    common.quiet_logging()
    _CFG["workdir"] = workdir


def _exec(args):
    hid, D, hist, probes = args
    steps = region_lib.execute(hist, D, _CFG["workdir"], probes, tag="h%s_%d" % (hid.replace("/", "_"), os.getpid()))
    return {"id": hid, "D": D, "steps": steps}


def model_consts(D, **kw):
    c = {"NB": 1, "D": D}
    c.update(kw)
    return c


def emit_histories(ctx, D, K, simulate=None, name=None, seed=None):
    """TLC prints each complete history of length K (exhaustive, or random with -simulate)."""
    cfgtxt = common.cfg(spec="MCSpec", constants=model_consts(D, K=K, Emit=True),
                        constraints=["EmitDone"], deadlock=False)
    kw = {}
    if simulate:
        kw = {"simulate": "num=%d" % simulate, "depth": K + 2, "seed": seed if seed is not None else 1}
    res = ctx.tlc("MC_Region", cfgtxt, name=name or ("hist_D%d_K%d" % (D, K)), workers=1, **kw)
    hs = [p for p in res.printed if isinstance(p, list)]
    if not hs:
        raise common.MachineryError("no histories emitted by MC_Region")
    return hs


def probes_for(D):
    inside = list(range(4 ** (D - 1)))
    return inside + [4 ** (D - 1), 4 ** (D - 1) + 5, 12 * 4 ** D - 1]


def validate(ctx, recs, D, name, module="Region_Trace", consts=None):
    tf = os.path.join(ctx.workdir, name + ".json")
    byid = {r["id"]: r for r in recs}
    if len(byid) != len(recs):
        raise common.MachineryError("duplicate ids in " + name)
    common.dump_json(tf, recs)
    consts = consts if consts is not None else {"NB": 48, "D": D}
    res = ctx.tlc(module, common.cfg(spec="Spec", constants=consts, post="BatchDone", deadlock=False),
                  name=name, workers=1, env={"TRACE_FILE": tf}, heap="12g")
    summary = [p for p in res.printed if isinstance(p, dict) and "accepted" in p]
    rej = [p for p in res.printed if isinstance(p, dict) and "fails" in p]
    if not summary or summary[0]["total"] != len(recs) or summary[0]["accepted"] + len(rej) != len(recs):
        raise common.MachineryError("trace batch %s not fully consumed" % name)
    os.remove(tf)
    return [(byid[p["id"]], p["fails"]) for p in rej]


def key_of(rec, fails):
    """violation key = the failing clause(s) + the shape of the history up to the failing step."""
    k = 0
    for f in fails:
        if f.startswith("step "):
            k = int(f.split()[1])
    ops = []
    for st in rec["steps"][:k]:
        o = st["op"]
        if "other" in st:
            o += "(depth%+d)" % (st["other"]["depth"] - rec["D"])
        elif "level" in st:
            o += "(level%+d)" % (st["level"] - rec["D"])
        ops.append(o)
    clauses = [f for f in fails if not f.startswith("step ")]
    return "clauses=%s history=..%s" % (",".join(clauses), ";".join(ops[-2:]))


def selftest(ctx):
    """binding demonstration: an accepted recorded history is rejected after
    corrupting a single observed field."""
    D = 3
    hist = [{"op": "add_pixels", "level": 3, "pix": [5, 6]},
            {"op": "get_demoted"},
            {"op": "union", "other": {"depth": 3, "rep": [[], [1], [0, 8]]}},
            {"op": "get_area"}]
    _init(ctx.workdir)
    good = _exec(("st-good", D, hist, probes_for(D)))
    if any(s["obs"]["error"] for s in good["steps"]):
        return None      # real code fails already; main run reports
    import copy
    b1 = copy.deepcopy(good)
    b1["id"] = "st-dem"
    b1["steps"][2]["obs"]["dem"] = b1["steps"][2]["obs"]["dem"][:-1]
    b2 = copy.deepcopy(good)
    b2["id"] = "st-area"
    b2["steps"][3]["obs"]["ret"]["milli"] += 1000
    b3 = copy.deepcopy(good)
    b3["id"] = "st-within"
    b3["steps"][0]["obs"]["within"][5][1] = not b3["steps"][0]["obs"]["within"][5][1]
    rej = validate(ctx, [good, b1, b2, b3], D, "selftest")
    got = {r["id"]: f for r, f in rej}
    if "st-good" in got:
        return got["st-good"]            # reported as violation by the main run anyway
    if set(got) != {"st-dem", "st-area", "st-within"}:
        raise common.MachineryError("Region_Trace self-test failed: %r" % got)
    return None


def model_jobs(ctx, quick):
    # abstract machine: exhaustive reachability + invariants
    for D in (2, 3):
        res = ctx.tlc("MC_Region", common.cfg(
            spec="MCSpec", constants=model_consts(D, K=0, Emit=False),
            invariants=["TypeOK", "AnswerOK", "RepExists"], properties=["QueriesPure"],
            deadlock=False), name="abstract_D%d" % D, coverage=(D == 2))
    # the coded algorithms refine it
    fixes = {"FixCacheReset": True, "FixUniqRange": True, "FixAreaRenorm": True}
    base = dict(spec="Spec", invariants=["IdsOK", "NoDup"], properties=["Refines", "QueriesPure"],
                constraints=["Bound"], deadlock=False)
    ctx.tlc("MC_RegionImpl", common.cfg(constants=dict(model_consts(2, MaxLevel=8), **fixes), **base),
            name="refine_D2")
    ctx.tlc("MC_RegionImpl", common.cfg(constants=dict(model_consts(3, MaxLevel=4 if quick else 6), **fixes), **base),
            name="refine_D3")
    # sensitivity of the model: each design switch set to "as originally coded"
    # must produce a refinement counterexample
    for sw in sorted(fixes):
        f2 = dict(fixes)
        f2[sw] = False
        res = ctx.tlc("MC_RegionImpl", common.cfg(constants=dict(model_consts(3, MaxLevel=5), **f2), **base),
                      name="switch_%s_off" % sw, must_pass=False)
        if res.violated is None:
            raise common.MachineryError("model insensitive: %s=FALSE gives no counterexample" % sw)
        ctx.notes["design_counterexample_" + sw] = "Refines violated as expected (%s)" % res.violated


def run_histories(ctx, hs_by_D, label):
    jobs = []
    for D, hs in hs_by_D.items():
        pr = probes_for(D)
        for i, h in enumerate(hs):
            jobs.append(("%s/D%d/%d" % (label, D, i), D, h, pr))
    with mp.Pool(16, initializer=_init, initargs=(ctx.workdir,)) as pool:
        recs = pool.map(_exec, jobs, chunksize=64)
    rejected = []
    for D in hs_by_D:
        part = [r for r in recs if r["D"] == D]
        for i, chunk in enumerate(common.chunks(part, 20000)):
            rejected += validate(ctx, chunk, D, "%s_trace_D%d_%d" % (label, D, i))
    return recs, rejected


def run(ctx, only_exports=False):
    quick = ctx.tier == "quick"
    model_jobs(ctx, quick)
    st = selftest(ctx)
    hs = {}
    hs[2] = emit_histories(ctx, 2, 2 if quick else 3)
    hs[3] = emit_histories(ctx, 3, 2 if quick else 3)
    sim = {3: emit_histories(ctx, 3, 8, simulate=40 if quick else 600, name="sim_D3", seed=ctx.seed + 1),
           2: emit_histories(ctx, 2, 10, simulate=20 if quick else 300, name="sim_D2", seed=ctx.seed + 2)}
    # derived families (compositions of alphabet calls; the trace spec recomputes every post-state):
    # files: mutate a loaded region and load the same file again; two live regions: regions are
    # independent values, a union must not make them share storage
    fam = {}
    for D in (2, 3):
        ops = []
        for h in hs[D]:
            c = {k: v for k, v in h[0].items() if k not in ("post", "ans", "postlive")}
            if c["op"] in ("add_pixels", "add_shape", "union", "union_norenorm", "without", "intersect", "symmetric_difference") \
                    and c not in ops:
                ops.append(c)
        lives = [c for c in ({k: v for k, v in h[0].items() if k not in ("post", "ans", "postlive")} for h in hs[D])
                 if c["op"] == "live_add"]
        lives = [c for i, c in enumerate(lives) if c not in lives[:i]]
        out = []
        sub = ops if not quick else ops[::3]
        for a in ops:
            for b in sub:
                out.append([a, {"op": "save_file"}, {"op": "load_file"}, b, {"op": "load_file"}, {"op": "get_area"}])
                out.append([a, {"op": "live_union_self"}, b, {"op": "get_demoted"}])
                # a read-only query between two mutations (any later answer must not depend on it)
                out.append([a, {"op": "get_demoted"}, b, {"op": "get_area"}])
                out.append([a, {"op": "sky_within", "pix": 0}, b, {"op": "save_load"}, {"op": "get_demoted"}])
            out.append([a, {"op": "get_demoted"}, {"op": "save_file"}, {"op": "load_file"}, {"op": "get_area"}])
            out.append([a, {"op": "sky_within", "pix": 0}, {"op": "save_file"}, {"op": "export_moc"}, {"op": "load_file"}])
            for x in lives:
                out.append([x, {"op": "union_live"}, a, {"op": "get_demoted"}])
                for b in sub:
                    out.append([x, a, {"op": "union_live"}, b])
        fam[D] = out
    frecs, frej = run_histories(ctx, fam, "fam")
    recs, rejected = run_histories(ctx, hs, "exh")
    rejected += frej
    recs += frecs
    recs2, rej2 = run_histories(ctx, sim, "sim")
    rejected += rej2
    n = len(recs) + len(recs2)
    ctx.sample({"id": recs[100]["id"], "calls": [{k: v for k, v in s.items() if k != "obs"} for s in recs[100]["steps"]],
                "last_obs": recs[100]["steps"][-1]["obs"]})
    ctx.sample({"id": recs2[0]["id"], "calls": [s["op"] for s in recs2[0]["steps"]]})
    # code -> spec: real geometry, validated in the atom quotient
    nrand = 150 if quick else 3000
    rrecs, rrej = region_random.run(ctx, nrand, validate)
    n += len(rrecs)
    ctx.sample({"id": rrecs[0]["id"], "calls": [s["op"] for s in rrecs[0]["steps"]], "atoms": rrecs[0]["atoms"][:6]})
    ctx.count(evaluations=n, nontrivial=len({json.dumps([{k: v for k, v in s.items() if k not in ("obs", "post", "postlive")}
                                                         for s in r["steps"]], sort_keys=True) for r in recs + recs2}) + len(rrecs),
              traces=n)
    ctx.cov["rule"] = ("history = sequence of Region calls; exhaustive over the RegionAlphabet to length K (D=2 and D=3: K=%d), "
                       "TLC -simulate histories of length 8-10, seeded real-geometry histories of length ~12; distinct = distinct call sequences"
                       % (2 if quick else 3))
    ctx.cov["exhaustive"] = True
    ctx.assumptions += ["add_pixels is called with depth <= maxdepth; maxdepth >= 2",
                        "healpy pix2ang/ang2pix/query_disc/query_polygon/boundaries are trusted",
                        "observation through copy.deepcopy does not perturb the object under test"]
    for rec, fails in rejected:
        ctx.violation(key_of(rec, fails), {"record": {"id": rec["id"], "D": rec["D"],
                                                       "history": [{k: v for k, v in s.items() if k not in ("obs",)} for s in rec["steps"]]},
                                           "fails": fails})
    for rec, fails in rrej:
        ctx.violation("real-geometry " + key_of(rec, fails),
                      {"record": {"id": rec["id"], "D": rec["D"], "seed": rec["seed"],
                                  "kind": "combine" if rec["id"].startswith("combine/") else "random"}, "fails": fails})


def replay(ctx, rec):
    r = rec["detail"]["record"]
    _init(ctx.workdir)
    if r.get("kind") == "combine":
        rrecs, rrej = region_random.run(ctx, 1, validate, combine_seeds=[r["seed"]])
        for rr, fails in rrej:
            ctx.violation("real-geometry " + key_of(rr, fails), {"record": r, "fails": fails})
    elif r.get("kind") == "random":
        rrecs, rrej = region_random.run(ctx, 1, validate, seeds=[r["seed"]])
        for rr, fails in rrej:
            ctx.violation("real-geometry " + key_of(rr, fails), {"record": r, "fails": fails})
    else:
        hist = [{k: v for k, v in s.items() if k != "post"} for s in r["history"]]
        out = _exec((r["id"], r["D"], hist, probes_for(r["D"])))
        for rr, fails in validate(ctx, [out], r["D"], "replay"):
            ctx.violation(key_of(rr, fails), {"record": r, "fails": fails})
    ctx.count(evaluations=1, nontrivial=2, traces=1)
