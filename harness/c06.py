"""
C06 - BANE background/noise maps obey the estimator contract.

model  : spec/BaneMaps.tla (mask rule on integer grids, fixed-point relations
         between runs, configuration lattice); spec/MC_BaneMaps.tla (TLC: the
         mask rule holds for the pure propagation design and for the node/box
         design of sigma_filter on all small images; size of the lattice).
binding: for configurations of the lattice (a pairwise covering subset checked
         by TLC) the real BANE.filter_image is run in child processes on seeded
         images that live on a dyadic lattice (so img, img + c and k * img are
         all exact in the FITS file); the returned maps, the written files and
         the expanded compressed files are projected to fixed-point scalars,
         blank-pixel lists and probe pixels and validated by TLC against
         spec/BaneMaps_Trace.tla.  Every verdict is TLC's.
"""
import copy
import json
import os
import random
import shutil
import signal
import subprocess
import time
from concurrent.futures import ThreadPoolExecutor

import numpy as np

from harness import common
from harness import bane_child06 as child

LEVEL = "exploration"
CHILD = os.path.join(os.path.dirname(os.path.abspath(__file__)), "bane_child06.py")
WATCHDOG = float(os.environ.get("C06_WATCHDOG", "150"))
CLAMP = 400000000
CFG_KEYS = ("grid", "box", "cores", "stripes", "repr", "mask", "compressed")

QUICK_VALUES = {"grids": [1, 2, 4, 8], "boxes": [4, 5, 8, 16], "cores": [1, 2, 3, 8],
                "stripes": [1, 2, 4, 6, 16], "reprs": ["2d", "3d", "4d", "bscale", "bscale_i16"]}
THOROUGH_VALUES = {"grids": [1, 2, 3, 4, 8, 16], "boxes": [4, 5, 6, 8, 16, 24], "cores": [1, 2, 3, 4, 8, 16],
                   "stripes": [1, 2, 3, 4, 6, 8, 16, 32], "reprs": ["2d", "3d", "4d", "bscale", "bscale_i16"]}


# --------------------------------------------------------------------------
# one real run
# --------------------------------------------------------------------------
def _shm_of(pid):
    """shared memory segments held open by the process group of `pid` (ours only)."""
    names = set()
    try:
        pids = [int(p) for p in os.listdir("/proc") if p.isdigit()]
    except OSError:
        pids = []
    for p in pids:
        try:
            if os.getpgid(p) != pid:
                continue
            for fd in os.listdir("/proc/%d/fd" % p):
                try:
                    t = os.readlink("/proc/%d/fd/%s" % (p, fd))
                except OSError:
                    continue
                b = os.path.basename(t.replace(" (deleted)", ""))
                if t.startswith("/dev/shm/") and (b.startswith("ibkg_") or b.startswith("irms_")):
                    names.add(b)
        except OSError:
            continue
    return names


def run_bane(workdir, name, spec):
    """one real BANE.filter_image in a child process under a watchdog."""
    d = os.path.join(workdir, "runs", name)
    shutil.rmtree(d, ignore_errors=True)
    os.makedirs(d)
    spec = dict(spec, dir=d)
    env = dict(os.environ, PYTHONPATH=common.REPO + os.pathsep + common.VERIF)
    env.pop("AEGEAN_VERIF", None)          # no hooks: the plain code path
    env.pop("AEGEAN_VERIF_DIR", None)
    t0 = time.time()
    proc = subprocess.Popen(["/venv/bin/python", "-W", "ignore", CHILD, json.dumps(spec)], env=env,
                            stdout=subprocess.PIPE, stderr=subprocess.DEVNULL, start_new_session=True)
    try:
        out, _ = proc.communicate(timeout=WATCHDOG)
        hung = False
    except subprocess.TimeoutExpired:
        hung = True
        out = b""
    left = _shm_of(proc.pid) if hung else set()
    try:
        os.killpg(proc.pid, signal.SIGKILL)
    except Exception:
        pass
    if hung:
        proc.wait()
    for n in left:                         # segments of OUR hung run only
        try:
            os.remove("/dev/shm/" + n)
        except OSError:
            pass
    res = {"outcome": "hung"} if hung else None
    if not hung:
        for line in out.decode("utf-8", "replace").splitlines():
            if line.startswith("BANE_CHILD_RESULT "):
                res = json.loads(line[len("BANE_CHILD_RESULT "):])
        if res is None:
            res = {"outcome": "raised", "error": "child died", "text": "rc=%s" % proc.returncode}
    res["wall"] = round(time.time() - t0, 2)
    res["maps"] = {}
    if res["outcome"] == "returned":
        if os.path.exists(os.path.join(d, "bkg.npy")):
            res["maps"]["ret"] = (np.load(os.path.join(d, "bkg.npy")), np.load(os.path.join(d, "rms.npy")))
        if res.get("files"):
            site = "cfile" if spec.get("compressed") else "file"
            res["maps"][site] = (np.load(os.path.join(d, "fbkg.npy")), np.load(os.path.join(d, "frms.npy")))
        elif spec.get("out"):
            res["maps"]["cfile" if spec.get("compressed") else "file"] = None   # files missing
    shutil.rmtree(d, ignore_errors=True)
    return res


# --------------------------------------------------------------------------
# projection to fixed point
# --------------------------------------------------------------------------
def _unit(L):
    return L / 1e8 if L > 0 else 1e-30


def _q(x, U):
    v = float(x) / U
    if not np.isfinite(v):
        return CLAMP
    v = int(round(v))
    return max(-CLAMP, min(CLAMP, v))


def _mag(img):
    fin = np.isfinite(img)
    if not fin.any():
        return 0.0
    v = img[fin]
    return float(max(np.abs(v).max(), v.max() - v.min()))


def _cfg_of(spec):
    return {k: spec[k] for k in CFG_KEYS}


def _pixlist(mask):
    return [[int(a), int(b)] for a, b in np.argwhere(mask)]


def run_records(gid, idx, spec, res, img):
    """records of kind 'run' for every site of one run."""
    recs = []
    rows, cols = img.shape
    base = dict(_cfg_of(spec), kind="run", rows=rows, cols=cols, content=spec["content"],
                member=idx, gid=gid)
    blankrec = {"shape_bkg": [0, 0], "shape_rms": [0, 0], "valued": False, "img_min": 0, "img_max": 0,
                "bkg_min": 0, "bkg_max": 0, "rms_min": 0, "rms_max": 0, "const": False, "c": 0,
                "maskrule": False, "in_blank": [], "bkg_blank": [], "rms_blank": [],
                "stationary": False, "dev_bkg_ppm": 0, "dev_rms_ppm": 0, "nind": 0,
                "z_bkg_milli": 0, "z_rms_milli": 0}
    if res["outcome"] != "returned":
        r = dict(base, **blankrec)
        r.update(id="%s/m%d/ret" % (gid, idx), site="ret", outcome=res["outcome"],
                 error=str(res.get("error", "")), text=str(res.get("text", ""))[-200:])
        return [r]
    fin = np.isfinite(img)
    L = _mag(img)
    U = _unit(L)
    for site, maps in sorted(res["maps"].items()):
        r = dict(base, **blankrec)
        r.update(id="%s/m%d/%s" % (gid, idx, site), site=site, outcome="returned")
        if maps is None:
            r["outcome"] = "nofile"
            recs.append(r)
            continue
        bkg, rms = maps
        r["shape_bkg"] = [int(x) for x in bkg.shape]
        r["shape_rms"] = [int(x) for x in rms.shape]
        shape_ok = bkg.shape == img.shape and rms.shape == img.shape
        fb, fr = np.isfinite(bkg), np.isfinite(rms)
        if fin.any() and fb.any() and fr.any():
            r["valued"] = True
            r["img_min"], r["img_max"] = _q(img[fin].min(), U), _q(img[fin].max(), U)
            r["bkg_min"], r["bkg_max"] = _q(bkg[fb].min(), U), _q(bkg[fb].max(), U)
            r["rms_min"], r["rms_max"] = _q(rms[fr].min(), U), _q(rms[fr].max(), U)
            if spec["content"] == "const":
                r["const"] = True
                r["c"] = _q(img[fin][0], U)
        if shape_ok and site != "cfile":
            r["maskrule"] = True
            r["in_blank"] = _pixlist(~fin)
            r["bkg_blank"] = _pixlist(~fb)
            r["rms_blank"] = _pixlist(~fr)
        st = spec.get("stationary")
        if st and shape_ok and site != "cfile" and fb.all() and fr.all():
            m, s = st["m"], st["s"]
            r["stationary"] = True
            r["dev_bkg_ppm"] = max(-1000000, min(1000000, int(round((float(bkg.mean(dtype=np.float64)) - m) / s * 1e6))))
            r["dev_rms_ppm"] = max(-1000000, min(1000000, int(round((float(rms.mean(dtype=np.float64)) - s) / s * 1e6))))
            r["nind"] = (rows // spec["box"]) * (cols // spec["box"])
            n = r["nind"] * spec["box"] ** 2
            r["z_bkg_milli"] = abs(r["dev_bkg_ppm"]) * int(np.floor(np.sqrt(n) + 1e-9)) // 1000
            r["z_rms_milli"] = abs(r["dev_rms_ppm"]) * int(np.floor(np.sqrt(2 * n) + 1e-9)) // 1000
        recs.append(r)
    return recs


def pair_records(gid, i1, i2, spec1, spec2, res1, res2, img1, img2, rel, rng):
    """records of kind 'pair' (member i2 = transform of member i1) for every common site."""
    recs = []
    base = dict(_cfg_of(spec2), kind="pair", rel=rel["rel"], content=spec2["content"], gid=gid,
                members=[i1, i2], rows=img1.shape[0], cols=img1.shape[1])
    empty = {"sgn": 1, "c": 0, "dev_bkg": 0, "dev_rms": 0, "nan_mismatch": 0, "n_compared": 0, "probes": []}
    if res1["outcome"] != "returned" or res2["outcome"] != "returned":
        return []          # the run records carry the verdict
    L1, L2 = _mag(img1), _mag(img2)
    if rel["rel"] == "add":
        c = rel["c"]
        U1 = U2 = _unit(max(L1, L2, abs(c)))
        sgn, cu = 1, _q(c, U1)
    else:
        k = rel["kn"] / float(rel["kd"])
        U1 = _unit(L1)
        U2 = U1 * abs(k)
        sgn, cu = (1 if k > 0 else -1), 0
    for site in sorted(set(res1["maps"]) & set(res2["maps"])):
        m1, m2 = res1["maps"][site], res2["maps"][site]
        if m1 is None or m2 is None:
            continue
        b1, r1 = m1
        b2, r2 = m2
        if b1.shape != b2.shape or r1.shape != r2.shape or b1.shape != r1.shape:
            continue
        r = dict(base, **empty)
        r.update(id="%s/m%d-m%d/%s" % (gid, i1, i2, site), site=site, outcome="returned", sgn=sgn, c=cu)
        f1b, f2b, f1r, f2r = np.isfinite(b1), np.isfinite(b2), np.isfinite(r1), np.isfinite(r2)
        r["nan_mismatch"] = int(np.sum(f1b != f2b) + np.sum(f1r != f2r))
        both = f1b & f2b & f1r & f2r
        r["n_compared"] = int(both.sum())
        if r["n_compared"]:
            b1u = b1.astype(np.float64) / U1
            b2u = b2.astype(np.float64) / U2
            r1u = r1.astype(np.float64) / U1
            r2u = r2.astype(np.float64) / U2
            with np.errstate(invalid="ignore"):
                db = np.where(both, np.abs(b2u - (sgn * b1u + cu)), -1.0)
                dr = np.where(both, np.abs(r2u - r1u), -1.0)
            pb = np.unravel_index(int(np.argmax(db)), db.shape)
            pr = np.unravel_index(int(np.argmax(dr)), dr.shape)
            r["dev_bkg"] = _q(db[pb], 1.0)
            r["dev_rms"] = _q(dr[pr], 1.0)
            idxs = [pb, pr]
            cand = np.argwhere(both)
            for _ in range(14):
                idxs.append(tuple(cand[rng.randrange(len(cand))]))
            r["probes"] = [[_q(b1u[p], 1.0), _q(b2u[p], 1.0), _q(r1u[p], 1.0), _q(r2u[p], 1.0)] for p in idxs]
            r["probe_pixels"] = [[int(p[0]), int(p[1])] for p in idxs[:2]]
        recs.append(r)
    return recs


# --------------------------------------------------------------------------
# inputs
# --------------------------------------------------------------------------
def lattice(values):
    out = []
    for g in values["grids"]:
        for b in values["boxes"]:
            if b < max(4, g):
                continue
            for c in values["cores"]:
                for s in values["stripes"]:
                    if s > 2 * c:
                        continue
                    for rp in values["reprs"]:
                        for m in (True, False):
                            for z in (False, True):
                                out.append({"grid": g, "box": b, "cores": c, "stripes": s, "repr": rp,
                                            "mask": m, "compressed": z})
    return out


def pairwise_subset(lat, rng):
    """greedy pairwise covering subset (TLC checks the covering claim)."""
    need = set()
    for c in lat:
        for a in range(len(CFG_KEYS)):
            for b in range(a + 1, len(CFG_KEYS)):
                need.add((a, b, c[CFG_KEYS[a]], c[CFG_KEYS[b]]))
    chosen = []
    pool = list(lat)
    while need:
        best, bestn = None, -1
        for c in rng.sample(pool, min(len(pool), 400)):
            n = 0
            for a in range(len(CFG_KEYS)):
                for b in range(a + 1, len(CFG_KEYS)):
                    if (a, b, c[CFG_KEYS[a]], c[CFG_KEYS[b]]) in need:
                        n += 1
            if n > bestn:
                best, bestn = c, n
        if bestn <= 0:
            # finish the rare leftovers exactly
            a, b, va, vb = next(iter(need))
            best = next(c for c in pool if c[CFG_KEYS[a]] == va and c[CFG_KEYS[b]] == vb)
        chosen.append(best)
        for a in range(len(CFG_KEYS)):
            for b in range(a + 1, len(CFG_KEYS)):
                need.discard((a, b, best[CFG_KEYS[a]], best[CFG_KEYS[b]]))
    return chosen


def _blocks(rng, rows, cols, n, maxside):
    out = []
    for _ in range(n):
        h, w = rng.randint(1, maxside), rng.randint(1, maxside)
        r0, c0 = rng.randint(0, rows - 1), rng.randint(0, cols - 1)
        out.append([r0, min(rows, r0 + h), c0, min(cols, c0 + w)])
    return out


# image sizes for the stationary clause: N = nind * box^2 small enough that 6 standard errors dominate the
# intrinsic bias of the clipped estimator
STAT_SIZES = {16: [(48, 32), (32, 64), (40, 56)], 24: [(48, 48), (48, 60), (60, 50)]}
STAT_MAXN = 2400
STAT_MINBOX = 16


def make_group(cfg, rng, gid, big=False, force=None, stat=False, kinds=None):
    """a relation group for one configuration: member 0 = base image, member 1 =
    base + c or k * base (same configuration).  Returns {"gid", "members", "rels"}."""
    box = cfg["box"]
    i16 = cfg["repr"] == "bscale_i16"
    small = box <= 5 and not big
    if small:
        rows, cols = rng.choice([(24, 20), (16, 12), (21, 17), (12, 26)])
    elif big:
        rows, cols = rng.choice([(128, 96), (100, 131), (96, 64)])
    else:
        rows, cols = rng.choice([(64, 48), (64, 48), (61, 47), (48, 64)])
    if stat and box in STAT_SIZES:
        rows, cols = rng.choice(STAT_SIZES[box])
        rows, cols = max(rows, 2 * box), max(cols, 2 * box)
    elif rng.random() < 0.12:
        rows, cols = rng.choice([(2, 9), (9, 2), (3, 3), (5, 7), (7, 40), (33, 4), (2, 2)])   # smaller than the box
    contents = ["noise", "gradient", "sources", "nanblocks", "mixed", "const"]
    weights = [3, 2, 2, 3, 3, 1] if not small else [1, 1, 1, 4, 3, 1]
    content = force or rng.choices(contents, weights)[0]
    if i16 and content in ("nanblocks", "mixed"):
        content = rng.choice(["noise", "gradient", "sources"])
    sig = 64 if i16 else 256
    spec = dict(cfg, rows=rows, cols=cols, imgseed=rng.randrange(1, 2 ** 31), sigma_u=sig,
                qexp=rng.choice([-6, -6, -16, 0]) if i16 else rng.choice([-8, -8, -18, 2]),
                content=content, out=True, dtype="f32", bscale_exp=rng.choice([1, -3, 4]),
                nplanes=3, cube_index=rng.choice([0, 1, 2]))
    if i16:
        spec["bscale_exp"] = spec["qexp"]          # raw int16 = lattice integers
    dcs = [0, 10, 100] if i16 else [0, 10, 1000, 10000, -3000]
    dc = rng.choice(dcs) * sig
    if content == "const":
        spec["constant"] = rng.choice([0, sig, -7 * sig, dc if dc else 3 * sig, 12345])
    else:
        spec["dc_u"] = dc
        if content in ("gradient", "mixed"):
            spec["grad_u"] = [rng.choice([-8, 3, 16, 40]) * sig // 16, rng.choice([0, -5, 12]) * sig // 16]
            if i16:
                spec["grad_u"] = [rng.choice([-4, 3]), rng.choice([0, 2])]
        if content in ("sources", "mixed"):
            spec["sources"] = [[rng.randint(0, rows - 1), rng.randint(0, cols - 1),
                                rng.choice([20, 100, 30]) * sig if not i16 else 40 * sig,
                                rng.choice([1.0, 1.7, 2.5])] for _ in range(rng.randint(1, 4))]
        if content in ("nanblocks", "mixed"):
            spec["nan"] = _blocks(rng, rows, cols, rng.randint(1, 3), max(2, min(rows, cols) // 3))
            if rng.random() < 0.4:
                spec["inf"] = [[rng.randint(0, rows - 1), rng.randint(0, cols - 1), rng.choice([1, -1])]]
        if content == "noise" and box >= STAT_MINBOX and (rows // box) * (cols // box) * box * box <= STAT_MAXN \
                and rows >= 2 * box and cols >= 2 * box:
            spec["stationary"] = True
    if rng.random() < 0.25:
        # an earlier call in the same process on the same file name with other contents
        spec["pre"] = {"rows": max(2, rows + rng.choice([-3, 8, 0])), "cols": max(2, cols + rng.choice([5, -2, 0])),
                       "repr": "bscale" if cfg["repr"] == "2d" else "2d", "bscale_exp": rng.choice([2, -2]),
                       "content": "const", "constant": 3 * sig, "imgseed": 1}
    if rng.random() < 0.2:
        spec["via"] = "cli"          # through AegeanTools.CLI.BANE.main; only the files are observed
    # the related members (same configuration)
    members = [spec]
    rels = []
    for kind in (kinds or [rng.choice(["add", "add", "scale"])]):
        m1 = copy.deepcopy(spec)
        if kind == "add":
            cu = rng.choice([sig, 37 * sig, -500 * sig, 4096 * sig, 10000 * sig, 5 * sig + 3]) if not i16 \
                else rng.choice([sig, 20 * sig, -40 * sig])
            m1["add_u"] = cu
            rel = {"rel": "add", "c_u": cu}
        else:
            kn, kd = rng.choice([(-1, 1), (2, 1), (-2, 1), (3, 1), (1, 4), (-1, 2), (4, 1), (1, 2 ** 30), (-1, 2 ** 30), (3, 2 ** 36)]) if not i16 \
                else rng.choice([(-1, 1), (2, 1), (-2, 1)])
            m1["scale"] = [kn, kd]
            rel = {"rel": "scale", "kn": kn, "kd": kd}
        members.append(m1)
        rels.append(dict(rel, a=0, b=len(members) - 1))
    # keep every member exactly representable (regenerate inputs that are not)
    for m in members:
        z, _, _ = child.lattice(m)
        lim = 32000 if i16 else 2 ** 24 - 1
        if np.abs(z).max() > lim:
            return None
    return {"gid": gid, "members": members, "rels": rels}


def finish_specs(group):
    """derived fields that depend on the lattice -> physical conversion."""
    for m in group["members"]:
        q = 2.0 ** m["qexp"]
        if m.get("stationary"):
            kn, kd = m.get("scale", [1, 1])
            k = kn / float(kd)
            mean = (m.get("dc_u", 0) * k + m.get("add_u", 0)) * q
            m["stationary"] = {"m": mean, "s": abs(k) * m["sigma_u"] * q}
    for rel in group["rels"]:
        if rel["rel"] == "add":
            rel["c"] = rel["c_u"] * 2.0 ** group["members"][0]["qexp"]
    return group


# --------------------------------------------------------------------------
# execution + validation
# --------------------------------------------------------------------------
def execute_groups(workdir, groups, seed, workers=6):
    jobs = []
    for g in groups:
        for i, m in enumerate(g["members"]):
            jobs.append((g["gid"], i, m))

    def one(job):
        gid, i, m = job
        return (gid, i, run_bane(workdir, "%s_m%d" % (gid.replace("/", "_"), i), m))
    with ThreadPoolExecutor(max_workers=workers) as ex:
        results = list(ex.map(one, jobs))
    bygid = {}
    for gid, i, res in results:
        bygid.setdefault(gid, {})[i] = res
    recs = []
    nruns = 0
    for g in groups:
        rng = random.Random("%s/%s" % (seed, g["gid"]))
        imgs = [child.make_image(m) for m in g["members"]]
        for i, m in enumerate(g["members"]):
            res = bygid[g["gid"]][i]
            if res["outcome"] == "badinput":
                raise common.MachineryError("harness generated an unrepresentable image: %s %r" % (res.get("text"), m))
            nruns += 1
            recs += run_records(g["gid"], i, m, res, imgs[i])
        for rel in g["rels"]:
            a, b = rel["a"], rel["b"]
            recs += pair_records(g["gid"], a, b, g["members"][a], g["members"][b],
                                 bygid[g["gid"]][a], bygid[g["gid"]][b], imgs[a], imgs[b], rel, rng)
        for i in bygid[g["gid"]]:
            bygid[g["gid"]][i]["maps"] = None     # free memory
    return recs, nruns


def validate(ctx, recs, name):
    tf = os.path.join(ctx.workdir, name + ".json")
    byid = {r["id"]: r for r in recs}
    if len(byid) != len(recs):
        raise common.MachineryError("duplicate record ids in batch %s" % name)
    common.dump_json(tf, recs)
    res = ctx.tlc("BaneMaps_Trace", common.cfg(spec="Spec", post="BatchDone", deadlock=False),
                  name=name, workers=1, env={"TRACE_FILE": tf})
    summary = [p for p in res.printed if "accepted" in p]
    if not summary or summary[0]["total"] != len(recs):
        raise common.MachineryError("trace batch %s not fully consumed" % name)
    rej = [p for p in res.printed if "fails" in p]
    if summary[0]["accepted"] + len(rej) != len(recs):
        raise common.MachineryError("trace batch %s: verdict count mismatch" % name)
    os.remove(tf)
    return [(byid[p["id"]], p["fails"]) for p in rej]


def key_of(rec, fails):
    if rec["kind"] == "cover":
        return "cover fails=%s" % ",".join(fails)
    return "%s fails=%s repr=%s stripes=%s" % (
        rec["kind"], ",".join(fails), rec["repr"],
        "1" if rec["stripes"] == 1 or rec["cores"] == 1 else ">1")


def report(ctx, rejected, groups):
    bygid = {g["gid"]: g for g in groups}
    for rec, fails in rejected:
        real = [f for f in fails if not f.startswith("harness_")]
        if not real:
            raise common.MachineryError("harness-side clause rejected: %s %r" % (fails, rec["id"]))
        if rec["kind"] == "cover":
            raise common.MachineryError("executed configurations do not cover the lattice: %s" % fails)
        slim = {k: v for k, v in rec.items() if k not in ("in_blank", "bkg_blank", "rms_blank")}
        ctx.violation(key_of(rec, real), {"group": bygid[rec["gid"]], "record": slim, "fails": real})


# --------------------------------------------------------------------------
# self test
# --------------------------------------------------------------------------
def selftest(ctx):
    cfgd = {"grid": 2, "box": 4, "cores": 2, "stripes": 2, "repr": "2d", "mask": True, "compressed": False}
    run = dict(cfgd, id="st-run", kind="run", site="ret", gid="st", content="nanblocks", member=0,
               rows=8, cols=8, outcome="returned", shape_bkg=[8, 8], shape_rms=[8, 8], valued=True,
               img_min=-50000000, img_max=100000000, bkg_min=-1000000, bkg_max=60000000,
               rms_min=0, rms_max=30000000, const=False, c=0, maskrule=True,
               in_blank=[[1, 1], [1, 2]], bkg_blank=[[1, 1], [1, 2]], rms_blank=[[1, 1], [1, 2], [2, 2]],
               stationary=False, dev_bkg_ppm=0, dev_rms_ppm=0, nind=0, z_bkg_milli=0, z_rms_milli=0)
    stat = dict(run, id="st-stat", maskrule=False, in_blank=[], bkg_blank=[], rms_blank=[], box=8, grid=4,
                rows=64, cols=48, shape_bkg=[64, 48], shape_rms=[64, 48], stationary=True,
                dev_bkg_ppm=40000, dev_rms_ppm=-20000, nind=48, z_bkg_milli=40000 * 55 // 1000,
                z_rms_milli=20000 * 78 // 1000)
    const = dict(run, id="st-const", maskrule=False, in_blank=[], bkg_blank=[], rms_blank=[], const=True,
                 c=100000000, img_min=100000000, img_max=100000000, bkg_min=100000000 - 12, bkg_max=100000007,
                 rms_min=0, rms_max=3)
    pair = dict(cfgd, id="st-pair", kind="pair", site="ret", gid="st", content="noise", members=[0, 1],
                rows=8, cols=8, outcome="returned", rel="add", sgn=1, c=90000000, dev_bkg=12, dev_rms=2,
                nan_mismatch=0, n_compared=64,
                probes=[[1000000, 91000012, 500000, 500001], [2000000, 92000000, 600000, 600002],
                        [-3000000, 87000003, 1, 0]])
    scale = dict(pair, id="st-scale", rel="scale", sgn=-1, c=0, dev_bkg=1, dev_rms=0,
                 probes=[[1000000, -1000001, 500000, 500000], [2000000, -2000000, 600000, 600000]])
    lat = lattice(QUICK_VALUES)
    cover_ok = dict(id="st-cover", kind="cover", configs=[lat[0], lat[5]], pairwise=False,
                    lattice_size=len(lat), **QUICK_VALUES)
    bad = [
        (dict(run, id="b-shape", shape_rms=[8, 7]), ["shape"]),
        (dict(run, id="b-range-bkg", bkg_min=-50000900), ["range_bkg"]),
        (dict(run, id="b-range-rms", rms_max=150000801), ["range_rms"]),
        (dict(run, id="b-rms-neg", rms_min=-801), ["range_rms"]),
        (dict(run, id="b-mask", bkg_blank=[[1, 1]]), ["mask_copied_bkg"]),
        (dict(run, id="b-far", rms_blank=[[1, 1], [1, 2], [6, 2]]), ["far_pixels_finite_rms"]),
        (dict(run, id="b-noblank", in_blank=[], bkg_blank=[], rms_blank=[[3, 3]]),
         ["far_pixels_finite_rms", "no_blank_in_no_blank_out_rms"]),
        (dict(run, id="b-hung", outcome="hung"), ["returns_maps"]),
        (dict(stat, id="b-stat-bkg", dev_bkg_ppm=110000, z_bkg_milli=110000 * 55 // 1000), ["stationary_bkg"]),
        (dict(stat, id="b-stat-rms", dev_rms_ppm=-80000, z_rms_milli=80000 * 78 // 1000), ["stationary_rms"]),
        (dict(const, id="b-const-bkg", bkg_max=100000801), ["range_bkg", "constant_bkg"]),
        (dict(const, id="b-const-rms", rms_max=801), ["range_rms", "constant_rms"]),
        (dict(pair, id="b-add-bkg", dev_bkg=801, probes=[[1000000, 91000801, 500000, 500001]] + pair["probes"][1:]),
         ["add_constant_bkg"]),
        (dict(pair, id="b-add-rms", dev_rms=900, probes=[pair["probes"][0], [2000000, 92000000, 600000, 600900]]),
         ["add_constant_rms"]),
        (dict(pair, id="b-add-nan", nan_mismatch=1), ["add_constant_same_blank_pixels"]),
        (dict(scale, id="b-scale-sign", sgn=1), ["scale_bkg", "harness_dev_attained_at_probe"]),
        (dict(cover_ok, id="b-cover", pairwise=True), ["pairwise_covering"]),
        (dict(cover_ok, id="b-cover-dom", configs=[dict(lat[0], box=3)]), ["executed_configs_in_lattice"]),
    ]
    good = [run, stat, const, pair, scale, cover_ok, dict(run, id="st-nomask", mask=False, bkg_blank=[])]
    rej = validate(ctx, good + [b for b, _ in bad], "selftest")
    got = {r["id"]: f for r, f in rej}
    want = {b["id"]: f for b, f in bad}
    if got != want:
        raise common.MachineryError("BaneMaps_Trace self-test failed:\n got  %r\n want %r" % (got, want))


# --------------------------------------------------------------------------
# model checking jobs
# --------------------------------------------------------------------------
def _mc_constants(values, **kw):
    c = {"MaxRows": 6, "MaxCols": 6, "MinSide": 2, "MaxBlocks": 1, "MaxCuts": 1, "CheckDesign": False,
         "Grids": "@{1, 2}", "Boxes": "@{4, 5}",
         "LGrids": "@{%s}" % ", ".join(map(str, values["grids"])),
         "LBoxes": "@{%s}" % ", ".join(map(str, values["boxes"])),
         "LCores": "@{%s}" % ", ".join(map(str, values["cores"])),
         "LStripes": "@{%s}" % ", ".join(map(str, values["stripes"])),
         "LReprs": "@{%s}" % ", ".join('"%s"' % r for r in values["reprs"])}
    c.update(kw)
    return c


def model_check(ctx, values, lat):
    quick = ctx.tier == "quick"
    if quick:
        jobs = [("mc_propagation_6x6_1", dict(MaxRows=6, MaxCols=6, MaxBlocks=1), ["PropagationThm", "ReadingsAgree"]),
                ("mc_propagation_5x5_2", dict(MaxRows=5, MaxCols=5, MaxBlocks=2), ["PropagationThm"]),
                ("mc_design_4x4_1", dict(MaxRows=4, MaxCols=4, MaxBlocks=1, MaxCuts=1, CheckDesign=True),
                 ["PropagationThm", "DesignThm"])]
    else:
        jobs = [("mc_readings_5x5_2", dict(MaxRows=5, MaxCols=5, MaxBlocks=2), ["PropagationThm", "ReadingsAgree"]),
                ("mc_propagation_6x6_2", dict(MaxRows=6, MaxCols=6, MaxBlocks=2), ["PropagationThm"]),
                ("mc_propagation_5x5_3", dict(MaxRows=5, MaxCols=5, MaxBlocks=3), ["PropagationThm"]),
                ("mc_design_4x4_2", dict(MaxRows=4, MaxCols=4, MaxBlocks=2, MaxCuts=2, CheckDesign=True),
                 ["PropagationThm", "DesignThm"]),
                ("mc_design_5x5_1", dict(MaxRows=5, MaxCols=5, MaxBlocks=1, MaxCuts=2, CheckDesign=True),
                 ["PropagationThm", "DesignThm"])]
    for name, kw, invs in jobs:
        first = name == jobs[0][0]       # -coverage slows TLC a lot: action coverage on the first job only,
        res = ctx.tlc("MC_BaneMaps", common.cfg(spec="Spec", constants=_mc_constants(values, **kw),
                                                invariants=invs, deadlock=False),
                      name=name, coverage=first, timeout=3000)
        if first:
            ctx.require_actions(res, ["AddBlock"], name)
        elif res.depth < kw["MaxBlocks"] + 1 or res.distinct < 1000:   # ... depth = blocks added + 1 on the others
            raise common.MachineryError("vacuity: %s explored depth %d, %d states" % (name, res.depth, res.distinct))
        sizes = [p for p in res.printed if "lattice_size" in p]
        if not sizes or sizes[0]["lattice_size"] != len(lat):
            raise common.MachineryError("lattice size: TLC %r, harness %d" % (sizes, len(lat)))
    # non-vacuity: the node/box design does blank pixels that are finite in the input (so clause (ii)
    # constrains it), and box < 4 (outside the property's domain) breaks clause (iii)
    res = ctx.tlc("MC_BaneMaps", common.cfg(
        spec="Spec", constants=_mc_constants(values, MaxRows=5, MaxCols=4, MinSide=4, MaxBlocks=1, MaxCuts=0,
                                             CheckDesign=True, Grids="@{2}", Boxes="@{4}"),
        invariants=["DesignAddsNoBlank"], deadlock=False), name="mc_design_adds_blanks", must_pass=False)
    if res.violated != "DesignAddsNoBlank":
        raise common.MachineryError("vacuity: the design model never blanks a finite input pixel")
    res = ctx.tlc("MC_BaneMaps", common.cfg(
        spec="Spec", constants=_mc_constants(values, MaxRows=3, MaxCols=3, MinSide=2, MaxBlocks=0, MaxCuts=0,
                                             CheckDesign=True, Grids="@{1}", Boxes="@{3}"),
        invariants=["DesignThm"], deadlock=False), name="mc_box_below_4", must_pass=False)
    if res.violated != "DesignThm":
        raise common.MachineryError("vacuity: box = 3 should break the design's mask rule")


# --------------------------------------------------------------------------
# entry points
# --------------------------------------------------------------------------
def build_groups(ctx, values, lat):
    rng = random.Random(ctx.seed)
    quick = ctx.tier == "quick"
    configs = pairwise_subset(lat, rng)
    pairwise_n = len(configs)
    if not quick:
        extra = rng.sample(lat, 520)
        configs += [c for c in extra if c not in configs]
    groups = []
    for n, cfg in enumerate(configs):
        g = None
        for attempt in range(20):
            g = make_group(cfg, rng, "g%03d" % n, big=(not quick and n % 5 == 4),
                           kinds=["add", "scale"])
            if g is not None:
                break
        if g is None:
            raise common.MachineryError("could not generate a representable group for %r" % cfg)
        groups.append(finish_specs(g))
    # the case a zero-mean image hides: multi-stripe runs with a large DC offset, every content class
    forced = [c for c in configs if c["stripes"] > 1 and c["cores"] > 1 and c["repr"] != "bscale_i16"]
    for n, cfg in enumerate(forced[: (6 if quick else 24)]):
        g = None
        for attempt in range(40):
            g = make_group(cfg, rng, "f%03d" % n, force=["noise", "nanblocks", "gradient", "const"][n % 4])
            if g is not None and (g["members"][0].get("dc_u", 0) >= 1000 * 256 or n % 4 == 3):
                break
            g = None
        if g is not None:
            groups.append(finish_specs(g))
    # stationary Gaussian noise
    forced = [c for c in configs if c["box"] >= STAT_MINBOX and c["repr"] != "bscale_i16"]
    rng.shuffle(forced)
    for n, cfg in enumerate(forced[: (6 if quick else 40)]):
        g = None
        for attempt in range(40):
            g = make_group(cfg, rng, "s%03d" % n, force="noise", stat=True)
            if g is not None and g["members"][0].get("stationary"):
                break
            g = None
        if g is not None:
            groups.append(finish_specs(g))
    return groups, configs, pairwise_n


def run(ctx):
    quick = ctx.tier == "quick"
    values = QUICK_VALUES if quick else THOROUGH_VALUES
    lat = lattice(values)
    model_check(ctx, values, lat)
    selftest(ctx)
    groups, configs, pairwise_n = build_groups(ctx, values, lat)
    recs, nruns = execute_groups(ctx.workdir, groups, ctx.seed, workers=6 if quick else 8)
    cover = dict(id="cover", kind="cover", configs=configs[:pairwise_n], pairwise=True,
                 lattice_size=len(lat), **values)
    rejected = []
    for k, part in enumerate(common.chunks([cover] + recs, 1500)):
        rejected += validate(ctx, part, "bane_trace_%d" % k)
    nontrivial = len(set((r["gid"]) for r in recs))
    ctx.count(evaluations=nruns, nontrivial=nontrivial, traces=len(recs))
    ctx.cov["rule"] = ("evaluations = real BANE.filter_image runs (each in its own process, maps + files read back); "
                       "distinct = relation groups (configuration x image); traces = run/pair records judged by TLC")
    ctx.cov["domain"] = {"lattice": values, "lattice_size": len(lat), "pairwise_configs": pairwise_n,
                         "configs_executed": len(configs), "groups": len(groups)}
    stat = [r for r in recs if r["kind"] == "run" and r["stationary"]]
    ctx.cov["stationary_runs"] = len(stat)
    ctx.cov["max_z_milli"] = {"bkg": max([r["z_bkg_milli"] for r in stat] or [0]),
                              "rms": max([r["z_rms_milli"] for r in stat] or [0])}
    pairs = [r for r in recs if r["kind"] == "pair"]
    ctx.cov["pair_records"] = len(pairs)
    ctx.cov["max_pair_dev_units_1e-8L"] = {"bkg": max([r["dev_bkg"] for r in pairs] or [0]),
                                           "rms": max([r["dev_rms"] for r in pairs] or [0])}
    ctx.cov["outcomes"] = {}
    for r in recs:
        if r["kind"] == "run" and r["site"] == "ret":
            ctx.cov["outcomes"][r["outcome"]] = ctx.cov["outcomes"].get(r["outcome"], 0) + 1
    for r in (pairs[:1] + stat[:1]):
        ctx.sample({k: v for k, v in r.items() if k not in ("in_blank", "bkg_blank", "rms_blank")})
    ctx.assumptions += [
        "images have at least 2 rows and 2 columns (BANE's boxes never include the last data row / column, so a "
        "1-pixel-wide image has no box with a pixel in it: all-NaN maps or IndexError) and at least one finite pixel",
        "test images live on a dyadic lattice so that img, img + c and k * img are exact in the FITS file "
        "(float32 / int16 * BSCALE); a clip threshold falling within ~1e-12 of a pixel value could still flip "
        "between the members of a group (probability ~1e-9 per threshold; seeds are fixed)",
        "identities are checked at 8 ppm of L = max(|pixel|, range, |c|) because the maps are float32",
        "stationary clause: pure Gaussian noise + DC, box >= 16, image >= 2 box per axis and N = nind * box^2 <= 2400 "
        "independent pixels, where 6 standard errors (>= 8.6 % for rms) dominate the intrinsic bias of a 3-sigma "
        "clipped, ddof = 0, self-subtracted estimator (measured -1.3 .. -1.9 % for box >= 16; -3 .. -5 % for box 8, "
        "which is why smaller boxes are left out of this clause; measured z-scores of the unchanged estimator: mean 1.3, "
        "max 4.2 over 240 images)",
        "compressed output is lossy by design: for expanded compressed files only shape, range, constant, "
        "add-constant and scale clauses are evaluated (not the mask rule, not the stationary clause)",
        "square grid / box (step_size = (g, g), box_size = (b, b)); BZERO = 0; astropy.io.fits round-trips the files",
    ]
    report(ctx, rejected, groups)


def replay(ctx, rec):
    g = rec["detail"]["group"]
    recs, nruns = execute_groups(ctx.workdir, [g], ctx.seed, workers=2)
    rejected = validate(ctx, recs, "replay")
    ctx.count(evaluations=nruns, nontrivial=1, traces=len(recs))
    report(ctx, rejected, [g])
