"""
X05 (growth, not one of the twenty listed properties) - the tools as one workspace: different
routes through library calls and command line programs that denote the same artefact give the
same artefact.

model  : spec/Workflow.tla (derivation terms, Norm(t) = the artefact a derivation denotes, the
         workspace as state, one tool application per step; TLC checks Closed, KindOfNorm,
         RoutesMeet, ForcedDiffers on every workspace up to the bound) and spec/MC_Workflow.tla
         (prints every maximal workspace).
binding: every derivation of every emitted workspace is carried out on the real tools (BANE
         program, `aegean --save`, find_sources_in_image with internal / file / forced maps, the
         `aegean --table` program with the same, save_catalog + load_table, `regroup
         --noregroup`, priorized_fit_islands, the AeRes program and AeRes.make_residual), each
         artefact is tokenised by float identity, and TLC (spec/Workflow_Trace.tla) demands one
         token per Workflow!Norm.
"""
import contextlib
import hashlib
import io
import json
import os
from concurrent.futures import ProcessPoolExecutor

import numpy as np

from harness import common, proc_child as PC

LEVEL = "model_checking"
SIG = PC.SIG


class Bench(object):
    """evaluates derivation terms on the real tools, memoised; artefact = dict(kind, ...)"""

    def __init__(self, d):
        self.d = d
        self.memo = {}
        self.n = 0

    def fresh(self, suffix):
        self.n += 1
        return os.path.join(self.d, "a%d_%d%s" % (os.getpid(), self.n, suffix))

    def ev(self, t):
        key = json.dumps(t)
        if key not in self.memo:
            try:
                with contextlib.redirect_stderr(io.StringIO()), contextlib.redirect_stdout(io.StringIO()):
                    self.memo[key] = getattr(self, "do_" + t[0])(*t[1:])
            except SystemExit as e:
                self.memo[key] = {"kind": "failed", "why": "SystemExit(%s)" % e.code}
            except Exception as e:
                self.memo[key] = {"kind": "failed", "why": "%s: %s" % (type(e).__name__, str(e)[:200])}
        return self.memo[key]

    def need(self, t, kind):
        a = self.ev(t)
        if a["kind"] != kind:
            raise RuntimeError("input %s is %s: %s" % (t[0], a["kind"], a.get("why", "")))
        return a

    # ---- images
    def do_img(self, name):
        p = self.fresh("_%s.fits" % name)
        PC.write_image(name, p)
        return {"kind": "image", "path": p}

    # ---- maps
    def do_forced(self):
        return {"kind": "maps", "forced": True}

    def do_internal(self):
        return {"kind": "maps", "internal": True}

    def do_banecli5(self, x):
        return self.do_banecli(x, five=True)

    def do_banecli(self, x, five=False):
        from astropy.io import fits
        from AegeanTools.BANE import get_step_size
        from AegeanTools.CLI import BANE as cli
        img = self.need(x, "image")["path"]
        base = self.fresh("_bane")
        argv = [img, "--out", base, "--cores", "1"]
        if five:
            g = get_step_size(fits.getheader(img))
            argv += ["--box", str(5 * g[0]), str(5 * g[1])]
        rc = cli.main(argv)
        if rc != 0:
            raise RuntimeError("BANE exit status %s" % rc)
        return {"kind": "maps", "bkg": base + "_bkg.fits", "rms": base + "_rms.fits"}

    def do_aegsave(self, x):
        from AegeanTools.CLI import aegean as cli
        img = self.need(x, "image")["path"]
        base = self.fresh("_save")
        rc = cli.main([img, "--save", "--outbase", base, "--cores", "1"])
        if rc not in (0, None):
            raise RuntimeError("aegean --save exit status %s" % rc)
        return {"kind": "maps", "bkg": base + "_bkg.fits", "rms": base + "_rms.fits"}

    # ---- catalogues
    def do_find(self, x, m):
        from AegeanTools.source_finder import SourceFinder
        img = self.need(x, "image")["path"]
        maps = self.need(m, "maps")
        kw = {}
        if maps.get("forced"):
            kw = dict(rms=SIG, bkg=0.0)
        elif not maps.get("internal"):
            kw = dict(bkgin=maps["bkg"], rmsin=maps["rms"])
        rows = SourceFinder().find_sources_in_image(img, cores=1, nonegative=False, **kw)
        return {"kind": "catalogue", "rows": rows}

    def do_findcli(self, x, m):
        from AegeanTools.CLI import aegean as cli
        img = self.need(x, "image")["path"]
        maps = self.need(m, "maps")
        tab = self.fresh("_tab.csv")
        argv = [img, "--table", tab, "--negative", "--cores", "1"]
        if maps.get("forced"):
            argv += ["--forcerms", repr(SIG), "--forcebkg", "0"]
        elif not maps.get("internal"):
            argv += ["--background", maps["bkg"], "--noise", maps["rms"]]
        rc = cli.main(argv)
        if rc not in (0, None):
            raise RuntimeError("aegean exit status %s" % rc)
        return {"kind": "catalogue", "rows": self.load(tab.replace(".csv", "_comp.csv"))}

    def load(self, path):
        from AegeanTools import catalogs
        if not os.path.exists(path):
            return []
        return catalogs.table_to_source_list(catalogs.load_table(path))

    def write_cat(self, rows):
        from AegeanTools.catalogs import save_catalog
        base = self.fresh("_cat.csv")
        save_catalog(base, rows)
        return base.replace(".csv", "_comp.csv")

    def do_saveload(self, c):
        rows = self.need(c, "catalogue")["rows"]
        return {"kind": "catalogue", "rows": self.load(self.write_cat(rows)) if rows else []}

    def do_regroupid(self, c):
        from AegeanTools.CLI import AeReg as cli
        rows = self.need(c, "catalogue")["rows"]
        if not rows:
            return {"kind": "catalogue", "rows": []}
        out = self.fresh("_rg.csv")
        rc = cli.main(["--input", self.write_cat(rows), "--table", out, "--noregroup"])
        if rc != 0:
            raise RuntimeError("regroup exit status %s" % rc)
        return {"kind": "catalogue", "rows": self.load(out.replace(".csv", "_comp.csv"))}

    def do_prior(self, x, c):
        import copy
        from AegeanTools.source_finder import SourceFinder
        img = self.need(x, "image")["path"]
        rows = copy.deepcopy(self.need(c, "catalogue")["rows"])
        out = SourceFinder().priorized_fit_islands(img, catalogue=rows, rms=SIG, bkg=0.0, cores=1, stage=2, ratio=1.0)
        return {"kind": "catalogue", "rows": out}

    # ---- residual images
    def do_rescli(self, x, c):
        from AegeanTools.CLI import AeRes as cli
        img = self.need(x, "image")["path"]
        rows = self.need(c, "catalogue")["rows"]
        res = self.fresh("_res.fits")
        rc = cli.main(["-c", self.write_cat(rows), "-f", img, "-r", res])
        if rc != 0:
            raise RuntimeError("AeRes exit status %s" % rc)
        return {"kind": "image", "path": res}

    def do_reslib(self, x, c):
        from AegeanTools import AeRes
        img = self.need(x, "image")["path"]
        rows = self.need(c, "catalogue")["rows"]
        res = self.fresh("_res.fits")
        AeRes.make_residual(img, self.write_cat(rows), res)
        return {"kind": "image", "path": res}

    # ---- tokens
    def token(self, t):
        from astropy.io import fits
        a = self.ev(t)
        if a["kind"] == "failed":
            return "failed", a.get("why", "")
        if a["kind"] == "image":
            if not os.path.exists(a["path"]):
                return "failed", "no output file"
            return "img:" + PC.atok(fits.getdata(a["path"])), ""
        if a["kind"] == "maps":
            if a.get("forced") or a.get("internal"):
                return "maps:" + ("forced" if a.get("forced") else "internal"), ""
            return "maps:" + PC.atok(fits.getdata(a["bkg"]), fits.getdata(a["rms"])), ""
        rows = a["rows"]
        return "cat:" + PC.rows_tok(rows), ""


def eval_terms(args):
    d, terms = args
    common.quiet_logging()
    b = Bench(d)
    out = []
    for t in terms:
        tok, why = b.token(t)
        out.append({"term": t, "tok": tok, "why": why})
    return out


def emit(ctx, images, N):
    cfgtxt = common.cfg(spec="Spec", constants={"Images": set(images), "MaxArtefacts": N, "Emit": True},
                        invariants=["Closed", "KindOfNorm", "RoutesMeet", "ForcedDiffers", "BaneDefaultsDiffer"],
                        constraints=["Bound", "EmitDone"], deadlock=False)
    res = ctx.tlc("MC_Workflow", cfgtxt, name="emit_%s_%d" % ("".join(images), N), workers=1)
    wss = [p for p in res.printed if isinstance(p, list)]
    if not wss:
        raise common.MachineryError("no workspace emitted by MC_Workflow")
    return wss


def depends(t):
    out = []
    for x in t[1:]:
        if isinstance(x, list):
            out += depends(x) + [x]
    return out


def validate(ctx, items, name):
    tf = os.path.join(ctx.workdir, name + ".json")
    common.dump_json(tf, [{"id": name, "items": [{"term": i["term"], "tok": i["tok"]} for i in items]}])
    res = ctx.tlc("Workflow_Trace", common.cfg(spec="Spec", post="BatchDone", deadlock=False),
                  name=name, workers=1, env={"TRACE_FILE": tf})
    summary = [p for p in res.printed if isinstance(p, dict) and "accepted" in p]
    rej = [p for p in res.printed if isinstance(p, dict) and "fails" in p]
    if not summary or summary[0]["total"] != 1:
        raise common.MachineryError("Workflow_Trace batch not consumed")
    return rej[0]["fails"] if rej else []


def run(ctx):
    quick = ctx.tier == "quick"
    ctx.tlc("MC_Workflow", common.cfg(spec="Spec", constants={"Images": {"A", "B"}, "MaxArtefacts": 4 if quick else 5, "Emit": False},
                                      invariants=["Closed", "KindOfNorm", "RoutesMeet", "ForcedDiffers", "BaneDefaultsDiffer"],
                                      constraints=["Bound"], deadlock=False), name="model", coverage=True)
    groups = []
    for im in ("A", "B"):
        wss = emit(ctx, [im], 4 if quick else 5)
        seen, terms = set(), []
        for w in wss:
            for t in w:
                k = json.dumps(t)
                if k not in seen:
                    seen.add(k)
                    terms.append(t)
        groups.append(terms)
    d = os.path.join(ctx.workdir, "ws")
    os.makedirs(d, exist_ok=True)
    # split every image's terms over several workers (each memoises the shared prefixes it needs)
    jobs = []
    for terms in groups:
        terms = sorted(terms, key=lambda t: (len(json.dumps(t)), json.dumps(t)))
        nchunk = 5
        for k in range(nchunk):
            jobs.append((d, terms[k::nchunk]))
    with ProcessPoolExecutor(max_workers=15) as pool:
        res = list(pool.map(eval_terms, jobs))
    total, nfail = 0, 0
    for gi, terms in enumerate(groups):
        items = [i for r in res[gi * 5:(gi + 1) * 5] for i in r]
        total += len(items)
        fails = validate(ctx, items, "trace_%d" % gi)
        if gi == 0:
            selftest(ctx, items, fails)
        for f in fails:
            a, b = items[f["a"] - 1], items[f["b"] - 1]
            nfail += 1
            ctx.violation("workflow fails=%s route=%s vs %s" % (f["clause"], head(b["term"]), head(a["term"])),
                          {"record": {"a": a["term"], "b": b["term"]}, "tokens": [a["tok"], b["tok"]], "why": [a["why"], b["why"]],
                           "fails": [f["clause"]]})
    ctx.count(evaluations=total, nontrivial=total, traces=len(groups))
    ctx.cov["rule"] = ("every derivation of every workspace with at most %d artefacts emitted by MC_Workflow, for each of the images "
                       "A and B (BSCALE, elongated beam, TAN): %d derivations carried out on the real tools"
                       % (4 if quick else 5, total))
    ctx.cov["exhaustive"] = True
    ctx.sample({"term": groups[0][-1]})
    ctx.assumptions += ["catalogue tokens exclude the uuid; csv tables (full double precision, property C18)"]


def head(t):
    return "%s(%s)" % (t[0], ",".join(x[0] if isinstance(x, list) else str(x) for x in t[1:]))


def selftest(ctx, items, fails):
    if fails:
        return
    import copy
    bad = copy.deepcopy(items)
    j = next((n for n, i in enumerate(bad) if i["term"][0] == "findcli"), None)
    if j is None:
        return
    bad[j]["tok"] = "cat:n=0:corrupted"
    f = validate(ctx, bad, "selftest")
    if not any(x["clause"] == "same_artefact_by_every_route" and j + 1 in (x["a"], x["b"]) for x in f):
        raise common.MachineryError("Workflow_Trace self-test failed: %r" % f)


def replay(ctx, rec):
    r = rec["detail"]["record"]
    d = os.path.join(ctx.workdir, "ws")
    os.makedirs(d, exist_ok=True)
    items = eval_terms((d, [r["a"], r["b"]]))
    for f in validate(ctx, items, "replay"):
        ctx.violation("workflow fails=%s route=%s vs %s" % (f["clause"], head(r["b"]), head(r["a"])),
                      {"record": r, "tokens": [i["tok"] for i in items], "why": [i["why"] for i in items], "fails": [f["clause"]]})
    ctx.count(evaluations=2, nontrivial=2, traces=1)
