"""
X02 (growth, not one of the twenty listed properties) - history independence of the public
entry points inside one Python process.

model  : spec/Process.tla (files are rewritten and entry points are called in any order; the
         result of a call is Fresh(call, current contents)); spec/MC_Process.tla: TLC checks
         HistoryIndependent / RemembersNothing for the design "pure" on the complete state
         space and must produce a counterexample for each of the five ways a process can come
         to remember something (per-name cache, first-object memo, sticky class flag, shared
         accumulator, module constant edited in place).
binding: spec -> code : every history MC_Process emits (K calls, each optionally preceded by
         a rewrite of the file) is executed in ONE real Python process
         (harness/proc_child.py: BANE in memory and to compressed files, blind finding with
         forced and internal noise, island detection, image bands, WCS helper conversions,
         find + save_catalog, priorized fit, AeRes residual, MIMAS.mask_file,
         compress/expand) on five file contents: three images that differ in size, BSCALE,
         projection, pixel scale, beam and frame (equatorial / galactic) and BANE-compressed
         versions of two of them; every result is tokenised
         (float identity) and compared with the token of the same call made first in a fresh
         process.  code -> spec : the executed history with the comparison outcome is
         validated by TLC (spec/Process_Trace.tla) against Process!ComputeOn.
"""
import json
import os
import random
import subprocess
import sys
from concurrent.futures import ThreadPoolExecutor

from harness import common

LEVEL = "model_checking"
from harness import proc_child as PC

CALLS = PC.IMAGE_CALLS + PC.REGION_CALLS + PC.TABLE_CALLS
CONTENTS = PC.IMAGES + PC.REGIONS + PC.TABLES
TYPES = {frozenset(PC.IMAGE_CALLS + PC.IMAGES), frozenset(PC.REGION_CALLS + PC.REGIONS), frozenset(PC.TABLE_CALLS + PC.TABLES)}
ACCEPTS = {(k, c) for k in PC.IMAGE_CALLS for c in PC.IMAGES} | {(k, c) for k in PC.REGION_CALLS for c in PC.REGIONS} | \
          {(k, c) for k in PC.TABLE_CALLS for c in PC.TABLES}
DESIGNS = ["name_cache", "first_call_cache", "sticky_flag", "accumulator", "mutated_constant"]
CHILD = os.path.join(os.path.dirname(os.path.abspath(__file__)), "proc_child.py")


def run_child(workdir, tag, steps, timeout=600):
    spec = {"dir": workdir, "tag": tag, "steps": steps, "contents": os.path.join(workdir, "contents")}
    env = dict(os.environ)
    try:
        p = subprocess.run([sys.executable, "-W", "ignore", CHILD, json.dumps(spec)], capture_output=True,
                           text=True, timeout=timeout, env=env, start_new_session=True)
    except subprocess.TimeoutExpired:
        return None, "timeout"
    for line in p.stdout.splitlines():
        if line.startswith("PROC_CHILD_RESULT "):
            return json.loads(line[len("PROC_CHILD_RESULT "):]), ""
    return None, "no result (rc=%s): %s" % (p.returncode, (p.stderr or "")[-300:])


def emit(ctx, K, simulate=None, seed=None, name=None):
    cfgtxt = common.cfg(spec="MCSpec", constants={"Calls": set(CALLS), "Contents": set(CONTENTS), "Paths": {"P"},
                                                   "Types": TYPES, "Flagged": {"G"}, "Mutators": set(), "Accumulating": set(),
                                                   "Design": "pure", "K": K, "Emit": True},
                        invariants=["HistoryIndependent"], constraints=["EmitDone", "Bound"], deadlock=False)
    kw = {}
    if simulate:
        kw["simulate"] = "num=%d" % simulate
        kw["depth"] = 2 * K + 1
        kw["seed"] = seed
    res = ctx.tlc("MC_Process", cfgtxt, name=name or "hist_K%d" % K, workers=1, **kw)
    hs = [p for p in res.printed if isinstance(p, list)]
    if not hs:
        raise common.MachineryError("no histories emitted by MC_Process")
    # de-duplicate (simulation may print a history twice)
    seen, out = set(), []
    for h in hs:
        k = json.dumps(h, sort_keys=True)
        if k not in seen:
            seen.add(k)
            out.append(h)
    return out


def steps_of(h):
    return [({"op": "write", "path": s["path"], "content": s["content"]} if s["op"] == "write"
             else {"op": "call", "call": s["call"], "path": s["path"]}) for s in h]


def execute(ctx, hists, label):
    """-> list of (hid, history, child result, err)"""
    jobs = [("%s/%d" % (label, i), h) for i, h in enumerate(hists)]

    def one(job):
        hid, h = job
        res, err = run_child(ctx.workdir, hid.replace("/", "_"), steps_of(h))
        return hid, h, res, err
    with ThreadPoolExecutor(max_workers=14) as ex:
        return list(ex.map(one, jobs))


def records(runs, fresh):
    recs = []
    for hid, h, res, err in runs:
        steps = []
        for n, s in enumerate(h):
            if s["op"] == "write":
                steps.append({"op": "write", "path": s["path"], "content": s["content"]})
            else:
                r = res[n] if res else {}
                tok = r.get("tok")
                steps.append({"op": "call", "call": s["call"], "path": s["path"],
                              "same": [c for c in CONTENTS if tok is not None and fresh.get((s["call"], c)) == {tok}],
                              "intact": bool(r.get("intact", False))})
        recs.append({"id": hid, "kind": "history", "err": err, "steps": steps})
    return recs


def validate(ctx, recs, name):
    tf = os.path.join(ctx.workdir, name + ".json")
    common.dump_json(tf, recs)
    res = ctx.tlc("Process_Trace", common.cfg(spec="Spec", constants={"Calls": set(CALLS), "Contents": set(CONTENTS), "Types": TYPES},
                                              post="BatchDone", deadlock=False),
                  name=name, workers=1, env={"TRACE_FILE": tf})
    summary = [p for p in res.printed if isinstance(p, dict) and "accepted" in p]
    rej = [p for p in res.printed if isinstance(p, dict) and "fails" in p]
    if not summary or summary[0]["total"] != len(recs) or summary[0]["accepted"] + len(rej) != len(recs):
        raise common.MachineryError("Process_Trace batch not fully consumed")
    return {p["id"]: p["fails"] for p in rej}


def first_tokens(runs, fresh):
    for hid, h, res, err in runs:
        if not res:
            continue
        calls = [(n, s) for n, s in enumerate(h) if s["op"] == "call"]
        n, s = calls[0]
        if "tok" in res[n]:
            fresh.setdefault((s["call"], s["content"]), set()).add(res[n]["tok"])


def model_check(ctx):
    base = {"Calls": {"bane", "find", "regquery"}, "Contents": {"A", "B", "G", "RA", "RB"}, "Paths": {"P", "Q"}, "Flagged": {"G"},
            "Types": {frozenset(["bane", "find", "A", "B", "G"]), frozenset(["regquery", "RA", "RB"])},
            "Mutators": {"find"}, "Accumulating": {"find"}, "K": 3, "Emit": False}
    ctx.tlc("MC_Process", common.cfg(spec="MCSpec", constants=dict(base, Design="pure"),
                                     invariants=["TypeOK", "HistoryIndependent", "RemembersNothing"], deadlock=False),
            name="model_pure", coverage=True)
    for d in DESIGNS:
        res = ctx.tlc("MC_Process", common.cfg(spec="MCSpec", constants=dict(base, Design=d),
                                               invariants=["TypeOK", "HistoryIndependent"], deadlock=False),
                      name="model_" + d, must_pass=False)
        if res.violated != "HistoryIndependent":
            raise common.MachineryError("sensitivity: design %s does not violate HistoryIndependent in the model" % d)
    ctx.cov["designs_refuted"] = DESIGNS


def prepare(ctx):
    cdir = os.path.join(ctx.workdir, "contents")
    os.makedirs(cdir, exist_ok=True)
    p = subprocess.run([sys.executable, "-W", "ignore", CHILD, "--prepare", cdir], capture_output=True, text=True, timeout=600)
    if "PROC_CHILD_RESULT" not in p.stdout:
        raise common.MachineryError("could not prepare the file contents: %s" % (p.stderr or "")[-400:])


def run(ctx):
    quick = ctx.tier == "quick"
    model_check(ctx)
    prepare(ctx)
    h1 = emit(ctx, 1)
    h2 = emit(ctx, 2)
    rng = random.Random(ctx.seed)
    nall2 = len(h2)
    if quick:
        h2 = rng.sample(h2, 420)
    walks = emit(ctx, 6, simulate=10 if quick else 120, seed=ctx.seed + 5, name="walks")
    fresh = {}
    r1 = execute(ctx, h1, "k1")
    r2 = execute(ctx, h2, "k2")
    rw = execute(ctx, walks, "walk")
    for r in (r1, r2, rw):
        first_tokens(r, fresh)
    missing = [kc for kc in sorted(ACCEPTS) if kc not in fresh]
    if missing:
        raise common.MachineryError("no fresh-process token for %r" % missing[:4])
    recs = [{"id": "fresh/%s/%s" % k, "kind": "fresh", "call": k[0], "content": k[1], "ntok": len(v)}
            for k, v in sorted(fresh.items())]
    recs += records(r1 + r2 + rw, fresh)
    selftest(ctx, recs)
    rej = validate(ctx, recs, "trace")
    byid = {r["id"]: r for r in recs}
    hist = {hid: h for hid, h, _, _ in r1 + r2 + rw}
    ncalls = sum(1 for r in recs if r["kind"] == "history" for s in r["steps"] if s["op"] == "call")
    ctx.count(evaluations=ncalls, nontrivial=ncalls, traces=len(recs))
    ctx.cov["rule"] = ("every history of MC_Process with 1 call (%d) and %s of those with 2 calls (each call optionally "
                       "preceded by a rewrite of the file; %d executed) over %d entry points x %d file contents (images, region files, catalogue tables), plus %d "
                       "TLC -simulate walks of 6 calls; one real process per history; distinct = distinct histories"
                       % (len(h1), ("a seeded sample of the %d" % nall2) if quick else "all", len(h2), len(CALLS), len(CONTENTS), len(walks)))
    ctx.cov["exhaustive"] = not quick
    ctx.sample(byid["k2/0"])
    for rid, fails in rej.items():
        r = byid[rid]
        if r["kind"] == "fresh":
            ctx.violation("fresh processes disagree call=%s" % r["call"], {"record": r, "fails": fails})
            continue
        bad = [s for s in r["steps"] if s["op"] == "call" and not s["same"]] or [{}]
        calls = [s["call"] for s in r["steps"] if s["op"] == "call"]
        first_bad = next((i for i, s in enumerate([s for s in r["steps"] if s["op"] == "call"]) if not s["same"] or not s["intact"]), 0)
        before = sorted(set(calls[:first_bad]))
        ctx.violation("call=%s after=%s fails=%s" % (calls[first_bad] if calls else "?", "+".join(before)[:60], ",".join(fails)),
                      {"record": {"id": rid, "history": hist[rid]}, "steps": r["steps"], "fails": fails})


def selftest(ctx, recs):
    """binding demonstration: an accepted history is rejected when one observation is changed."""
    import copy
    good = next((r for r in recs if r["kind"] == "history" and not r["err"] and
                 all(s["op"] == "write" or (s["same"] and s["intact"]) for s in r["steps"]) and
                 sum(1 for s in r["steps"] if s["op"] == "call") == 2), None)
    if good is None:
        return
    g = dict(copy.deepcopy(good), id="st-good")
    b1 = copy.deepcopy(g)
    b1["id"] = "st-other-content"
    last = [s for s in b1["steps"] if s["op"] == "call"][-1]
    wr = [s for s in b1["steps"] if s["op"] == "write"][-1]["content"]
    last["same"] = [c for c in CONTENTS if c != wr][:1]
    b2 = copy.deepcopy(g)
    b2["id"] = "st-modified-input"
    [s for s in b2["steps"] if s["op"] == "call"][0]["intact"] = False
    b3 = {"id": "st-fresh", "kind": "fresh", "call": "bane", "content": "A", "ntok": 2}
    rej = validate(ctx, [g, b1, b2, b3], "selftest")
    if set(rej) != {"st-other-content", "st-modified-input", "st-fresh"}:
        raise common.MachineryError("Process_Trace self-test failed: %r" % rej)


def replay(ctx, rec):
    h = rec["detail"]["record"]["history"]
    prepare(ctx)
    fresh = {}
    singles = []
    for k in sorted({s["call"] for s in h if s["op"] == "call"}):
        for c in CONTENTS:
            if (k, c) not in ACCEPTS:
                continue
            singles.append([{"op": "write", "path": "P", "content": c}, {"op": "call", "call": k, "path": "P", "content": c}])
    r1 = execute(ctx, singles, "k1")
    first_tokens(r1, fresh)
    rr = execute(ctx, [h], "replay")
    recs = records(rr, fresh)
    for rid, fails in validate(ctx, recs, "replay").items():
        ctx.violation("replay fails=%s" % ",".join(fails), {"record": rec["detail"]["record"], "steps": recs[0]["steps"], "fails": fails})
    ctx.count(evaluations=len(h), nontrivial=len(h), traces=1)
