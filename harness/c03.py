"""
C03 - every output catalogue is internally consistent and reproducible.

model  : spec/Finder.tla (island / component numbering machine, blind and
         priorized with batches of B; TLC: Consistent(rows) for all island
         sequences, B = 2..3, up to 2B+1 groups; the originally coded
         istart = batch number gives a counterexample).
binding: real catalogues of seeded scenes (0 islands, sparse, blends, tiny
         islands, > 40 groups, edge sources, NaN regions, coincident summits)
         in the modes blind, blind + island rows, priorized stage 1-3 with
         regroup on/off, each repeated in the same process and in a fresh
         process, and written/read back with save_catalog, are projected to
         integers and validated by TLC (spec/Finder_Trace.tla, which uses
         Finder!Consistent for the numbering clauses).
"""
import json
import os
from concurrent.futures import ProcessPoolExecutor

import numpy as np

from harness import common, finder_lib as FL, synth

LEVEL = "model_checking"
KINDS = ["sparse", "blends", "tiny", "many", "edge", "nanregion", "coincident", "empty", "psfmap", "far", "mixedmaps"]


def observe(args):
    seed, kind, workdir, fresh = args
    common.quiet_logging()
    from AegeanTools.models import ComponentSource, IslandSource
    from AegeanTools.catalogs import save_catalog, load_table, table_to_source_list
    sc = FL.make_scene(seed, kind)
    base = os.path.join(workdir, "c03_%s_%d_%d" % (kind, seed, os.getpid()))
    path = base + ".fits"
    synth.write(path, sc["img"], sc["header"])
    kw = sc["kw"]
    raw = None
    if kind == "mixedmaps":
        synth.write(base + "_rms.fits", np.ones(sc["shape"]), sc["header"])
        kw["rmsin"] = base + "_rms.fits"
        raw = sc["img"]
    if "psfmap" in sc:
        from astropy.io import fits
        fits.PrimaryHDU(sc["psfmap"][0], header=sc["psfmap"][1]).writeto(base + "_psf.fits", overwrite=True)
        kw["imgpsf"] = base + "_psf.fits"
    recs = []

    def record(rid, mode, run, spec_child, blind, withislands):
        rec = {"id": rid, "mode": mode, "kind": kind, "seed": seed, "err": "", "comps": [], "islrows": [], "oracle": [],
               "blind": blind, "withislands": withislands, "rerun": [], "fresh": [], "saved": [], "attr": [], "attr2": [],
               "hasfresh": False}
        try:
            sf, rows = run()
            comps = [s for s in rows if isinstance(s, ComponentSource)]
            isl = [s for s in rows if isinstance(s, IslandSource)]
            rec["comps"] = [FL.proj_row(s) for s in comps]
            rec["attr"] = [synth.src_token(s) for s in sf.sources if isinstance(s, ComponentSource)]
            if blind:
                rec["oracle"] = FL.oracle_islands(sf, kw, raw)
                omap = {o["num"]: o for o in rec["oracle"]}
                from astropy.wcs import WCS
                w = WCS(sc["header"], naxis=2)
                for s, r in zip(comps, rec["comps"]):
                    o = omap.get(int(s.island))
                    if o is None or not np.isfinite(s.ra + s.dec):
                        r["inbox"] = False
                    else:
                        x, y = w.all_world2pix([[s.ra, s.dec]], 0)[0]
                        g = 1 + 0.5 * FL.BEAM_PX * 1.5
                        r0, r1, c0, c1 = o["extent"]
                        r["inbox"] = bool(r0 - g <= y <= r1 - 1 + g and c0 - g <= x <= c1 - 1 + g)
            else:
                for r in rec["comps"]:
                    r["inbox"] = True
            for s in isl:
                rec["islrows"].append({"island": int(s.island), "components": int(s.components), "pixels": int(s.pixels),
                                       "peaktok": common.hexf(s.peak_flux), "extent": [int(v) for v in s.extent]})
            # same process, fresh SourceFinder
            sf2, rows2 = run()
            rec["rerun"] = [synth.src_token(s) for s in rows2 if isinstance(s, ComponentSource)]
            rec["attr2"] = [synth.src_token(s) for s in sf2.sources if isinstance(s, ComponentSource)]
            # fresh process
            if fresh:
                ch = FL.child_tokens(spec_child)
                if ch.get("err"):
                    rec["err"] = "fresh process: " + ch["err"]
                rec["fresh"] = ch.get("toks", [])
                rec["hasfresh"] = True
            else:
                rec["fresh"] = [r["tok"] for r in rec["comps"]]
            # tables written by save_catalog
            if comps:
                out = base + "_%s.csv" % mode.replace("/", "_")
                save_catalog(out, rows)
                f = out.replace(".csv", "_comp.csv")
                back = table_to_source_list(load_table(f))
                rec["saved"] = [[int(s.island), int(s.source)] for s in back]
                for q in (f, out.replace(".csv", "_isle.csv")):
                    if os.path.exists(q):
                        os.remove(q)
            return rec, rows
        except Exception as e:
            rec["err"] = "%s: %s" % (type(e).__name__, e)
            return rec, []

    child = {"mode": "blind", "path": path, "kw": kw}
    r1, rows = record("%s/%d/blind" % (kind, seed), "blind", lambda: FL.run_blind(path, kw, False), child, True, False)
    recs.append(r1)
    r2, _ = record("%s/%d/blind+island" % (kind, seed), "blind+island", lambda: FL.run_blind(path, kw, True),
                   dict(child, island=True), True, True)
    recs.append(r2)
    # priorized on the blind catalogue (through a csv file so that a fresh process sees the same input)
    from AegeanTools.models import ComponentSource
    comps = [s for s in rows if isinstance(s, ComponentSource) and np.isfinite(s.ra + s.dec + s.a + s.b + s.pa + s.peak_flux)]
    if comps:
        if kind == "many" and len(comps) > 25:
            # every sixth catalogue entry lies off the image: in every block of 20 groups some groups yield no
            # component, the numbering of the later blocks must still not collide
            import copy
            comps = copy.deepcopy(comps)
            for j in range(2, len(comps), 6):
                comps[j].dec = max(-89.0, min(89.0, comps[j].dec + (3.0 if comps[j].dec < 0 else -3.0)))
        cat = base + "_in.csv"
        save_catalog(cat, comps)
        catf = cat.replace(".csv", "_comp.csv")
        stages = [(seed % 3 + 1, True), ((seed + 1) % 3 + 1, False)] if kind != "many" else [(1, True), (2, True), (3, True), (2, False)]
        for stage, regroup in stages:
            ch = {"mode": "prior", "path": path, "cat": catf, "kw": kw, "stage": stage, "regroup": regroup}
            r3, _ = record("%s/%d/prior-stage%d-%s" % (kind, seed, stage, "regroup" if regroup else "noregroup"),
                           "priorized", lambda st=stage, rg=regroup: FL.run_prior(path, catf, kw, st, rg), ch, False, False)
            r3["stage"] = stage
            r3["ngroups"] = len({c["island"] for c in r3["comps"]})
            recs.append(r3)
        os.remove(catf)
    os.remove(path)
    for suf in ("_psf.fits", "_rms.fits"):
        if os.path.exists(base + suf):
            os.remove(base + suf)
    return recs


KEEP_ROW = ("island", "source", "uuid", "a_mas", "b_mas", "pa_udeg", "ra_udeg", "dec_udeg", "flags", "fitok", "errk", "tok",
            "rah", "ram", "racs", "radev_ndeg", "ded", "dem", "decs", "dedev_ndeg", "lnr_unep", "inbox")


def validate(ctx, recs, name):
    tf = os.path.join(ctx.workdir, name + ".json")
    byid = {r["id"]: r for r in recs}
    slim = []
    for r in recs:
        q = {k: r[k] for k in ("id", "err", "islrows", "oracle", "blind", "withislands", "rerun", "fresh", "saved", "attr", "attr2")}
        q["comps"] = [{k: c[k] for k in KEEP_ROW} for c in r["comps"]]
        if not r["comps"]:
            q["saved"] = []
        slim.append(q)
    common.dump_json(tf, slim)
    res = ctx.tlc("Finder_Trace", common.cfg(spec="Spec", post="BatchDone", deadlock=False),
                  name=name, workers=1, env={"TRACE_FILE": tf})
    summary = [p for p in res.printed if isinstance(p, dict) and "accepted" in p]
    rej = [p for p in res.printed if isinstance(p, dict) and "fails" in p]
    if not summary or summary[0]["total"] != len(recs) or summary[0]["accepted"] + len(rej) != len(recs):
        raise common.MachineryError("trace batch %s not fully consumed" % name)
    return [(byid[p["id"]], p["fails"]) for p in rej]


def key_of(rec, fails):
    cl = [f for f in fails if not f.startswith("row ")]
    extra = ""
    if rec["mode"] == "priorized":
        extra = " groups>20=%s" % (rec.get("ngroups", 0) > 20)
    return "%s scene=%s%s fails=%s" % (rec["mode"], rec["kind"], extra, ",".join(cl))


def selftest(ctx, good):
    import copy
    bads = []
    b = copy.deepcopy(good); b["id"] = "st-dup"; b["comps"].append(dict(b["comps"][0], uuid="x")); b["rerun"].append(b["rerun"][0]); b["attr"].append(b["attr"][0]); b["attr2"].append(b["attr2"][0]); b["fresh"].append(b["fresh"][0]); b["saved"].append(b["saved"][0]); bads.append(b)
    b = copy.deepcopy(good); b["id"] = "st-pa"; b["comps"][0]["pa_udeg"] = -90000000; bads.append(b)
    b = copy.deepcopy(good); b["id"] = "st-err"; b["comps"][0]["errk"][2] = 2; b["comps"][0]["fitok"] = True; bads.append(b)
    b = copy.deepcopy(good); b["id"] = "st-str"; b["comps"][0]["racs"] = 6000; bads.append(b)
    b = copy.deepcopy(good); b["id"] = "st-repro"; b["fresh"] = list(b["fresh"]); b["fresh"][0] += "0"; bads.append(b)
    rej = {r["id"]: f for r, f in validate(ctx, [good] + bads, "selftest")}
    if "st-good" in rej or set(rej) != {"st-dup", "st-pa", "st-err", "st-str", "st-repro"}:
        raise common.MachineryError("Finder_Trace self-test failed: %r" % rej)


def run(ctx):
    quick = ctx.tier == "quick"
    for Bsz, mg in ((2, 5), (3, 7)):
        ctx.tlc("Finder", common.cfg(spec="Spec", constants={"B": Bsz, "MaxGroups": mg if not quick or Bsz == 2 else 6, "MaxComp": 2, "FixIstart": True},
                                     invariants=["NumberingOK"], deadlock=False), name="numbering_B%d" % Bsz, coverage=(Bsz == 2))
    r = ctx.tlc("Finder", common.cfg(spec="Spec", constants={"B": 2, "MaxGroups": 5, "MaxComp": 2, "FixIstart": False},
                                     invariants=["NumberingOK"], deadlock=False), name="switch_FixIstart_off", must_pass=False)
    if r.violated is None:
        raise common.MachineryError("Finder model insensitive to the istart design")
    jobs = []
    n = 1 if quick else 40
    for k, kind in enumerate(KINDS):
        for i in range(n if kind != "many" else max(1, n // 2)):
            jobs.append((ctx.seed * 1009 + k * 101 + i, kind, ctx.workdir, (i == 0)))
    with ProcessPoolExecutor(max_workers=16) as pool:
        out = list(pool.map(observe, jobs, chunksize=1))
    recs = [r for rs in out for r in rs]
    good = next((r for r in recs if not r["err"] and len(r["comps"]) >= 2 and r["mode"] == "blind"), None)
    rejected = validate(ctx, recs, "catalogues")
    if good is not None and good["id"] not in {r["id"] for r, _ in rejected}:
        g = dict(good, id="st-good")
        selftest(ctx, g)
    nrows = sum(len(r["comps"]) for r in recs)
    ctx.count(evaluations=len(recs), nontrivial=len({(r["kind"], r["mode"], r.get("stage"), r["seed"]) for r in recs}), traces=len(recs))
    ctx.cov["rule"] = ("one catalogue per (scene kind, seed, mode in {blind, blind+island, priorized stage x regroup}); each run twice in-process and "
                       "(first seed of each kind) once in a fresh process; distinct = distinct (kind, seed, mode, stage)")
    ctx.cov["rows_checked"] = nrows
    ctx.cov["priorized_catalogues_with_more_than_20_groups"] = sum(1 for r in recs if r["mode"] == "priorized" and r.get("ngroups", 0) > 20)
    for r in recs[:2]:
        ctx.sample({"id": r["id"], "n_rows": len(r["comps"]), "first_row": r["comps"][0] if r["comps"] else None,
                    "islrows": r["islrows"][:2], "oracle": r["oracle"][:2]})
    ctx.assumptions += ["valid image: finite beam in header, forced rms 1 and bkg 0, at least 64x64 pixels",
                        "'successfully fitted' = none of NOTFIT / FITERR / WCSERR set",
                        "island pixel oracle = find_islands on the same data (pinned by C02)"]
    for rec, fails in rejected:
        ctx.violation(key_of(rec, fails), {"record": {"id": rec["id"], "seed": rec["seed"], "kind": rec["kind"], "mode": rec["mode"], "err": rec["err"]},
                                           "fails": fails})


def replay(ctx, rec):
    r = rec["detail"]["record"]
    recs = [x for x in observe((r["seed"], r["kind"], ctx.workdir, True)) if x["id"] == r["id"]]
    for rr, fails in validate(ctx, recs, "replay"):
        ctx.violation(key_of(rr, fails), {"record": r, "fails": fails})
    ctx.count(evaluations=len(recs), nontrivial=2, traces=len(recs))
