"""
C16 - pixel <-> sky conversion of positions, vectors, ellipses: inverse and correct.

model  : spec/MC_WcsConfig.tla - TLC enumerates the configuration lattice
         (projection x reference declination class x RA class x pixel scale x
         ellipse size x axis ratio x PA class), checks that it lies in / spans the
         property's domain, checks the fixed-point lemmas of spec/Fixed.tla and the
         index identity of spec/WcsRel.tla, and emits every element.
binding: every emitted element is instantiated (seeded continuous parameters drawn
         from the intervals TLC emitted) as an astropy header; the real
         WCSHelper (from_header, BMAJ/BMIN/BPA present) is driven at seeded pixel
         positions; every observation is projected to fixed-point integers and
         validated by TLC against spec/Wcs_Trace.tla (clauses of spec/WcsRel.tla).
         Seeded configurations outside the lattice (continuous scales 1..60",
         non-square pixels, mirrored parity, CD-matrix headers, off-centre
         reference pixels, other image sizes) go through the same validation.
oracle : identity for the round trips; astropy.wcs all_pix2world(col, row, 1) for
         the standard mapping; astropy's angular_separation / position_angle of the
         *standard* sky positions for great-circle length and bearing; handedness
         facts are stated in the specification on raw coordinate differences.
"""
import math
import os
import random
import multiprocessing as mp

import numpy as np

from harness import common

LEVEL = "exploration"

# The property statement names positions, vectors and ellipses; which pixel of a
# psf *map* a lookup returns is not named.  The psf-map clause is therefore
# evaluated (by TLC) for information only: rejections become a warning in the
# evidence file unless this switch is turned on.
PSFMAP_IS_VERDICT = False

NAXIS1, NAXIS2 = 1000, 800          # lattice images: columns, rows
MAXDEC = 88.0                       # query points stay this far from the poles
CLAMP_TAN_PM = 5000


# ---------------------------------------------------------------------------
# geometry helpers (measurement only: astropy is the oracle)
# ---------------------------------------------------------------------------
def _sep(p, q):
    from astropy.coordinates import angular_separation
    return math.degrees(float(angular_separation(math.radians(p[0]), math.radians(p[1]),
                                                 math.radians(q[0]), math.radians(q[1]))))


def _bearing(p, q):
    from astropy.coordinates import position_angle
    v = position_angle(math.radians(p[0]), math.radians(p[1]),
                       math.radians(q[0]), math.radians(q[1]))
    return math.degrees(float(getattr(v, "rad", v)))


def wrap180(x):
    """representative of x mod 360 in (-180, 180]"""
    x = float(x)
    if not math.isfinite(x):
        raise ValueError("non-finite angle")
    y = math.fmod(x, 360.0)
    if y > 180.0:
        y -= 360.0
    elif y <= -180.0:
        y += 360.0
    return y


def fxi(x, scale):
    v = common.fx(x, scale)
    if not isinstance(v, int):
        raise ValueError("non-finite observable (%s)" % v)
    return v


def udeg(x):
    return fxi(wrap180(x), 1e6)


# ---------------------------------------------------------------------------
# configurations -> instances
# ---------------------------------------------------------------------------
def cfg_id(c):
    if c.get("extra"):
        return "extra-%d" % c["n"]
    return "%s/%s/%s/s%d/e%d/r%d/%s" % (c["proj"], c["dec"], c["ra"], c["scale"],
                                        c["size"], c["ratio"], c["pa"])


def instantiate(c, k, seed):
    """continuous parameters of configuration c, query number k (deterministic)."""
    rng = random.Random("c16/%d/%s/%d" % (seed, cfg_id(c), k))
    crng = random.Random("c16/%d/%s" % (seed, cfg_id(c)))     # per configuration
    inst = {"cfg": c, "k": k, "seed": seed}
    if c.get("extra"):
        inst["proj"] = crng.choice(["SIN", "TAN", "ZEA", "ARC", "STG"])
        inst["nx"], inst["ny"] = crng.randint(64, 1000), crng.randint(64, 1000)
        inst["dec0"] = crng.uniform(-85, 85)
        inst["ra0"] = crng.choice([crng.uniform(0, 360), crng.uniform(-0.2, 0.2) % 360])
        s1 = crng.uniform(1, 60)
        asp = crng.choice([1.0, 1.0, crng.uniform(0.6, 1.7)])
        s2 = min(60.0, max(1.0, s1 * asp))
        inst["s1"], inst["s2"] = s1, s2
        inst["parity"] = crng.choice([-1, -1, -1, 1])
        inst["hdr"] = crng.choice(["cdelt", "cd"])
        inst["crpix1"] = crng.uniform(1, inst["nx"])
        inst["crpix2"] = crng.uniform(1, inst["ny"])
        size = crng.uniform(1, 20)
        ratio = crng.choice([1.0, crng.uniform(0.1, 0.9), crng.uniform(0.1, 0.9)])
        inst["a"] = size * math.sqrt(s1 * s2) / 3600.0
        inst["b"] = inst["a"] * ratio
        inst["ratio_pm"] = int(round(ratio * 1000))
        inst["pa"] = -crng.uniform(-180, 180)                 # (-180, 180]
    else:
        inst["proj"] = c["proj"]
        inst["nx"], inst["ny"] = NAXIS1, NAXIS2
        inst["dec0"] = crng.uniform(c["dec_lo"], c["dec_hi"]) / 1e6
        inst["s1"] = inst["s2"] = float(c["scale"])
        if c["ra"] == "interior":
            inst["ra0"] = crng.uniform(c["ra_lo"], c["ra_hi"]) / 1e6
        else:
            halfw = (NAXIS1 / 2.0 * c["scale"] / 3600.0) / math.cos(math.radians(inst["dec0"]))
            inst["ra0"] = (crng.uniform(c["ra_lo"], c["ra_hi"]) / 1000.0 * halfw) % 360.0
        inst["parity"] = -1
        inst["hdr"] = "cdelt"
        inst["crpix1"] = NAXIS1 / 2.0 + 0.5 + crng.uniform(-50, 50)
        inst["crpix2"] = NAXIS2 / 2.0 + 0.5 + crng.uniform(-50, 50)
        inst["a"] = c["size"] * c["scale"] / 3600.0
        inst["b"] = inst["a"] * c["ratio"] / 1000.0
        inst["ratio_pm"] = c["ratio"]
        if c["pa"] == "cardinal":
            inst["pa"] = float(crng.choice([-90, 0, 90, 180]))
        else:
            inst["pa"] = crng.uniform(c["pa_lo"], c["pa_hi"]) / 1e6
    inst["scale_mas"] = int(round(min(inst["s1"], inst["s2"]) * 1000))
    # query pixel: inside the image, row/col distinguishable, away from the poles
    inst["_h"] = build_header(inst)
    std = inst["_std"] = std_wcs(inst["_h"])
    for _ in range(1000):
        row = rng.uniform(1, inst["ny"])
        col = rng.uniform(1, inst["nx"])
        if abs(row - col) < 2:
            continue
        sky = std.all_pix2world([[col, row]], 1)[0]
        if not (math.isfinite(sky[0]) and math.isfinite(sky[1])) or abs(sky[1]) > MAXDEC:
            continue
        inst["row"], inst["col"] = row, col
        return inst
    return None


def build_header(inst):
    from astropy.io import fits
    h = fits.Header()
    h["SIMPLE"] = True
    h["BITPIX"] = -32
    h["NAXIS"] = 2
    h["NAXIS1"] = inst["nx"]
    h["NAXIS2"] = inst["ny"]
    h["CTYPE1"] = "RA---" + inst["proj"]
    h["CTYPE2"] = "DEC--" + inst["proj"]
    h["CRVAL1"] = inst["ra0"]
    h["CRVAL2"] = inst["dec0"]
    h["CRPIX1"] = inst["crpix1"]
    h["CRPIX2"] = inst["crpix2"]
    d1 = inst["parity"] * inst["s1"] / 3600.0
    d2 = inst["s2"] / 3600.0
    if inst["hdr"] == "cdelt":
        h["CDELT1"], h["CDELT2"] = d1, d2
    else:
        h["CD1_1"], h["CD1_2"], h["CD2_1"], h["CD2_2"] = d1, 0.0, 0.0, d2
    h["CUNIT1"] = "deg"
    h["CUNIT2"] = "deg"
    h["EQUINOX"] = 2000.0
    h["BMAJ"] = inst["a"]
    h["BMIN"] = inst["b"]
    h["BPA"] = inst["pa"]
    return h


def std_wcs(header):
    """the FITS standard, as implemented by astropy.wcs (the oracle)."""
    from astropy.wcs import WCS
    return WCS(header, naxis=2)


def std_sky(std, row, col):
    """standard world coordinate of Aegean pixel (row, col): 1-based (x = col, y = row)."""
    s = std.all_pix2world([[col, row]], 1)[0]
    return (float(s[0]), float(s[1]))


# ---------------------------------------------------------------------------
# observations of the real code
# ---------------------------------------------------------------------------
def _common_fields(inst, kind, extra=""):
    c = inst["cfg"]
    rid = "%s|%s|k%d%s" % (kind, cfg_id(c), inst["k"], extra)
    return {"id": rid, "kind": kind, "err": "", "scale_mas": inst["scale_mas"],
            "proj": inst["proj"], "ratio_pm": inst["ratio_pm"],
            "row_mpx": common.fx(inst["row"], 1000), "col_mpx": common.fx(inst["col"], 1000)}


def unit_en(s1, s2):
    de = wrap180(s2[0] - s1[0]) * math.cos(math.radians(s1[1]))
    dn = s2[1] - s1[1]
    n = math.hypot(de, dn)
    if n == 0:
        raise ValueError("degenerate pixel vector")
    return de, dn, n


def observe_conv(inst):
    from AegeanTools.wcs_helpers import WCSHelper
    rec = _common_fields(inst, "conv")
    try:
        h, std = inst["_h"], inst["_std"]
        w = WCSHelper.from_header(h)
        row, col = inst["row"], inst["col"]
        # positions
        sky = w.pix2sky((row, col))
        back = w.sky2pix(sky)
        rec["rt_drow_e8"] = fxi(back[0] - row, 1e8)
        rec["rt_dcol_e8"] = fxi(back[1] - col, 1e8)
        # a catalogue position that many images (configurations) have in common
        cat = (float(round(h["CRVAL1"])) % 360.0, float(round(h["CRVAL2"])))
        rec["skyrt_pdeg"] = fxi(_sep(w.pix2sky(w.sky2pix(cat)), cat), 1e12)
        ref = std_sky(std, row, col)
        swapped = std.all_pix2world([[row, col]], 1)[0]
        zero = std.all_pix2world([[col, row]], 0)[0]
        rec["std_pdeg"] = fxi(_sep(sky, ref), 1e12)
        rec["alt_swap_pdeg"] = fxi(_sep(swapped, ref), 1e12)
        rec["alt_zero_pdeg"] = fxi(_sep(zero, ref), 1e12)
        pos = ref
        a, b, pa = inst["a"], inst["b"], inst["pa"]
        # vector: sky -> pixel -> sky
        x, y, rp, th = w.sky2pix_vec(pos, a, pa)
        _, _, r_out, pa_out = w.pix2sky_vec((x, y), rp, th)
        s1 = std_sky(std, x, y)
        s2 = std_sky(std, x + rp * math.cos(math.radians(th)), y + rp * math.sin(math.radians(th)))
        rec["v_r_in"] = fxi(a, 1e9)
        rec["v_pa_in"] = udeg(pa)
        rec["v_r_out"] = fxi(r_out, 1e9)
        rec["v_pa_out"] = udeg(pa_out)
        rec["v_rpix_upx"] = fxi(rp, 1e6)
        rec["v_sep"] = fxi(_sep(s1, s2), 1e9)
        rec["v_bear"] = udeg(_bearing(s1, s2))
        rec["v_fsep"] = fxi(_sep(pos, s2), 1e9)
        rec["v_fbear"] = udeg(_bearing(pos, s2))
        de, dn, n = unit_en(s1, s2)
        rec["v_ue"] = fxi(de / n, 1e4)
        rec["v_un"] = fxi(dn / n, 1e4)
        rec["v_spa"] = fxi(math.sin(math.radians(float(pa_out))), 1e4)
        rec["v_cpa"] = fxi(math.cos(math.radians(float(pa_out))), 1e4)
        rec["v_curv_ppm"] = fxi(math.radians(a) * math.tan(math.radians(abs(pos[1]))), 1e6)
        # the same vector from a tail given with INTEGER type (python ints / numpy integers, alternately)
        xi, yi = int(round(x)), int(round(y))
        tail = (xi, yi) if (xi + yi) % 2 else (np.int64(xi), np.int64(yi))
        _, _, ir_out, ipa_out = w.pix2sky_vec(tail, rp, th)
        t1 = std_sky(std, xi, yi)
        t2 = std_sky(std, xi + rp * math.cos(math.radians(th)), yi + rp * math.sin(math.radians(th)))
        rec["iv_r_out"] = fxi(ir_out, 1e9)
        rec["iv_pa_out"] = udeg(ipa_out)
        rec["iv_sep"] = fxi(_sep(t1, t2), 1e9)
        rec["iv_bear"] = udeg(_bearing(t1, t2))
        # ellipse: sky -> pixel -> sky
        x, y, sx, sy, th = w.sky2pix_ellipse(pos, a, b, pa)
        _, _, ia_out, _, _ = w.pix2sky_ellipse(np.array([xi, yi]), sx, sy, th)
        u2 = std_sky(std, xi + sx * math.cos(math.radians(th)), yi + sx * math.sin(math.radians(th)))
        rec["ie_a_out"] = fxi(ia_out, 1e9)
        rec["ie_sep"] = fxi(_sep(t1, u2), 1e9)
        _, _, a_out, b_out, epa_out = w.pix2sky_ellipse((x, y), sx, sy, th)
        e1 = std_sky(std, x, y)
        e2 = std_sky(std, x + sx * math.cos(math.radians(th)), y + sx * math.sin(math.radians(th)))
        rec["e_a_in"] = fxi(a, 1e9)
        rec["e_b_in"] = fxi(b, 1e9)
        rec["e_pa_in"] = udeg(pa)
        rec["e_a_out"] = fxi(a_out, 1e9)
        rec["e_b_out"] = fxi(b_out, 1e9)
        rec["e_pa_out"] = udeg(epa_out)
        rec["e_sx_upx"] = fxi(sx, 1e6)
        rec["e_sy_upx"] = fxi(sy, 1e6)
        rec["e_sep"] = fxi(_sep(e1, e2), 1e9)
        rec["e_bear"] = udeg(_bearing(e1, e2))
        rec["e_fsep"] = fxi(_sep(pos, e2), 1e9)
        rec["e_fbear"] = udeg(_bearing(pos, e2))
        # the same helper, asked about a position one and a half pixels away, against a fresh helper
        scale_deg = inst["s1"] / 3600.0 if "s1" in inst else abs(h.get("CDELT2", 1e-3))
        pos2 = (pos[0] + 1.5 * scale_deg / max(math.cos(math.radians(pos[1])), 0.05), pos[1] + 1.1 * scale_deg)
        used = list(w.sky2pix_vec(pos2, a, pa)) + list(w.sky2pix_ellipse(pos2, a, b, pa))
        w2 = WCSHelper.from_header(h)
        fresh = list(w2.sky2pix_vec(pos2, a, pa)) + list(w2.sky2pix_ellipse(pos2, a, b, pa))
        rec["nb_diff"] = int(min(2 ** 30, round(1e6 * max(abs(float(u) - float(f)) for u, f in zip(used, fresh)))))
        rho = _sep(pos, (inst["ra0"], inst["dec0"]))
        t = math.tan(math.radians(rho)) if rho < 89 else 1e9
        rec["tanrho_pm"] = min(CLAMP_TAN_PM, int(math.ceil(t * 1000)))
    except Exception as e:
        rec["err"] = "%s: %s" % (type(e).__name__, e)
    return rec


def observe_hand(inst, direction):
    from AegeanTools.wcs_helpers import WCSHelper
    rec = _common_fields(inst, "hand", "|" + direction)
    rec["dir"] = direction
    try:
        h, std = inst["_h"], inst["_std"]
        w = WCSHelper.from_header(h)
        row, col = inst["row"], inst["col"]
        ra, dec = std_sky(std, row, col)
        d = 0.5 * min(inst["s1"], inst["s2"]) / 3600.0
        cd = math.cos(math.radians(dec))
        target = {"N": (ra, dec + d), "S": (ra, dec - d),
                  "E": (ra + d / cd, dec), "W": (ra - d / cd, dec)}[direction]
        tc, tr = std.all_world2pix([list(target)], 1)[0]
        theta = math.degrees(math.atan2(tc - col, tr - row))   # Aegean: x = row, y = col
        _, _, r_out, pa_out = w.pix2sky_vec((row, col), 1.0, theta)
        s1 = (ra, dec)
        s2 = std_sky(std, row + math.cos(math.radians(theta)), col + math.sin(math.radians(theta)))
        de, dn, n = unit_en(s1, s2)
        rec["h_de"] = fxi(de, 1e9)
        rec["h_dn"] = fxi(dn, 1e9)
        rec["h_pa"] = udeg(pa_out)
        rec["h_theta"] = udeg(theta)
    except Exception as e:
        rec["err"] = "%s: %s" % (type(e).__name__, e)
    return rec


def observe_psf(inst):
    from AegeanTools.wcs_helpers import WCSHelper
    rec = _common_fields(inst, "psf")
    try:
        h, std = inst["_h"], inst["_std"]
        w = WCSHelper.from_header(h)
        ref = (inst["ra0"], inst["dec0"])
        a, b, pa = w.get_psf_sky2sky(ref[0], ref[1])
        rec["bmaj"] = fxi(h["BMAJ"], 1e9)
        rec["bmin"] = fxi(h["BMIN"], 1e9)
        rec["bpa"] = udeg(h["BPA"])
        rec["p_a"] = fxi(a, 1e9)
        rec["p_b"] = fxi(b, 1e9)
        rec["p_pa"] = udeg(pa)
        q = w.sky2pix_ellipse(ref, h["BMAJ"], h["BMIN"], h["BPA"])[2:]
        ra, dec = std_sky(std, inst["row"], inst["col"])
        s2p = w.get_psf_sky2pix(ra, dec)
        p2p = w.get_psf_pix2pix(inst["row"], inst["col"])
        for name, v in (("ref", q), ("s2p", s2p), ("p2p", p2p)):
            rec["q_a_" + name] = fxi(v[0], 1e6)
            rec["q_b_" + name] = fxi(v[1], 1e6)
            rec["q_th_" + name] = udeg(v[2])
    except Exception as e:
        rec["err"] = "%s: %s" % (type(e).__name__, e)
    return rec


def observe_psfmap(workdir, seed, nmaps, nqueries):
    """get_psf_sky2sky with a psf map (needs a file): the three planes of the map
    hold the 1-based row, the 1-based column and 0 of each map pixel."""
    import numpy as np
    from astropy.io import fits
    from astropy.wcs import WCS
    from AegeanTools.wcs_helpers import WCSHelper
    recs = []
    for m in range(nmaps):
        rng = random.Random("c16/psfmap/%d/%d" % (seed, m))
        inst = {"proj": rng.choice(["SIN", "ZEA", "TAN"]), "nx": 400, "ny": 300,
                "ra0": rng.uniform(20, 340), "dec0": rng.uniform(-60, 60), "crpix1": 200.5,
                "crpix2": 150.5, "s1": 30.0, "s2": 30.0, "parity": -1, "hdr": "cdelt",
                "a": 0.03, "b": 0.02, "pa": 20.0}
        h = build_header(inst)
        nr, nc = rng.randint(6, 12), rng.randint(6, 12)
        ph = fits.Header()
        ph["CTYPE1"], ph["CTYPE2"] = h["CTYPE1"], h["CTYPE2"]
        ph["CRVAL1"], ph["CRVAL2"] = h["CRVAL1"], h["CRVAL2"]
        ph["CRPIX1"], ph["CRPIX2"] = nc / 2.0 + 0.5, nr / 2.0 + 0.5
        ph["CDELT1"], ph["CDELT2"] = -0.3, 0.3
        cube = np.zeros((3, nr, nc), dtype=np.float32)
        rr, cc = np.mgrid[0:nr, 0:nc]
        cube[0], cube[1] = rr + 1, cc + 1
        path = os.path.join(workdir, "psfmap_%d.fits" % m)
        fits.PrimaryHDU(cube, header=ph).writeto(path, overwrite=True)
        pw = WCS(fits.getheader(path), naxis=2)
        for q in range(nqueries):
            row, col = rng.randint(1, nr), rng.randint(1, nc)
            dr, dc = rng.uniform(-0.3, 0.3), rng.uniform(-0.3, 0.3)
            rec = {"id": "psfmap|m%d|q%d" % (m, q), "kind": "psfmap", "err": "",
                   "want_row": row, "want_col": col, "off_row_mpx": int(dr * 1000),
                   "off_col_mpx": int(dc * 1000), "job": ["psfmap", m, q, seed]}
            try:
                ra, dec = pw.all_pix2world([[col + dc, row + dr]], 1)[0]
                w = WCSHelper.from_header(h, psf_file=path)
                v = w.get_psf_sky2sky(float(ra), float(dec))
                rec["got_row"], rec["got_col"] = int(round(float(v[0]))), int(round(float(v[1])))
            except Exception as e:
                rec["err"] = "%s: %s" % (type(e).__name__, e)
            recs.append(rec)
        os.remove(path)
    return recs


def observe(job):
    """job = (configuration, k, seed, [(kind, arg), ...]) -> list of records"""
    c, k, seed, kinds = job
    inst = instantiate(c, k, seed)
    if inst is None:
        return None
    out = []
    for kind, arg in kinds:
        if kind == "conv":
            rec = observe_conv(inst)
        elif kind == "hand":
            rec = observe_hand(inst, arg)
        else:
            rec = observe_psf(inst)
        rec["job"] = [c, k, seed, [[kind, arg]]]
        out.append(rec)
    return out


def _init():
    common.quiet_logging()


# ---------------------------------------------------------------------------
# TLC validation
# ---------------------------------------------------------------------------
def validate(ctx, recs, name, strict=False):
    tf = os.path.join(ctx.workdir, name + ".json")
    byid = {r["id"]: r for r in recs}
    if len(byid) != len(recs):
        raise common.MachineryError("duplicate record ids in batch " + name)
    common.dump_json(tf, [{k: v for k, v in r.items() if k != "job"} for r in recs])
    res = ctx.tlc("Wcs_Trace", common.cfg(spec="Spec", post="BatchDone", deadlock=False,
                                          constants={"Strict": bool(strict)}),
                  name=name, workers=1, env={"TRACE_FILE": tf})
    summary = [p for p in res.printed if isinstance(p, dict) and "accepted" in p]
    rej = [p for p in res.printed if isinstance(p, dict) and "fails" in p]
    if not summary or summary[0]["total"] != len(recs) or \
            summary[0]["accepted"] + len(rej) != len(recs):
        raise common.MachineryError("trace batch %s not fully consumed" % name)
    os.remove(tf)
    return [(byid[p["id"]], p["fails"]) for p in rej]


def key_of(rec, fails):
    c = rec["job"][0]
    if c.get("extra"):
        where = "extra proj=%s" % rec["proj"]
    else:
        where = "proj=%s dec=%s scale=%d size=%d" % (c["proj"], c["dec"], c["scale"], c["size"])
    return "%s fails=%s %s" % (rec["kind"], ",".join(fails), where)


MACHINERY_CLAUSES = {"query_discriminates_index_conventions", "hand_premise",
                     "unknown_record_kind"}


def report(ctx, rejected):
    for rec, fails in rejected:
        bad = [f for f in fails if f in MACHINERY_CLAUSES]
        if bad and len(bad) == len(fails):
            raise common.MachineryError("generated query is not discriminating: %s %r" % (rec["id"], fails))
        ctx.violation(key_of(rec, fails), {"job": rec["job"], "fails": fails, "record":
                                           {k: v for k, v in rec.items() if k != "job"}})


# records accepted by the specification (logged from a run on the reference
# configuration SIN/mid_south/interior/10"/5 px/0.6/Q1); constants so that the
# self-test of the specification binding does not depend on the code under test
CANNED = [
    {"alt_swap_pdeg": 2147483647, "alt_zero_pdeg": 2147483647, "e_a_in": 13888889,
     "e_a_out": 13888889, "e_b_in": 8333333, "e_b_out": 8333308, "e_bear": 78372733,
     "e_fbear": 78372733, "e_fsep": 13888889, "e_pa_in": 78372733, "e_pa_out": 78372733,
     "e_sep": 13888889, "err": "", "id": "canned-conv", "kind": "conv", "ratio_pm": 600,
     "rt_dcol_e8": 0, "rt_drow_e8": 0, "skyrt_pdeg": 0, "scale_mas": 10000, "std_pdeg": 0, "tanrho_pm": 26,
     "v_bear": 78372733, "v_cpa": 2015, "v_curv_ppm": 348, "v_fbear": 78372733,
     "v_fsep": 13888889, "v_pa_in": 78372733, "v_pa_out": 78372733, "v_r_in": 13888889,
     "v_r_out": 13888889, "v_sep": 13888889, "v_spa": 9795, "v_ue": 9794, "v_un": 2017,
     "iv_r_out": 13888889, "iv_sep": 13888889, "iv_pa_out": 78372733, "iv_bear": 78372733,
     "ie_a_out": 13888889, "ie_sep": 13888889, "nb_diff": 0},
    {"dir": "E", "err": "", "h_de": 2778254, "h_dn": 49, "h_pa": 90000983,
     "id": "canned-hand", "kind": "hand", "ratio_pm": 600, "scale_mas": 10000},
    {"bmaj": 13888889, "bmin": 8333333, "bpa": 78372733, "err": "", "id": "canned-psf",
     "kind": "psf", "p_a": 13888889, "p_b": 8333333, "p_pa": 78372733, "q_a_p2p": 5000000,
     "q_a_ref": 5000000, "q_a_s2p": 5000000, "q_b_p2p": 3000000, "q_b_ref": 3000000,
     "q_b_s2p": 3000000, "q_th_p2p": -78372733, "q_th_ref": -78372733,
     "q_th_s2p": -78372733, "ratio_pm": 600, "scale_mas": 10000},
]


def selftest(ctx):
    """binding: corrupt one field of accepted records, TLC must name the clause."""
    good = [dict(r) for r in CANNED]
    conv, hand, psf = good
    muts = []

    def mut(base, tag, clause, **kw):
        r = dict(base, id="st-" + tag)
        for k, v in kw.items():
            r[k] = v(base[k]) if callable(v) else v
        muts.append((r, clause))
    mut(conv, "rt", "round_trip_pixel", rt_dcol_e8=lambda v: v + 150)
    mut(conv, "std", "standard_mapping_row_col_1based", std_pdeg=conv["alt_zero_pdeg"])
    mut(conv, "vlen", "vec_length_round_trip", v_r_out=lambda v: v + v // 500)
    mut(conv, "vpa", "vec_pa_round_trip", v_pa_out=lambda v: v + 20000)
    mut(conv, "vgc", "vec_length_is_great_circle", v_sep=lambda v: v - v // 400)
    mut(conv, "vbear", "vec_pa_is_bearing", v_bear=lambda v: -v)
    mut(conv, "ivgc", "vec_from_integer_pixel_is_great_circle", iv_r_out=lambda v: v - v // 300)
    mut(conv, "ivb", "vec_from_integer_pixel_is_bearing", iv_pa_out=lambda v: v + 30000)
    mut(conv, "iegc", "ell_from_integer_pixel_is_great_circle", ie_a_out=lambda v: v - v // 300)
    mut(conv, "mem", "used_helper_answers_like_a_fresh_helper", nb_diff=7)
    mut(conv, "vfwd", "vec_sky2pix_great_circle_east_of_north", v_fbear=lambda v: v + 15000)
    mut(conv, "ven", "vec_east_of_north", v_ue=lambda v: -v)
    mut(conv, "ea", "ell_major_round_trip", e_a_out=lambda v: v - v // 500)
    mut(conv, "eb", "ell_minor_round_trip", e_b_out=lambda v: v + v // 500)
    mut(conv, "epa", "ell_pa_round_trip", e_pa_out=lambda v: v + 90000000 if v < 0 else v - 90000000)
    mut(conv, "egc", "ell_major_is_great_circle", e_sep=lambda v: v + v // 300)
    mut(conv, "ebear", "ell_pa_is_bearing", e_bear=lambda v: v + 12000)
    mut(conv, "efwd", "ell_sky2pix_great_circle_east_of_north", e_fsep=lambda v: v + v // 300)
    mut(conv, "err", "completed", err="ValueError: injected")
    mut(hand, "east", "east_is_pa_plus_90", h_pa=lambda v: -v)
    mut(hand, "prem", "hand_premise", dir="N")
    mut(psf, "psfsky", "psf_sky_at_reference_is_header_beam", p_b=lambda v: v + v // 400)
    mut(psf, "psfpix", "psf_pixel_lookups_are_pixel_beam", q_a_p2p=lambda v: v - v // 400)
    # pa equal modulo 180 / 360 must be accepted
    ok1 = dict(conv, id="st-ok-axis", e_pa_out=conv["e_pa_out"] + (180000000 if conv["e_pa_out"] <= 0 else -180000000),
               e_bear=conv["e_bear"] + (180000000 if conv["e_bear"] <= 0 else -180000000))
    ok2 = dict(conv, id="st-ok-turn", v_bear=conv["v_bear"] + (360000000 if conv["v_bear"] <= 0 else -360000000))
    batch = [dict(g, id="st-good-%d" % i) for i, g in enumerate(good)] + [ok1, ok2] + [m for m, _ in muts]
    rej = {r["id"]: f for r, f in validate(ctx, batch, "selftest")}
    want = {m["id"]: cl for m, cl in muts}
    if set(rej) != set(want) or any(want[i] not in rej[i] for i in want):
        raise common.MachineryError("Wcs_Trace self-test failed: got %r want %r" % (rej, want))
    # the strict pass differs from the normal one only by the regime premise
    far = dict(conv, id="st-far", tanrho_pm=4000, e_a_in=333333000, e_a_out=333333000, e_sep=333333000,
               e_fsep=333333000, e_b_in=200000000, e_b_out=200500000)
    r1 = validate(ctx, [far], "selftest_regime")
    r2 = validate(ctx, [far], "selftest_strict", strict=True)
    if r1 or [f for _, f in r2] != [["ell_minor_round_trip"]]:
        raise common.MachineryError("regime self-test failed: %r / %r" % (r1, r2))


# ---------------------------------------------------------------------------
def run(ctx):
    quick = ctx.tier == "quick"
    res = ctx.tlc("MC_WcsConfig", common.cfg(
        spec="Spec", invariants=["InDomain", "FitsFormat", "PaObservable", "RegimeNonVacuous"],
        deadlock=False), coverage=True)
    ctx.require_actions(res, ["Emit"], "MC_WcsConfig")
    lattice = [p for p in res.printed if isinstance(p, dict) and "proj" in p]
    ids = {cfg_id(c) for c in lattice}
    if len(lattice) != 6750 or len(ids) != 6750:
        raise common.MachineryError("lattice not fully emitted: %d" % len(lattice))
    lattice.sort(key=cfg_id)
    selftest(ctx)

    nq = 1 if quick else 12            # query pixels per lattice element
    nextra = 3000 if quick else 40000
    jobs = []
    for i, c in enumerate(lattice):
        for k in range(nq):
            kinds = [("conv", None), ("hand", "NESW"[(i + k) % 4])]
            if k == 0:
                kinds.append(("psf", None))
            jobs.append((c, k, ctx.seed, kinds))
    for n in range(nextra):
        kinds = [("conv", None), ("hand", "NESW"[n % 4])]
        if n % 3 == 0:
            kinds.append(("psf", None))
        jobs.append(({"extra": True, "n": n}, 0, ctx.seed, kinds))
    with mp.Pool(16, initializer=_init) as pool:
        out = pool.map(observe, jobs, chunksize=32)
    skipped = sum(1 for r in out if r is None)
    recs = [r for rs in out if rs is not None for r in rs]
    if skipped > len(jobs) // 100:
        raise common.MachineryError("too many configurations without an admissible query point: %d" % skipped)

    rejected = []
    for i, part in enumerate(common.chunks(recs, 10000)):
        rejected += validate(ctx, part, "wcs_trace_%d" % i)
    report(ctx, rejected)

    # informational: psf-map pixel lookup
    _init()
    pm = observe_psfmap(ctx.workdir, ctx.seed, 3 if quick else 12, 24)
    pm_rej = validate(ctx, pm, "wcs_psfmap")
    ctx.notes["psf_map_lookup_rejections"] = "%d of %d" % (len(pm_rej), len(pm))
    if pm_rej:
        r0, f0 = pm_rej[0]
        if PSFMAP_IS_VERDICT:
            for r, f in pm_rej:
                ctx.violation("psfmap fails=%s" % ",".join(f), {"job": r["job"], "fails": f, "record": r})
        else:
            ctx.warnings.append(
                "psf map lookup (outside the property statement, not a verdict): %d of %d queries "
                "returned the psf of a different map pixel than the one containing the position, "
                "e.g. %s: position in 1-based map pixel (row %s, col %s) offset (%d, %d) mpx -> %s" % (
                    len(pm_rej), len(pm), r0["id"], r0["want_row"], r0["want_col"], r0["off_row_mpx"],
                    r0["off_col_mpx"], r0["err"] or "pixel (row %s, col %s)" % (r0.get("got_row"), r0.get("got_col"))))

    # informational: the minor-axis clause without its linear-regime premise
    big = [r for r in recs if r["kind"] == "conv" and not r["err"] and
           r["e_a_in"] // 1000 * r["tanrho_pm"] > 5000000]
    strict_rej = []
    for i, part in enumerate(common.chunks(big, 10000)):
        strict_rej += validate(ctx, part, "wcs_strict_%d" % i, strict=True)
    normal = {r["id"] for r, _ in rejected}
    only = [(r, f) for r, f in strict_rej if r["id"] not in normal]
    if only:
        worst = max(only, key=lambda rf: abs(rf[0]["e_b_out"] - rf[0]["e_b_in"]) / rf[0]["e_b_in"])[0]
        ctx.warnings.append(
            "minor-axis round trip exceeds 1e-3 outside the linear regime in %d of %d records "
            "evaluated without the premise (all: clause ell_minor_round_trip only = %s); worst "
            "%s: b_in=%d ndeg b_out=%d ndeg tan(rho)=%d permille" % (
                len(only), len(big), all(f == ["ell_minor_round_trip"] for _, f in only),
                worst["id"], worst["e_b_in"], worst["e_b_out"], worst["tanrho_pm"]))
        # by the letter of the property (sizes up to 20 px, scales up to 60", any position inside the
        # image) this is a violation; it is a limitation of the defect-correction algorithm with no
        # minimal repair, recorded in known_findings.json and keyed on exactly this input class
        for r, f in only:
            if f == ["ell_minor_round_trip"]:
                ctx.violation("conv fails=ell_minor_round_trip outside-linear-regime (semi-major[rad]*tan(rho) > 3e-4)",
                              {"job": r["job"], "fails": f, "record": r})
            else:
                ctx.violation("conv strict fails=%s" % ",".join(f), {"job": r["job"], "fails": f, "record": r})
    ctx.notes["strict_minor_axis_rejections"] = len(only)
    ctx.notes["skipped_configurations"] = skipped

    nconv = sum(1 for r in recs if r["kind"] == "conv")
    ctx.count(evaluations=len(recs),
              nontrivial=len({(r["kind"], cfg_id(r["job"][0]), r["job"][3][0][1]) for r in recs}),
              traces=len(recs))
    ctx.cov["rule"] = ("one record per evaluation of the real WCSHelper on one instantiated "
                       "configuration; distinct = distinct (record kind, configuration, direction); "
                       "%d lattice elements x %d query pixels + %d seeded configurations outside "
                       "the lattice; %d conversion records" % (len(lattice), nq, nextra, nconv))
    ctx.cov["domain"] = {"lattice": "5 projections x 5 dec classes x 2 RA classes x {1,10,60}\" x "
                                    "{1,5,20} px x ratio {1,0.6,0.2} x 5 PA classes = 6750",
                         "image": "%dx%d, reference pixel within 50 px of the centre" % (NAXIS1, NAXIS2),
                         "extra": "scale 1..60\" continuous, pixel aspect 0.6..1.7, mirrored parity, "
                                  "CD header, image 64..1000, reference pixel anywhere inside"}
    for kind in ("conv", "hand", "psf"):
        s = next((r for r in recs if r["kind"] == kind and not r["err"]), None)
        if s:
            ctx.sample({k: v for k, v in s.items() if k != "job"})
    ctx.assumptions += [
        "query pixels and vector/ellipse end points stay at |dec| <= %.0f deg (pole singularity of "
        "RA / position angle); reference points |dec| <= 85" % MAXDEC,
        "query pixels have |row - col| >= 2 so that an x/y swap is observable",
        "zenithal projections SIN, TAN, ZEA, ARC, STG without rotation, distortion (SIP) or PV terms; "
        "CUNIT deg; images <= 1000 px per axis",
        "minor-axis round trip is claimed in the linear regime (semi-major axis [rad] * tan(distance "
        "to reference point) <= 3e-4), see WcsRel!LinearRegime; outside it the deviation is reported "
        "as a warning only",
        "position angle of ellipses with axis ratio > 0.95 is not compared",
        "astropy.wcs (wcslib) and astropy.coordinates angular_separation / position_angle are trusted "
        "as the FITS standard and as great-circle distance / bearing",
        "psf lookups are checked without a psf map (header beam only)",
    ]


def replay(ctx, rec):
    _init()
    if rec["detail"]["job"][0] == "psfmap":
        _, m, q, seed = rec["detail"]["job"]
        rs = [r for r in observe_psfmap(ctx.workdir, seed, m + 1, 24) if r["id"] == "psfmap|m%d|q%d" % (m, q)]
        for r, f in validate(ctx, rs, "replay"):
            ctx.violation("psfmap fails=%s" % ",".join(f), {"job": r["job"], "fails": f, "record": r})
        ctx.count(evaluations=1, nontrivial=1, traces=1)
        return
    c, k, seed, kinds = rec["detail"]["job"]
    rs = observe((c, k, seed, [tuple(x) for x in kinds]))
    if rs is None:
        raise common.MachineryError("replay: configuration has no admissible query point")
    r = rs[0]
    report(ctx, validate(ctx, rs, "replay"))
    ctx.count(evaluations=1, nontrivial=1, traces=1)
    ctx.sample({k: v for k, v in r.items() if k != "job"})
