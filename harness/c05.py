"""
C05 - priorized fitting measures the catalogued sources where and as catalogued.

model  : spec/Priorized.tla (Refit over catalogues with ok / off-image / blank
         rows, stage -> frozen sets; integer cut-out registration model: TLC
         proves DataOrigin = ParamOrigin for all x, w and exhibits the
         half-pixel misregistration of the original float arithmetic).
binding: for the lattice stage x regroup x ratio x psf columns x catalogue shape
         (1..60 sources, odd and even cut-out widths, blends, off-image and
         blank-pixel sources, shuffled rows, > 20 groups) the image is the exact
         noise-free model of the catalogue, rendered independently of AegeanTools
         (harness/synth.py); the real priorized_fit_islands is run with the full
         catalogue and with the rejected rows removed, and TLC validates the
         records (spec/Priorized_Trace.tla).
"""
import contextlib
import io
import math
import os
import random
from concurrent.futures import ProcessPoolExecutor

import numpy as np

from harness import common, synth

LEVEL = "model_checking"
PRIORIZED = 64
NOTFIT, FITERR, WCSERR = 16, 2, 32
CD = 12.0


def make_case(seed):
    rng = random.Random(seed)
    shape = (rng.choice([96, 128]), rng.choice([96, 120]))
    H, W = shape
    proj = rng.choice(["SIN", "TAN", "ZEA", "ARC"])
    crval = (rng.choice([15.0, 359.95, 200.0]), rng.choice([-60.0, -10.0, 35.0, 75.0]))
    beam_px = rng.uniform(3.0, 4.0)
    beam = beam_px * CD
    stage = rng.choice([1, 2, 3])
    conf = {"stage": stage, "regroup": rng.random() < 0.5, "ratio": rng.choice([None, 1.0]),
            "psfcols": rng.random() < 0.6, "shape": shape, "proj": proj, "crval": crval, "beam": beam,
            "many": rng.random() < 0.25, "docov": rng.random() < 0.5, "fromfile": rng.random() < 0.4}
    srcs = []      # (kind, xpix, ypix, a_arcsec, b_arcsec, pa, amp)
    if conf["many"]:
        n = 0
        for gy in range(int(H // 16)):
            for gx in range(int(W // 16)):
                if n >= 60:
                    break
                srcs.append(["ok", 8 + gx * 16 + rng.uniform(-2, 2), 8 + gy * 16 + rng.uniform(-2, 2), beam, beam, 0.0,
                             rng.uniform(5, 40) * rng.choice([1, 1, -1])])
                n += 1
    else:
        for _ in range(rng.randint(1, 7)):
            # sizes chosen so that int(round(4*sx))+1 is odd for some and even for others
            fa = rng.choice([1.0, 1.15, 1.3, 1.5, 1.8, 2.2, 0.97])
            a = beam * fa
            # "every source size": also catalogue rows a few per cent narrower than the psf in one or both axes
            b = beam * (rng.choice([1.0, min(fa, 1.2), 0.93]) if fa >= 1.0 else rng.choice([fa, 0.93]))
            # different islands must not overlap: >= 3.5 FWHM (of each) between their sources
            for _try in range(200):
                x, y = rng.uniform(14, W - 14), rng.uniform(14, H - 14)
                if all(math.hypot(x - q[1], y - q[2]) >= 3.5 * (a + q[3]) / CD + 2 for q in srcs):
                    break
            else:
                continue
            gid = len(srcs) + 1
            srcs.append(["ok", x, y, a, b, rng.uniform(-89, 90), rng.uniform(5, 60) * rng.choice([1, 1, -1]), gid])
            if rng.random() < 0.35:       # a blend partner >= 1 FWHM away, catalogued in the same island
                d = rng.uniform(1.05, 1.6) * a / CD
                t = rng.uniform(0, 2 * math.pi)
                srcs.append(["ok", x + d * math.cos(t), y + d * math.sin(t), beam, beam, 0.0, rng.uniform(5, 40), gid])
    if not conf["many"]:
        # sources close to an image edge (partly outside the image)
        for _ in range(rng.choice([0, 0, 1, 2])):
            for _try in range(100):
                e = rng.uniform(1.2, 8.0)
                ea = beam * rng.choice([1.0, 1.5, 2.2])
                side = rng.choice("LBRT")
                x = e if side == "L" else (W - 1 - e if side == "R" else rng.uniform(14, W - 14))
                y = e if side == "B" else (H - 1 - e if side == "T" else rng.uniform(14, H - 14))
                if all(math.hypot(x - q[1], y - q[2]) >= 3.5 * (beam + q[3]) / CD + 2 for q in srcs):
                    srcs.append(["ok", x, y, ea, beam, rng.uniform(-89, 90), rng.uniform(8, 50), len(srcs) + 1])
                    break
        # a blend whose FIRST catalogued member cannot be fitted (off the image or on a blank pixel);
        # that member is not rendered, so the image is still the exact model of the accepted sources
        if rng.random() < 0.4:
            gid = len(srcs) + 1
            if rng.random() < 0.5:
                for _try in range(100):
                    y = rng.uniform(16, H - 16)
                    if all(math.hypot(5.0 - q[1], y - q[2]) >= 3.5 * (beam + q[3]) / CD + 4 for q in srcs):
                        srcs.append(["off-quiet", -4.0, y + 0.3, beam, beam, 0.0, 10.0, gid])
                        srcs.append(["ok", 5.0 + rng.uniform(0, 2), y, beam, beam, 0.0, rng.uniform(10, 40), gid])
                        break
            else:
                for _try in range(100):
                    x, y = rng.uniform(20, W - 20), rng.uniform(20, H - 20)
                    if all(math.hypot(x - q[1], y - q[2]) >= 3.5 * (beam + q[3]) / CD + 8 for q in srcs):
                        d = 1.5 * beam / CD
                        srcs.append(["blank-quiet", x + d, y + 0.2, beam, beam, 0.0, 10.0, gid])
                        srcs.append(["ok", x, y, beam, beam, 0.0, rng.uniform(10, 40), gid])
                        break
    # rejected rows
    for _ in range(rng.choice([0, 1, 2])):
        srcs.append(["off", rng.choice([-15.0, W + 12.0]), rng.uniform(10, H - 10), beam, beam, 0.0, 10.0])
    nblank = rng.choice([0, 0, 1])
    for _ in range(nblank):
        for _try in range(200):
            x, y = rng.uniform(20, W - 20), rng.uniform(20, H - 20)
            if all(math.hypot(x - q[1], y - q[2]) >= 3.5 * (beam + q[3]) / CD + 4 for q in srcs):
                srcs.append(["blank", x, y, beam, beam, 0.0, 12.0])
                break
    # keep sources >= 1.5 FWHM from edges (recovery clause) and away from pixel-rounding ties
    out = []
    for n, s in enumerate(srcs):
        if len(s) == 7:
            s.append(1000 + n)          # its own island
        for k in (1, 2):
            f = s[k] - math.floor(s[k])
            if abs(f - 0.5) < 0.02:
                s[k] += 0.05
        out.append(s)
    # keep the creation order inside a group (source numbers), shuffle the groups' rows afterwards
    order = {}
    for s in out:
        s.append(order.get(s[7], 0))
        order[s[7]] = order.get(s[7], 0) + 1
    rng.shuffle(out)
    return conf, out


def build(seed, workdir):
    from astropy.wcs import WCS
    from AegeanTools.models import ComponentSource
    conf, srcs = make_case(seed)
    shape = conf["shape"]
    h = synth.make_header(shape, proj=conf["proj"], crval=conf["crval"], cdelt_arcsec=CD, beam_arcsec=(conf["beam"], conf["beam"], 0.0))
    w = WCS(h, naxis=2)
    comps, cat, meta = [], [], []
    # blank block for 'blank' sources
    blanks = []
    nin = {}
    for k, (kind, x, y, a, b, pa, amp, gid, snum) in enumerate(srcs):
        ra, dec = [float(v) for v in w.all_pix2world([[x, y]], 0)[0]]
        px = synth.sky_ellipse_to_pix(w, ra, dec, a / 3600.0, b / 3600.0, pa)
        if kind in ("ok", "blank"):
            comps.append((amp, px[0], px[1], px[2], px[3], px[4]))
        if kind in ("blank", "blank-quiet"):
            blanks.append((int(round(y)), int(round(x))))
        s = ComponentSource()
        s.island, s.source = gid, snum
        s.ra, s.dec, s.a, s.b, s.pa, s.peak_flux = ra, dec, a, b, pa, amp
        s.int_flux = amp * a * b / conf["beam"] ** 2
        s.err_ra, s.err_dec = 1e-5 * (k + 1), 2e-5 * (k + 1)
        s.err_a, s.err_b, s.err_pa = 0.01 * (k + 1), 0.02 * (k + 1), 0.1 * (k + 1)
        s.err_peak_flux, s.err_int_flux = 0.1, 0.2
        s.local_rms, s.background, s.flags = 1.0, 0.0, 0
        s.ra_str, s.dec_str = "00:00:00.00", "+00:00:00.00"
        if conf["psfcols"]:
            # with ratio = 1 ("the image psf is the catalogue psf: keep the catalogued shapes") the psf columns of the
            # catalogue play no role, whatever they hold - e.g. those of the image the catalogue was made from
            f = 1.3 if (conf["ratio"] == 1.0 and seed % 2) else 1.0
            s.psf_a, s.psf_b, s.psf_pa = f * conf["beam"], f * conf["beam"], 0.0
        cat.append(s)
        meta.append({"uuid": s.uuid, "status": kind.split("-")[0], "x": px[0], "y": px[1], "amp": amp, "a": a, "b": b, "pa": pa})
    img = synth.render(shape, comps) if comps else np.zeros(shape)
    for (r, c) in blanks:
        img[max(0, r - 1):r + 2, max(0, c - 1):c + 2] = np.nan
    path = os.path.join(workdir, "c05_%d_%d.fits" % (seed, os.getpid()))
    synth.write(path, img, h)
    return conf, cat, meta, path, w


def run_prior(path, cat, conf, workdir, tag):
    import copy
    from AegeanTools.source_finder import SourceFinder
    cat = copy.deepcopy(cat)      # resize() rescales the catalogue objects in place
    catalogue = cat
    tmp = None
    if conf["fromfile"]:
        from astropy.table import Table
        cols = ["island", "source", "ra", "dec", "peak_flux", "a", "b", "pa", "err_ra", "err_dec", "err_a", "err_b", "err_pa",
                "err_peak_flux", "int_flux", "err_int_flux", "local_rms", "background", "flags", "uuid", "ra_str", "dec_str"]
        if conf["psfcols"]:
            cols += ["psf_a", "psf_b", "psf_pa"]
        t = Table(rows=[[getattr(s, c) for c in cols] for s in cat], names=cols) if cat else None
        tmp = os.path.join(workdir, "c05_cat_%s_%d.csv" % (tag, os.getpid()))
        if t is None:
            return []
        t.write(tmp, format="ascii.csv", overwrite=True)
        catalogue = tmp
    with contextlib.redirect_stderr(io.StringIO()), contextlib.redirect_stdout(io.StringIO()):
        out = SourceFinder().priorized_fit_islands(path, catalogue=catalogue, rms=1.0, bkg=0.0, cores=1,
                                                   stage=conf["stage"], ratio=conf["ratio"], doregroup=conf["regroup"],
                                                   docov=conf["docov"])
    if tmp and os.path.exists(tmp):
        os.remove(tmp)
    return out


def observe(args):
    seed, workdir = args
    common.quiet_logging()
    rec = {"id": "case/%d" % seed, "seed": seed, "err": "", "stage": 0, "exact": True, "inputs": [], "outputs": [],
           "alone": [], "toks": [], "hasalone": False}
    path = None
    try:
        conf, cat, meta, path, w = build(seed, workdir)
        rec["stage"] = conf["stage"]
        rec["conf"] = {k: (list(v) if isinstance(v, tuple) else v) for k, v in conf.items()}
        # the oracle decides acceptance: rounded pixel on the image and finite
        from astropy.io import fits
        img = fits.getdata(path)
        for m, s in zip(meta, cat):
            xr, yr = int(round(m["x"])), int(round(m["y"]))
            on = 0 <= yr < img.shape[0] and 0 <= xr < img.shape[1]
            status = "off" if not on else ("blank" if not np.isfinite(img[yr, xr]) else "ok")
            rec["inputs"].append({"uuid": s.uuid, "status": status,
                                  "errpos": common.hexf(s.err_ra) + common.hexf(s.err_dec),
                                  "errshape": common.hexf(s.err_a) + common.hexf(s.err_b) + common.hexf(s.err_pa)})
        out = run_prior(path, cat, conf, workdir, "full")
        bymeta = {m["uuid"]: m for m in meta}
        for s in out:
            m = bymeta.get(str(s.uuid))
            o = {"uuid": str(s.uuid), "priorized": bool(int(s.flags) & PRIORIZED),
                 "errpos": common.hexf(s.err_ra) + common.hexf(s.err_dec),
                 "errshape": common.hexf(s.err_a) + common.hexf(s.err_b) + common.hexf(s.err_pa),
                 "fitok": not bool(int(s.flags) & (NOTFIT | FITERR | WCSERR)),
                 "dpos_in_1e6px": 2 ** 30, "a_in_ppm": 2 ** 30, "b_in_ppm": 2 ** 30, "dpa_in_udeg": 2 ** 30,
                 "flux_ppm": 2 ** 30, "pa_defined": False}
            if m is not None and np.isfinite(s.ra + s.dec):
                x, y = w.all_world2pix([[s.ra, s.dec]], 0)[0]
                o["dpos_in_1e6px"] = common.fx(math.hypot(x - m["x"], y - m["y"]), 1e6)
                o["a_in_ppm"] = common.ppm(s.a, m["a"])
                o["b_in_ppm"] = common.ppm(s.b, m["b"])
                o["pa_defined"] = bool(m["a"] / m["b"] >= 1.02)
                o["dpa_in_udeg"] = common.fx((s.pa - m["pa"] + 90.0) % 180.0 - 90.0, 1e6)
                o["flux_ppm"] = common.ppm(s.peak_flux, m["amp"])
                for k in ("dpos_in_1e6px", "a_in_ppm", "b_in_ppm", "dpa_in_udeg", "flux_ppm"):
                    if not isinstance(o[k], int):
                        o[k] = 2 ** 30
            rec["outputs"].append(o)
        rec["toks"] = [str(s.uuid) + ":" + synth.src_token(s, fields=("ra", "dec", "peak_flux", "a", "b", "pa", "err_ra", "err_a"))
                       for s in sorted(out, key=lambda q: str(q.uuid))]
        # non-interference: same run without the rejected rows
        rejected = {i["uuid"] for i in rec["inputs"] if i["status"] != "ok"}
        if rejected and not conf["regroup"]:
            cat2 = [s for s in cat if s.uuid not in rejected]
            out2 = run_prior(path, cat2, conf, workdir, "alone") if cat2 else []
            rec["alone"] = [str(s.uuid) + ":" + synth.src_token(s, fields=("ra", "dec", "peak_flux", "a", "b", "pa", "err_ra", "err_a"))
                            for s in sorted(out2, key=lambda q: str(q.uuid))]
            rec["hasalone"] = True
        rec["n_in"] = len(cat)
    except Exception as e:
        import traceback
        rec["err"] = "%s: %s | %s" % (type(e).__name__, e, traceback.format_exc()[-300:])
    if path and os.path.exists(path):
        os.remove(path)
    return rec


KEEP = ("id", "err", "stage", "exact", "inputs", "outputs", "alone", "toks", "hasalone")


def validate(ctx, recs, name):
    tf = os.path.join(ctx.workdir, name + ".json")
    byid = {r["id"]: r for r in recs}
    common.dump_json(tf, [{k: r[k] for k in KEEP} for r in recs])
    res = ctx.tlc("Priorized_Trace", common.cfg(spec="Spec", post="BatchDone", deadlock=False),
                  name=name, workers=1, env={"TRACE_FILE": tf})
    summary = [p for p in res.printed if isinstance(p, dict) and "accepted" in p]
    rej = [p for p in res.printed if isinstance(p, dict) and "fails" in p]
    if not summary or summary[0]["total"] != len(recs) or summary[0]["accepted"] + len(rej) != len(recs):
        raise common.MachineryError("trace batch %s not fully consumed" % name)
    return [(byid[p["id"]], p["fails"]) for p in rej]


def key_of(rec, fails):
    c = rec.get("conf", {})
    return "stage=%s psfcols=%s fails=%s" % (rec["stage"], c.get("psfcols"), ",".join(fails))


def selftest(ctx, good):
    import copy
    bads = []
    b = copy.deepcopy(good); b["id"] = "st-flag"; b["outputs"][0]["priorized"] = False; bads.append(b)
    b = copy.deepcopy(good); b["id"] = "st-flux"; b["outputs"][0]["flux_ppm"] = 1500; bads.append(b)
    b = copy.deepcopy(good); b["id"] = "st-dup"; b["outputs"].append(dict(b["outputs"][0])); bads.append(b)
    b = copy.deepcopy(good); b["id"] = "st-rej"; b["inputs"][0]["status"] = "off"; bads.append(b)
    rej = {r["id"]: f for r, f in validate(ctx, [dict(good, id="st-good")] + bads, "selftest")}
    need = {"st-flag", "st-flux", "st-dup"}
    if any(o["uuid"] == good["inputs"][0]["uuid"] for o in good["outputs"]):
        need.add("st-rej")
    if "st-good" in rej or not need <= set(rej):
        raise common.MachineryError("Priorized_Trace self-test failed: %r" % rej)


def run(ctx):
    quick = ctx.tier == "quick"
    base = dict(spec="Spec", invariants=["OutOK", "CutoutOK", "ContainsSource"], deadlock=False)
    ctx.tlc("Priorized", common.cfg(constants={"MaxRows": 3 if quick else 4, "Uuids": {"u1", "u2", "u3", "u4"} if not quick else {"u1", "u2", "u3"},
                                               "FixCutout": True, "ImgSize": 12, "MaxWidth": 9}, **base), name="priorized_model", coverage=True)
    r = ctx.tlc("Priorized", common.cfg(constants={"MaxRows": 1, "Uuids": {"u1"}, "FixCutout": False, "ImgSize": 12, "MaxWidth": 9}, **base),
                name="switch_FixCutout_off", must_pass=False)
    if r.violated is None:
        raise common.MachineryError("cut-out model insensitive to float arithmetic")
    n = 48 if quick else 4000
    with ProcessPoolExecutor(max_workers=16) as pool:
        recs = list(pool.map(observe, [(ctx.seed * 7001 + i, ctx.workdir) for i in range(n)], chunksize=1))
    rejected = validate(ctx, recs, "priorized")
    bad = {r["id"] for r, _ in rejected}
    good = next((r for r in recs if r["id"] not in bad and not r["err"] and r["outputs"]), None)
    if good is not None:
        selftest(ctx, good)
    ctx.count(evaluations=len(recs), nontrivial=len({common.json.dumps(r.get("conf", {}), sort_keys=True, default=str) for r in recs}),
              traces=len(recs))
    ctx.cov["rule"] = ("one priorized run per seeded case (stage x regroup x ratio x psf columns x file/in-memory catalogue x catalogue shape); "
                       "distinct = distinct configuration")
    ctx.cov["stages"] = {s: sum(1 for r in recs if r["stage"] == s) for s in (1, 2, 3)}
    ctx.cov["cases_with_rejected_rows"] = sum(1 for r in recs if any(i["status"] != "ok" for i in r["inputs"]))
    ctx.cov["cases_with_more_than_20_groups"] = sum(1 for r in recs if r.get("n_in", 0) > 20)
    ctx.cov["non_interference_pairs"] = sum(1 for r in recs if r["hasalone"])
    ctx.sample({k: v for k, v in recs[0].items() if k in ("id", "stage", "conf", "inputs", "outputs")})
    ctx.assumptions += ["sources >= 14 px from the image edge and >= 1.05 FWHM apart in blends (recovery clause)",
                        "source pixel coordinates >= 0.02 px from rounding ties", "noise-free exact model images (recovery with noise is not claimed)",
                        "non-interference pairs only with regroup off (regrouping depends on the mean source size of the catalogue)"]
    for rec, fails in rejected:
        ctx.violation(key_of(rec, fails), {"record": {"id": rec["id"], "seed": rec["seed"], "err": rec["err"], "conf": rec.get("conf")},
                                           "fails": fails, "outputs": rec["outputs"][:5]})


def replay(ctx, rec):
    r = rec["detail"]["record"]
    out = observe((r["seed"], ctx.workdir))
    for rr, fails in validate(ctx, [out], "replay"):
        ctx.violation(key_of(rr, fails), {"record": r, "fails": fails})
    ctx.count(evaluations=1, nontrivial=2, traces=1)
