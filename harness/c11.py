"""
C11 - region-restricted finding = unrestricted finding filtered by island membership.

model  : spec/Islands.tla  Keep(C, In) / Restricted(g, k, In); spec/MC_Islands.tla
         FilterThm (islands wholly inside kept, wholly outside dropped, whole-image
         region changes nothing) checked by TLC on every grid x membership pattern.
binding: (a) every grid of the bounded domain x membership pattern is realised on
         the real code: a WCS with 1.5 deg pixels and a real Region(maxdepth=10)
         made of the HEALPix pixels that contain the CENTRES of the chosen image
         pixels (astropy, origin-0 array index == FITS 1-based pixel); the real
         find_islands(region=, wcs=) result is validated by TLC (Islands_Trace,
         kind "region").
         (b) end-to-end: find_sources_in_image with and without mask= on synthetic
         multi-island images; TLC (FinderRegion_Trace) checks that the restricted
         catalogue is exactly the rows (identical float tokens) of the islands
         with at least one pixel centre inside.
"""
import multiprocessing as mp
import os
import random

import numpy as np

from harness import common, islands_lib as L

LEVEL = "model_checking"
_WCS = {}


def _init():
    common.quiet_logging()


def wcs_for(H, W):
    """WCSHelper with huge pixels + per-cell HEALPix pixel (depth 10) of the cell centre."""
    key = (H, W)
    if key in _WCS:
        return _WCS[key]
    import healpy as hp
    from astropy.io import fits
    from astropy.wcs import WCS
    from AegeanTools.wcs_helpers import WCSHelper
    h = fits.Header()
    h['NAXIS'] = 2
    h['NAXIS1'] = W
    h['NAXIS2'] = H
    h['CTYPE1'] = 'RA---SIN'
    h['CTYPE2'] = 'DEC--SIN'
    h['CRVAL1'] = 30.0
    h['CRVAL2'] = -20.0
    h['CRPIX1'] = (W + 1) / 2.0 + 0.3
    h['CRPIX2'] = (H + 1) / 2.0 - 0.2
    h['CDELT1'] = -1.5
    h['CDELT2'] = 1.5
    h['BMAJ'] = 3.0
    h['BMIN'] = 3.0
    h['BPA'] = 0.0
    helper = WCSHelper.from_header(h)
    w = WCS(h, naxis=2)
    cellpix = {}
    for r in range(H):
        for c in range(W):
            ra, dec = w.all_pix2world([[c, r]], 0)[0]
            cellpix[(r, c)] = int(hp.ang2pix(2 ** 10, np.radians(90 - dec), np.radians(ra), nest=True))
    if len(set(cellpix.values())) != H * W:
        raise common.MachineryError("cells do not map to distinct HEALPix pixels")
    _WCS[key] = (helper, cellpix)
    return _WCS[key]


def patterns(H, W):
    cells = [(r, c) for r in range(H) for c in range(W)]
    P = [("all", cells), ("none", []), ("single00", [(0, 0)]), ("notsingle00", [x for x in cells if x != (0, 0)]),
         ("checker", [x for x in cells if (x[0] + x[1]) % 2 == 0]),
         ("lastcell", [(H - 1, W - 1)])]
    for k in range(1, H):
        P.append(("row>=%d" % k, [x for x in cells if x[0] >= k]))
    for k in range(1, W):
        P.append(("col>=%d" % k, [x for x in cells if x[1] >= k]))
    return P


def _exh(args):
    rid, codes, variant, pat = args
    from AegeanTools.regions import Region
    H, W = len(codes), len(codes[0])
    helper, cellpix = wcs_for(H, W)
    name, cells = patterns(H, W)[pat % len(patterns(H, W))]
    reg = Region(maxdepth=10)
    if cells:
        reg.add_pixels([cellpix[x] for x in cells], 10)
    im, bkg, rms = L.realise(codes, variant)
    o = L.observe(im, bkg, rms, L.SEED, L.FLOOD, region=reg, wcs=helper)
    return {"id": rid, "kind": "region", "H": H, "W": W, "grid": codes, "k": 5, "variant": variant,
            "pattern": name, "pat": pat, "inside": [[r + 1, c + 1] for (r, c) in cells],
            "err": o["err"], "islands": o["islands"]}


def key_of(rec, fails):
    return "find_islands(region) grid %dx%d pattern=%s fails=%s" % (rec["H"], rec["W"], rec["pattern"].split(">=")[0], ",".join(fails))


def selftest(ctx):
    good = _exh(("st-good", [[5, 1, 5], [1, 1, 1], [3, 1, 5]], 0, 1))     # region "none" -> no islands
    good2 = _exh(("st-good2", [[5, 1, 5], [1, 1, 1], [3, 1, 5]], 0, 0))   # region "all"
    if good["err"] or good2["err"]:
        return
    import copy
    b = copy.deepcopy(good2)
    b["id"] = "st-leak"
    b["inside"] = [[1, 1]]
    rej = {r["id"]: f for r, f in L.validate(ctx, [good, good2, b], "selftest")}
    if "st-good" in rej or "st-good2" in rej:
        return
    if set(rej) != {"st-leak"}:
        raise common.MachineryError("Islands_Trace(region) self-test failed: %r" % rej)


def run(ctx):
    quick = ctx.tier == "quick"
    inv = ["FilterThm", "DisjointThm"]
    domains = [(3, 3, {1, 3, 5}), (2, 4, {1, 3, 5})] if quick else [(3, 3, {1, 3, 5}), (3, 4, {1, 3, 5}), (2, 4, {1, 3, 4, 5})]
    for (H, W, cl) in domains:
        ctx.tlc("MC_Islands", common.cfg(spec="Spec", constants={"H": H, "W": W, "Classes": cl},
                                         invariants=inv, deadlock=False), name="model_%dx%d" % (H, W))
    selftest(ctx)
    jobs = []
    for (H, W, cl) in domains:
        npat = len(patterns(H, W))
        for i, codes in enumerate(L.all_grids(H, W, sorted(cl))):
            if not any(5 in row for row in codes):
                continue                      # no seeded pixel: nothing to filter
            reps = range(npat) if (not quick and H * W <= 9) else sorted({i % npat, (i * 5 + 3) % npat})
            for p in reps:
                jobs.append(("g%dx%d/%d/p%d" % (H, W, i, p), codes, (i + p) % 4, p))
    # elongated / L-shaped / straddling islands on an asymmetric grid
    special = [
        [[5, 3, 3, 3, 3, 3]], [[5], [3], [3], [3]],
        [[5, 3, 3, 3], [1, 1, 1, 3], [1, 1, 1, 3]],
        [[3, 1, 1, 5], [3, 1, 1, 1], [3, 3, 5, 1]],
        [[5, 1, 1, 1, 5], [1, 1, 1, 1, 1], [5, 1, 1, 1, 5]],
    ]
    for i, codes in enumerate(special):
        for p in range(len(patterns(len(codes), len(codes[0])))):
            jobs.append(("special/%d/p%d" % (i, p), codes, p % 4, p))
    with mp.Pool(16, initializer=_init) as pool:
        recs = pool.map(_exh, jobs, chunksize=128)
    rejected = L.validate_parallel(ctx, recs, "region")
    # (b) end to end
    from harness import finder_region
    erecs, erej = finder_region.run(ctx, 12 if quick else 60)
    ctx.count(evaluations=len(recs) + len(erecs), nontrivial=len(recs) + len(erecs), traces=len(recs) + len(erecs))
    ctx.cov["rule"] = ("every class grid (with a seeded pixel) of the domains %s x membership patterns (all, none, single, complement, "
                       "checkerboard, row>=k, col>=k), special elongated/L-shaped/straddling islands x all patterns; end-to-end run pairs; "
                       "distinct = distinct (grid, pattern)" % [(d[0], d[1], sorted(d[2])) for d in domains])
    ctx.cov["exhaustive"] = True
    ctx.cov["end_to_end_pairs"] = len(erecs)
    ctx.sample(recs[777 % len(recs)])
    if erecs:
        ctx.sample({k: v for k, v in erecs[0].items() if k not in ("islands",)})
    ctx.assumptions += ["pixel centres are far (>= 20 HEALPix pixels) from region pixel edges by construction",
                        "membership semantics of the Region are pinned by C08/C09"]
    for rec, fails in rejected:
        ctx.violation(key_of(rec, fails), {"record": {k: v for k, v in rec.items() if k != "islands"},
                                           "observed": rec["islands"][:6], "fails": fails})
    for rec, fails in erej:
        ctx.violation("end-to-end %s fails=%s" % (rec.get("cls", ""), ",".join(fails)),
                      {"record": {"id": rec["id"], "seed": rec["seed"], "kind": "pair"}, "fails": fails})


def replay(ctx, rec):
    r = rec["detail"]["record"]
    _init()
    if r.get("kind") == "pair":
        from harness import finder_region
        erecs, erej = finder_region.run(ctx, 1, seeds=[r["seed"]])
        for rr, fails in erej:
            ctx.violation("end-to-end fails=%s" % ",".join(fails), {"record": r, "fails": fails})
    else:
        out = _exh((r["id"], r["grid"], r["variant"], r["pat"]))
        for rr, fails in L.validate(ctx, [out], "replay"):
            ctx.violation(key_of(rr, fails), {"record": r, "fails": fails})
    ctx.count(evaluations=1, nontrivial=2, traces=1)
