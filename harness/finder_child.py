"""Fresh-process rerun of one finder call (C03 reproducibility)."""
import json
import sys


def main():
    spec = json.loads(sys.argv[1])
    import logging
    logging.disable(logging.CRITICAL)
    from harness import finder_lib as FL, synth
    out = {"err": "", "toks": []}
    try:
        if spec["mode"] == "blind":
            sf, rows = FL.run_blind(spec["path"], spec["kw"], spec.get("island", False))
        else:
            sf, rows = FL.run_prior(spec["path"], spec["cat"], spec["kw"], spec["stage"], spec["regroup"])
        from AegeanTools.models import ComponentSource
        out["toks"] = [synth.src_token(s) for s in rows if isinstance(s, ComponentSource)]
    except Exception as e:
        out["err"] = "%s: %s" % (type(e).__name__, e)
    print("FINDER_CHILD " + json.dumps(out))


if __name__ == "__main__":
    main()
