"""
Execution + observation of Region histories on the real
AegeanTools.regions.Region class (shared by C08 and C12).

A history is a list of call records (TLC-generated or driver-generated):
  {"op": "add_pixels"|"add_shape", "level": d, "pix": [..]}
  {"op": "union"|"union_norenorm"|"without"|"intersect"|"symmetric_difference",
   "other": {"depth": Do, "rep": [[..level 1..], [..level 2..], ...]}}
  {"op": "get_demoted"|"get_area"|"save_load"|"export_moc"|"export_reg"}
  {"op": "sky_within", "pix": q}          (q = deepest-level pixel; its centre is queried)
After every call the object is observed through a deep copy so that observing
never perturbs the object under test.
"""
import copy
import math
import os
import re

import numpy as np


def _hp():
    import healpy as hp
    return hp


def centre(D, q):
    hp = _hp()
    theta, phi = hp.pix2ang(2 ** D, int(q), nest=True)
    return float(phi), float(math.pi / 2 - theta)       # ra, dec in radians


def build_operand(other):
    from AegeanTools.regions import Region
    r = Region(maxdepth=other["depth"])
    for lvl, pix in enumerate(other["rep"], start=1):
        if pix:
            r.add_pixels([int(p) for p in pix], lvl)
    return r


def _intlist(xs):
    """sorted list of ints; identifiers that are not integer valued become -1."""
    out = []
    integral = True
    for x in xs:
        try:
            if float(x) != int(x):
                integral = False
                out.append(-1)
            else:
                out.append(int(x))
        except Exception:
            integral = False
            out.append(-1)
    return sorted(out), integral


def observe(region, D, probes):
    hp = _hp()
    obs = {"error": "", "dem": [], "pd": [], "integral": True, "area_milli": -1, "within": []}
    try:
        integral = True
        for d in range(1, D + 1):
            lst, ok = _intlist(region.pixeldict.get(d, set()))
            integral = integral and ok
            obs["pd"].append(lst)
        extra = [k for k in region.pixeldict if not (1 <= k <= D)]
        if any(len(region.pixeldict[k]) for k in extra):
            integral = False
        c = copy.deepcopy(region)
        dem, ok = _intlist(c.get_demoted())
        obs["dem"] = dem
        obs["integral"] = bool(integral and ok)
        c = copy.deepcopy(region)
        a = c.get_area(degrees=False) / hp.nside2pixarea(2 ** D)
        obs["area_milli"] = int(round(a * 1000))
        if probes:
            c = copy.deepcopy(region)
            pos = [centre(D, q) for q in probes]
            res = c.sky_within([p[0] for p in pos], [p[1] for p in pos])
            obs["within"] = [[int(q), bool(r)] for q, r in zip(probes, res)]
    except Exception as e:
        obs["error"] = "%s: %s" % (type(e).__name__, e)
    return obs


_SEX = re.compile(r"(-?)(\d+):(\d+):([\d.]+)")


def _sex(s):
    m = _SEX.match(s.strip())
    sign = -1 if m.group(1) == '-' else 1
    return sign * (int(m.group(2)) + int(m.group(3)) / 60.0 + float(m.group(4)) / 3600.0)


def parse_reg(path, D):
    """match every polygon of a DS9 file to a (level, pixel) by its corners."""
    hp = _hp()
    polys, unmatched, n = [], 0, 0
    for line in open(path):
        line = line.strip()
        if not line:
            continue
        n += 1
        m = re.match(r"fk5; polygon\((.*)\)$", line)
        if not m:
            unmatched += 1
            continue
        f = m.group(1).split(',')
        if len(f) != 8:
            unmatched += 1
            continue
        ras = [_sex(x) * 15.0 for x in f[0::2]]
        decs = [_sex(x) for x in f[1::2]]
        vec = hp.ang2vec(np.radians(90.0 - np.array(decs)), np.radians(ras))
        cen = vec.mean(axis=0)
        found = None
        for d in range(1, D + 1):
            p = int(hp.vec2pix(2 ** d, cen[0], cen[1], cen[2], nest=True))
            b = hp.boundaries(2 ** d, p, step=1, nest=True).T     # 4 x 3
            # same vertex order as written; tolerance 0.2 arcsec
            ang = np.degrees(np.arccos(np.clip(np.sum(b * vec, axis=1), -1, 1))) * 3600
            if np.all(ang < 0.2):
                found = [d, p]
                break
        if found is None:
            unmatched += 1
        else:
            polys.append(found)
    return polys, unmatched, n


def read_moc(path):
    from astropy.io import fits
    with fits.open(path) as h:
        hdr = h[1].header
        order = int(hdr['MOCORDER'])
        uniq = [int(x) for x in h[1].data['NPIX']] if h[1].data is not None and len(h[1].data) else []
        ordering = str(hdr.get('ORDERING', '')).strip()
    return order, uniq, ordering


def execute(history, D, workdir, probes, tag="h"):
    """run a history on a fresh Region(maxdepth=D); returns the steps with obs."""
    from AegeanTools.regions import Region
    region = Region(maxdepth=D)
    live = None               # a second region that stays alive during the history
    diskfile = os.path.join(workdir, "%s_disk.mim" % tag)
    steps = []
    for k, call in enumerate(history):
        st = {k2: v for k2, v in call.items() if k2 != "ans"}
        op = call["op"]
        ret = {"kind": "none"}
        try:
            if op == "add_pixels":
                region.add_pixels([int(p) for p in call["pix"]], call["level"])
            elif op == "add_shape":
                # what add_circles/add_poly do with the pixels a shape query returned
                region.add_pixels(np.array([int(p) for p in call["pix"]], dtype=np.int64), call["level"])
                region._renorm()
            elif op in ("union", "union_norenorm"):
                region.union(build_operand(call["other"]), renorm=(op == "union"))
            elif op in ("without", "intersect", "symmetric_difference"):
                o = build_operand(call["other"])
                try:
                    getattr(region, op)(o)
                except AssertionError:
                    ret = {"kind": "raised"}
            elif op == "get_demoted":
                val, ok = _intlist(region.get_demoted())
                ret = {"kind": "set", "val": val}
            elif op == "sky_within":
                ra, dec = centre(D, call["pix"])
                r = region.sky_within(ra, dec)
                ret = {"kind": "bool", "val": bool(np.all(r)) if np.size(r) == 1 else None}
            elif op == "get_area":
                hp = _hp()
                a = region.get_area(degrees=False) / hp.nside2pixarea(2 ** D)
                ret = {"kind": "int", "milli": int(round(a * 1000))}
            elif op == "save_load":
                p = os.path.join(workdir, "%s_%d.mim" % (tag, k))
                region.save(p)
                region = Region.load(p)
                os.remove(p)
            elif op == "save_file":
                region.save(diskfile)
            elif op == "load_file":
                region = Region.load(diskfile)
            elif op == "live_add":
                if live is None:
                    live = Region(maxdepth=D)
                live.add_pixels([int(p) for p in call["pix"]], call["level"])
            elif op in ("union_live", "without_live", "live_union_self"):
                if live is None:
                    live = Region(maxdepth=D)
                if op == "union_live":
                    region.union(live)
                elif op == "without_live":
                    region.without(live)
                else:
                    live.union(region)
            elif op == "export_moc":
                p = os.path.join(workdir, "%s_%d_moc.fits" % (tag, k))
                if call.get("via") == "mimas":
                    from AegeanTools import MIMAS
                    pm = p.replace("_moc.fits", "_tmp.mim")
                    region.save(pm)
                    MIMAS.mim2fits(pm, p)
                    os.remove(pm)
                else:
                    region.write_fits(p)
                order, uniq, ordering = read_moc(p)
                os.remove(p)
                ret = {"kind": "moc", "order": order, "uniq": uniq, "ordering": ordering}
                if len(uniq) > 20000:       # far more cells than any region of this depth can have
                    ret = {"kind": "moc", "order": order, "uniq": uniq[:64] + [-len(uniq)], "ordering": ordering}
            elif op == "export_reg":
                p = os.path.join(workdir, "%s_%d.reg" % (tag, k))
                if call.get("via") == "mimas":
                    from AegeanTools import MIMAS
                    pm = p.replace(".reg", "_tmp.mim")
                    region.save(pm)
                    MIMAS.mim2reg(pm, p)
                    os.remove(pm)
                else:
                    region.write_reg(p)
                polys, unmatched, n = parse_reg(p, D)
                os.remove(p)
                nstored = sum(len(region.pixeldict[d]) for d in range(1, D + 1))
                ret = {"kind": "reg", "polys": polys, "unmatched": unmatched,
                       "npoly": n, "nstored": nstored}
            else:
                raise ValueError("unknown op " + op)
        except Exception as e:
            ret = {"kind": "error", "text": "%s: %s" % (type(e).__name__, e)}
        st["obs"] = observe(region, D, probes)
        st["obs"]["ret"] = ret
        if live is not None:
            try:
                lv, ok = _intlist(copy.deepcopy(live).get_demoted())
                st["obs"]["live"] = lv
            except Exception as e:
                st["obs"]["error"] = st["obs"]["error"] or ("live region: %s: %s" % (type(e).__name__, e))
        st.pop("postlive", None)
        steps.append(st)
    if os.path.exists(diskfile):
        os.remove(diskfile)
    return steps
