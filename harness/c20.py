"""
C20 - image bands tile the image exactly and keep its astrometry.

model  : spec/MC_Bands.tla  (TLC: the integer design tiles for all rows<=R, n<=N)
binding: every (variant, rows, n) of the same bounded domain is executed on the
         real fits_tools.load_image_band for i = 0..n-1; the observations are
         projected to integers and validated by TLC against spec/Bands_Trace.tla
         (property-level predicates Tiling / HeaderShiftOK of spec/Tiles.tla).
"""
import os
import random
import multiprocessing as mp

import numpy as np

from harness import common

LEVEL = "model_checking"
NCOL = 3
_DIR = None


def _image(rows, plane=0):
    return (np.arange(rows)[:, None] * 4 + np.arange(NCOL)[None, :]
            + 100000 * plane).astype(np.float32)


def _header_extra(hdu, rows):
    h = hdu.header
    h['CTYPE1'] = 'RA---SIN'
    h['CTYPE2'] = 'DEC--SIN'
    h['CRVAL1'] = 45.0
    h['CRVAL2'] = -30.0
    h['CRPIX1'] = 2.0
    h['CRPIX2'] = rows / 2.0 + 0.5
    h['CDELT1'] = -0.01
    h['CDELT2'] = 0.01


_COUNT = [0]


def make_file(d, variant, rows):
    """returns (path, reference full image, cube_index); file names are unique per call so that
    concurrent workers never share (and delete) each other's files"""
    from astropy.io import fits
    _COUNT[0] += 1
    p = os.path.join(d, "%s_%d_%d_%d.fits" % (variant, rows, os.getpid(), _COUNT[0]))
    cube = 0
    if variant == "plain":
        ref = _image(rows)
        hdu = fits.PrimaryHDU(ref)
    elif variant == "cube3":
        data = np.stack([_image(rows, k) for k in range(3)])
        cube = 2
        ref = data[cube]
        hdu = fits.PrimaryHDU(data)
    elif variant == "cube4":
        data = np.stack([_image(rows, k) for k in range(2)])[None, ...]
        cube = 1
        ref = data[0, cube]
        hdu = fits.PrimaryHDU(data)
    elif variant == "bscale":
        raw = _image(rows)
        hdu = fits.PrimaryHDU(raw)
        ref = raw * 2.0
    elif variant == "bscale_i16":
        raw = _image(rows).astype(np.int16)
        hdu = fits.PrimaryHDU(raw)
        ref = raw.astype(np.float64) * 0.5
    elif variant == "compressed":
        from AegeanTools import fits_tools
        raw = _image(rows)
        hdu = fits.PrimaryHDU(raw)
        _header_extra(hdu, rows)
        src = p.replace(".fits", "_src.fits")
        hdu.writeto(src, overwrite=True)
        fits_tools.compress(src, 3, outfile=p)
        ref = np.array(fits_tools.expand(p)[0].data)
        return p, ref, 0
    else:
        raise ValueError(variant)
    _header_extra(hdu, rows)
    if variant == "bscale":
        hdu.header['BSCALE'] = 2.0
    if variant == "bscale_i16":
        hdu.header['BSCALE'] = 0.5
    hdu.writeto(p, overwrite=True)
    return p, ref, cube


def _hdr_other_equal(h, hfull):
    skip = ('NAXIS2', 'CRPIX2', 'HISTORY', 'COMMENT', '')
    ka = [k for k in h.keys() if k not in skip]
    kb = [k for k in hfull.keys() if k not in skip]
    if set(ka) != set(kb):
        return False
    return all(h[k] == hfull[k] for k in ka)


def observe(args):
    """run load_image_band for every band of (variant, rows, n)."""
    variant, rows, nlist = args
    from AegeanTools import fits_tools
    from astropy.io import fits
    path, ref, cube = make_file(_DIR, variant, rows)
    if variant == "compressed":
        hfull = fits_tools.expand(path)[0].header
    else:
        hfull = fits.getheader(path)
    # row signature -> row index (rows are unique by construction)
    sig = {}
    for r in range(ref.shape[0]):
        sig.setdefault(ref[r].tobytes(), r)
    out = []
    for n in nlist:
        rec = {"id": "%s/rows=%d/n=%d" % (variant, rows, n), "kind": "tile",
               "variant": variant, "rows": rows, "n": n, "first": [], "last": [],
               "nrows": [], "contig": [], "naxis2": [], "dcrpix2": [], "other": []}
        for i in range(n):
            try:
                data, h = fits_tools.load_image_band(path, band=(i, n), cube_index=cube)
            except Exception as e:   # a valid spec must not raise
                rec["error"] = "%s: %s" % (type(e).__name__, e)
                rec["nrows"].append(-1)
                rec["first"].append(-2)
                rec["last"].append(-2)
                rec["contig"].append(False)
                rec["naxis2"].append(-1)
                rec["dcrpix2"].append(-1)
                rec["other"].append(False)
                continue
            data = np.asarray(data)
            nr = int(data.shape[0]) if data.ndim == 2 else -1
            rec["nrows"].append(nr)
            if nr <= 0:
                rec["first"].append(-1)
                rec["last"].append(-1)
                rec["contig"].append(nr == 0)
            else:
                f = sig.get(np.asarray(data[0], dtype=ref.dtype).tobytes(), -2)
                l = sig.get(np.asarray(data[-1], dtype=ref.dtype).tobytes(), -2)
                rec["first"].append(f)
                rec["last"].append(l)
                ok = (f >= 0 and data.shape[1] == ref.shape[1] and f + nr <= ref.shape[0]
                      and np.array_equal(np.asarray(data, dtype=ref.dtype), ref[f:f + nr]))
                rec["contig"].append(bool(ok))
            rec["naxis2"].append(int(h['NAXIS2']))
            d = hfull['CRPIX2'] - h['CRPIX2']
            rec["dcrpix2"].append(int(d) if float(d).is_integer() else -999999)
            rec["other"].append(bool(_hdr_other_equal(h, hfull)))
        out.append(rec)
    for f in (path, path.replace(".fits", "_src.fits")):
        if os.path.exists(f):
            os.remove(f)
    return out


def observe_invalid(d):
    from AegeanTools import fits_tools
    path, ref, cube = make_file(d, "plain", 10)
    recs = []
    for (i, n) in [(0, 0), (1, 1), (2, 1), (-1, 1), (0, -1), (5, 3), (-2, -1), (64, 64), (-1, 64)]:
        try:
            fits_tools.load_image_band(path, band=(i, n))
            outcome = "returned"
        except Exception:
            outcome = "raised"
        recs.append({"id": "invalid/i=%d/n=%d" % (i, n), "kind": "invalid",
                     "rows": 10, "i": i, "n": n, "outcome": outcome})
    os.remove(path)
    return recs


def _init(d):
    global _DIR
    _DIR = d
    common.quiet_logging()


def key_of(rec, fails):
    if rec["kind"] == "invalid":
        return "invalid-spec i=%d n=%d %s" % (rec["i"], rec["n"], ",".join(fails))
    return "%s rows=%d n=%d fails=%s" % (rec["variant"], rec["rows"], rec["n"], ",".join(fails))


def validate(ctx, recs, name):
    tf = os.path.join(ctx.workdir, name + ".json")
    byid = {r["id"]: r for r in recs}
    common.dump_json(tf, recs)
    res = ctx.tlc("Bands_Trace", common.cfg(spec="Spec", post="BatchDone", deadlock=False),
                  name=name, workers=1, env={"TRACE_FILE": tf})
    summary = [p for p in res.printed if "accepted" in p]
    if not summary or summary[0]["total"] != len(recs):
        raise common.MachineryError("trace batch %s not fully consumed" % name)
    rej = [p for p in res.printed if "fails" in p]
    if summary[0]["accepted"] + len(rej) != len(recs):
        raise common.MachineryError("trace batch %s: verdict count mismatch" % name)
    os.remove(tf)
    return [(byid[p["id"]], p["fails"]) for p in rej]


def selftest(ctx):
    """binding demonstration: a correct record is accepted, one corrupted
    field is rejected."""
    good = {"id": "st-good", "kind": "tile", "variant": "selftest", "rows": 10, "n": 3,
            "first": [0, 3, 6], "last": [2, 5, 9], "nrows": [3, 3, 4],
            "contig": [True] * 3, "naxis2": [3, 3, 4], "dcrpix2": [0, 3, 6],
            "other": [True] * 3}
    bad1 = dict(good, id="st-lastrow", nrows=[3, 3, 3], last=[2, 5, 8], naxis2=[3, 3, 3])
    bad2 = dict(good, id="st-crpix", dcrpix2=[0, 0, 0])
    bad3 = dict(good, id="st-overlap", first=[0, 2, 6])
    inv_ok = {"id": "st-inv", "kind": "invalid", "rows": 10, "i": 3, "n": 3, "outcome": "raised"}
    inv_bad = dict(inv_ok, id="st-inv-bad", outcome="returned")
    rej = validate(ctx, [good, bad1, bad2, bad3, inv_ok, inv_bad], "selftest")
    got = {r["id"]: f for r, f in rej}
    want = {"st-lastrow": ["tiling"], "st-crpix": ["header_crpix2_shift"],
            "st-overlap": ["rows_are_the_image_rows"], "st-inv-bad": ["invalid_band_rejected"]}
    if got != want:
        raise common.MachineryError("Bands_Trace self-test failed: %r" % got)


def run(ctx):
    quick = ctx.tier == "quick"
    maxrows = 120 if quick else 300
    res = ctx.tlc("MC_Bands", common.cfg(
        spec="Spec", constants={"MaxRows": maxrows, "MaxBands": 64, "SmallRows": 24},
        invariants=["Consecutive", "Complete", "TilingThm", "CoveredThm"], deadlock=False),
        coverage=True)
    ctx.require_actions(res, ["LoadBand"], "MC_Bands")
    # unbounded: TLAPS proves First / Last / Adjacent / Ordered of the band design for every height and band count
    ctx.cov["tlaps_obligations_proved"] = common.run_tlapm("TilesProof", os.path.join(ctx.workdir, "tlaps"))
    selftest(ctx)

    rng = random.Random(ctx.seed)
    allN = list(range(1, 65))
    jobs = []
    if quick:
        for rows in range(1, 101):
            jobs.append(("plain", rows, allN))
        for v in ("cube3", "cube4", "bscale", "bscale_i16", "compressed"):
            for rows in (1, 2, 7, 31, 64, 100):
                if v == "compressed" and rows < 2:
                    continue      # compress needs >= 2 rows (C15's domain)
                jobs.append((v, rows, allN if rows > 2 else [1, 2, 3]))
        for rows in (997, 1000, 4099, 19997):
            jobs.append(("plain", rows, allN))
        for _ in range(40):
            jobs.append(("plain", rng.randint(121, 20000), rng.sample(allN, 8)))
    else:
        for rows in range(1, 601):
            jobs.append(("plain", rows, allN))
        for v in ("cube3", "cube4", "bscale", "bscale_i16", "compressed"):
            for rows in list(range(1, 130)) + [997, 1000]:
                if v == "compressed" and rows < 2:
                    continue
                jobs.append((v, rows, allN))
        for _ in range(4000):
            jobs.append(("plain", rng.randint(601, 20000), rng.sample(allN, 8)))
    d = os.path.join(ctx.workdir, "files")
    os.makedirs(d, exist_ok=True)
    with mp.Pool(16, initializer=_init, initargs=(d,)) as pool:
        chunks = pool.map(observe, jobs, chunksize=4)
    recs = [r for c in chunks for r in c]
    recs += observe_invalid(d)
    ncalls = sum(r.get("n", 1) for r in recs)
    rejected = []
    for k, part in enumerate(common.chunks(recs, 4000)):
        rejected += validate(ctx, part, "bands_trace_%d" % k)
    ctx.count(evaluations=ncalls, nontrivial=len(recs), traces=len(recs))
    ctx.cov["rule"] = ("one trace per (file variant, rows, n): all n bands loaded with the real "
                       "load_image_band; distinct = distinct (variant, rows, n)")
    ctx.cov["exhaustive"] = True
    ctx.cov["domain"] = {"plain_rows_exhaustive": "1..%d" % (100 if quick else 600),
                         "bands": "1..64", "variants": ["plain", "cube3", "cube4", "bscale", "bscale_i16", "compressed"]}
    ctx.sample(recs[200] if len(recs) > 200 else recs[0])
    ctx.sample(recs[-1])
    ctx.assumptions += ["astropy.io.fits reads back what it wrote",
                        "for the compressed variant the reference image is fits_tools.expand of the same file (C15 pins expand)"]
    for rec, fails in rejected:
        ctx.violation(key_of(rec, fails), {"record": rec, "fails": fails})


def replay(ctx, rec):
    r = rec["detail"]["record"]
    d = os.path.join(ctx.workdir, "files")
    os.makedirs(d, exist_ok=True)
    _init(d)
    if r["kind"] == "invalid":
        recs = [x for x in observe_invalid(d) if x["id"] == r["id"]]
    else:
        recs = observe((r["variant"], r["rows"], [r["n"]]))
    for rr, fails in validate(ctx, recs, "replay"):
        ctx.violation(key_of(rr, fails), {"record": rr, "fails": fails})
    ctx.count(evaluations=len(recs), nontrivial=2, traces=len(recs))
