"""
C14 - AeRes model images are the catalogue's Gaussians; subtraction closes the loop.

model  : spec/AeResRel.tla (abstract catalogue-level algebra + the relations as predicates on
         logged fixed-point records), spec/MC_AeResConfig.tla - TLC checks the algebra (Model is a
         bag homomorphism, off-image sources inert, Subtract o Add = id, blank set = union of the
         sources' threshold sets) as theorems and as invariants of the Add/Subtract/Mask machine,
         enumerates the option lattice  operation x frac/sigma x column renaming x projection x
         catalogue shape class  and emits every element.
binding: every emitted element is instantiated (seeded continuous parameters drawn from the zones
         TLC emitted) as a FITS image + catalogue table and pushed through the real
         AeRes.make_residual (API or the CLI main(argv)), files read back; seeded catalogues
         outside the lattice (rotated CD-matrix headers, float64 / 4-D images, other formats) go
         through AeRes.make_model / make_residual the same way; a noise-free image of isolated
         sources goes through the real source finder -> save_catalog -> make_residual.  Every
         observation is projected to integers / boolean grids and validated by TLC against
         spec/AeRes_Trace.tla.
oracle : harness/synth.py (astropy WCS + own great-circle offsets + own pixel Gaussian) for the
         clause "Model(cat) = the catalogue's Gaussians"; identity / algebra for the rest; in mask
         mode the reference is the code's own non-mask model of the single-source catalogue,
         compared with the threshold by TLC.
"""
import contextlib
import io
import math
import os
import random
import multiprocessing as mp

import numpy as np

from harness import common, synth

LEVEL = "exploration"
IMAX = common.INT_MAX
_DIR = None

DEFAULT_COLS = {'ra_col': 'ra', 'dec_col': 'dec', 'peak_col': 'peak_flux',
                'a_col': 'a', 'b_col': 'b', 'pa_col': 'pa'}
COLMAPS = {
    "default": {},
    "renamed": {'ra_col': 'RAJ2000', 'dec_col': 'DEJ2000', 'peak_col': 'S',
                'a_col': 'bmaj', 'b_col': 'bmin', 'pa_col': 'bpa'},
    # an Aegean-style table that also holds the default-named columns: the model is asked for
    # the integrated flux and the psf shape columns instead
    "shadowed": {'peak_col': 'int_flux', 'a_col': 'psf_a', 'b_col': 'psf_b', 'pa_col': 'psf_pa'},
}
CLI_OPT = {'ra_col': '--racol', 'dec_col': '--deccol', 'peak_col': '--peakcol',
           'a_col': '--acol', 'b_col': '--bcol', 'pa_col': '--pacol'}
# distance (pixels) of the centre from the outermost pixel centre, negative = outwards; the zones
# of the lattice come from TLC (MC_AeResConfig!ZoneRange), "border" is used by single records only
LOCAL_ZONES = {"in": (6000, 1000000), "near": (20, 4000), "border": (-480, -20),
               "just": (-980, -520), "off": (-15000, -1050), "far": (-400000, -40000),
               "sky": (-IMAX, -IMAX)}
OFF_ZONES = ("just", "off", "far", "sky")


# --------------------------------------------------------------------------------------------
# projections to integers
# --------------------------------------------------------------------------------------------
def dev9(x, pk):
    """a maximum deviation in units of 1e-9 of pk, rounded up (0 only for an exact 0)."""
    v = float(x) / float(pk) * 1e9
    if not math.isfinite(v):
        return IMAX
    return int(min(IMAX, math.ceil(abs(v))))


def maxdev(a, b=None, where=None):
    d = np.asarray(a, dtype=np.float64) if b is None else \
        np.asarray(a, dtype=np.float64) - np.asarray(b, dtype=np.float64)
    if where is not None:
        d = d[where]
    if d.size == 0:
        return 0.0
    d = np.abs(d)
    return float("nan") if np.isnan(d).any() else float(d.max())


def pos_m(v):
    if v is None or not math.isfinite(v):
        return IMAX
    return common.fx(v, 1000)


# --------------------------------------------------------------------------------------------
# scenes, sources, files (all independent of AegeanTools)
# --------------------------------------------------------------------------------------------
def scene(rng, proj, lo, hi, rotate=False, cds=(5.0, 20.0, 60.0)):
    from astropy.wcs import WCS
    H, W = rng.randint(lo, hi), rng.randint(lo, hi)
    cd = rng.choice(cds)
    crval = (rng.uniform(0, 360), rng.uniform(-75, 75))
    crpix = (W / 2.0 + 0.5 + rng.uniform(-8, 8), H / 2.0 + 0.5 + rng.uniform(-8, 8))
    h = synth.make_header((H, W), proj=proj, crval=crval, cdelt_arcsec=cd,
                          beam_arcsec=(4 * cd, 4 * cd, 0.0), crpix=crpix)
    rot = 0.0
    if rotate:
        rot = rng.uniform(-180, 180)
        r, c = math.radians(rot), cd / 3600.0
        del h['CDELT1']
        del h['CDELT2']
        h['CD1_1'], h['CD1_2'] = -c * math.cos(r), c * math.sin(r)
        h['CD2_1'], h['CD2_2'] = c * math.sin(r), c * math.cos(r)
    return {"H": H, "W": W, "cd": cd, "h": h, "w": WCS(h, naxis=2), "crval": crval, "rot": rot,
            "cov": np.zeros((H, W), dtype=np.int16)}


def _coord(rng, n, zone, zones):
    if zone == "in":
        return rng.uniform(6.0, n - 7.0)
    lo, hi = zones[zone]
    d = rng.uniform(lo, hi) / 1000.0
    return d if rng.random() < 0.5 else (n - 1) - d


def _clear_of_boundaries(v, n):
    return all(abs(v - b) >= 0.015 for b in (-0.5, 0.0, n - 1.0, n - 0.5))


def make_source(rng, sc, zone, sign, zones=None, amax=9.0, limit_overlap=True):
    """a source defined on the sky; returns None when no admissible position was found."""
    zones = zones or LOCAL_ZONES
    H, W, w, cd = sc["H"], sc["W"], sc["w"], sc["cd"]
    a_px = rng.uniform(1.5, amax)
    ratio = 1.0 if rng.random() < 0.1 else rng.uniform(0.3, 1.0)
    pa = rng.choice([0.0, 90.0, -90.0, 180.0, 45.0]) if rng.random() < 0.15 else rng.uniform(-180, 180)
    # catalogues often hold several sources with bit-identical catalogued shapes (e.g. unresolved
    # sources = the beam); their pixel-space shapes still differ with position
    if sc.get("last_shape") is not None and rng.random() < 0.35 and sc["last_shape"][0] <= amax:
        a_px, ratio, pa = sc["last_shape"]
    sc["last_shape"] = (a_px, ratio, pa)
    peak = sign * rng.uniform(0.5, 5.0)
    for _ in range(60):
        if zone == "sky":
            ra = (sc["crval"][0] + 180.0 + rng.uniform(-20, 20)) % 360.0
            dec = max(-89.0, min(89.0, -sc["crval"][1] + rng.uniform(-10, 10)))
            row = col = None
            try:
                c2, r2 = w.all_world2pix([[ra, dec]], 0)[0]
                if math.isfinite(c2) and math.isfinite(r2):
                    if -1000 < r2 < H + 1000 and -1000 < c2 < W + 1000:
                        continue          # projection folded it back near the image: not "sky"
                    row, col = float(r2), float(c2)
            except Exception:
                pass
        else:
            which = rng.choice(["row", "col", "both"]) if zone != "in" else "none"
            row = _coord(rng, H, zone if which in ("row", "both") else "in", zones)
            col = _coord(rng, W, zone if which in ("col", "both") else "in", zones)
            ra, dec = [float(v) for v in w.all_pix2world([[col, row]], 0)[0]]
            if not (math.isfinite(ra) and math.isfinite(dec)):
                continue
            if sc.get("f32"):       # a single-precision catalogue: the catalogued position IS the rounded one
                ra, dec = float(np.float32(ra)), float(np.float32(dec))
            c2, r2 = [float(v) for v in w.all_world2pix([[ra, dec]], 0)[0]]
            if not (math.isfinite(c2) and math.isfinite(r2)):
                continue
            if not sc.get("f32") and (abs(c2 - col) > 1e-6 or abs(r2 - row) > 1e-6):
                continue
            row, col = r2, c2
            if not (_clear_of_boundaries(row, H) and _clear_of_boundaries(col, W)):
                continue
            if limit_overlap and zone not in OFF_ZONES:
                # at most two sources' 5-sigma footprints on any pixel (float32 accumulation
                # stays inside the property's 1e-6 for every summation order)
                rad = 5.0 * a_px * synth.FWHM2SIG + 3.0
                yy, xx = np.ogrid[0:H, 0:W]
                foot = (yy - row) ** 2 + (xx - col) ** 2 <= rad * rad
                if (sc["cov"][foot] >= 2).any():
                    continue
                sc["cov"][foot] += 1
        a = a_px * cd
        out = {"ra": ra, "dec": dec, "peak": peak, "a": a, "b": a * ratio, "pa": pa,
               # mostly high signal to noise; sometimes below the default 4-sigma mask level
               "rms": abs(peak) * (rng.uniform(0.002, 0.05) if rng.random() < 0.8 else rng.uniform(0.3, 1.2)), "zone": zone,
               "row": row, "col": col, "sign": 1 if peak > 0 else -1}
        if sc.get("f32"):
            for k in ("ra", "dec", "peak", "a", "b", "pa", "rms"):
                out[k] = float(np.float32(out[k]))
            out["f32"] = True
        return out
    return None


def src_token(s):
    return {"row_m": pos_m(s["row"]), "col_m": pos_m(s["col"]), "sign": s["sign"]}


def write_cat(path, srcs, renaming, rng):
    from astropy.table import Table
    cm = dict(DEFAULT_COLS)
    cm.update(COLMAPS[renaming])
    n = len(srcs)
    cols = {}
    if rng.random() < 0.7:
        cols['island'] = list(range(1, n + 1))
        cols['source'] = [0] * n
    if renaming == "shadowed":          # decoys under the default names
        cols['peak_flux'] = [-1.7 * s["peak"] for s in srcs]
        cols['a'] = [2.3 * s["a"] for s in srcs]
        cols['b'] = [0.4 * s["b"] for s in srcs]
        cols['pa'] = [s["pa"] + 57.0 for s in srcs]
    cols[cm['ra_col']] = [float(s["ra"]) for s in srcs]
    cols[cm['dec_col']] = [float(s["dec"]) for s in srcs]
    cols[cm['peak_col']] = [float(s["peak"]) for s in srcs]
    cols[cm['a_col']] = [float(s["a"]) for s in srcs]
    cols[cm['b_col']] = [float(s["b"]) for s in srcs]
    cols[cm['pa_col']] = [float(s["pa"]) for s in srcs]
    cols['local_rms'] = [float(s["rms"]) for s in srcs]
    if path.endswith(".vot"):
        return write_votable(path, cols)
    if srcs and srcs[0].get("f32") and path.endswith(".fits"):
        # the FITS binary tables the package itself writes hold single-precision columns
        cols = {k: (np.asarray(v, dtype=np.float32) if v and isinstance(v[0], float) else v) for k, v in cols.items()}
    t = Table(cols)
    if path.endswith(".csv"):
        t.write(path, format='ascii.csv', overwrite=True)
    else:
        t.write(path, overwrite=True)
    return path


def write_votable(path, cols):
    """minimal VOTable (TABLEDATA) written by hand: floats as repr (exact float64), ints as int.
    (astropy's own VOTable *writer* is not used: its C extension corrupts the heap in this
    environment when tables of varying structure are written from one process.)"""
    names = list(cols)
    n = len(cols[names[0]])
    out = ['<?xml version="1.0" encoding="utf-8"?>',
           '<VOTABLE version="1.3" xmlns="http://www.ivoa.net/xml/VOTable/v1.3">',
           ' <RESOURCE type="results">', '  <TABLE>']
    for c in names:
        dt = "int" if all(isinstance(v, int) for v in cols[c]) else "double"
        out.append('   <FIELD ID="%s" name="%s" datatype="%s"/>' % (c, c, dt))
    out += ['   <DATA>', '    <TABLEDATA>']
    for i in range(n):
        out.append('     <TR>' + ''.join('<TD>%s</TD>' % (repr(cols[c][i]),) for c in names) + '</TR>')
    out += ['    </TABLEDATA>', '   </DATA>', '  </TABLE>', ' </RESOURCE>', '</VOTABLE>', '']
    with open(path, "w") as f:
        f.write("\n".join(out))
    return path


def write_image(path, img, header, variant="f32"):
    from astropy.io import fits
    data = np.asarray(img, dtype=np.float64 if variant == "f64" else np.float32)
    if variant == "4d":
        data = data[None, None]
    hdu = fits.PrimaryHDU(data)
    for k, v in header.items():
        if k in ('SIMPLE', 'BITPIX', 'NAXIS', 'NAXIS1', 'NAXIS2', 'EXTEND'):
            continue
        hdu.header[k] = v
    if variant == "4d":
        for k, v in (('CTYPE3', 'FREQ'), ('CRVAL3', 1.0e9), ('CDELT3', 1.0e6), ('CRPIX3', 1.0),
                     ('CTYPE4', 'STOKES'), ('CRVAL4', 1.0), ('CDELT4', 1.0), ('CRPIX4', 1.0)):
            hdu.header[k] = v
    hdu.writeto(path, overwrite=True)
    return path


def read_image(path):
    from astropy.io import fits
    with fits.open(path) as hl:
        return np.squeeze(np.asarray(hl[0].data, dtype=np.float64))


def render_one(sc, s):
    """independent rendering of one sky source and the pixels within 5 sigma of it."""
    H, W = sc["H"], sc["W"]
    try:
        x, y, sx, sy, th = synth.sky_ellipse_to_pix(sc["w"], s["ra"], s["dec"], s["a"] / 3600.0,
                                                    s["b"] / 3600.0, s["pa"])
    except Exception:
        return None, None
    if not all(math.isfinite(v) for v in (x, y, sx, sy, th)) or sx <= 0 or sy <= 0:
        return None, None
    R = synth.render((H, W), [(s["peak"], x, y, sx, sy, th)])
    yy, xx = np.mgrid[0:H, 0:W].astype(float)
    c, sn = math.cos(th), math.sin(th)
    u = (xx - x) * c + (yy - y) * sn
    v = -(xx - x) * sn + (yy - y) * c
    return R, (u / sx) ** 2 + (v / sy) ** 2 <= 25.0


def on_image(s, sc):
    return s["zone"] not in OFF_ZONES


def _err(e):
    return "%s: %s" % (type(e).__name__, str(e)[:160])


class CodeRaised(Exception):
    """the real code (and only it) raised."""


def real(f, *a, **kw):
    try:
        return f(*a, **kw)
    except (Exception, SystemExit) as e:
        raise CodeRaised(_err(e))


def _files(tag):
    return os.path.join(_DIR, "%s_%d" % (tag, os.getpid()))


def _cleanup(prefix):
    d = os.path.dirname(prefix)
    b = os.path.basename(prefix)
    for f in os.listdir(d):
        if f.startswith(b):
            try:
                os.remove(os.path.join(d, f))
            except OSError:
                pass


# --------------------------------------------------------------------------------------------
# observations of the real code
# --------------------------------------------------------------------------------------------
def obs_single(task):
    _, seed, zone, proj = task
    from AegeanTools import AeRes, wcs_helpers
    rng = random.Random(seed)
    sc = scene(rng, proj, 48, 112, rotate=rng.random() < 0.2)
    s = make_source(rng, sc, zone, rng.choice([1, 1, -1]), limit_overlap=False)
    if s is None:
        return None
    H, W = sc["H"], sc["W"]
    renaming = rng.choice(["default", "default", "renamed"])
    pre = _files("single")
    cat = write_cat(pre + rng.choice([".fits", ".csv", ".vot"]), [s], renaming, rng)
    rec = {"id": "single/%s/%d" % (zone, seed), "kind": "single", "err": "", "H": H, "W": W,
           "src": src_token(s), "raised": False, "n_in5": 0, "dev_with_e9": IMAX,
           "dev_zero_e9": IMAX, "_task": list(task), "_zone": zone, "_exc": "",
           "_info": {"proj": proj, "cdelt_arcsec": sc["cd"], "crval": sc["crval"], "rot_deg": sc["rot"],
                     "catalogue": os.path.basename(cat), "renaming": renaming, "source": s}}
    try:
        wh = real(wcs_helpers.WCSHelper.from_header, sc["h"])
        L = real(AeRes.load_sources, cat, **COLMAPS[renaming])
        M = real(AeRes.make_model, L, (H, W), wh)
    except CodeRaised as e:
        rec["raised"] = True
        rec["_exc"] = str(e)
        return rec
    finally:
        _cleanup(pre)
    pk = abs(s["peak"])
    rec["dev_zero_e9"] = dev9(maxdev(M), pk)
    R, in5 = render_one(sc, s)
    if R is not None and in5.any():
        rec["n_in5"] = int(in5.sum())
        rec["dev_with_e9"] = dev9(maxdev(M, R, in5), pk)
    return rec


def _catalogue(rng, sc, shape, zones, amax=9.0):
    """sources of one catalogue shape class."""
    srcs = []
    if shape == "inside":
        plan = [("in", 1)] * rng.randint(1, 3)
    elif shape == "near_edge":
        plan = [("near", 1)] * rng.randint(1, 2) + [("in", 1)] * rng.randint(0, 1)
    elif shape == "off_edge":
        offz = sorted(z for z in zones if z in OFF_ZONES)
        plan = [("in", 1)] * (1 if rng.random() < 0.8 else 0)
        plan += [(rng.choice(offz), rng.choice([1, 1, -1])) for _ in range(rng.randint(1, 2))]
    elif shape == "negative":
        plan = [(rng.choice(["in", "near"]), -1)]
        plan += [(rng.choice(["in", "near"]), rng.choice([1, -1])) for _ in range(rng.randint(0, 2))]
    else:       # mixed (seeded runs outside the lattice)
        plan = [(rng.choice(["in", "in", "near"]), rng.choice([1, 1, -1])) for _ in range(rng.randint(1, 5))]
        plan += [(rng.choice(OFF_ZONES), rng.choice([1, -1])) for _ in range(rng.randint(0, 2))]
    for zone, sign in plan:
        s = make_source(rng, sc, zone, sign, zones=zones, amax=amax)
        if s is not None:
            srcs.append(s)
    rng.shuffle(srcs)
    return srcs


def obs_additive(task):
    _, seed, proj = task
    from AegeanTools import AeRes, wcs_helpers
    rng = random.Random(seed)
    sc = scene(rng, proj, 56, 112, rotate=rng.random() < 0.2)
    H, W = sc["H"], sc["W"]
    srcs = []
    for _ in range(rng.randint(2, 6)):
        s = make_source(rng, sc, rng.choice(["in", "in", "near"]), rng.choice([1, 1, -1]))
        if s is not None:
            srcs.append(s)
    for _ in range(rng.randint(0, 2)):
        s = make_source(rng, sc, rng.choice(OFF_ZONES), rng.choice([1, -1]))
        if s is not None:
            srcs.append(s)
    rng.shuffle(srcs)
    on = [i for i, s in enumerate(srcs) if on_image(s, sc)]
    if len(on) < 2:
        return None
    pre = _files("add")
    cat = write_cat(pre + rng.choice([".fits", ".csv", ".vot"]), srcs, "default", rng)
    perm = list(on)
    rng.shuffle(perm)
    cut = rng.randint(1, len(perm) - 1)
    A, B = perm[:cut], perm[cut:]
    zones = sorted(set(s["zone"] for s in srcs if not on_image(s, sc)))
    rec = {"id": "additive/%d" % seed, "kind": "additive", "err": "", "H": H, "W": W,
           "srcs": [src_token(s) for s in srcs], "nA": len(A), "nB": len(B),
           "n_off": len(srcs) - len(on), "raised": False, "add_dev_e9": IMAX, "comm_dev_e9": IMAX,
           "singles_dev_e9": IMAX, "off_dev_e9": IMAX, "samples": [],
           "_task": list(task), "_zones": zones, "_exc": "",
           "_info": {"proj": proj, "cdelt_arcsec": sc["cd"], "crval": sc["crval"], "rot_deg": sc["rot"],
                     "A": A, "B": B, "sources": srcs}}
    try:
        wh = real(wcs_helpers.WCSHelper.from_header, sc["h"])
        L = real(AeRes.load_sources, cat)

        def mk(idx):
            return np.asarray(real(AeRes.make_model, [L[i] for i in idx], (H, W), wh), dtype=np.float64)
        MA, MB = mk(A), mk(B)
        MAB, MBA = mk(A + B), mk(B + A)
        Mall = mk(list(range(len(srcs))))          # with the off-image sources interleaved
        Mon = mk(on)                               # same relative order without them
        singles = [mk([i]) for i in on]
    except CodeRaised as e:
        rec["raised"] = True
        rec["_exc"] = str(e)
        return rec
    finally:
        _cleanup(pre)
    pk = max(abs(srcs[i]["peak"]) for i in on)
    rec["add_dev_e9"] = dev9(maxdev(MAB, MA + MB), pk)
    rec["comm_dev_e9"] = dev9(maxdev(MBA, MAB), pk)
    rec["singles_dev_e9"] = dev9(maxdev(Mon, sum(singles)), pk)
    rec["off_dev_e9"] = dev9(maxdev(Mall, Mon), pk)
    flat = np.argsort(np.abs(MAB).ravel())[::-1][:8].tolist()
    flat += [rng.randrange(H * W) for _ in range(16)]
    for f in flat:
        t = [MA.ravel()[f], MB.ravel()[f], MAB.ravel()[f]]
        rec["samples"].append([common.fx(v / pk, 1e8) if math.isfinite(v) else IMAX for v in t])
    return rec


def _call_residual(via, imgf, cat, rfile, mfile, op, thr, frac, sigma, renaming):
    """one make_residual run through the API or the CLI; returns "" or an error string."""
    from AegeanTools import AeRes
    add, mask = op == "add", op == "mask"
    if via == "cli":
        from AegeanTools.CLI import AeRes as cli
        argv = ['-c', cat, '-f', imgf, '-r', rfile, '-m', mfile]
        if add:
            argv.append('--add')
        if mask:
            argv.append('--mask')
        if thr == "frac":
            argv += ['--frac', repr(float(frac))]
        else:
            argv += ['--sigma', repr(float(sigma))]
        for k, v in COLMAPS[renaming].items():
            argv += [CLI_OPT[k], v]
        with contextlib.redirect_stderr(io.StringIO()), contextlib.redirect_stdout(io.StringIO()):
            rc = real(cli.main, argv)
        if rc != 0:
            return "cli returned %r" % (rc,)
    else:
        if thr == "frac":
            real(AeRes.make_residual, imgf, cat, rfile, mfile=mfile, add=add, mask=mask, frac=float(frac),
                 colmap=dict(COLMAPS[renaming]))
        else:
            real(AeRes.make_residual, imgf, cat, rfile, mfile=mfile, add=add, mask=mask, frac=None,
                 sigma=float(sigma), colmap=dict(COLMAPS[renaming]))
    if not (os.path.exists(rfile) and os.path.exists(mfile)):
        return "output file not written"
    return ""


def obs_run(task):
    _, seed, op, thr, renaming, proj, shape, via, zones = task
    from AegeanTools import AeRes, wcs_helpers
    rng = random.Random(seed)
    lattice = zones is not None
    zmap = dict(LOCAL_ZONES)
    if zones:
        zmap = {k: tuple(v) for k, v in zones.items()}
        zmap.setdefault("in", LOCAL_ZONES["in"])
    masky = op == "mask"
    sc = scene(rng, proj, 40 if masky else 48, 80 if masky else 112,
               rotate=(not lattice) and rng.random() < 0.3)
    H, W = sc["H"], sc["W"]
    fmt = rng.choice([".fits", ".csv", ".vot"])
    sc["f32"] = (fmt == ".fits" and not lattice and rng.random() < 0.6)
    srcs = _catalogue(rng, sc, shape, zmap, amax=6.0 if masky else 9.0)
    if not srcs:
        return None
    variant = "f32" if lattice else rng.choice(["f32", "f32", "f64", "4d"])
    pk = max(abs(s["peak"]) for s in srcs)
    nrng = np.random.default_rng(seed)
    yy, xx = np.mgrid[0:H, 0:W]
    img = nrng.normal(0.0, 0.2 * pk, (H, W)) + 0.3 * pk * np.sin(xx / 17.0 + yy / 23.0)
    pre = _files("run")
    imgf = write_image(pre + "_img.fits", img, sc["h"], variant)
    img = read_image(imgf)
    cat = write_cat(pre + "_cat" + fmt, srcs, renaming, rng)
    rfile, mfile, rfile2, mfile2 = pre + "_res.fits", pre + "_mod.fits", pre + "_res2.fits", pre + "_mod2.fits"
    frac = math.exp(rng.uniform(math.log(0.01), math.log(0.9)))
    sigma = rng.uniform(3.0, 12.0)
    offz = sorted(set(s["zone"] for s in srcs if not on_image(s, sc)))
    rec = {"id": "run/%s/%s/%s/%s/%s/%s/%d" % (op, thr, renaming, proj, shape, via, seed),
           "kind": "run", "err": "", "op": op, "thr": thr, "renaming": renaming, "proj": proj,
           "shape": shape, "via": via, "H": H, "W": W, "srcs": [src_token(s) for s in srcs],
           "n_inside": sum(1 for s in srcs if on_image(s, sc)),
           "_task": list(task), "_zones": offz, "_variant": variant, "_fmt": fmt,
           "_info": {"cdelt_arcsec": sc["cd"], "crval": sc["crval"], "rot_deg": sc["rot"], "image": variant,
                     "catalogue_format": fmt, "frac": frac, "sigma": sigma, "colmap": COLMAPS[renaming],
                     "sources": srcs}}
    cm = COLMAPS[renaming]
    try:
        if not masky:
            rec.update({"rel_dev_e9": IMAX, "model_dev_e9": IMAX, "off_dev_e9": IMAX,
                        "rt_dev_e9": 0, "n_in5": 0})
            e = _call_residual(via, imgf, cat, rfile, mfile, op, thr, frac, sigma, renaming)
            if e:
                rec["err"] = e
                return rec
            res, mod = read_image(rfile), read_image(mfile)
            rec["rel_dev_e9"] = dev9(maxdev(res, img + mod if op == "add" else img - mod), pk)
            region = np.zeros((H, W), dtype=bool)
            expect = np.zeros((H, W))
            for s in srcs:
                if on_image(s, sc):
                    R, in5 = render_one(sc, s)
                    if R is None:
                        raise common.MachineryError("independent renderer failed on an on-image source")
                    expect += R
                    region |= in5
            rec["n_in5"] = int(region.sum())
            rec["model_dev_e9"] = dev9(maxdev(mod, expect, region), pk)
            wh = real(wcs_helpers.WCSHelper.from_header, sc["h"])
            L = real(AeRes.load_sources, cat, **cm)
            Mon = real(AeRes.make_model, [L[i] for i, s in enumerate(srcs) if on_image(s, sc)], (H, W), wh)
            rec["off_dev_e9"] = dev9(maxdev(mod, Mon), pk)
            if op == "add":
                e = _call_residual(via, rfile, cat, rfile2, mfile2, "subtract", thr, frac, sigma, renaming)
                if e:
                    rec["err"] = e
                    return rec
                rec["rt_dev_e9"] = dev9(maxdev(read_image(rfile2), img), pk)
            return rec
        # ---- mask mode -----------------------------------------------------------------
        wh = real(wcs_helpers.WCSHelper.from_header, sc["h"])
        L = real(AeRes.load_sources, cat, **cm)
        Ms = [np.asarray(real(AeRes.make_model, [L[i]], (H, W), wh), dtype=np.float64) for i in range(len(srcs))]
        ok = False
        for _ in range(40):
            thrs = [frac * s["peak"] if thr == "frac" else sigma * s["rms"] for s in srcs]
            ok = all(1.2e-3 <= abs(t) / abs(s["peak"]) <= 0.94 for t, s in zip(thrs, srcs))
            for M, t in zip(Ms, thrs):
                if ok and (np.abs(np.abs(M) - abs(t)) < 1e-5 * abs(t)).any():
                    ok = False
            if ok:
                break
            frac = math.exp(rng.uniform(math.log(0.01), math.log(0.9)))
            sigma = rng.uniform(3.0, 12.0)
        if not ok:
            return None
        e = _call_residual(via, imgf, cat, rfile, mfile, op, thr, frac, sigma, renaming)
        if e:
            rec["err"] = e
            return rec
        res, mm = read_image(rfile), read_image(mfile)
        blank = np.isnan(res)
        nz = blank.copy()
        for M in Ms:
            nz |= (M != 0)
        if nz.any():
            rr, cc = np.where(nz.any(axis=1))[0], np.where(nz.any(axis=0))[0]
            r0, r1 = max(int(rr.min()) - 2, 0), min(int(rr.max()) + 3, H)
            c0, c1 = max(int(cc.min()) - 2, 0), min(int(cc.max()) + 3, W)
        else:
            r0, r1, c0, c1 = 0, 1, 0, 1
        inwin = np.zeros((H, W), dtype=bool)
        inwin[r0:r1, c0:c1] = True
        rec.update({
            "win": [r0, c0, r1 - r0, c1 - c0],
            "models": [np.rint(M[r0:r1, c0:c1] / abs(s["peak"]) * 1e9).astype(np.int64).ravel().tolist()
                       for M, s in zip(Ms, srcs)],
            "thrs": [int(round(t / abs(s["peak"]) * 1e9)) for t, s in zip(thrs, srcs)],
            "signs": [s["sign"] for s in srcs],
            "blank": [bool(b) for b in blank[r0:r1, c0:c1].ravel()],
            "outside_blank": int(blank[~inwin].sum()), "outside_total": int((~inwin).sum()),
            "keep_dev_e9": dev9(maxdev(res, img, ~blank), pk),
            "mm_bad": int((~(np.isnan(mm) | (mm == 0))).sum() + (np.isnan(mm) != blank).sum()),
            "single_max_e9": [dev9(maxdev(M), abs(s["peak"])) for M, s in zip(Ms, srcs)],
            "_frac": frac, "_sigma": sigma})
        rec["_info"].update({"frac": frac, "sigma": sigma, "n_blank": int(blank.sum())})
        return rec
    except CodeRaised as e:
        rec["err"] = str(e)
        return rec
    finally:
        _cleanup(pre)


def obs_loop(task):
    _, seed, fmt, via = task
    from AegeanTools import catalogs
    from AegeanTools.source_finder import SourceFinder
    rng = random.Random(seed)
    proj = rng.choice(["SIN", "TAN", "ZEA"])
    sc = scene(rng, proj, 72, 128, rotate=rng.random() < 0.2, cds=(1.0, 5.0, 20.0, 60.0))
    H, W, cd, w = sc["H"], sc["W"], sc["cd"], sc["w"]
    bm = rng.uniform(4.0, 6.0)
    sc["h"]['BMAJ'] = sc["h"]['BMIN'] = bm * cd / 3600.0
    srcs, pts = [], []
    for _ in range(rng.randint(1, 3)):
        for _t in range(100):
            x, y = rng.uniform(24, W - 25), rng.uniform(24, H - 25)
            if all(math.hypot(x - px, y - py) > 46 for px, py in pts):
                break
        else:
            continue
        pts.append((x, y))
        ra, dec = [float(v) for v in w.all_pix2world([[x, y]], 0)[0]]
        a = bm * cd * rng.uniform(1.0, 1.8)
        b = max(bm * cd, a * rng.uniform(0.5, 1.0))
        srcs.append({"ra": ra, "dec": dec, "peak": rng.uniform(1.0, 3.0) * rng.choice([1, 1, -1]),
                     "a": a, "b": b, "pa": rng.uniform(-90, 90), "row": y, "col": x})
    comps = []
    for s in srcs:
        X, Y, sx, sy, th = synth.sky_ellipse_to_pix(w, s["ra"], s["dec"], s["a"] / 3600.0, s["b"] / 3600.0, s["pa"])
        comps.append((s["peak"], X, Y, sx, sy, th))
    img = synth.render((H, W), comps)
    pre = _files("loop")
    imgf = write_image(pre + "_img.fits", img, sc["h"])
    pk = max(abs(s["peak"]) for s in srcs)
    rms = 0.01 * min(abs(s["peak"]) for s in srcs)
    rec = {"id": "loop/%d" % seed, "kind": "loop", "err": "", "H": H, "W": W, "n_true": len(srcs),
           "n_found": -1, "res_e9": IMAX, "_task": list(task),
           "_info": {"proj": proj, "cdelt_arcsec": cd, "beam_px": bm, "rms": rms, "sources": srcs}}
    try:
        with contextlib.redirect_stderr(io.StringIO()):
            found = real(SourceFinder().find_sources_in_image, imgf, rms=rms, bkg=0.0, cores=1, nonegative=False,
                         innerclip=5, outerclip=4, docov=False)
        rec["n_found"] = len(found)
        real(catalogs.save_catalog, pre + "_cat." + fmt, found)
        cat = pre + "_cat_comp." + fmt
        if not os.path.exists(cat):
            rec["err"] = "no component catalogue written (%d sources found)" % len(found)
            return rec
        e = _call_residual(via, imgf, cat, pre + "_res.fits", pre + "_mod.fits", "subtract", "sigma", None, 4.0,
                           "default")
        if e:
            rec["err"] = e
            return rec
        rec["res_e9"] = dev9(maxdev(read_image(pre + "_res.fits")), pk)
    except CodeRaised as e:
        rec["err"] = str(e)
    finally:
        _cleanup(pre)
    return rec


OBS = {"single": obs_single, "additive": obs_additive, "run": obs_run, "loop": obs_loop}


def observe(task):
    return OBS[task[0]](tuple(task))


def _init(d):
    global _DIR
    _DIR = d
    common.quiet_logging()
    np.seterr(all="ignore")


# --------------------------------------------------------------------------------------------
# TLC side
# --------------------------------------------------------------------------------------------
def validate(ctx, recs, name):
    tf = os.path.join(ctx.workdir, name + ".json")
    byid = {r["id"]: r for r in recs}
    if len(byid) != len(recs):
        raise common.MachineryError("duplicate record ids in batch %s" % name)
    common.dump_json(tf, [{k: v for k, v in r.items() if not k.startswith("_")} for r in recs])
    res = ctx.tlc("AeRes_Trace", common.cfg(spec="Spec", post="BatchDone", deadlock=False),
                  name=name, workers=1, env={"TRACE_FILE": tf})
    summary = [p for p in res.printed if isinstance(p, dict) and "accepted" in p]
    rej = [p for p in res.printed if isinstance(p, dict) and "fails" in p]
    if not summary or summary[0]["total"] != len(recs) or summary[0]["accepted"] + len(rej) != len(recs):
        raise common.MachineryError("trace batch %s not fully consumed" % name)
    os.remove(tf)
    out = [(byid[p["id"]], p["fails"]) for p in rej]
    for r, f in out:
        if "input_in_domain" in f or "unknown_record_kind" in f or "unknown_operation" in f:
            raise common.MachineryError("harness produced a record outside the specification's domain: %s %r"
                                        % (r["id"], f))
    return out


def key_of(rec, fails):
    """failing clause(s) + the input class the clause depends on (not the full configuration)."""
    f = ",".join(fails)
    k = rec["kind"]
    if k == "single":
        return "single zone=%s fails=%s" % (rec["_zone"], f)
    q = ""
    if "off_image_contributes_nothing" in fails:
        z = rec.get("_zones", [])
        q += " off_zone=" + ("just" if "just" in z else "+".join(z))
    if k == "additive":
        return "additive fails=%s%s" % (f, q)
    if k == "run":
        if "completed" in fails:
            return "run raised %s renaming=%s" % (rec["err"].split(":")[0], rec["renaming"])
        if "mask_exact" in fails:
            q += " thr=%s signs=%s" % (rec["thr"], "negative" if any(s["sign"] < 0 for s in rec["srcs"])
                                       else "positive")
        if "independent_render" in fails and "off_image_contributes_nothing" not in fails:
            q += " shape=%s" % rec["shape"]
        return "run op=%s fails=%s%s" % (rec["op"], f, q)
    return "%s fails=%s" % (k, f)


def detail_of(rec, fails):
    """what replay() needs (task) + the concrete inputs and the logged observation."""
    obs = {k: v for k, v in rec.items() if not k.startswith("_") and k not in ("models", "blank", "samples")}
    return {"task": rec["_task"], "fails": fails, "id": rec["id"], "err": rec.get("err") or rec.get("_exc", ""),
            "inputs": rec.get("_info", {}), "observed": obs}


def selftest(ctx):
    """binding demonstration: hand-made records that satisfy the relations are accepted, the same
    records with one field corrupted are rejected with the expected clause."""
    ins = {"row_m": 20300, "col_m": 31700, "sign": 1}
    off = {"row_m": -700, "col_m": 31700, "sign": 1}
    bord = {"row_m": 63200, "col_m": 31700, "sign": 1}
    single = {"id": "st-single", "kind": "single", "err": "", "H": 64, "W": 80, "src": ins, "raised": False,
              "n_in5": 400, "dev_with_e9": 420, "dev_zero_e9": 999999999}
    addi = {"id": "st-add", "kind": "additive", "err": "", "H": 64, "W": 80, "srcs": [ins, ins, off],
            "nA": 1, "nB": 1, "n_off": 1, "raised": False, "add_dev_e9": 60, "comm_dev_e9": 0,
            "singles_dev_e9": 80, "off_dev_e9": 0,
            "samples": [[100000000, -30000000, 70000004], [0, 0, 0], [5, 6, 11]]}
    sub = {"id": "st-sub", "kind": "run", "err": "", "op": "subtract", "thr": "frac", "renaming": "default",
           "proj": "SIN", "shape": "inside", "via": "api", "H": 64, "W": 80, "srcs": [ins], "n_inside": 1,
           "rel_dev_e9": 70, "model_dev_e9": 800, "off_dev_e9": 0, "rt_dev_e9": 0, "n_in5": 350}
    add = dict(sub, id="st-addop", op="add", rt_dev_e9=130)
    # a 3 x 3 window: a positive source (peak in the middle), threshold 0.5 of the peak
    g = [100000000, 400000000, 100000000, 400000000, 1000000000, 400000000, 100000000, 400000000, 100000000]
    core = [False, False, False, False, True, False, False, False, False]
    mask = {"id": "st-mask", "kind": "run", "err": "", "op": "mask", "thr": "frac", "renaming": "default",
            "proj": "SIN", "shape": "inside", "via": "api", "H": 64, "W": 80, "srcs": [ins], "n_inside": 1,
            "win": [10, 10, 3, 3], "models": [g], "thrs": [500000000], "signs": [1], "blank": core,
            "outside_blank": 0, "outside_total": 5111, "keep_dev_e9": 0, "mm_bad": 0, "single_max_e9": [1000000000]}
    neg = [-v for v in g]
    negsrc = dict(ins, sign=-1)
    mask_neg_mag = dict(mask, id="st-mask-neg-magnitude", srcs=[negsrc], models=[neg], thrs=[-500000000], signs=[-1])
    mask_neg_sig = dict(mask_neg_mag, id="st-mask-neg-signed", blank=[not b for b in core], outside_blank=5111)
    mask_neg_box = dict(mask_neg_mag, id="st-mask-neg-boxminuscore", blank=[not b for b in core], outside_blank=0)
    two = dict(mask, id="st-mask-two", srcs=[ins, ins], models=[g, [0, 0, 0, 0, 0, 0, 0, 0, 700000000]],
               thrs=[500000000, 600000000], signs=[1, 1],
               blank=[False, False, False, False, True, False, False, False, True], single_max_e9=[1000000000, 700000000])
    loop = {"id": "st-loop", "kind": "loop", "err": "", "H": 90, "W": 90, "n_true": 2, "n_found": 2, "res_e9": 14000}
    recs = [
        single, addi, sub, add, mask, mask_neg_mag, mask_neg_sig, two, loop,
        dict(single, id="st-single-border-ignored", src=bord, dev_with_e9=997000000, dev_zero_e9=0),
        dict(single, id="st-single-off", src=off, dev_with_e9=IMAX, dev_zero_e9=0, n_in5=0),
        dict(single, id="x-single-render", dev_with_e9=100001),
        dict(single, id="x-single-vacuous", n_in5=0),
        dict(single, id="x-single-border", src=bord, dev_with_e9=997000000, dev_zero_e9=3),
        dict(single, id="x-single-off", src=off, dev_zero_e9=1),
        dict(single, id="x-single-raised", src=off, raised=True),
        dict(addi, id="x-add-dev", add_dev_e9=1001),
        dict(addi, id="x-add-sample", samples=[[100000000, -30000000, 70000101]]),
        dict(addi, id="x-add-comm", comm_dev_e9=50000),
        dict(addi, id="x-add-singles", singles_dev_e9=IMAX),
        dict(addi, id="x-add-off", off_dev_e9=1),
        dict(sub, id="x-sub-sign", rel_dev_e9=1999999999),
        dict(sub, id="x-sub-render", model_dev_e9=250000),
        dict(sub, id="x-sub-off", off_dev_e9=7),
        dict(add, id="x-add-rt", rt_dev_e9=1200),
        dict(add, id="x-add-plus", rel_dev_e9=1001),
        dict(sub, id="x-sub-err", err="KeyError: 'Column a already exists'"),
        dict(mask, id="x-mask-onecell", blank=[False, True, False, False, True, False, False, False, False]),
        dict(mask, id="x-mask-thr", thrs=[300000000]),
        dict(mask, id="x-mask-outside", outside_blank=1),
        dict(mask, id="x-mask-keep", keep_dev_e9=1),
        dict(mask, id="x-mask-off", srcs=[off]),
        mask_neg_box,
        dict(two, id="x-mask-two-missing", blank=core),
        dict(loop, id="x-loop", res_e9=1000001),
    ]
    want = {
        "x-single-render": ["independent_render"], "x-single-vacuous": ["independent_render"],
        "x-single-border": ["independent_render"], "x-single-off": ["off_image_contributes_nothing"],
        "x-single-raised": ["raises_nothing"], "x-add-dev": ["additive"], "x-add-sample": ["additive"],
        "x-add-comm": ["order_independent"], "x-add-singles": ["sum_of_single_source_models"],
        "x-add-off": ["off_image_contributes_nothing"], "x-sub-sign": ["subtract_is_image_minus_model"],
        "x-sub-render": ["independent_render"], "x-sub-off": ["off_image_contributes_nothing"],
        "x-add-rt": ["add_then_subtract_restores"], "x-add-plus": ["add_is_image_plus_model"],
        "x-sub-err": ["completed"], "x-mask-onecell": ["mask_exact"], "x-mask-thr": ["mask_exact"],
        "x-mask-outside": ["mask_exact"], "x-mask-keep": ["mask_keeps_other_pixels"],
        "x-mask-off": ["off_image_contributes_nothing"], "st-mask-neg-boxminuscore": ["mask_exact"],
        "x-mask-two-missing": ["mask_exact"], "x-loop": ["closed_loop_residual"],
    }
    got = {r["id"]: f for r, f in validate(ctx, recs, "selftest")}
    if got != want:
        raise common.MachineryError("AeRes_Trace self-test failed: got %r" % (got,))


def run_mc(ctx):
    res = ctx.tlc("MC_AeResConfig", common.cfg(
        spec="Spec", invariants=["Ledger", "Restores", "OffInert", "BlankedIsUnion", "OffNeverBlanks",
                                 "LatticeInDomain"], deadlock=False), coverage=True)
    ctx.require_actions(res, ["Emit", "Add", "Subtract", "Mask"], "MC_AeResConfig")
    lat = [p for p in res.printed if isinstance(p, dict) and "op" in p and "zones" in p]
    seen = set((p["op"], p["thr"], p["renaming"], p["proj"], p["shape"]) for p in lat)
    if len(seen) != 216:
        raise common.MachineryError("MC_AeResConfig emitted %d lattice elements, expected 216" % len(seen))
    uniq = {}
    for p in lat:
        uniq[(p["op"], p["thr"], p["renaming"], p["proj"], p["shape"])] = p
    return [uniq[k] for k in sorted(uniq)]


def _batches(recs):
    """chunks of bounded JSON size (mask grids are large)."""
    out, cur, size = [], [], 0
    for r in recs:
        s = 50 + sum(len(m) for m in r.get("models", [])) + len(r.get("blank", []))
        if cur and (size + s > 1500000 or len(cur) >= 3000):
            out.append(cur)
            cur, size = [], 0
        cur.append(r)
        size += s
    if cur:
        out.append(cur)
    return out


def run(ctx):
    quick = ctx.tier == "quick"
    lattice = run_mc(ctx)
    selftest(ctx)

    rng = random.Random(ctx.seed)
    base = ctx.seed * 1000003
    tasks = []
    # (1) the option lattice, every element (x seeds), API and CLI alternating
    reps = 1 if quick else 8
    for n, el in enumerate(lattice):
        for k in range(reps):
            via = "cli" if (n + k) % 2 else "api"
            zones = {z: [int(v[0]), int(v[1])] for z, v in el["zones"].items()}
            tasks.append(("run", base + 7 * (n * reps + k) + 1, el["op"], el["thr"], el["renaming"], el["proj"],
                          el["shape"], via, zones))
    # (2) seeded runs outside the lattice: mixed catalogues, rotated headers, float64 / 4-D images
    for k in range(160 if quick else 4500):
        tasks.append(("run", base + 500000 + k, rng.choice(["subtract", "add", "mask", "mask"]),
                      rng.choice(["frac", "sigma"]), rng.choice(["default", "default", "renamed"]),
                      rng.choice(["SIN", "TAN", "ZEA"]), "mixed", rng.choice(["api", "api", "cli"]), None))
    # (3) one source at a time against the independent renderer, every position class
    zones = ["in"] * 4 + ["near"] * 3 + ["border"] * 2 + ["just"] * 2 + ["off", "far", "sky"]
    for k in range(800 if quick else 16000):
        tasks.append(("single", base + 600000 + k, zones[k % len(zones)], ["SIN", "TAN", "ZEA"][k % 3]))
    # (4) catalogue subsets
    for k in range(240 if quick else 5000):
        tasks.append(("additive", base + 700000 + k, ["SIN", "TAN", "ZEA"][k % 3]))
    # (5) find -> subtract
    for k in range(32 if quick else 700):
        tasks.append(("loop", base + 800000 + k, ["csv", "tab"][k % 2], ["api", "cli"][(k // 2) % 2]))

    d = os.path.join(ctx.workdir, "files")
    os.makedirs(d, exist_ok=True)
    order = sorted(range(len(tasks)), key=lambda i: 0 if tasks[i][0] == "loop" else 1)   # slow ones first
    with mp.Pool(16, initializer=_init, initargs=(d,)) as pool:
        got = pool.map(observe, [tasks[i] for i in order], chunksize=4)
    recs = [r for r in got if r is not None]
    skipped = len(got) - len(recs)
    if skipped > 0.1 * len(got):
        raise common.MachineryError("%d of %d generated cases were unusable" % (skipped, len(got)))
    rejected = []
    for k, part in enumerate(_batches(recs)):
        rejected += validate(ctx, part, "aeres_trace_%d" % k)

    kinds = {}
    for r in recs:
        kk = r["kind"] if r["kind"] != "run" else "run:" + r["op"]
        kinds[kk] = kinds.get(kk, 0) + 1
    nontriv = sum(1 for r in recs if r["kind"] != "single" or r["n_in5"] > 0 or r["_zone"] in OFF_ZONES)
    ctx.count(evaluations=len(recs), nontrivial=nontriv, traces=len(recs))
    ctx.cov["rule"] = ("one record per real-code evaluation: run = one make_residual/CLI run (files read back) of a "
                       "lattice element or seeded configuration; single = make_model of one source vs the "
                       "independent renderer; additive = a catalogue split; loop = find -> save -> subtract")
    ctx.cov["domain"] = {"lattice_elements": len(lattice), "lattice_reps": reps, "records_by_kind": kinds,
                         "skipped_generated_cases": skipped,
                         "images": "40..128 px, 1/5/20/60 arcsec pixels, |dec| <= 75, SIN/TAN/ZEA, rotated CD headers",
                         "sources": "FWHM 1.5..9 px, axis ratio 0.3..1, PA -180..180, both signs, "
                                    "zones in/near/border/just-off/off/far/other side of the sky"}
    for want in ("single", "run", "loop"):
        for r in recs:
            if r["kind"] == want and (want != "run" or r["op"] != "mask"):
                ctx.sample({k: v for k, v in r.items() if not k.startswith("_") and k != "samples"})
                break
    ctx.assumptions += [
        "harness/synth.py (astropy.wcs + great-circle offsets + pixel Gaussian) is the independent renderer; the "
        "comparison region is its 5-sigma ellipse",
        "the image extends over the pixel areas [-0.5, N-0.5); a source centred in the half-pixel band between the "
        "outermost pixel centre and the pixel edge may be rendered or ignored (both accepted); generated centres keep "
        "0.015 px away from the class boundaries",
        "for a negative source 'exceeds its threshold' is accepted in either reading (signed comparison or magnitudes)",
        "mask thresholds are 1.2e-3..0.94 of the peak and kept >= 1e-5 relative away from every model value "
        "(regenerated otherwise); sigma mode catalogues carry local_rms",
        "at most two sources' 5-sigma footprints overlap on a pixel, catalogues hold <= 7 sources and image values stay within "
        "~2x the peak so that float32 accumulation stays inside the property's 1e-6 for any summation order",
        "closed loop: sources sampled with >= 4 px per FWHM, at least the beam in size, peaks within a factor 3, "
        "rms = 1% of the faintest, docov=False, catalogue saved as csv / tab (FITS tables are float32 by format, C18; "
        "astropy's VOTable writer is avoided: its C extension corrupts the heap in this environment, so VOTable "
        "catalogues are written by hand as TABLEDATA and only read by the code under test)",
        "catalogue tables are written with astropy.table (float64 columns)",
    ]
    for rec, fails in rejected:
        ctx.violation(key_of(rec, fails), detail_of(rec, fails))


def replay(ctx, rec):
    task = rec["detail"]["task"]
    d = os.path.join(ctx.workdir, "files")
    os.makedirs(d, exist_ok=True)
    _init(d)
    r = observe(task)
    if r is None:
        raise common.MachineryError("replayed case is unusable")
    for rr, fails in validate(ctx, [r], "replay"):
        ctx.violation(key_of(rr, fails), detail_of(rr, fails))
    ctx.sample({k: v for k, v in r.items() if not k.startswith("_") and k not in ("models", "blank", "samples")})
    ctx.count(evaluations=1, nontrivial=1, traces=1)
