"""
Shared machinery for the Aegean TLA+ model-based verification harness.

Everything here is stdlib + the repository's own dependencies (run with
/venv/bin/python).  The module provides

* run_tlc(...)      : run TLC on a module of /verif/spec with a generated cfg,
                      parse states / transitions / coverage / PrintT JSON lines
                      / invariant violations.
* Ctx               : per-run context (property id, tier, seed, evidence
                      accumulation, violation / known-finding handling,
                      replay files).
* fixed point helpers used when projecting floats to the integers a TLA+
  trace specification can talk about.

Exit-code contract (enforced by /verif/check):
  0 = property held on everything explored (KNOWN-FINDING lines allowed)
  1 = at least one VIOLATION line printed
  2 = machinery failure (TLC crash, vacuity, self-test failed ...)
"""
import hashlib
import json
import math
import os
import re
import shutil
import struct
import subprocess
import sys
import time

VERIF = os.path.dirname(os.path.dirname(os.path.abspath(__file__)))
REPO = os.environ.get("AEGEAN_REPO", "/repo")
SPEC = os.path.join(VERIF, "spec")
WORKROOT = os.path.join(VERIF, ".work")
TLA_JAR = "/opt/veriftools/tla/tla2tools.jar"
CM_JAR = "/opt/veriftools/tla/CommunityModules-deps.jar"


class MachineryError(Exception):
    pass


# --------------------------------------------------------------------------
# TLC
# --------------------------------------------------------------------------
class TLCResult(object):
    def __init__(self):
        self.rc = None
        self.stdout = ""
        self.generated = 0
        self.distinct = 0
        self.depth = 0
        self.printed = []          # parsed JSON values printed with PrintT(ToJson(..))
        self.violated = None       # name of violated invariant / property
        self.error = None          # other error text
        self.coverage = {}         # action name -> (distinct, taken)
        self.wall = 0.0
        self.cex = []              # counterexample states (raw text blocks)

    @property
    def ok(self):
        return self.rc == 0 and self.violated is None and self.error is None


_RE_STATES = re.compile(r"^(\d+) states generated, (\d+) distinct states found")
_RE_DEPTH = re.compile(r"^The depth of the complete state graph search is (\d+)")
_RE_INV = re.compile(r"^Error: (?:Invariant (\S+) is violated|The invariant of (\S+) is equal to FALSE)")
_RE_PROP = re.compile(r"^Error: (Temporal properties were violated|Action property (\S+) is violated|Deadlock reached)")
_RE_COV = re.compile(r"^<(\w+) line (\d+), col \d+ to line \d+, col \d+ of module (\w+)>: (\d+):(\d+)")


def _java_cmd(heap="8g", tmpdir=None):
    cmd = ["java", "-XX:+UseParallelGC", "-Xmx" + heap]
    if tmpdir:          # TLC leaves a tlc-<n> directory per run in java.io.tmpdir: keep it inside the scratch dir
        os.makedirs(tmpdir, exist_ok=True)
        cmd.append("-Djava.io.tmpdir=" + tmpdir)
    return cmd + ["-cp", TLA_JAR + ":" + CM_JAR, "tlc2.TLC"]


def run_tlc(module, cfg_text, workdir, env=None, workers=16, timeout=1800,
            simulate=None, depth=None, coverage=False, deadlock=False,
            extra=None, heap="8g", seed=None, dfid=None):
    """
    module   : module name (file SPEC/<module>.tla)
    cfg_text : content of the configuration file
    workdir  : scratch dir (created); metadir and cfg live there
    simulate : None or "num=N" style string (passed to -simulate)
    """
    os.makedirs(workdir, exist_ok=True)
    cfg = os.path.join(workdir, module + ".cfg")
    with open(cfg, "w") as f:
        f.write(cfg_text)
    meta = os.path.join(workdir, "meta_" + module)
    shutil.rmtree(meta, ignore_errors=True)
    cmd = _java_cmd(heap, os.path.join(workdir, "jtmp")) + ["-workers", str(workers), "-metadir", meta,
                             "-noGenerateSpecTE", "-config", cfg]
    if not deadlock:
        cmd += ["-deadlock"]
    if coverage:
        cmd += ["-coverage", "1"]
    if simulate is not None:
        cmd += ["-simulate", simulate]
    if depth is not None:
        cmd += ["-depth", str(depth)]
    if seed is not None:
        cmd += ["-seed", str(seed)]
    if dfid is not None:
        cmd += ["-dfid", str(dfid)]
    if extra:
        cmd += list(extra)
    cmd += [os.path.join(SPEC, module + ".tla")]
    e = dict(os.environ)
    if env:
        e.update({k: str(v) for k, v in env.items()})
    t0 = time.time()
    try:
        p = subprocess.run(cmd, cwd=SPEC, env=e, stdout=subprocess.PIPE,
                           stderr=subprocess.STDOUT, timeout=timeout)
        out = p.stdout.decode("utf-8", "replace")
        rc = p.returncode
    except subprocess.TimeoutExpired as ex:
        out = (ex.stdout or b"").decode("utf-8", "replace")
        rc = -9
    res = TLCResult()
    res.wall = time.time() - t0
    res.rc = rc
    res.stdout = out
    in_cex = False
    for line in out.splitlines():
        m = _RE_STATES.match(line)
        if m:
            res.generated = int(m.group(1))
            res.distinct = int(m.group(2))
            continue
        m = _RE_DEPTH.match(line)
        if m:
            res.depth = int(m.group(1))
            continue
        m = _RE_INV.match(line)
        if m:
            res.violated = m.group(1) or m.group(2)
            in_cex = True
            continue
        m = _RE_PROP.match(line)
        if m:
            res.violated = m.group(2) or m.group(1)
            in_cex = True
            continue
        if line.startswith("Error:") and res.error is None and res.violated is None:
            res.error = line
            continue
        m = _RE_COV.match(line)
        if m:
            res.coverage[m.group(1)] = (int(m.group(4)), int(m.group(5)))
            continue
        if line.startswith('"{') or line.startswith('"['):
            try:
                res.printed.append(json.loads(json.loads(line)))
            except Exception:
                pass
            continue
        if in_cex:
            res.cex.append(line)
    if rc == -9:
        res.error = "TLC timeout after %ds" % timeout
    elif rc not in (0,) and res.violated is None and res.error is None:
        # 12 = safety violation, 13 = liveness; others are errors
        res.error = "TLC exit code %d" % rc
    shutil.rmtree(meta, ignore_errors=True)
    return res


def run_tlapm(module, workdir, timeout=900):
    """check the proofs of spec/<module>.tla with the TLA+ proof system; -> number of obligations proved.
    Any unproved obligation / tool failure is a machinery error (a proof is part of the specification)."""
    os.makedirs(workdir, exist_ok=True)
    for f in os.listdir(SPEC):
        if f.endswith(".tla"):
            shutil.copy(os.path.join(SPEC, f), workdir)
    try:
        p = subprocess.run(["tlapm", "--nofp", module + ".tla"], cwd=workdir, capture_output=True, text=True, timeout=timeout)
    except (OSError, subprocess.TimeoutExpired) as e:
        raise MachineryError("tlapm %s: %s" % (module, e))
    out = p.stdout + p.stderr
    m = re.search(r"All (\d+) obligations? proved", out)
    if p.returncode != 0 or not m:
        raise MachineryError("tlapm %s: proof not accepted\n%s" % (module, out[-1500:]))
    return int(m.group(1))


def cfg(spec=None, init=None, next_=None, constants=None, invariants=(),
        properties=(), constraints=(), action_constraints=(), post=None,
        view=None, deadlock=None):
    lines = []
    if spec:
        lines.append("SPECIFICATION " + spec)
    if init:
        lines.append("INIT " + init)
    if next_:
        lines.append("NEXT " + next_)
    if constants:
        lines.append("CONSTANTS")
        for k, v in constants.items():
            lines.append("  %s = %s" % (k, tla_value(v)))
    for i in invariants:
        lines.append("INVARIANT " + i)
    for p in properties:
        lines.append("PROPERTY " + p)
    for c in constraints:
        lines.append("CONSTRAINT " + c)
    for c in action_constraints:
        lines.append("ACTION_CONSTRAINT " + c)
    if post:
        lines.append("POSTCONDITION " + post)
    if view:
        lines.append("VIEW " + view)
    if deadlock is not None:
        lines.append("CHECK_DEADLOCK " + ("TRUE" if deadlock else "FALSE"))
    return "\n".join(lines) + "\n"


def tla_value(v):
    if isinstance(v, bool):
        return "TRUE" if v else "FALSE"
    if isinstance(v, int):
        return str(v)
    if isinstance(v, str):
        if v.startswith("@"):      # raw TLA text / model value
            return v[1:]
        return '"%s"' % v
    if isinstance(v, (set, frozenset)):
        return "{" + ", ".join(tla_value(x) for x in sorted(v, key=repr)) + "}"
    if isinstance(v, (list, tuple)):
        return "<<" + ", ".join(tla_value(x) for x in v) + ">>"
    raise ValueError(v)


# --------------------------------------------------------------------------
# fixed point projection (section 3.4 of DESIGN.md)
# --------------------------------------------------------------------------
INT_MAX = 2 ** 31 - 1


def fx(x, scale):
    """float -> integer units of 1/scale, clamped to the 32-bit range TLC has;
    non-finite values become strings."""
    if x is None:
        return "none"
    x = float(x)
    if math.isnan(x):
        return "nan"
    if math.isinf(x):
        return "inf" if x > 0 else "-inf"
    v = int(round(x * scale))
    if v > INT_MAX:
        return INT_MAX
    if v < -INT_MAX:
        return -INT_MAX
    return v


def ppm(x, ref):
    """relative deviation of x from ref in parts per million (clamped)."""
    if ref == 0:
        return fx(x, 1e6)
    return fx((x - ref) / abs(ref), 1e6)


def hexf(x):
    """IEEE-754 double identity token."""
    return struct.pack(">d", float(x)).hex()


def hexf32(x):
    import numpy as np
    return struct.pack(">d", float(np.float32(x))).hex()


# --------------------------------------------------------------------------
# context
# --------------------------------------------------------------------------
class Ctx(object):
    def __init__(self, pid, tier, seed, level):
        self.pid = pid
        self.tier = tier
        self.seed = seed
        self.level = level
        self.t0 = time.time()
        self.workdir = os.path.join(WORKROOT, "%s-%d" % (pid, os.getpid()))
        shutil.rmtree(self.workdir, ignore_errors=True)
        os.makedirs(self.workdir, exist_ok=True)
        self.cov = {"states": 0, "transitions": 0,
                    "traces_validated_against_impl": 0, "samples": [],
                    "evaluations": 0, "distinct_nontrivial": 0, "rule": "",
                    "tlc_jobs": [], "actions": {}}
        self.assumptions = []
        self.violations = []       # (key, replay path), one per distinct key
        self._vkeys = {}           # key -> number of failing cases
        self.known = []
        self.warnings = []
        self._kf = load_known_findings()
        self.notes = {}

    # ---- TLC wrappers -----------------------------------------------------
    def tlc(self, module, cfg_text, name=None, must_pass=True, **kw):
        """Run a TLC job, account its coverage; a failure that is not an
        invariant violation is a machinery error."""
        name = name or module
        wd = os.path.join(self.workdir, name)
        res = run_tlc(module, cfg_text, wd, **kw)
        self.cov["states"] += res.distinct
        self.cov["transitions"] += res.generated
        job = {"job": name, "module": module, "distinct": res.distinct,
               "generated": res.generated, "depth": res.depth,
               "wall_s": round(res.wall, 2), "violated": res.violated}
        self.cov["tlc_jobs"].append(job)
        for a, (d, t) in res.coverage.items():
            self.cov["actions"][name + "." + a] = t
        if res.error is not None:
            tail = "\n".join(res.stdout.splitlines()[-40:])
            raise MachineryError("TLC job %s failed: %s\n%s" % (name, res.error, tail))
        if must_pass and res.violated is not None:
            tail = "\n".join(res.stdout.splitlines()[-60:])
            raise MachineryError("TLC job %s: unexpected violation of %s on the model\n%s"
                                 % (name, res.violated, tail))
        return res

    def require_actions(self, res, names, job):
        for n in names:
            if n not in res.coverage or res.coverage[n][1] == 0:
                raise MachineryError("vacuity: action %s never taken in %s" % (n, job))

    # ---- verdicts ---------------------------------------------------------
    def violation(self, key, detail, replay=None):
        """key identifies the failing input / call site / history class."""
        for k in self._kf:
            if k.get("status") == "known" and k["property"] == self.pid and \
                    re.search(k["match"], key):
                if (k["match"], k["what"]) not in [(x[0], x[1]) for x in self.known]:
                    self.known.append((k["match"], k["what"], key))
                return False
        if key in self._vkeys:          # same failing class seen already in this run
            self._vkeys[key] += 1
            return True
        self._vkeys[key] = 1
        path = self.write_replay(key, detail if replay is None else replay)
        self.violations.append((key, path))
        if len(self.violations) <= 40:
            print("VIOLATION property=%s replay=%s  # %s" % (self.pid, path, key))
            sys.stdout.flush()
        return True

    def write_replay(self, key, detail):
        d = os.path.join(VERIF, "replays", self.pid)
        os.makedirs(d, exist_ok=True)
        blob = json.dumps({"property": self.pid, "key": key, "detail": detail},
                          sort_keys=True, default=str)
        h = hashlib.sha1(blob.encode()).hexdigest()[:12]
        p = os.path.join(d, h + ".json")
        with open(p, "w") as f:
            f.write(blob)
        return p

    def sample(self, s):
        if len(self.cov["samples"]) < 8:
            self.cov["samples"].append(s)

    def count(self, evaluations=0, nontrivial=0, traces=0):
        self.cov["evaluations"] += evaluations
        self.cov["distinct_nontrivial"] += nontrivial
        self.cov["traces_validated_against_impl"] += traces

    def finish(self):
        for m, what, key in self.known:
            print("KNOWN-FINDING: property=%s %s [first seen: %s]" % (self.pid, what, key))
        ev = {
            "property_id": self.pid, "tier": self.tier, "seed": self.seed,
            "level": self.level, "coverage": self.cov,
            "assumptions": self.assumptions,
            "wall_s": round(time.time() - self.t0, 2),
            "violations": len(self.violations),
            "violating_cases": sum(self._vkeys.values()),
            "known_findings_hit": [k[1] for k in self.known],
            "warnings": self.warnings, "notes": self.notes,
        }
        if not self.cov["samples"]:
            self.cov["samples"].append("no sample recorded")
        os.makedirs(os.path.join(VERIF, "evidence"), exist_ok=True)
        with open(os.path.join(VERIF, "evidence", self.pid + ".json"), "w") as f:
            json.dump(ev, f, indent=1, sort_keys=True, default=str)
        shutil.rmtree(self.workdir, ignore_errors=True)
        if len(self.violations) > 40:
            print("... %d distinct violations in total" % len(self.violations))
        return 1 if self.violations else 0


def _isolated_child(func, job, conn, mem_gb):
    try:
        if mem_gb:
            import resource
            lim = int(mem_gb * 2 ** 30)
            resource.setrlimit(resource.RLIMIT_AS, (lim, lim))
        conn.send(("ok", func(job)))
    except BaseException as e:          # MemoryError included
        try:
            conn.send(("err", "%s: %s" % (type(e).__name__, str(e)[:200])))
        except Exception:
            pass
    finally:
        conn.close()


def map_isolated(func, jobs, workers=16, timeout=600, mem_gb=8, on_fail=None):
    """func(job) for every job, each in a process of its own (fork), at most `workers` at a time, with a wall-clock
    and an address-space limit.  A job whose process dies, runs out of memory or time gives on_fail(job, why)
    instead of breaking the whole pool - the real code under a seeded change may do any of these."""
    import multiprocessing as mp
    ctxm = mp.get_context("fork")
    results = [None] * len(jobs)
    pending = list(enumerate(jobs))[::-1]
    running = {}
    while pending or running:
        while pending and len(running) < workers:
            i, job = pending.pop()
            parent, child = ctxm.Pipe(duplex=False)
            pr = ctxm.Process(target=_isolated_child, args=(func, job, child, mem_gb))
            pr.start()
            child.close()
            running[i] = (pr, parent, time.time(), job)
        done = []
        for i, (pr, parent, t0, job) in running.items():
            why = None
            if parent.poll(0):
                try:
                    kind, val = parent.recv()
                    if kind == "ok":
                        results[i] = val
                    else:
                        why = val
                except (EOFError, OSError):
                    why = "worker died"
                done.append((i, why))
            elif not pr.is_alive():
                done.append((i, "worker died (exit code %s)" % pr.exitcode))
            elif time.time() - t0 > timeout:
                pr.kill()
                done.append((i, "no result after %d s" % timeout))
        for i, why in done:
            pr, parent, t0, job = running.pop(i)
            pr.join(5)
            parent.close()
            if why is not None:
                results[i] = on_fail(job, why) if on_fail else None
        if not done:
            time.sleep(0.02)
    return results


def load_known_findings():
    p = os.path.join(VERIF, "known_findings.json")
    if not os.path.exists(p):
        return []
    with open(p) as f:
        return json.load(f).get("findings", [])


def chunks(seq, n):
    for i in range(0, len(seq), n):
        yield seq[i:i + n]


def dump_json(path, obj):
    with open(path, "w") as f:
        json.dump(obj, f, separators=(",", ":"))


def quiet_logging():
    import logging
    logging.disable(logging.CRITICAL)
