"""Child process for C06: one real BANE.filter_image run on one generated image.

The image is described by a JSON `spec` (argv[1]); `make_image(spec)` is also
imported by harness/c06.py so that parent and child agree on the pixel values.
All pixel values live on a dyadic lattice (integer Z times q = 2**qexp) so that
every member of a relation group (img, img + c, k * img) is represented exactly
in the FITS file: the relation is then a statement about BANE, not about the
rounding of the test inputs.
"""
import json
import os
import sys


def lattice(spec):
    """-> (Z int64 lattice image of the *physical* plane, blank mask, inf mask)."""
    import numpy as np
    rng = np.random.default_rng(int(spec["imgseed"]))
    rows, cols = int(spec["rows"]), int(spec["cols"])
    sig = int(spec.get("sigma_u", 256))
    if spec.get("constant") is not None:
        z = np.full((rows, cols), int(spec["constant"]), dtype=np.int64)
    else:
        z = np.rint(rng.normal(0.0, sig, (rows, cols))).astype(np.int64)
        z += int(spec.get("dc_u", 0))
        gr, gc = spec.get("grad_u", [0, 0])
        z += int(gr) * np.arange(rows, dtype=np.int64)[:, None]
        z += int(gc) * np.arange(cols, dtype=np.int64)[None, :]
        yy, xx = np.mgrid[0:rows, 0:cols]
        for (r0, c0, amp, w) in spec.get("sources", []):
            g = amp * np.exp(-0.5 * ((yy - r0) ** 2 + (xx - c0) ** 2) / float(w) ** 2)
            z += np.rint(g).astype(np.int64)
    kn, kd = spec.get("scale", [1, 1])
    # k = kn / kd with kd a power of two: the lattice integers are multiplied by
    # kn and the lattice unit is divided by kd (see qexp_eff), so k * img is exact
    if kd & (kd - 1) or kd < 1:
        raise ValueError("scale denominator must be a power of two")
    if kd != 1 and spec.get("add_u", 0):
        raise ValueError("add and fractional scale are not combined")
    z = z * int(kn) + int(spec.get("add_u", 0))
    blank = np.zeros((rows, cols), dtype=bool)
    for (r0, r1, c0, c1) in spec.get("nan", []):
        blank[r0:r1, c0:c1] = True
    inf = np.zeros((rows, cols), dtype=bool)
    for (r, c, sgn) in spec.get("inf", []):
        inf[r, c] = True
    return z, blank, inf


def qexp_eff(spec):
    kd = int(spec.get("scale", [1, 1])[1])
    return int(spec.get("qexp", -8)) - (kd.bit_length() - 1)


def make_image(spec):
    """physical image (float64, NaN/inf where blank) of the plane BANE must use."""
    import numpy as np
    z, blank, inf = lattice(spec)
    img = z.astype(np.float64) * 2.0 ** qexp_eff(spec)
    img[blank] = np.nan
    for (r, c, sgn) in spec.get("inf", []):
        img[r, c] = np.inf if sgn > 0 else -np.inf
    return img


def write_fits(spec, path):
    """write the image in the representation spec['repr']; returns cube_index."""
    import numpy as np
    from astropy.io import fits
    img = make_image(spec)
    rep = spec.get("repr", "2d")
    dt = np.float64 if spec.get("dtype", "f32") == "f64" else np.float32
    cube_index = None
    bscale = None
    if rep in ("bscale", "bscale_i16"):
        bscale = 2.0 ** int(spec.get("bscale_exp", 1))
    if rep == "bscale_i16":
        raw = img / bscale
        if not np.all(np.isfinite(raw)) or np.any(raw != np.rint(raw)) or np.abs(raw).max() > 32000:
            raise ValueError("image not representable as int16 * BSCALE")
        data = raw.astype(np.int16)
    else:
        raw = img if bscale is None else img / bscale
        data = raw.astype(dt)
        fin = np.isfinite(raw)
        if np.any(data[fin].astype(np.float64) != raw[fin]):
            raise ValueError("image not exactly representable in the file dtype")
    rng = np.random.default_rng(int(spec["imgseed"]) + 7919)
    if rep in ("3d", "4d"):
        nplanes = int(spec.get("nplanes", 3))
        cube_index = int(spec.get("cube_index", 1))
        planes = []
        for k in range(nplanes):
            if k == cube_index:
                planes.append(data)
            else:
                # decoys: other level, other noise, other blank pattern
                other = (rng.normal(0.0, 3.0, data.shape) + 17.0 * (k + 1)) * \
                    (np.nanmax(np.abs(img[np.isfinite(img)])) if np.isfinite(img).any() else 1.0)
                other = other.astype(dt)
                other[::3, ::5] = np.nan
                planes.append(other)
        data = np.stack(planes)
        if rep == "4d":
            data = data[None, ...]
    hdu = fits.PrimaryHDU(data)
    h = hdu.header
    h['CTYPE1'] = 'RA---SIN'
    h['CTYPE2'] = 'DEC--SIN'
    h['CRVAL1'] = 45.0
    h['CRVAL2'] = -30.0
    h['CRPIX1'] = spec["cols"] / 2.0
    h['CRPIX2'] = spec["rows"] / 2.0
    h['CDELT1'] = -0.01
    h['CDELT2'] = 0.01
    if bscale is not None:
        h['BSCALE'] = bscale
        if rep == "bscale_i16":
            h['BZERO'] = 0.0
    hdu.writeto(path, overwrite=True)
    return cube_index


def read_map(path, compressed):
    import numpy as np
    from astropy.io import fits
    if compressed:
        from AegeanTools import fits_tools
        return np.array(fits_tools.expand(path)[0].data)
    with fits.open(path) as hl:
        return np.array(hl[0].data)


def main():
    spec = json.loads(sys.argv[1])
    import logging
    logging.disable(logging.CRITICAL)
    import numpy as np
    d = spec["dir"]
    out = {"outcome": "returned"}
    try:
        im = os.path.join(d, "im.fits")
        if spec.get("pre"):
            # process history: an earlier BANE call in this process on the SAME file name, whose
            # contents (size, BSCALE, number of axes) are then replaced by the image under test
            pre = dict({k: v for k, v in spec.items() if k not in ("pre", "nan", "inf", "sources", "grad_u",
                                                                     "dc_u", "add_u", "scale", "stationary")},
                       **spec["pre"])
            write_fits(pre, im)
            try:
                from AegeanTools import BANE as _B
                _B.filter_image(im, None, step_size=(int(spec["grid"]),) * 2, box_size=(int(spec["box"]),) * 2,
                                cores=1, nslice=1)
            except BaseException:
                pass
        cube_index = write_fits(spec, im)
    except BaseException as e:           # the harness must never feed BANE a bad input
        print("BANE_CHILD_RESULT " + json.dumps({"outcome": "badinput", "text": str(e)[-300:]}))
        sys.stdout.flush()
        os._exit(0)
    from AegeanTools import BANE
    try:
        g, b = int(spec["grid"]), int(spec["box"])
        out_base = os.path.join(d, "out") if spec.get("out") else None
        kw = {}
        if cube_index is not None:
            kw["cube_index"] = cube_index
        if spec.get("via") == "cli":
            # the command line front end (files are the only observation site)
            from AegeanTools.CLI import BANE as cli
            argv = [im, "--out", out_base, "--grid", str(g), str(g), "--box", str(b), str(b),
                    "--cores", str(int(spec["cores"])), "--stripes", str(int(spec["stripes"]))]
            if cube_index is not None:
                argv += ["--slice", str(cube_index)]
            if not spec["mask"]:
                argv.append("--nomask")
            if spec.get("compressed", False):
                argv.append("--compress")
            rc = cli.main(argv)
            logging.disable(logging.CRITICAL)
            res = () if rc == 0 else None
        else:
            res = BANE.filter_image(im, out_base, step_size=(g, g), box_size=(b, b),
                                    cores=int(spec["cores"]), mask=bool(spec["mask"]),
                                    nslice=int(spec["stripes"]),
                                    compressed=bool(spec.get("compressed", False)), **kw)
        if res is None:
            out = {"outcome": "raised", "error": "ReturnedNone", "text": "filter_image returned None / CLI status != 0"}
        else:
            if len(res) == 2:
                bkg, rms = res
                np.save(os.path.join(d, "bkg.npy"), np.asarray(bkg))
                np.save(os.path.join(d, "rms.npy"), np.asarray(rms))
            out["files"] = False
            if out_base is not None:
                fb, fr = out_base + "_bkg.fits", out_base + "_rms.fits"
                if os.path.exists(fb) and os.path.exists(fr):
                    np.save(os.path.join(d, "fbkg.npy"), read_map(fb, spec.get("compressed", False)))
                    np.save(os.path.join(d, "frms.npy"), read_map(fr, spec.get("compressed", False)))
                    out["files"] = True
    except BaseException as e:
        out = {"outcome": "raised", "error": type(e).__name__, "text": str(e)[-400:]}
    print("BANE_CHILD_RESULT " + json.dumps(out))
    sys.stdout.flush()
    # leave without finalisers (see bane_child.py); the harness reaps the process group
    os._exit(0)


if __name__ == "__main__":
    main()
