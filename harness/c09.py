"""
C09 - circle and polygon regions cover their shape and nothing far from it.

model  : spec/ShapeCover.tla (the inside/outside/area rule over micro-degrees
         and scaled areas), spec/MC_ShapeConfig.tla (TLC enumerates and prunes
         the configuration lattice of the quantifier and checks the rule's
         arithmetic: threshold table, exact area comparison, rule consistency)
binding: every emitted lattice point is executed on the real
         Region.add_circles / add_poly + sky_within + get_area with seeded
         centres / radii / query positions; the harness only computes the
         *inputs* of the rule (great-circle distances with the atan2(|a x b|,
         a.b) formula, signed distances from polygon edges, cap areas) and TLC
         validates every record against spec/Shape_Trace.tla.  The cap areas
         themselves are cross-checked by TLC against pixel-centre counts.
         Besides the five centre classes of the design the lattice has the class
         "origin_int" (ra = 0, dec = 0 written as the integers 0, 0) and every
         record carries a few query positions written as integers: integer-typed
         radian input is silently truncated by Region.sky2ang (finding of this check).
"""
import math
import os
import random
import multiprocessing as mp
from concurrent.futures import ThreadPoolExecutor

import numpy as np

from harness import common

LEVEL = "exploration"
MAXPIX = 200000
INT_MAX = 2 ** 31 - 1
TWO_PI = 2 * math.pi
UDEG = math.radians(1e-6)          # one micro-degree in radians
PIX0_UDEG = 58632302               # only used to *choose* counting levels / radii;
                                   # the choice is validated by the spec (CapBracketed)
MACHINERY_CLAUSES = ("record_wellformed", "cap_areas_bracketed_by_counts", "nonvacuous",
                     "unknown_record_kind")


# --------------------------------------------------------------------------
# spherical helpers (inputs of the rule)
# --------------------------------------------------------------------------
def unit(ra, dec):
    ra = np.asarray(ra, dtype=float)
    dec = np.asarray(dec, dtype=float)
    cd = np.cos(dec)
    return np.stack([cd * np.cos(ra), cd * np.sin(ra), np.sin(dec)], axis=-1)


def angdist(a, b):
    """great-circle distance, atan2(|a x b|, a . b); a: (3,), b: (..., 3)"""
    cr = np.linalg.norm(np.cross(a, b), axis=-1)
    return np.arctan2(cr, np.sum(a * b, axis=-1))


def offset(ra, dec, bearing, dist):
    """position at great-circle distance dist from (ra, dec) along bearing"""
    c = unit(ra, dec)
    e = np.array([-math.sin(ra), math.cos(ra), 0.0])
    n = np.array([-math.sin(dec) * math.cos(ra), -math.sin(dec) * math.sin(ra), math.cos(dec)])
    p = c * math.cos(dist) + (e * math.sin(bearing) + n * math.cos(bearing)) * math.sin(dist)
    return tosky(p)


def tosky(p):
    x, y, z = float(p[0]), float(p[1]), float(p[2])
    ra = math.atan2(y, x) % TWO_PI
    if ra >= TWO_PI:
        ra = 0.0
    return ra, math.atan2(z, math.hypot(x, y))


def scaled_area(frac_of_sphere, up):
    """fraction of the sphere -> <<m, lev>> with m thousandths of a level-lev
    pixel; rounded down (up=False) or up (up=True)."""
    lev = 29
    while lev > 0 and frac_of_sphere * 12.0 * 4.0 ** lev * 1000.0 >= 2 ** 30:
        lev -= 1
    m = frac_of_sphere * 12.0 * 4.0 ** lev * 1000.0
    m = math.ceil(m) if up else math.floor(m)
    return [int(min(max(m, 0), INT_MAX)), lev]


def cap_fraction(r_udeg):
    return math.sin(math.radians(r_udeg * 1e-6) / 2.0) ** 2     # (1 - cos r) / 2


def cap_counts(cvec, rad_udeg):
    """numbers of pixel centres of a suitable level within rin < rad < rout"""
    import healpy as hp
    lev = int(min(29, max(0, math.ceil(math.log2(30.0 * PIX0_UDEG / rad_udeg)))))
    p = -(-PIX0_UDEG // 2 ** lev)
    rin, rout = rad_udeg - 2 * p - 1, rad_udeg + 2 * p + 1
    cand = hp.query_disc(2 ** lev, cvec, min(math.pi, (rout + 2 * p) * UDEG), inclusive=False, nest=True)
    cen = np.array(hp.pix2vec(2 ** lev, cand, nest=True)).T
    d = angdist(cvec, cen)
    return {"lev": lev, "rin": int(rin), "nin": int(np.sum(d <= rin * UDEG)),
            "rout": int(rout), "nout": int(np.sum(d <= rout * UDEG))}


# --------------------------------------------------------------------------
# input generation
# --------------------------------------------------------------------------
def job_rng(job):
    return random.Random("c09|%d|%s|%d" % (job["ctxseed"], job_id(job), job["s"]))


def job_id(job):
    c = job["cfg"]
    return "%s/d%d/r%d/%s/%s/nv%d/s%d" % (c["cclass"], c["depth"], c["rnom"], c["units"],
                                          c["form"], c["nv"], job["s"])


RLOW = {10000: 10000, 1000000: 12500, 20000000: 1250000, 60000000: 25000000}


def draw_centre(rng, cclass):
    ra = rng.uniform(0.2, 6.0)
    dec = math.asin(rng.uniform(-0.95, 0.95))
    if cclass == "npole":
        dec = math.pi / 2
    elif cclass == "spole":
        dec = -math.pi / 2
    elif cclass == "ra0":
        ra = 0.0
    elif cclass == "ra360":
        ra = TWO_PI - 10.0 ** rng.uniform(-12, -6)
    elif cclass == "origin_int":        # ra = 0, dec = 0 written as integers
        ra, dec = 0, 0
    return ra, dec


def draw_radius(rng, job):
    rnom, s = job["cfg"]["rnom"], job["s"]
    if s == 0:
        return rnom
    lo, hi = RLOW[rnom], job["rupper"]
    return int(round(math.exp(rng.uniform(math.log(lo), math.log(hi)))))


def gen_positions(rng, job, cra, cdec, r, vertices=None):
    """query positions (ra, dec) in radians with a class label; ~nq of them"""
    nq = job["nq"]
    margin = job["margin"] * UDEG
    keep_in = max(2e-6 * r, 4 * UDEG)
    far0 = r + margin
    keep_out = max(2e-6 * far0, 4 * UDEG)
    out = [("centre", cra, cdec)]
    n_ring = max(8, nq // 5)
    n_int = max(8, nq // 5)
    n_far = max(6, nq // 8)
    b0 = rng.uniform(0, TWO_PI)
    for k in range(n_int if vertices is None else n_int // 3):
        out.append(("interior",) + offset(cra, cdec, rng.uniform(0, TWO_PI), r * math.sqrt(rng.random()) * 0.999))
    for k in range(n_ring if vertices is None else 4):
        out.append(("ring_in",) + offset(cra, cdec, b0 + TWO_PI * k / n_ring, r - keep_in))
    for k in range(n_ring):
        out.append(("ring_out",) + offset(cra, cdec, b0 + TWO_PI * (k + 0.5) / n_ring, far0 + keep_out))
    for k in range(n_far):
        out.append(("far",) + offset(cra, cdec, rng.uniform(0, TWO_PI),
                                     rng.uniform(far0 + 2 * keep_out, math.pi)))
    out.append(("far",) + offset(cra, cdec, 0.0, math.pi))          # antipode
    for k in range(max(4, nq // 20)):                                   # unconstrained annulus
        out.append(("annulus",) + offset(cra, cdec, rng.uniform(0, TWO_PI), r + margin * rng.uniform(0.05, 0.95)))
    # the poles
    out += [("pole", 0.0, math.pi / 2), ("pole", rng.uniform(0, TWO_PI), math.pi / 2),
            ("pole", 0.0, -math.pi / 2), ("pole", rng.uniform(0, TWO_PI), -math.pi / 2)]
    # both sides of RA = 0
    decs = [cdec, 0.0] + [math.asin(rng.uniform(-1, 1)) for _ in range(3)]
    for d in decs:
        d = min(max(d, -math.pi / 2), math.pi / 2)
        for e in (1e-9, min(r / 2, 0.1)):
            out += [("wrap", 0.0, d), ("wrap", e, d), ("wrap", TWO_PI - e, d)]
    if vertices is not None:
        vv = unit(*zip(*vertices))
        nv = len(vv)
        cen = vv.sum(axis=0)
        for k in range(n_int):                     # positive combinations = interior
            w = np.array([0.02 + rng.random() ** 2 for _ in range(nv)])
            out.append(("poly_int",) + tosky(w @ vv))
        for k in range(n_ring):                    # just inside an edge / a vertex
            i = k % nv
            t = rng.uniform(0.02, 0.98)
            base = vv[i] * t + vv[(i + 1) % nv] * (1 - t) if k % 3 else vv[i]
            f = 10.0 ** rng.uniform(-3, -1)
            out.append(("poly_edge",) + tosky(base * (1 - f) + cen / nv * f))
        for k in range(max(4, nq // 20)):          # just outside an edge (unconstrained or interior of the circle)
            i = k % nv
            base = vv[i] + vv[(i + 1) % nv]
            out.append(("poly_out",) + tosky(base * 1.0005 - cen / nv * 0.001))
    return out


def make_polygon(rng, cra, cdec, r, nv):
    """convex polygon inscribed in the circle (centre, r): vertex positions
    (ra, dec) in the order given to add_poly (either orientation)."""
    b0 = rng.uniform(0, TWO_PI)
    bear = [b0 + TWO_PI * (k + rng.uniform(-0.25, 0.25)) / nv for k in range(nv)]
    if rng.random() < 0.5:
        bear.reverse()
    k0 = rng.randrange(nv)
    bear = bear[k0:] + bear[:k0]
    return [offset(cra, cdec, b, r) for b in bear]


def edge_normals(vertices):
    vv = unit(*zip(*vertices))
    nv = len(vv)
    nrm = np.array([np.cross(vv[i], vv[(i + 1) % nv]) for i in range(nv)])
    nrm /= np.linalg.norm(nrm, axis=1)[:, None]
    if np.dot(nrm[0], vv.sum(axis=0)) < 0:         # orientation: inner side positive
        nrm = -nrm
    return nrm


def thin(labels, n):
    """evenly thin a list of positions (used for scalar calls on big regions)"""
    if len(labels) <= n:
        return list(range(len(labels)))
    step = len(labels) / float(n)
    return sorted({int(i * step) for i in range(n)})


# --------------------------------------------------------------------------
# driving the real code
# --------------------------------------------------------------------------
INT_POS = {"rad": [(0, 0), (1, 0), (0, 1), (3, -1), (6, 1), (5, 0), (2, 1)],
           "deg": [(0, 0), (0, 90), (0, -90), (10, -30), (359, 0), (1, 1), (180, 45), (300, -60)]}


def call_within(reg, ra, dec, degin, form, aslist):
    """one query call in the given argument form -> list of bool"""
    if form == "scalar":
        out = []
        for a, d in zip(ra, dec):
            res = np.asarray(reg.sky_within(a, d, degin=degin))
            if res.shape != (1,):
                raise RuntimeError("sky_within(scalar) returned shape %r" % (res.shape,))
            out.append(bool(res[0]))
        return out
    if len(ra) == 0:
        return []
    if aslist:
        res = np.asarray(reg.sky_within(list(ra), list(dec), degin=degin))
    else:
        res = np.asarray(reg.sky_within(np.array(ra), np.array(dec), degin=degin))
    if res.shape != (len(ra),):
        raise RuntimeError("sky_within(vector of %d) returned shape %r" % (len(ra), res.shape))
    return [bool(x) for x in res]


def observe(job):
    from AegeanTools.regions import Region
    cfg = job["cfg"]
    rng = job_rng(job)
    depth, nv, units, form = cfg["depth"], cfg["nv"], cfg["units"], cfg["form"]
    shape = "circle" if nv == 0 else "poly"
    rec = {"id": job_id(job), "shape": shape, "nv": nv, "cclass": cfg["cclass"], "rnom": cfg["rnom"],
           "units": units, "form": form, "depth": depth, "s": job["s"], "r_udeg": 0,
           "queries": [], "err": ""}
    cra, cdec = draw_centre(rng, cfg["cclass"])
    r_udeg = draw_radius(rng, job)
    r = math.radians(r_udeg * 1e-6)
    rec["r_udeg"] = r_udeg
    cvec = unit(cra, cdec)
    vertices = make_polygon(rng, cra, cdec, r, nv) if nv else None
    explicit_depth = rng.random() < 0.5
    aslist = rng.random() < 0.5
    pos = gen_positions(rng, job, cra, cdec, r, vertices)
    if form == "scalar" and job["expected"] > 20000:
        pos = [pos[i] for i in thin(pos, max(24, job["nq"] // 5))]
    labels = [p[0] for p in pos]
    qra = np.array([p[1] for p in pos], dtype=float)
    qdec = np.array([p[2] for p in pos], dtype=float)
    # nat = what the code is given (in its unit), q = the same position in radians
    if units == "deg":
        nra, ndec = np.degrees(qra), np.degrees(qdec)
        ndec[qdec == math.pi / 2] = 90.0          # the poles are exact in degrees as well
        ndec[qdec == -math.pi / 2] = -90.0
        qra, qdec = np.radians(nra), np.radians(ndec)
    else:
        nra, ndec = qra, qdec
    nat = [(float(a), float(d)) for a, d in zip(nra, ndec)]
    # positions written as integers in the unit of the call (passed as Python ints)
    ipos = INT_POS[units]
    nat += ipos
    labels += ["int"] * len(ipos)
    ira = np.array([p[0] for p in ipos], dtype=float)
    idec = np.array([p[1] for p in ipos], dtype=float)
    if units == "deg":
        ira, idec = np.radians(ira), np.radians(idec)
    qra, qdec = np.concatenate([qra, ira]), np.concatenate([qdec, idec])
    isint = np.array([False] * (len(nat) - len(ipos)) + [True] * len(ipos))
    qvec = unit(qra, qdec)
    dist = angdist(cvec, qvec)
    # keep the rule's inputs away from its thresholds
    far0 = r + job["margin"] * UDEG
    keep = (np.abs(dist - r) >= max(1e-6 * r, 2 * UDEG)) & (np.abs(dist - far0) >= max(1e-6 * far0, 2 * UDEG))
    edges = None
    if nv:
        nrm = edge_normals(vertices)
        edges = np.arcsin(np.clip(qvec @ nrm.T, -1, 1))
        keep &= np.all(np.abs(edges) >= max(1e-6 * r, 2 * UDEG), axis=1)
    rec["dropped"] = int(np.sum(~keep))
    idx = [int(i) for i in np.nonzero(keep)[0]]
    nat, dist, labels, isint = [nat[i] for i in idx], dist[idx], [labels[i] for i in idx], isint[idx]
    if nv:
        edges = edges[idx]
    degin = units == "deg"
    nf = int(np.sum(~isint))                      # float-typed positions come first
    try:
        reg = Region(maxdepth=depth)
        # an insertion depth beyond the region's maxdepth is clamped to maxdepth by the API
        dkw = {"depth": depth + rng.choice([0, 0, 1, 3])} if explicit_depth else {}
        if nv == 0 and rng.random() < 0.3:
            # the shape is built in two steps with a query in between: a concentric circle of
            # half the radius first (a subset, so the final region is the same circle)
            reg.add_circles(float(cra), float(cdec), r / 2.0, **dkw)
            reg.sky_within(float(cra), float(cdec))
        if nv == 0:
            if form == "scalar":
                reg.add_circles(cra, cdec, r, **dkw)
            elif cfg["cclass"] == "origin_int":
                reg.add_circles([cra], [cdec], [r], **dkw)
            else:
                reg.add_circles(np.array([cra]), np.array([cdec]), np.array([r]), **dkw)
        else:
            reg.add_poly([[a, d] for a, d in vertices], **dkw)
        ans = call_within(reg, [p[0] for p in nat[:nf]], [p[1] for p in nat[:nf]], degin, form, aslist)
        ans += call_within(reg, [p[0] for p in nat[nf:]], [p[1] for p in nat[nf:]], degin, form, True)
        if nv == 0:
            a_deg = float(reg.get_area())
            a_sr = float(reg.get_area(degrees=False))
    except Exception as e:
        rec["err"] = "%s: %s" % (type(e).__name__, str(e)[:200])
        return rec, []
    du = [int(round(x / UDEG)) for x in dist]
    if nv == 0:
        rec["queries"] = [[d, a] for d, a in zip(du, ans)]
        pix_sr = 4 * math.pi / (12 * 4 ** depth)
        pix_deg = pix_sr * (180 / math.pi) ** 2

        def whole(x):
            if not math.isfinite(x):
                return [INT_MAX, depth]
            return [int(min(max(round(x * 1000), 0), INT_MAX)), depth]
        rhi = r_udeg + job["margin"]
        rec["areas"] = {"region": whole(a_deg / pix_deg), "region_sr": whole(a_sr / pix_sr),
                        "caplo": scaled_area(cap_fraction(r_udeg), up=False),
                        "caphi": scaled_area(cap_fraction(rhi), up=True),
                        "cntlo": cap_counts(cvec, r_udeg), "cnthi": cap_counts(cvec, rhi)}
    else:
        eu = [[int(max(min(round(x / UDEG), INT_MAX), -INT_MAX)) for x in row] for row in edges]
        rec["queries"] = [[d, a, e] for d, a, e in zip(du, ans, eu)]
    side = [{"label": l, "ra": repr(p[0]), "dec": repr(p[1]), "degin": degin, "call": form}
            for l, p in zip(labels, nat)]
    rec["centre"] = [repr(cra), repr(cdec)]
    return rec, side


def _init():
    common.quiet_logging()


# --------------------------------------------------------------------------
# TLC validation
# --------------------------------------------------------------------------
def validate(ctx, recs, name):
    tf = os.path.join(ctx.workdir, name + ".json")
    byid = {r["id"]: r for r in recs}
    if len(byid) != len(recs):
        raise common.MachineryError("duplicate record ids in batch " + name)
    common.dump_json(tf, recs)
    res = ctx.tlc("Shape_Trace", common.cfg(spec="Spec", post="BatchDone", deadlock=False),
                  name=name, workers=1, env={"TRACE_FILE": tf}, heap="3g")
    summary = [p for p in res.printed if "accepted" in p]
    rej = [p for p in res.printed if "fails" in p]
    wit = {}
    for p in res.printed:
        if "witness" in p:
            wit.setdefault(p["id"], {})[p["clause"]] = {"index": p["witness"], "count": p["count"]}
    if not summary or summary[0]["total"] != len(recs) or summary[0]["accepted"] + len(rej) != len(recs):
        raise common.MachineryError("trace batch %s not fully consumed" % name)
    os.remove(tf)
    return [(byid[p["id"]], p["fails"], wit.get(p["id"], {})) for p in rej]


def validate_all(ctx, recs, name, per=400, par=6):
    parts = list(common.chunks(recs, per))
    with ThreadPoolExecutor(max_workers=par) as ex:
        futs = [ex.submit(validate, ctx, part, "%s_%d" % (name, i)) for i, part in enumerate(parts)]
        out = []
        for f in futs:
            out += f.result()
    return out


def synthetic(margins):
    """a hand-made accepted record per shape (answers fabricated, independent
    of the code under test) for the binding self-test"""
    depth, r_udeg = 6, 1000000
    m = margins[depth]
    cvec = unit(1.0, 0.3)
    dists = [0, 500000, 999999, 1000000, 1000001, 1000000 + m // 2, 1000000 + m, 1000000 + m + 1, 90000000]
    circ = {"id": "st-circle", "shape": "circle", "nv": 0, "depth": depth, "r_udeg": r_udeg, "err": "",
            "queries": [[d, d <= r_udeg + m // 2] for d in dists]}
    lo = scaled_area(cap_fraction(r_udeg), False)
    hi = scaled_area(cap_fraction(r_udeg + m), True)
    npix = int(math.ceil(cap_fraction(r_udeg) * 12 * 4 ** depth)) + 3
    circ["areas"] = {"region": [1000 * npix, depth], "region_sr": [1000 * npix, depth], "caplo": lo, "caphi": hi,
                     "cntlo": cap_counts(cvec, r_udeg), "cnthi": cap_counts(cvec, r_udeg + m)}
    poly = {"id": "st-poly", "shape": "poly", "nv": 3, "depth": depth, "r_udeg": r_udeg, "err": "",
            "queries": [[0, True, [500000, 500000, 500000]], [900000, True, [3, 700000, 900000]],
                        [900000, False, [-3, 700000, 900000]], [1000000 + m // 2, True, [-900000, 5, 5]],
                        [1000000 + m + 1, False, [-9000000, 5, 5]], [90000000, False, [-80000000, 5, -5]]]}
    return circ, poly


def selftest(ctx, margins):
    """binding: accepted records become rejected, with the right clause, when
    one field is corrupted"""
    import copy
    circ, poly = synthetic(margins)

    def mut(base, rid, fn):
        r = copy.deepcopy(base)
        r["id"] = rid
        fn(r)
        return r
    m = margins[6]
    bad = {
        "st-inside": (mut(circ, "st-inside", lambda r: r["queries"].__setitem__(3, [1000000, False])), "inside_contained"),
        "st-far": (mut(circ, "st-far", lambda r: r["queries"].__setitem__(7, [1000000 + m + 1, True])), "far_excluded"),
        "st-area0": (mut(circ, "st-area0", lambda r: r["areas"].__setitem__("region", [0, 6])), "area_at_least_inner_cap"),
        "st-areabig": (mut(circ, "st-areabig", lambda r: r["areas"].__setitem__("region_sr", [r["areas"]["region"][0] * 40, 6])), "area_at_most_outer_cap"),
        "st-cap": (mut(circ, "st-cap", lambda r: r["areas"].__setitem__("caplo", [r["areas"]["caplo"][0] // 2, r["areas"]["caplo"][1]])), "cap_areas_bracketed_by_counts"),
        "st-caplev": (mut(circ, "st-caplev", lambda r: r["areas"].__setitem__("caphi", [r["areas"]["caphi"][0], r["areas"]["caphi"][1] - 1])), "cap_areas_bracketed_by_counts"),
        "st-err": (mut(circ, "st-err", lambda r: r.__setitem__("err", "ValueError: x")), "completed"),
        "st-pin": (mut(poly, "st-pin", lambda r: r["queries"].__setitem__(1, [900000, False, [3, 700000, 900000]])), "interior_contained"),
        "st-pfar": (mut(poly, "st-pfar", lambda r: r["queries"].__setitem__(4, [1000000 + m + 1, True, [-9000000, 5, 5]])), "far_excluded"),
        "st-vac": (mut(poly, "st-vac", lambda r: r.__setitem__("queries", r["queries"][:4])), "nonvacuous"),
    }
    rej = validate(ctx, [circ, poly] + [b[0] for b in bad.values()], "selftest")
    got = {r["id"]: f for r, f, w in rej}
    for rid, (_, clause) in bad.items():
        if got.get(rid) != [clause]:
            raise common.MachineryError("Shape_Trace self-test: %s expected [%s], got %r" % (rid, clause, got.get(rid)))
    if "st-circle" in got or "st-poly" in got:
        raise common.MachineryError("Shape_Trace self-test: good record rejected: %r" % got)
    w = {r["id"]: w for r, f, w in rej}
    if w["st-inside"].get("inside_contained", {}).get("index") != 4:
        raise common.MachineryError("Shape_Trace self-test: witness index wrong: %r" % w["st-inside"])


# --------------------------------------------------------------------------
def key_of(rec, fails):
    return "%s fails=%s cclass=%s units=%s form=%s" % (rec["shape"], ",".join(fails), rec.get("cclass"),
                                                    rec.get("units"), rec.get("form"))


def lattice(ctx):
    res = ctx.tlc("MC_ShapeConfig", common.cfg(
        spec="Spec", constants={"MaxPix": MAXPIX}, invariants=["RuleConsistent", "ThresholdsFit"],
        constraints=["Feasible"], deadlock=False), coverage=True, workers=4)
    ctx.require_actions(res, ["Emit"], "MC_ShapeConfig")
    pts = [p for p in res.printed if "cfg" in p]
    if len(pts) < 1000 or len({common.json.dumps(p["cfg"], sort_keys=True) for p in pts}) != len(pts):
        raise common.MachineryError("lattice emission incomplete: %d points" % len(pts))
    if any(p["expected"] > MAXPIX for p in pts):
        raise common.MachineryError("an infeasible lattice point was emitted")
    return pts


def drive_and_validate(ctx, jobs, block):
    """drive the real code block-wise (16 processes) and let TLC validate each
    block while the next one is being produced; yields (recs, side, rejected)"""
    jobs = sorted(jobs, key=lambda j: -j["expected"] * (4 if j["cfg"]["form"] == "scalar" else 1))
    blocks = list(common.chunks(jobs, block))
    with mp.Pool(16, initializer=_init) as pool:
        pending = pool.map_async(observe, blocks[0], chunksize=2)
        for i in range(len(blocks)):
            out = pending.get()
            if i + 1 < len(blocks):
                pending = pool.map_async(observe, blocks[i + 1], chunksize=4)
            recs = [o[0] for o in out]
            side = {o[0]["id"]: o[1] for o in out}
            yield recs, side, validate_all(ctx, recs, "shape_trace_%d" % i, per=300, par=8)


def report(ctx, rejected, side, jobsbyid):
    for rec, fails, wit in rejected:
        mach = [f for f in fails if f in MACHINERY_CLAUSES]
        if mach:
            raise common.MachineryError("record %s: harness inputs rejected by the spec: %r" % (rec["id"], fails))
        witness = {}
        for clause, w in wit.items():
            k = w["index"] - 1
            witness[clause] = {"failing_queries": w["count"], "first": side[rec["id"]][k],
                               "query": rec["queries"][k]}
        detail = {"job": jobsbyid[rec["id"]], "fails": fails, "err": rec["err"], "r_udeg": rec["r_udeg"],
                  "depth": rec["depth"], "centre": rec.get("centre"), "areas": rec.get("areas"),
                  "witness": witness}
        kinds = sorted({"int" if w["first"]["label"] == "int" else "float" for w in witness.values()})
        ctx.violation(key_of(rec, fails) + (" positions=" + "+".join(kinds) if kinds else ""), detail)


def run(ctx):
    quick = ctx.tier == "quick"
    pts = lattice(ctx)
    margins = {p["cfg"]["depth"]: p["margin"] for p in pts}
    selftest(ctx, margins)
    nseeds = 1 if quick else 6
    jobs = []
    for p in pts:
        for s in range(nseeds):
            jobs.append({"cfg": p["cfg"], "margin": p["margin"], "rupper": p["rupper"],
                         "expected": p["expected"], "s": s, "ctxseed": ctx.seed,
                         "nq": 110 if quick else 200})
    jobsbyid = {job_id(j): j for j in jobs}
    nquery = ntraces = ncirc = dropped = 0
    distinct = set()
    samples = {}
    allrej = []
    for recs, side, rejected in drive_and_validate(ctx, jobs, 1400 if quick else 1600):
        ntraces += len(recs)
        nquery += sum(len(r["queries"]) for r in recs)
        ncirc += sum(1 for r in recs if r["shape"] == "circle" and not r["err"])
        dropped += sum(r.get("dropped", 0) for r in recs)
        distinct |= {(r["shape"], r["nv"], r["cclass"], r["rnom"], r["units"], r["form"], r["depth"]) for r in recs}
        for r in recs:
            if not r["err"] and r["shape"] not in samples:
                samples[r["shape"]] = {k: (v[:3] if k == "queries" else v) for k, v in r.items()}
        allrej.append((rejected, {r["id"]: side[r["id"]] for r, f, w in rejected}))
    ctx.count(evaluations=nquery + 2 * ncirc, nontrivial=len(distinct), traces=ntraces)
    ctx.cov["rule"] = ("one trace = one region built by add_circles/add_poly and observed by ~%d sky_within queries "
                       "(+2 get_area for circles); evaluations = judged queries + areas; distinct = lattice points "
                       "(centre class, depth, radius class, units, argument form, shape) emitted by TLC" % jobs[0]["nq"])
    ctx.cov["exhaustive"] = False
    ctx.cov["domain"] = {"lattice_points": len(pts), "seeds_per_point": nseeds, "max_expected_pixels": MAXPIX,
                         "dropped_near_threshold": dropped}
    for k in sorted(samples):
        ctx.sample(samples[k])
    ctx.assumptions += [
        "query positions closer than max(1e-6 relative, 2 udeg) to a decision threshold (r, r+3*PixSize, a polygon edge) are regenerated/dropped",
        "polygons are convex with all vertices on one small circle (so the circumscribed circle is exact), vertex spacing jittered by +-25%, either orientation",
        "distances / edge distances / cap areas are rule inputs computed in double precision by the harness (atan2 formula); cap areas are cross-checked by TLC against healpy pixel-centre counts (healpy pix2vec / non-inclusive query_disc trusted; no sky pixel reaches farther than 1.05 PixSize from its centre)",
        "configurations with more than %d expected pixels are pruned by the specification (MC_ShapeConfig!Feasible)" % MAXPIX,
        "add_circles / add_poly receive radians (their documented unit); degrees are exercised through sky_within(degin=True)",
        "region depth = Region(maxdepth=depth) with the shape inserted at that depth (depth=None or depth=maxdepth)",
    ]
    for rejected, side in allrej:
        report(ctx, rejected, side, jobsbyid)


def replay(ctx, rec):
    job = rec["detail"]["job"]
    _init()
    r, side = observe(job)
    rejected = validate(ctx, [r], "replay")
    ctx.count(evaluations=len(r["queries"]), nontrivial=1, traces=1)
    report(ctx, rejected, {r["id"]: side}, {r["id"]: job})
