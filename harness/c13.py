"""
C13 - sign symmetry and polarity filters of the source finder.

model  : spec/Polarity.tla - Filter(cat, nopositive, nonegative), the partition
         theorems, NegateCat and the relation NegateRun(A, B) on fixed-point rows.
         spec/MC_Polarity.tla - TLC checks the theorems on every catalogue of <= 4
         rows over {pos, neg} x tokens and every element of the option lattice
         {nopositive} x {nonegative} x {forced | file rms/bkg} x {input negated},
         and emits the lattice.
binding: for every seeded synthetic image (isolated sources of both signs, same-sign
         blends, Gaussian noise, non-zero background) the real
         SourceFinder().find_sources_in_image is run once per emitted lattice
         element of the image's map mode (forced floats rms=/bkg= or FITS files
         rmsin=/bkgin=; the negated runs get the negated image and the negated
         background).  The catalogues are logged as (sign, identity token) rows and,
         for the two both-polarities runs, as fixed-point rows; TLC validates each
         group against spec/Polarity_Trace.tla (Polarity!Filter / NegateRun).
classes: "main"        - no |snr| >= flood component of the image contains pixels of
                          both signs (the property's input domain, checked here on
                          the input, independently of the code);
         "mixedisland" - an opposite-sign close pair shares one |snr| island.  The
                          design classifies an island by nanmax < 0 (DESIGN.md 5.4);
                          results of this class are reported under their own key.
symmetry tolerance (spec/Polarity.tla, symmetry section): the strict level of DESIGN.md
         (1 ppm / 1e-6 px) holds for 99.8 % of the rows and is evaluated for information
         ("info:" clause, a warning in the evidence); the verdict level allows for the
         optimiser's termination jitter in fits pinned at a parameter limit: a fraction
         of the row's own quoted 1-sigma error (1/4; 3 for blended islands), errors
         within 5 % (25 %).  Partition clauses are exact.
The harness only drives, projects and logs: every verdict is TLC's.
"""
import contextlib
import io
import math
import multiprocessing as mp
import os
import random
import zlib

import numpy as np

from harness import common, synth

LEVEL = "exploration"

MC_CONSTANTS = {"MaxRows": 4, "Tokens": "@{\"t1\", \"t2\", \"t3\"}", "Emit": True}
MC_INVARIANTS = ["TypeOK", "PartitionThm", "PartitionNegThm", "DualityThm",
                 "NegateInvolution", "ReportThm"]
INT_MAX = common.INT_MAX
# the four runs every image gets; the other lattice elements on every FULL_EVERY-th image
CORE_RUNS = ("Both", "PosOnly", "NegOnly", "BothOnNegatedInput")
FULL_EVERY = 4


# ---------------------------------------------------------------------------
# synthetic images
# ---------------------------------------------------------------------------
def _footprint(amp, smaj, level=2.5):
    """radius (px) beyond which a Gaussian of |amp| (in rms units) is below `level` sigma."""
    a = max(abs(amp) / level, 1.0001)
    return smaj * math.sqrt(2.0 * math.log(a))


def _draw(seed, maps, cls, attempt):
    rng = random.Random("c13/%s/%s/%d/%d" % (cls, maps, seed, attempt))
    H, W = rng.randint(56, 72), rng.randint(56, 72)
    cd = rng.choice([10.0, 30.0, 120.0])
    bmaj_px = rng.uniform(3.0, 4.5)
    bmin_px = bmaj_px * rng.uniform(0.7, 1.0)
    bpa = rng.uniform(-90, 90)
    hdr = dict(shape=(H, W), proj=rng.choice(["SIN", "TAN", "ZEA"]),
               crval=(rng.uniform(0, 360), rng.uniform(-70, 70)), cdelt_arcsec=cd,
               beam_arcsec=(bmaj_px * cd, bmin_px * cd, bpa))
    smaj, smin = bmaj_px * synth.FWHM2SIG, bmin_px * synth.FWHM2SIG
    # pixel-space orientation of the beam is irrelevant here (no truth comparison)
    nsite = rng.randint(4, 8)
    sites = []          # (x, y, r, sign, comps)
    signs = [1, -1] + [rng.choice([1, -1]) for _ in range(nsite - 2)]
    rng.shuffle(signs)
    if cls == "mixedisland":
        signs[0] = 1
    for k, sg in enumerate(signs):
        for _ in range(400):
            amp = rng.choice([rng.uniform(20, 80), rng.uniform(20, 80), rng.uniform(80, 300)])
            ext = rng.choice([1.0, 1.0, rng.uniform(1.0, 1.8)])
            th = rng.uniform(0, math.pi)
            comps = [(sg * amp, 0.0, 0.0, smaj * ext, smin, th)]
            r = _footprint(amp, smaj * ext)
            if cls == "mixedisland" and k == 0:
                # an opposite-sign neighbour inside the same |snr| island
                amp = rng.uniform(100, 200)
                d, phi = rng.uniform(3.2, 4.5), rng.uniform(0, 2 * math.pi)
                amp2 = amp * rng.uniform(0.7, 1.0)
                dom = rng.choice([1, -1])       # the island is dominated by a positive or by a negative peak
                comps = [(dom * amp, 0.0, 0.0, smaj, smin, th),
                         (-dom * amp2, d * math.cos(phi) + 0.37, d * math.sin(phi) + 0.41, smaj, smin, th)]
                r = d + 1 + _footprint(amp, smaj)
            elif rng.random() < 0.3:
                # same-sign companion: a blended, multi-component island
                d, phi = rng.uniform(3.5, 6.0), rng.uniform(0, 2 * math.pi)
                amp2 = amp * rng.uniform(0.4, 1.0)
                comps.append((sg * amp2, d * math.cos(phi), d * math.sin(phi), smaj, smin, th))
                r = d + _footprint(amp, smaj * ext)
            edge = 2.0 if rng.random() < 0.1 else r + 2.0
            x, y = rng.uniform(edge, W - 1 - edge), rng.uniform(edge, H - 1 - edge)
            if all(math.hypot(x - s[0], y - s[1]) > r + s[2] + 3.0 for s in sites):
                sites.append((x, y, r, sg, comps))
                break
    comps = [(a, x + dx, y + dy, sx, sy, th) for (x, y, r, sg, cs) in sites for (a, dx, dy, sx, sy, th) in cs]
    yy, xx = np.mgrid[0:H, 0:W].astype(float)
    if maps == "forced":
        b0 = rng.choice([0.0, rng.uniform(-3, 3), rng.uniform(-3, 3)])
        bkg = np.full((H, W), b0)
        rmsmap = np.ones((H, W))
    else:
        b0 = rng.uniform(-3, 3)
        bkg = b0 + rng.uniform(-2, 2) * (xx / W - 0.5) + rng.uniform(-2, 2) * (yy / H - 0.5)
        rmsmap = 1.0 + rng.uniform(-0.3, 0.3) * (xx / W - 0.5) + rng.uniform(-0.3, 0.3) * (yy / H - 0.5)
    nseed = zlib.crc32(("c13noise/%s/%s/%d/%d" % (cls, maps, seed, attempt)).encode())
    noise = np.random.default_rng(nseed).normal(0.0, 1.0, (H, W)) * rmsmap
    img = synth.render((H, W), comps) + noise + bkg
    inner = rng.choice([5, 5, 6, 10])
    outer = rng.choice([4, 4, 3, 5])
    opts = dict(innerclip=inner, outerclip=min(outer, inner), docov=rng.choice([True, True, False]),
                max_summits=rng.choice([None, None, None, 1, 2]),
                doislandflux=rng.random() < 0.2)
    return dict(seed=seed, maps=maps, cls=cls, attempt=attempt, hdr=hdr, b0=b0,
                img=img.astype(np.float32), bkg=bkg.astype(np.float32),
                rms=rmsmap.astype(np.float32), opts=opts, nsite=len(sites),
                ncomp=len(comps))


def _sign_classes(case):
    """input-domain measurement (independent of the code under test): the connected
    components (8-neighbourhood) of |image - background| / rms >= flood - margin and
    whether any of them has pixels of both signs."""
    from scipy.ndimage import label
    d = case["img"].astype(np.float64) - case["bkg"].astype(np.float64)
    snr = np.abs(d) / case["rms"].astype(np.float64)
    lab, n = label(snr >= case["opts"]["outerclip"] - 0.05, structure=np.ones((3, 3)))
    mixed = seeded = 0
    for i in range(1, n + 1):
        own = lab == i
        if snr[own].max() <= case["opts"]["innerclip"] - 0.05:
            continue
        seeded += 1
        if (d[own] > 0).any() and (d[own] < 0).any():
            mixed += 1
    anymixed = any((d[lab == i] > 0).any() and (d[lab == i] < 0).any() for i in range(1, n + 1))
    return seeded, mixed, anymixed


def make_case(seed, maps, cls):
    """deterministic in (seed, maps, cls): the first attempt inside the class's input domain."""
    for attempt in range(60):
        case = _draw(seed, maps, cls, attempt)
        seeded, mixed, anymixed = _sign_classes(case)
        case["seeded"], case["mixed"] = seeded, mixed
        if cls == "main" and not anymixed and seeded >= 2:
            return case
        if cls == "mixedisland" and mixed >= 1:
            return case
    return None


# ---------------------------------------------------------------------------
# observation of the real code
# ---------------------------------------------------------------------------
def _fxs(v, scale):
    """scaled integer; NaN -> -IntMax, +-inf -> +-IntMax (both sides get the same sentinel)."""
    if v is None:
        return -INT_MAX
    v = float(v)
    if math.isnan(v):
        return -INT_MAX
    if math.isinf(v):
        return INT_MAX if v > 0 else -INT_MAX
    r = common.fx(v, scale)
    return r


def _sign(v):
    v = float(v)
    if math.isnan(v):
        return "nan"
    return "pos" if v > 0 else ("neg" if v < 0 else "zero")


def _row(s):
    return {"sign": _sign(s.peak_flux),
            "tok": "%d:%d:%s" % (int(s.island), int(getattr(s, "source", -1)), synth.src_token(s))}


def _fxrow(s, wcs, cd_arcsec):
    """fixed-point projection of a catalogue row (an island row of doislandflux has no
    component number / shape / error columns: those become the same sentinel on both sides).
    Position errors are expressed in pixels (reported degrees / pixel scale); -1 stays -1."""
    def g(name):
        return getattr(s, name, None)

    def px(v):          # degrees -> pixels
        return None if v is None else (float(v) * 3600.0 / cd_arcsec if v > 0 else v)

    def asec2px(v):     # arcsec -> pixels
        return None if v is None else (float(v) / cd_arcsec if v > 0 else v)
    try:
        x, y = wcs.all_world2pix([[float(s.ra), float(s.dec)]], 0)[0]
    except Exception:
        x = y = float("nan")
    return {"isl": int(s.island), "src": int(getattr(s, "source", -1)), "flags": int(s.flags),
            "peak": _fxs(s.peak_flux, 1e6), "int_": _fxs(s.int_flux, 1e6),
            "x": _fxs(x, 1e7), "y": _fxs(y, 1e7),
            "a": _fxs(asec2px(g("a")), 1e7), "b": _fxs(asec2px(g("b")), 1e7), "pa": _fxs(g("pa"), 1e6),
            "e_peak": _fxs(g("err_peak_flux"), 1e8), "e_int": _fxs(g("err_int_flux"), 1e8),
            "e_a": _fxs(asec2px(g("err_a")), 1e9), "e_b": _fxs(asec2px(g("err_b")), 1e9),
            "e_pa": _fxs(g("err_pa"), 1e6),
            "e_ra": _fxs(px(g("err_ra")), 1e7), "e_dec": _fxs(px(g("err_dec")), 1e7)}


def observe(args):
    """one image, one finder run per lattice element; returns the trace record."""
    seed, maps, cls, lattice, workdir = args
    common.quiet_logging()
    from astropy.wcs import WCS
    from AegeanTools.source_finder import SourceFinder
    rid = "%s/%s/%d" % (cls, maps, seed)
    rec = {"id": rid, "maps": maps, "cls": cls, "seed": seed, "err": "", "runs": []}
    files = []
    try:
        case = make_case(seed, maps, cls)
        if case is None:
            rec["err"] = "GENERATOR: no image of class %s found" % cls
            return rec
        rec["meta"] = {"attempt": case["attempt"], "shape": list(case["hdr"]["shape"]),
                       "sites": case["nsite"], "components": case["ncomp"],
                       "seeded_islands": case["seeded"], "mixed_islands": case["mixed"],
                       "opts": case["opts"], "b0": case["b0"]}
        h = synth.make_header(**case["hdr"])
        w = WCS(h, naxis=2)
        base = os.path.join(workdir, "c13_%s_%s_%d_%d" % (cls, maps, seed, os.getpid()))
        paths = {False: base + "_p.fits", True: base + "_n.fits"}
        synth.write(paths[False], case["img"], h)
        synth.write(paths[True], -case["img"], h)
        files += list(paths.values())
        if maps == "file":
            bk = {False: base + "_bkg_p.fits", True: base + "_bkg_n.fits"}
            rm = base + "_rms.fits"
            synth.write(bk[False], case["bkg"], h)
            synth.write(bk[True], -case["bkg"], h)
            synth.write(rm, case["rms"], h)
            files += [bk[False], bk[True], rm]
        for el in lattice:
            neg = bool(el["negated"])
            kw = dict(case["opts"], cores=1, nopositive=bool(el["nopositive"]),
                      nonegative=bool(el["nonegative"]))
            if maps == "forced":
                kw.update(rms=1.0, bkg=(-case["b0"] if neg else case["b0"]))
            else:
                kw.update(rmsin=rm, bkgin=bk[neg])
            run = {"name": el["name"], "nopositive": kw["nopositive"],
                   "nonegative": kw["nonegative"], "negated": neg, "rows": [], "fx": []}
            with contextlib.redirect_stderr(io.StringIO()), contextlib.redirect_stdout(io.StringIO()):
                cat = SourceFinder().find_sources_in_image(paths[neg], **kw)
            run["rows"] = [_row(s) for s in cat]
            if not kw["nopositive"] and not kw["nonegative"]:
                run["fx"] = [_fxrow(s, w, case["hdr"]["cdelt_arcsec"]) for s in cat]
            rec["runs"].append(run)
    except Exception as e:
        rec["err"] = "%s: %s" % (type(e).__name__, e)
    finally:
        for f in files:
            try:
                os.remove(f)
            except OSError:
                pass
    return rec


# ---------------------------------------------------------------------------
# TLC
# ---------------------------------------------------------------------------
TRACE_KEYS = ("id", "maps", "err", "runs")


def validate(ctx, recs, name):
    """-> (rejected, info): rejected = [(record, verdict clauses TLC found violated)];
    info = ids of records whose only failure is the strict (1 ppm) information clause.
    Clause names starting with "info:" are never verdicts (Polarity.tla, symmetry section)."""
    tf = os.path.join(ctx.workdir, name + ".json")
    byid = {r["id"]: r for r in recs}
    if len(byid) != len(recs):
        raise common.MachineryError("duplicate record ids in batch %s" % name)
    common.dump_json(tf, [{k: r[k] for k in TRACE_KEYS} for r in recs])
    res = ctx.tlc("Polarity_Trace", common.cfg(spec="Spec", post="BatchDone", deadlock=False),
                  name=name, workers=1, env={"TRACE_FILE": tf})
    summary = [p for p in res.printed if isinstance(p, dict) and "accepted" in p]
    rej = [p for p in res.printed if isinstance(p, dict) and "fails" in p]
    if not summary or summary[0]["total"] != len(recs) or \
            summary[0]["accepted"] + len(rej) != len(recs):
        raise common.MachineryError("trace batch %s not fully consumed" % name)
    os.remove(tf)
    rejected, info = [], []
    for p in rej:
        verdict = [f for f in p["fails"] if not f.startswith("info:")]
        if verdict:
            rejected.append((byid[p["id"]], verdict))
        else:
            info.append(p["id"])
    return rejected, info


def model_check(ctx):
    res = ctx.tlc("MC_Polarity", common.cfg(spec="Spec", constants=MC_CONSTANTS,
                                            invariants=MC_INVARIANTS, deadlock=False),
                  coverage=True)
    ctx.require_actions(res, ["Run"], "MC_Polarity")
    lattice = [p for p in res.printed if isinstance(p, dict) and "nopositive" in p]
    lattice.sort(key=lambda e: (e["maps"], e["negated"], e["nopositive"], e["nonegative"]))
    if len(lattice) != 16 or len({(e["maps"], e["negated"], e["nopositive"], e["nonegative"])
                                  for e in lattice}) != 16:
        raise common.MachineryError("MC_Polarity emitted %d lattice elements, expected 16" % len(lattice))
    return lattice


def _st_row(isl, peak, tok, src=0, flags=0):
    fxr = {"isl": isl, "src": src, "flags": flags, "peak": peak, "int_": peak + peak // 10,
           "x": 301234567, "y": 120000001, "a": 41000000, "b": 33000000, "pa": 89999990,
           "e_peak": 95000000, "e_int": 130000000, "e_a": 70000000, "e_b": 50000000,
           "e_pa": 4000000, "e_ra": 500000, "e_dec": 480000}
    return {"sign": "pos" if peak > 0 else "neg", "tok": "%d:%d:%s" % (isl, src, tok)}, fxr


def selftest(ctx):
    """binding demonstration on hand-made records: the conforming group is accepted,
    every single-field corruption is rejected with the clause that names it."""
    import copy
    # islands 1 and 2 have one component, island 3 is blended (two components)
    rows, fxs = zip(*[_st_row(1, 30000000, "aa"), _st_row(2, -45000000, "bb"), _st_row(3, 52000000, "cc"),
                      _st_row(3, 20000000, "dd", src=1)])
    nrows, nfxs = zip(*[_st_row(1, -30000000, "na"), _st_row(2, 45000000, "nb"), _st_row(3, -52000000, "nc"),
                        _st_row(3, -20000000, "nd", src=1)])
    nfxs = [dict(f, pa=-89999995, x=f["x"] + 4, e_a=f["e_a"] + 40) for f in nfxs]   # inside 1 ppm

    def run(name, np_, nn, neg, rr, ff=()):
        return {"name": name, "nopositive": np_, "nonegative": nn, "negated": neg,
                "rows": list(rr), "fx": list(ff)}
    good = {"id": "st-good", "maps": "forced", "err": "", "runs": [
        run("Both", False, False, False, rows, fxs),
        run("PosOnly", False, True, False, [rows[0], rows[2], rows[3]]),
        run("NegOnly", True, False, False, [rows[1]]),
        run("Neither", True, True, False, []),
        run("BothOnNegatedInput", False, False, True, nrows, nfxs),
        run("PosOnlyOnNegatedInput", False, True, True, [nrows[1]]),
        run("NegOnlyOnNegatedInput", True, False, True, [nrows[2], nrows[0], nrows[3]])]}   # order is free

    def mut(rid, f):
        r = copy.deepcopy(good)
        r["id"] = rid
        f(r)
        return r

    def setfx(k, col, val):
        def f(r):
            r["runs"][4]["fx"][k][col] = val
        return f

    def failedfit(r):          # the finder flags the fit as failed in both runs: values are not compared
        for u in (0, 4):
            r["runs"][u]["fx"][2].update(flags=1, e_peak=-100000000, e_int=-100000000, e_a=-100000000,
                                         e_b=-100000000, e_pa=-1000000, e_ra=-10000000, e_dec=-10000000)
        r["runs"][4]["fx"][2].update(a=47000000, x=301934567)
    SYM = "negated:NegateRun"
    # accepted at the verdict level, reported at the strict level (optimiser jitter)
    jitter = [mut("st-jitter-peak", setfx(1, "peak", 45000100)),
              mut("st-jitter-pos", setfx(2, "y", 120000001 + 1200)),
              mut("st-jitter-shape", setfx(0, "a", 41000000 + 5000)),
              mut("st-jitter-pa", setfx(0, "pa", -89990000)),
              mut("st-jitter-err", setfx(2, "e_peak", 95000000 + 120000)),
              mut("st-blend-2sigma", setfx(3, "peak", -20000000 - 1900000)),
              mut("st-failedfit", failedfit)]
    bad = [
        (mut("st-leak", lambda r: r["runs"][1]["rows"].append(rows[1])),
         {"PosOnly:only_requested_signs", "PosOnly:same_number_of_rows", "pos_and_neg_disjoint",
          "pos_and_neg_together_equal_both", "pos_only_positive"}),
        (mut("st-lost", lambda r: r["runs"][2]["rows"].pop()),
         {"NegOnly:no_requested_row_missing", "NegOnly:same_number_of_rows",
          "pos_and_neg_together_equal_both"}),
        (mut("st-renumbered", lambda r: r["runs"][1]["rows"].__setitem__(1, {"sign": "pos", "tok": "2:0:cc"})),
         {"PosOnly:rows_are_rows_of_the_both_catalogue", "PosOnly:no_requested_row_missing",
          "pos_and_neg_together_equal_both"}),
        (mut("st-neither", lambda r: r["runs"][3]["rows"].append(rows[0])),
         {"Neither:only_requested_signs", "Neither:same_number_of_rows"}),
        (mut("st-negdrop", lambda r: (r["runs"][4]["rows"].pop(), r["runs"][4]["fx"].pop())),
         {"negated:same_number_of_rows", "NegOnlyOnNegatedInput:rows_are_rows_of_the_both_catalogue",
          "NegOnlyOnNegatedInput:same_number_of_rows",
          "negated_input:pos_and_neg_together_equal_both"}),
        (mut("st-peaksign", setfx(0, "peak", 30000000)), {"negated:peak_flux_negated", SYM}),
        (mut("st-peak", setfx(1, "peak", 45000000 + 300000)), {"negated:peak_flux_negated", SYM}),
        (mut("st-int", setfx(1, "int_", 49500000 + 400000)), {"negated:int_flux_negated", SYM}),
        (mut("st-pos", setfx(0, "y", 120000001 + 200000)), {"negated:same_position", SYM}),
        (mut("st-blend-4sigma", setfx(3, "peak", -20000000 - 3800000)), {"negated:peak_flux_negated", SYM}),
        (mut("st-shape", setfx(0, "a", 41000000 + 200000)), {"negated:same_shape", SYM}),
        (mut("st-pa", setfx(0, "pa", -85000000)), {"negated:same_shape", SYM}),
        (mut("st-err", setfx(0, "e_peak", 105000000)), {"negated:same_errors", SYM}),
        (mut("st-flags", setfx(1, "flags", 4)), {"negated:same_flags", SYM}),
        (mut("st-ids", setfx(1, "isl", 3)), {"negated:same_island_and_source_numbers", SYM}),
        (mut("st-exc", lambda r: r.__setitem__("err", "TypeError: x")), {"runs_completed"}),
    ]
    rej, info = validate(ctx, [good] + jitter + [b for b, _ in bad], "selftest")
    got = {r["id"]: set(f) for r, f in rej}
    want = {b["id"]: w for b, w in bad}
    if got != want:
        diff = {k: (sorted(got.get(k, [])), sorted(want.get(k, []))) for k in set(got) | set(want)
                if got.get(k) != want.get(k)}
        raise common.MachineryError("Polarity_Trace self-test failed (got, want): %r" % diff)
    if sorted(info) != sorted(r["id"] for r in jitter):
        raise common.MachineryError("Polarity_Trace self-test: strict-level information clause: %r" % info)
    return len(bad) + len(jitter) + 1


# ---------------------------------------------------------------------------
# run / replay
# ---------------------------------------------------------------------------
def lattice_for(lattice, maps, full):
    els = [e for e in lattice if e["maps"] == maps]
    if not full:
        els = [e for e in els if e["name"] in CORE_RUNS]
    return els


def key_of(rec, fails):
    # the run names are kept; a record that only breaks the symmetry clauses shows so
    return "%s %s fails=%s" % ("mixed_sign_island" if rec["cls"] == "mixedisland" else "isolated_sources",
                               rec["maps"], ",".join(fails))


def detail_of(rec, fails, full):
    return {"seed": rec["seed"], "maps": rec["maps"], "cls": rec["cls"], "full": full,
            "fails": fails, "meta": rec.get("meta"), "err": rec.get("err"),
            "both": [u for u in rec["runs"] if not u["nopositive"] and not u["nonegative"]]}


def drive(ctx, lattice, jobs):
    """jobs = [(seed, maps, cls, full)]"""
    args = [(s, m, c, lattice_for(lattice, m, f), ctx.workdir) for (s, m, c, f) in jobs]
    fullof = {"%s/%s/%d" % (c, m, s): f for (s, m, c, f) in jobs}
    with mp.Pool(16) as pool:
        recs = list(pool.imap_unordered(observe, args, chunksize=1))
    recs.sort(key=lambda r: r["id"])
    gen = [r for r in recs if r["err"].startswith("GENERATOR")]
    if gen:
        raise common.MachineryError("image generator failed: %s" % gen[0]["err"])
    rejected, info = [], []
    for k, part in enumerate(common.chunks(recs, 400)):
        rj, nf = validate(ctx, part, "polarity_trace_%d" % k)
        rejected += rj
        info += nf
    return recs, rejected, info, fullof


def run(ctx):
    quick = ctx.tier == "quick"
    lattice = model_check(ctx)
    nst = selftest(ctx)
    nmain = 80 if quick else 2400
    nmixed = 12 if quick else 160
    jobs = []
    for i in range(nmain):
        seed = ctx.seed * 100003 + i
        jobs.append((seed, "forced" if i % 2 == 0 else "file", "main", i % (2 * FULL_EVERY) < 2))
    for i in range(nmixed):
        seed = ctx.seed * 100003 + i
        jobs.append((seed, "forced" if i % 2 == 0 else "file", "mixedisland", False))
    # every lattice element is driven: full groups exist for both map modes
    assert any(f and m == "forced" for (_, m, _, f) in jobs) and any(f and m == "file" for (_, m, _, f) in jobs)
    recs, rejected, info, fullof = drive(ctx, lattice, jobs)
    nruns = sum(len(r["runs"]) for r in recs)
    nrows = sum(len(u["rows"]) for r in recs for u in r["runs"] if not u["nopositive"] and not u["nonegative"])
    ctx.count(evaluations=nruns, nontrivial=len(recs), traces=len(recs))
    driven = sorted({(r["maps"], u["name"]) for r in recs for u in r["runs"]})
    if len(driven) != 16 and not any(r["err"] for r in recs):
        raise common.MachineryError("only %d of 16 lattice elements were driven" % len(driven))
    ctx.cov["rule"] = ("one trace per synthetic image = group of real find_sources_in_image runs "
                       "(4 core lattice elements, all 8 of the map mode on every 4th image); "
                       "evaluations = finder runs; distinct = distinct images")
    ctx.cov["lattice_elements_driven"] = ["%s/%s" % d for d in driven]
    ctx.cov["rows_in_both_catalogues"] = nrows
    ctx.cov["selftest_records"] = nst
    ctx.cov["images_with_rows_beyond_strict_1ppm"] = len(info)
    if info:
        ctx.warnings.append("strict level (1 ppm / 1e-6 px) exceeded, verdict level (1/4 sigma) met, in %d of %d "
                            "images (optimiser termination jitter of fits pinned at a parameter limit): %s"
                            % (len(info), len(recs), ", ".join(info[:12])))
    ctx.cov["classes"] = {c: sum(1 for r in recs if r["cls"] == c) for c in ("main", "mixedisland")}
    multi = sum(1 for r in recs for u in r["runs"] if u["name"] == "Both"
                for x in u["fx"] if x["src"] > 0)
    ctx.cov["rows_of_multi_component_islands"] = multi
    ok = [r for r in recs if not r["err"] and r["cls"] == "main"]
    for r in ok[:2]:
        b = [u for u in r["runs"] if u["name"] == "Both"][0]
        ctx.sample({"id": r["id"], "meta": r.get("meta"),
                    "runs": {u["name"]: len(u["rows"]) for u in r["runs"]},
                    "first_row_fixed_point": b["fx"][:1]})
    ctx.assumptions += [
        "class main: no 8-connected component of |image - background| / rms >= flood_clip - 0.05 of the "
        "INPUT contains pixels of both signs (measured on the input with scipy.ndimage.label, independently "
        "of the finder; images that violate it are regenerated and counted under class mixedisland instead)",
        "the negated image / background are the exact float32 negations of the originals; rms is not negated",
        "symmetry, strict level (information only): 1 ppm relative (+2 units rounding of the fixed-point "
        "projection), 1e-6 px for positions (sky position mapped to pixels by astropy.wcs on the hand-built "
        "header), 1 ppm of 180 deg for the position angle (axes: modulo 180 deg)",
        "symmetry, verdict level: the strict tolerance or a fraction of the row's own quoted 1-sigma error "
        "(1/4; 3 for components of a multi-component island), whichever is larger; quoted errors within 5 % "
        "(25 % blended); the angle error is not compared for circular fits or when a run reports >= 30 deg "
        "(it is |bearing difference| after rotating by the theta error: arbitrary once that exceeds half a "
        "turn); rows the finder flags FITERR are compared on identity, flags and sign only.  Reason: lmfit's "
        "bounded-parameter transform is not bit-symmetric, fits that end pinned at a parameter limit amplify "
        "the rounding and the two optimiser runs stop at different iterations (measured on 48 000 row pairs: "
        "99.8 % agree to < 1e-6; single-component islands <= 0.002 sigma; blended islands <= 0.53 sigma, "
        "heavy tail)",
        "background / residual columns are not compared across negation (not named by the property); "
        "partition clauses are exact float identity including island and source numbers",
        "a fresh SourceFinder per run; cores=1; peak >= 20 rms so that every source is detected"]
    for rec, fails in rejected:
        ctx.violation(key_of(rec, fails), detail_of(rec, fails, fullof[rec["id"]]))


def replay(ctx, rec):
    d = rec["detail"]
    lattice = model_check(ctx)
    recs, rejected, info, fullof = drive(ctx, lattice, [(d["seed"], d["maps"], d["cls"], d.get("full", False))])
    ctx.count(evaluations=sum(len(r["runs"]) for r in recs), nontrivial=len(recs), traces=len(recs))
    for r in recs:
        print("replayed %s: err=%r meta=%s" % (r["id"], r["err"], r.get("meta")))
        for u in r["runs"]:
            print("  %-24s rows=%d signs=%s" % (u["name"], len(u["rows"]), "".join(
                "+" if x["sign"] == "pos" else "-" for x in u["rows"])))
    for r, fails in rejected:
        print("  rejected: %s" % ", ".join(fails))
        ctx.violation(key_of(r, fails), detail_of(r, fails, fullof[r["id"]]))
