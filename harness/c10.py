"""
C10 - masking keeps or removes exactly the pixels/rows whose position is in
the region (MIMAS.mask_plane, mask_file, mask_table, mask_catalog).

model  : spec/Masking.tla (declarative MaskImage / MaskTable + the property's
         clauses), spec/MC_Masking.tla (TLC: theorems on all H x W <= 3 x 4
         images over {value, blank} x membership patterns x negate x planes
         {1,2}, and all tables of <= 5 rows over {inside, outside, NaN-ra,
         NaN-dec} x negate; prints every case).
binding: every TLC-printed case is executed on the real code (both negate
         settings) - the membership pattern is realised by a real astropy WCS
         whose pixels are >= 20x a depth-10 HEALPix pixel and a real
         Region(maxdepth=10) made of the HEALPix pixels that contain the chosen
         pixel centres; seeded random images up to 64x64 (SIN/TAN/ZEA, CRPIX
         off-image, circle/polygon regions at depth 8-12, 2-D/3-D/4-D FITS) and
         random tables (custom column names, empty, NaN coordinates, csv/fits
         catalogues) run the other way.  Every observation is projected to
         integer/boolean/string tokens and validated by TLC against
         spec/Masking_Trace.tla, which evaluates the clauses of Masking.tla.
The python code only drives, projects and logs.
"""
import copy
import math
import os
import random
import threading
import multiprocessing as mp
from multiprocessing.pool import ThreadPool

import numpy as np

from harness import common

LEVEL = "model_checking"
_DIR = None
EDGE_DEG = 1e-6          # centres nearer than this to a HEALPix edge are not compared
GRID_DEPTH = 10
_GEO = {}


def _init(d):
    global _DIR
    _DIR = d
    os.makedirs(d, exist_ok=True)
    common.quiet_logging()


# --------------------------------------------------------------------------
# geometry helpers (oracle side: astropy.wcs + healpy only)
# --------------------------------------------------------------------------
def pixsize_deg(d):
    return math.degrees(math.sqrt(4 * math.pi / (12 * 4 ** d)))


def header_cards(proj, crval, crpix, cdelt, cd=False):
    c = [("CTYPE1", "RA---" + proj), ("CTYPE2", "DEC--" + proj),
         ("CRVAL1", float(crval[0])), ("CRVAL2", float(crval[1])),
         ("CRPIX1", float(crpix[0])), ("CRPIX2", float(crpix[1])),
         ("CUNIT1", "deg"), ("CUNIT2", "deg")]
    if cd:
        c += [("CD1_1", float(cdelt[0])), ("CD1_2", 0.0), ("CD2_1", 0.0), ("CD2_2", float(cdelt[1]))]
    else:
        c += [("CDELT1", float(cdelt[0])), ("CDELT2", float(cdelt[1]))]
    return c


def make_header(cards, ndim):
    from astropy.io import fits
    h = fits.Header()
    for k, v in cards:
        h[k] = v
    if ndim >= 3:
        h["CTYPE3"], h["CRVAL3"], h["CRPIX3"], h["CDELT3"] = "FREQ", 1.5e8, 1.0, 1e6
    if ndim >= 4:
        h["CTYPE4"], h["CRVAL4"], h["CRPIX4"], h["CDELT4"] = "STOKES", 1.0, 1.0, 1.0
    h["EQUINOX"] = 2000.0
    return h


def make_wcs(cards):
    from astropy.wcs import WCS
    return WCS(make_header(cards, 2), naxis=2)


def centres(wcs, H, W):
    """sky position (deg) of the centre of every pixel: 0-based array index
    (row, col) is FITS pixel (col+1, row+1), i.e. origin 0 on (col, row)."""
    cols, rows = np.meshgrid(np.arange(W, dtype=float), np.arange(H, dtype=float))
    ra, dec = wcs.all_pix2world(cols.ravel(), rows.ravel(), 0)
    return ra.reshape(H, W), dec.reshape(H, W)


def hpx_of(ra, dec, depth):
    import healpy as hp
    return hp.ang2pix(2 ** depth, ra, dec, nest=True, lonlat=True)


def near_edge(ra, dec, depth, eps=EDGE_DEG):
    """True where a move of eps degrees changes the HEALPix pixel at `depth`."""
    p0 = hpx_of(ra, dec, depth)
    bad = np.zeros(np.shape(ra), bool)
    c = np.maximum(np.cos(np.radians(dec)), 1e-3)
    for dx, dy in ((1, 0), (-1, 0), (0, 1), (0, -1), (1, 1), (1, -1), (-1, 1), (-1, -1)):
        d2 = np.clip(dec + dy * eps, -90, 90)
        bad |= hpx_of((ra + dx * eps / c) % 360.0, d2, depth) != p0
    return bad


def value_of(tok):
    """distinct, non-zero, exactly representable (float32 and float64)"""
    return 0.25 * tok - 2.125


def tokens_of(out, invals):
    """project an output array to tokens: 0 = NaN, k = the k-th input value
    (bit identity as float64), -1 = foreign value."""
    o = np.ascontiguousarray(np.asarray(out, dtype=np.float64))
    bits = o.view(np.uint64).ravel()
    if len(invals) == 0:
        return np.where(np.isnan(o), 0, -1)
    ref = np.ascontiguousarray(np.asarray(invals, dtype=np.float64)).view(np.uint64)  # token k -> ref[k-1]
    order = np.argsort(ref)
    sref = ref[order]
    pos = np.searchsorted(sref, bits)
    pos[pos >= len(sref)] = 0
    hit = sref[pos] == bits
    tok = np.where(hit, order[pos] + 1, -1)
    tok[np.isnan(o.ravel())] = 0
    return tok.reshape(o.shape)


# --------------------------------------------------------------------------
# running the real code on one image input (both negate settings)
# --------------------------------------------------------------------------
def run_image(rec, cards, region, tok, func, fileshape, dtype, base):
    """tok: int array (P, H, W) of input tokens.  Fills rec.outF/outT."""
    from astropy.io import fits
    from AegeanTools import MIMAS
    P, H, W = tok.shape
    ntok = int(tok.max()) if tok.size else 0
    invals = value_of(np.arange(1, ntok + 1)) if ntok else np.zeros(0)
    data = np.where(tok > 0, value_of(tok.astype(float)), np.nan)
    rec["img"] = tok.tolist()
    rec["size_ok"] = True
    rec["thin"] = bool(func != "mask_plane" and len(fileshape) > 2 and min(H, W) == 1)
    files = []
    try:
        if func in ("mask_file", "mask_file_cli"):
            rf = base + ".mim"
            region.save(rf)
            inf = base + "_in.fits"
            hdu = fits.PrimaryHDU(data.reshape(fileshape).astype(dtype), header=make_header(cards, len(fileshape)))
            hdu.writeto(inf, overwrite=True)
            files += [rf, inf]
        else:
            wcs = make_wcs(cards)
        for neg, fld in ((False, "outF"), (True, "outT")):
            if func in ("mask_file", "mask_file_cli"):
                outf = base + "_out%d.fits" % int(neg)
                files.append(outf)
                if func == "mask_file":
                    MIMAS.mask_file(rf, inf, outf, negate=neg)
                else:
                    from AegeanTools.CLI import MIMAS as cli
                    cli.main(["--maskimage", rf, inf, outf] + (["--negate"] if neg else []))
                with fits.open(outf) as hl:
                    out = np.array(hl[0].data, dtype=np.float64)
            else:
                planes = []
                for p in range(P):
                    planes.append(np.array(MIMAS.mask_plane(data[p].copy(), wcs, region, negate=neg), dtype=np.float64))
                out = np.array(planes)
            if out.size != P * H * W:
                rec["size_ok"] = False
                rec[fld] = []
            else:
                rec[fld] = tokens_of(out.reshape(P, H, W), invals).tolist()
    except Exception as e:   # the property's functions must complete on valid input
        rec["err"] = "%s: %s" % (type(e).__name__, str(e)[:200])
    for f in files:
        if os.path.exists(f):
            os.remove(f)
    return rec


def blank_image_record(rid, func, H, W, P):
    return {"id": rid, "kind": "image", "func": func, "H": H, "W": W, "P": P, "err": "",
            "In": [], "skip": [], "img": [], "outF": [], "outT": [], "size_ok": True}


# --------------------------------------------------------------------------
# spec -> code: the small grids printed by TLC
# --------------------------------------------------------------------------
GRID_VARIANTS = [
    # proj, crval, crpix(x=col, y=row; FITS 1-based), cdelt, CD-matrix keywords
    ("SIN", (150.3, -31.7), (2.0, 2.0), (-1.5, 1.25), False),
    ("TAN", (12.9, 41.3), (-6.5, 9.25), (-1.2, 1.6), False),      # reference pixel off the image
    ("ZEA", (278.1, 7.9), (3.5, -4.0), (-1.75, 1.3), True),
    ("SIN", (359.2, -62.2), (11.0, 12.5), (-1.25, 1.25), False),  # RA wrap, far-off CRPIX
]


def grid_geometry(H, W, variant):
    key = (H, W, variant)
    if key in _GEO:
        return _GEO[key]
    proj, crval, crpix, cdelt, cd = GRID_VARIANTS[variant]
    assert min(abs(cdelt[0]), abs(cdelt[1])) >= 20 * pixsize_deg(GRID_DEPTH)
    for k in range(200):
        cv = (crval[0] + 0.013 * k, crval[1] + 0.007 * k)
        cards = header_cards(proj, cv, crpix, cdelt, cd)
        w = make_wcs(cards)
        # the image and a one-pixel frame around it: all centres in distinct
        # HEALPix pixels, well away (1e-4 deg) from pixel edges
        cols, rows = np.meshgrid(np.arange(-1.0, W + 1), np.arange(-1.0, H + 1))
        ra, dec = w.all_pix2world(cols.ravel(), rows.ravel(), 0)
        if not (np.all(np.isfinite(ra)) and np.all(np.isfinite(dec))):
            continue
        hp_all = hpx_of(ra, dec, GRID_DEPTH)
        if len(set(hp_all.tolist())) != hp_all.size or near_edge(ra, dec, GRID_DEPTH, 1e-4).any():
            continue
        ra_c, dec_c = centres(w, H, W)
        g = {"cards": cards, "hpx": hpx_of(ra_c, dec_c, GRID_DEPTH)}
        _GEO[key] = g
        return g
    raise common.MachineryError("no admissible geometry for %r" % (key,))


def observe_grid(job):
    from AegeanTools.regions import Region
    c = job["case"]
    H, W, P = c["H"], c["W"], c["P"]
    rec = blank_image_record(job["id"], job["func"], H, W, P)
    rec["pat"] = c["pat"]
    g = grid_geometry(H, W, job["variant"])
    In = np.array(c["In"], dtype=bool).reshape(H, W)
    rec["In"] = In.tolist()
    rec["skip"] = np.zeros((H, W), bool).tolist()
    region = Region(maxdepth=GRID_DEPTH)
    region.add_pixels([int(p) for p in g["hpx"][In]], GRID_DEPTH)
    blank = np.array(c["blank"], dtype=bool).reshape(P, H, W)
    tok = np.zeros((P, H, W), dtype=int)
    tok[~blank] = np.arange(1, int((~blank).sum()) + 1)
    fileshape = (H, W) if P == 1 else (P, H, W)
    if job["variant"] % 2 == 1:                      # degenerate leading axes (squeezed by mask_file)
        fileshape = (1, 1, H, W) if P == 1 else (1, P, H, W)
    dtype = np.float32 if job["variant"] in (0, 3) else np.float64
    base = os.path.join(_DIR, "g%d_%s" % (os.getpid(), abs(hash(job["id"])) % 10 ** 9))
    return run_image(rec, g["cards"], region, tok, job["func"], fileshape, dtype, base)


# --------------------------------------------------------------------------
# code -> spec: seeded random larger images
# --------------------------------------------------------------------------
def random_region(rng, depth, w, H, W, scale_deg):
    """circles / convex polygons placed on the image, some at coarser depths,
    optionally with a hole; returns a real Region(maxdepth=depth)."""
    from AegeanTools.regions import Region

    def sky(x, y):
        a, b = w.all_pix2world([x], [y], 0)
        return math.radians(float(a[0])), math.radians(float(b[0]))

    reg = Region(maxdepth=depth)
    nshape = rng.choice([1, 1, 2, 3])
    for _ in range(nshape):
        cx, cy = rng.uniform(-0.1, 1.1) * W, rng.uniform(-0.1, 1.1) * H
        d = rng.choice([None, depth, depth, depth - 1, depth - 2])
        if rng.random() < 0.6:
            ra, dec = sky(cx, cy)
            reg.add_circles(ra, dec, math.radians(rng.uniform(0.08, 0.35) * scale_deg), depth=d)
        else:
            n = rng.choice([3, 4, 5, 6])
            rx, ry = rng.uniform(0.1, 0.4) * W, rng.uniform(0.1, 0.4) * H
            a0 = rng.uniform(0, 2 * math.pi)
            pts = [sky(cx + rx * math.cos(a0 + 2 * math.pi * k / n), cy + ry * math.sin(a0 + 2 * math.pi * k / n))
                   for k in range(n)]
            reg.add_poly(pts, depth=d)
    if rng.random() < 0.3:
        hole = Region(maxdepth=depth)
        ra, dec = sky(rng.uniform(0.2, 0.8) * W, rng.uniform(0.2, 0.8) * H)
        hole.add_circles(ra, dec, math.radians(rng.uniform(0.03, 0.1) * scale_deg))
        reg.without(hole)
    return reg


def observe_rimg(job):
    rng = random.Random(job["seed"])
    rec = None
    for attempt in range(50):
        H, W = rng.randint(4, 64), rng.randint(4, 64)
        P = rng.choice([1, 1, 2, 3])
        depth = rng.randint(8, 12)
        proj = rng.choice(["SIN", "TAN", "ZEA"])
        k1, k2 = rng.uniform(1.2, 3.5), rng.uniform(1.2, 3.5)     # region depth finer than the pixel grid
        cdelt = (-k1 * pixsize_deg(depth), k2 * pixsize_deg(depth))
        if rng.random() < 0.15:
            cdelt = (-cdelt[0], cdelt[1])
        if rng.random() < 0.15:
            cdelt = (cdelt[0], -cdelt[1])
        scale = max(H * abs(cdelt[1]), W * abs(cdelt[0]))          # angular size of the image
        crval = (rng.uniform(0, 360), math.degrees(math.asin(rng.uniform(-0.97, 0.97))))
        if rng.random() < 0.15:
            crval = (rng.choice([0.0, 359.9, 0.05]), crval[1])
        if rng.random() < 0.15:
            crval = (crval[0] - 360.0, crval[1])       # the same reference position written with a negative longitude
        mode = rng.random()
        if mode < 0.4:      # on the image
            crpix = (rng.uniform(1, W), rng.uniform(1, H))
        elif mode < 0.5:
            crpix = (float(W // 2 + 1), float(H // 2 + 1))
        else:               # off the image, but within ~35 deg of it
            off = min(2.0, 35.0 / max(scale, 1e-9))
            crpix = (rng.uniform(-off, 1 + off) * W, rng.uniform(-off, 1 + off) * H)
        cards = header_cards(proj, crval, crpix, cdelt, cd=rng.random() < 0.3)
        w = make_wcs(cards)
        ra, dec = centres(w, H, W)
        if not (np.all(np.isfinite(ra)) and np.all(np.isfinite(dec))):
            continue
        try:
            region = random_region(rng, depth, w, H, W, scale)
        except Exception:
            continue            # healpy rejects the shape (non-convex polygon ...): draw again
        member = set(int(p) for p in copy.deepcopy(region).get_demoted())
        hpx = hpx_of(ra, dec, depth)
        In = np.isin(hpx, np.fromiter(member, dtype=np.int64, count=len(member))) if member else np.zeros((H, W), bool)
        if attempt < 40 and (In.all() or not In.any()):
            continue            # prefer inputs where the region boundary crosses the image
        skip = near_edge(ra, dec, depth)
        func = job["func"]
        if func == "mask_plane":
            P = 1
        rec = blank_image_record(job["id"], func, H, W, P)
        rec.update({"In": In.tolist(), "skip": skip.tolist(), "seed": job["seed"], "pat": "random",
                    "proj": proj, "depth": depth, "n_in": int(In.sum()), "n_skip": int(skip.sum())})
        blank = np.zeros((P, H, W), bool)
        fb = rng.choice([0.0, 0.0, 0.05, 0.3])
        if fb:
            blank = np.array([[[rng.random() < fb for _ in range(W)] for _ in range(H)] for _ in range(P)])
        tok = np.zeros((P, H, W), dtype=int)
        perm = list(range(1, int((~blank).sum()) + 1))
        rng.shuffle(perm)
        tok[~blank] = perm
        fileshape = rng.choice([(P, H, W), (1, P, H, W), (P, 1, H, W)]) if P > 1 else rng.choice([(H, W), (1, H, W), (1, 1, H, W)])
        dtype = rng.choice([np.float32, np.float64])
        base = os.path.join(_DIR, "r%d_%d" % (os.getpid(), job["seed"]))
        return run_image(rec, cards, region, tok, func, fileshape, dtype, base)
    raise common.MachineryError("random image generator exhausted for seed %d" % job["seed"])


# --------------------------------------------------------------------------
# tables
# --------------------------------------------------------------------------
COLNAMES = [("ra", "dec"), ("RAJ2000", "DEJ2000"), ("lon", "lat"), ("alpha_deg", "delta_deg")]


def table_region_fixed():
    """depth-10 region for the enumerated tables: eight scattered pixels plus the
    two pixels a NaN coordinate replaced by 0 would fall into."""
    import healpy as hp
    from AegeanTools.regions import Region
    ns = 2 ** GRID_DEPTH
    inside = [int(hp.ang2pix(ns, 10.0 + 17.3 * k, -50.0 + 13.1 * k, nest=True, lonlat=True)) for k in range(8)]
    traps = [int(hp.ang2pix(ns, 0.0, 0.0, nest=True)), int(hp.ang2pix(ns, 0.0, 0.0, nest=True, lonlat=True)),
             int(hp.ang2pix(ns, math.pi / 2, 0.0, nest=True))]
    member = set(inside + traps)
    outside = []
    for p in inside:
        nb = [int(q) for q in hp.get_all_neighbours(ns, p, nest=True) if q >= 0 and int(q) not in member]
        outside.append(nb[len(outside) % len(nb)])
    reg = Region(maxdepth=GRID_DEPTH)
    reg.add_pixels(sorted(member), GRID_DEPTH)
    pos_in = [hp.pix2ang(ns, p, nest=True, lonlat=True) for p in inside]
    pos_out = [hp.pix2ang(ns, p, nest=True, lonlat=True) for p in outside]
    return reg, [(float(a), float(b)) for a, b in pos_in], [(float(a), float(b)) for a, b in pos_out]


def str_token(v):
    if isinstance(v, (bytes, np.bytes_)):
        v = v.decode()
    return "s:" + str(v).strip()


def project_table(t, racol, deccol):
    """rows of an astropy table as [key, cols]: key = integer uid, cols = identity
    tokens of the other non-coordinate columns (in the input's column order)."""
    names = [n for n in t.colnames]
    rows = []
    for row in t:
        cols = []
        for n in names:
            if n in (racol, deccol, "uid"):
                continue
            v = row[n]
            if np.ma.is_masked(v):
                cols.append("masked")
            elif isinstance(v, (float, np.floating)):
                cols.append(common.hexf(v))
            elif isinstance(v, (int, np.integer)):
                cols.append("i:%d" % int(v))
            else:
                cols.append(str_token(v))
        rows.append({"key": int(row["uid"]), "cols": cols})
    return names, rows


def run_table(rec, region, coords, inbits, func, fmt, names_sel, order_seed, base):
    """coords: list of (ra, dec) in degrees, NaN = undefined."""
    from astropy.table import Table
    from AegeanTools import MIMAS
    racol, deccol = names_sel
    n = len(coords)
    rr = random.Random(order_seed)
    uid = rr.sample(range(1, 10 * n + 10), n)                 # unique, unordered keys
    cols = {"uid": np.array(uid, dtype=np.int64),
            racol: np.array([c[0] for c in coords], dtype=np.float64),
            deccol: np.array([c[1] for c in coords], dtype=np.float64),
            "peak_flux": np.array([value_of(3 * u) * 1.0 + 1.0 / 3.0 for u in uid], dtype=np.float64),
            "name": np.array(["src_%d_x" % u for u in uid], dtype="U16")}
    order = [["uid", racol, deccol, "peak_flux", "name"], [racol, "name", deccol, "uid", "peak_flux"],
             ["name", "peak_flux", "uid", deccol, racol]][order_seed % 3]
    t = Table({k: cols[k] for k in order})
    if func == "mask_table" and order_seed % 2 == 1 and any(not (np.isfinite(c[0]) and np.isfinite(c[1])) for c in coords):
        # undefined coordinates as MASKED entries (outer joins, null-filling readers): the hidden value
        # under the mask is a position INSIDE the region and must never be used
        inside = [c for c, b in zip(coords, inbits) if b and np.isfinite(c[0]) and np.isfinite(c[1])]
        if inside:
            t = Table(t, masked=True)
            for i, c in enumerate(coords):
                if not np.isfinite(c[0]):
                    t[racol][i] = inside[0][0]
                    t[racol].mask[i] = True
                if not np.isfinite(c[1]):
                    t[deccol][i] = inside[0][1]
                    t[deccol].mask[i] = True
            rec["masked_input"] = True
    rec["names"], prow = project_table(t, racol, deccol)
    rec["rows"] = [{"key": p["key"], "cols": p["cols"],
                    "ra_def": bool(np.isfinite(c[0])), "dec_def": bool(np.isfinite(c[1])), "in": bool(b)}
                   for p, c, b in zip(prow, coords, inbits)]
    files = []
    try:
        if func != "mask_table":
            rf, inf = base + ".mim", base + "_in." + fmt
            region.save(rf)
            if os.path.exists(inf):
                os.remove(inf)
            t.write(inf, format={"csv": "ascii.csv", "fits": "fits"}[fmt])
            files += [rf, inf]
        for neg, fld, nfld in ((False, "outF", "namesF"), (True, "outT", "namesT")):
            if func != "mask_table":
                outf = base + "_out%d.%s" % (int(neg), fmt)
                files.append(outf)
                if func == "mask_catalog":
                    MIMAS.mask_catalog(rf, inf, outf, negate=neg, racol=racol, deccol=deccol)
                else:
                    from AegeanTools.CLI import MIMAS as cli
                    cli.main(["--maskcat", rf, inf, outf, "--colnames", racol, deccol] + (["--negate"] if neg else []))
                o = Table.read(outf, format={"csv": "ascii.csv", "fits": "fits"}[fmt])
            else:
                o = MIMAS.mask_table(region, t, negate=neg, racol=racol, deccol=deccol)
            rec[nfld], rec[fld] = project_table(o, racol, deccol)
    except Exception as e:
        rec["err"] = "%s: %s" % (type(e).__name__, str(e)[:200])
    for f in files:
        if os.path.exists(f):
            os.remove(f)
    return rec


def blank_table_record(rid, func, fmt):
    return {"id": rid, "kind": "table", "func": func, "fmt": fmt, "err": "", "names": [], "rows": [],
            "outF": [], "outT": [], "namesF": [], "namesT": []}


def observe_tab(job):
    """a table printed by TLC: sequence of classes"""
    reg, pos_in, pos_out = table_region_fixed()
    nan = float("nan")
    coords, bits = [], []
    for i, cls in enumerate(job["classes"]):
        a, b = pos_in[(i + job["variant"]) % len(pos_in)]
        if cls == "inside":
            coords.append((a, b)); bits.append(True)
        elif cls == "outside":
            coords.append(pos_out[(i + job["variant"]) % len(pos_out)]); bits.append(False)
        elif cls == "nan_ra":
            coords.append((nan, b)); bits.append(True)     # bit meaningless, as in MC_Masking
        else:
            coords.append((a, nan)); bits.append(True)
    rec = blank_table_record(job["id"], job["func"], job["fmt"])
    rec["classes"] = "".join({"inside": "I", "outside": "O", "nan_ra": "a", "nan_dec": "d"}[c] for c in job["classes"])
    base = os.path.join(_DIR, "t%d_%s" % (os.getpid(), abs(hash(job["id"])) % 10 ** 9))
    return run_table(rec, reg, coords, bits, job["func"], job["fmt"],
                     COLNAMES[job["variant"] % len(COLNAMES)], job["variant"], base)


def observe_rtab(job):
    import healpy as hp
    from AegeanTools.regions import Region
    rng = random.Random(job["seed"])
    depth = rng.randint(5, 12)
    ns = 2 ** depth
    reg = Region(maxdepth=depth)
    ra0, dec0 = rng.uniform(0, 360), math.degrees(math.asin(rng.uniform(-0.99, 0.99)))
    if rng.random() < 0.15:
        ra0 = rng.choice([0.0, 359.99])
    if rng.random() < 0.1:
        dec0 = rng.choice([-89.9, 89.9])
    size = rng.uniform(3, 12) * pixsize_deg(depth)
    for _ in range(rng.choice([1, 2, 3])):
        a = (ra0 + rng.uniform(-1, 1) * size / max(math.cos(math.radians(dec0)), 0.05)) % 360
        b = max(-90, min(90, dec0 + rng.uniform(-1, 1) * size))
        reg.add_circles(math.radians(a), math.radians(b), math.radians(rng.uniform(0.3, 1.0) * size),
                        depth=rng.choice([None, depth, depth - 1]))
    member = set(int(p) for p in copy.deepcopy(reg).get_demoted())
    n = rng.choice([0, 1, 2, 3, 7, 20, 60, 150])
    coords, bits = [], []
    nan = float("nan")
    while len(coords) < n:
        u = rng.random()
        if u < 0.12:
            coords.append(rng.choice([(nan, dec0), (ra0, nan), (nan, nan)])); bits.append(True)
            continue
        a = (ra0 + rng.uniform(-2.5, 2.5) * size / max(math.cos(math.radians(dec0)), 0.05)) % 360
        b = max(-90, min(90, dec0 + rng.uniform(-2.5, 2.5) * size))
        if near_edge(np.array([a]), np.array([b]), depth)[0]:
            continue
        coords.append((a, b))
        bits.append(int(hp.ang2pix(ns, a, b, nest=True, lonlat=True)) in member)
    conv = rng.random()
    if conv < 0.2:          # the (-180, 180] longitude convention
        coords = [((a - 360.0 if a > 180.0 else a), b) for (a, b) in coords]
    elif conv < 0.3:        # one turn further on
        coords = [(a + 360.0, b) for (a, b) in coords]
    func = job["func"]
    fmt = rng.choice(["csv", "fits"])
    rec = blank_table_record(job["id"], func, fmt)
    rec.update({"seed": job["seed"], "classes": "random", "depth": depth})
    base = os.path.join(_DIR, "rt%d_%d" % (os.getpid(), job["seed"]))
    return run_table(rec, reg, coords, bits, func, fmt, rng.choice(COLNAMES), rng.randint(0, 5), base)


def observe(job):
    return {"grid": observe_grid, "rimg": observe_rimg, "tab": observe_tab, "rtab": observe_rtab}[job["type"]](job)


# --------------------------------------------------------------------------
# TLC side
# --------------------------------------------------------------------------
_LOCK = threading.Lock()


def tlc_job(ctx, module, cfg_text, name, **kw):
    """ctx.tlc with thread-safe accounting (several TLC processes run concurrently)"""
    res = common.run_tlc(module, cfg_text, os.path.join(ctx.workdir, name), **kw)
    with _LOCK:
        ctx.cov["states"] += res.distinct
        ctx.cov["transitions"] += res.generated
        ctx.cov["tlc_jobs"].append({"job": name, "module": module, "distinct": res.distinct,
                                    "generated": res.generated, "depth": res.depth, "wall_s": round(res.wall, 2),
                                    "violated": res.violated})
        for a, (d, t) in res.coverage.items():
            ctx.cov["actions"][name + "." + a] = t
    if res.error is not None or res.violated is not None:
        raise common.MachineryError("TLC job %s failed: %s\n%s" % (name, res.error or ("violated " + res.violated),
                                                                   "\n".join(res.stdout.splitlines()[-40:])))
    return res


def validate(ctx, recs, name):
    """-> [(record, failing clause names)] as decided by TLC (Masking_Trace)"""
    tf = os.path.join(ctx.workdir, name + ".json")
    byid = {r["id"]: r for r in recs}
    if len(byid) != len(recs):
        raise common.MachineryError("duplicate record ids in batch " + name)
    keep = ("id", "kind", "func", "H", "W", "P", "In", "skip", "img", "outF", "outT", "size_ok", "err",
            "rows", "names", "namesF", "namesT")
    common.dump_json(tf, [{k: r[k] for k in keep if k in r} for r in recs])
    res = tlc_job(ctx, "Masking_Trace", common.cfg(spec="Spec", post="BatchDone", deadlock=False), name,
                  workers=1, env={"TRACE_FILE": tf}, heap="2g")
    summary = [p for p in res.printed if "accepted" in p]
    rej = [p for p in res.printed if "fails" in p]
    if not summary or summary[0]["total"] != len(recs) or summary[0]["accepted"] + len(rej) != len(recs) \
            or summary[0]["rejected"] != len(rej):
        raise common.MachineryError("trace batch %s not fully consumed" % name)
    os.remove(tf)
    return [(byid[p["id"]], p["fails"]) for p in rej]


def validate_all(ctx, recs, label, per_batch):
    """size-balanced batches validated by parallel single-worker TLC runs"""
    def weight(r):
        return 40 + (r["H"] * r["W"] * r["P"] if r["kind"] == "image" else len(r["rows"]) ** 2 // 2)
    batches, cur, wsum = [], [], 0
    for r in recs:
        cur.append(r)
        wsum += weight(r)
        if wsum >= per_batch:
            batches.append(cur)
            cur, wsum = [], 0
    if cur:
        batches.append(cur)
    with ThreadPool(8) as tp:
        outs = tp.map(lambda ib: validate(ctx, ib[1], "%s_%d" % (label, ib[0])), list(enumerate(batches)))
    return [x for o in outs for x in o]


def key_of(rec, fails):
    if rec["kind"] == "image":
        cls = "grid %s P=%d" % (rec["pat"], rec["P"]) if rec.get("pat") != "random" else "random-image"
        if rec.get("thin"):       # a spatial axis of length 1 in a file with more than two axes
            cls = "thin-cube P=%d" % rec["P"]
        return "image %s %s fails=%s" % (rec["func"], cls, ",".join(fails))
    cls = "rowkinds=%s" % "".join(sorted(set(rec["classes"]))) if rec.get("classes") != "random" else "random-table"
    if rec.get("classes") == "":
        cls = "empty-table"
    elif rec.get("classes") == "random" and not rec["rows"]:
        cls = "random-table empty"
    return "table %s %s fails=%s" % (rec["func"], cls, ",".join(fails))


def report(ctx, rejected, jobs_by_id):
    for rec, fails in rejected:
        small = {k: rec.get(k) for k in ("id", "kind", "func", "H", "W", "P", "pat", "seed", "err", "classes",
                                         "proj", "depth", "fmt", "thin")}
        d = {"job": jobs_by_id[rec["id"]], "record": small, "fails": fails}
        if rec["kind"] == "image" and rec["H"] * rec["W"] <= 12:
            d["observed"] = {k: rec[k] for k in ("In", "img", "outF", "outT")}
        if rec["kind"] == "table" and len(rec["rows"]) <= 6:
            d["observed"] = {k: rec[k] for k in ("rows", "outF", "outT", "names", "namesF", "namesT")}
        ctx.violation(key_of(rec, fails), d)


# --------------------------------------------------------------------------
# self-test: Masking_Trace accepts a conforming record and rejects each
# single-field corruption with the expected clause
# --------------------------------------------------------------------------
def selftest(ctx):
    F, T = False, True
    good = {"id": "st-good", "kind": "image", "func": "selftest", "H": 2, "W": 3, "P": 2, "err": "", "size_ok": True,
            "In": [[T, F, F], [T, T, F]], "skip": [[F, F, F], [F, F, F]],
            "img": [[[1, 2, 0], [3, 4, 5]], [[6, 7, 8], [0, 9, 10]]],
            "outF": [[[1, 0, 0], [3, 4, 0]], [[6, 0, 0], [0, 9, 0]]],
            "outT": [[[0, 2, 0], [0, 0, 5]], [[0, 7, 8], [0, 0, 10]]]}

    def mut(rid, fld, p, r, c, v):
        m = copy.deepcopy(good)
        m["id"] = rid
        m[fld][p][r][c] = v
        return m
    bads = {
        "st-shift": (dict(copy.deepcopy(good), id="st-shift",
                          outF=[[[0, 0, 0], [0, 2, 0]], [[0, 0, 0], [0, 7, 0]]]), "blank_exactly_outside"),
        "st-kept-outside": (mut("st-kept-outside", "outF", 0, 0, 1, 2), "blank_exactly_outside"),
        "st-blanked-inside": (mut("st-blanked-inside", "outF", 0, 1, 1, 0), "blank_exactly_outside"),
        "st-value": (mut("st-value", "outF", 0, 1, 0, 4), "unchanged_elsewhere"),
        "st-foreign": (mut("st-foreign", "outT", 1, 0, 1, -1), "negate_unchanged_elsewhere"),
        "st-neg": (mut("st-neg", "outT", 0, 0, 0, 1), "negate_blank_exactly_inside"),
        "st-plane2": (mut("st-plane2", "outF", 1, 0, 0, 0), "planes_identical"),
        "st-err": (dict(copy.deepcopy(good), id="st-err", err="IndexError"), "completed"),
        "st-size": (dict(copy.deepcopy(good), id="st-size", size_ok=False), "shape_kept"),
    }
    skipok = mut("st-skip-ok", "outF", 0, 0, 1, 2)      # same corruption, but the pixel is undecidable
    skipok["skip"][0][1] = True
    skipok["outT"][0][0][1] = 0                          # what a consistent implementation would also show:
    skipok["outF"][1][0][1] = 7                          # complementary results, same mask on both planes
    skipok["outT"][1][0][1] = 0
    tg = {"id": "st-tab-good", "kind": "table", "func": "selftest", "err": "",
          "names": ["uid", "RAJ", "DEJ", "flux"], "namesF": ["uid", "RAJ", "DEJ", "flux"],
          "namesT": ["uid", "RAJ", "DEJ", "flux"],
          "rows": [{"key": 7, "ra_def": T, "dec_def": T, "in": T, "cols": ["a7"]},
                   {"key": 3, "ra_def": F, "dec_def": T, "in": T, "cols": ["a3"]},
                   {"key": 9, "ra_def": T, "dec_def": T, "in": F, "cols": ["a9"]},
                   {"key": 1, "ra_def": T, "dec_def": F, "in": T, "cols": ["a1"]},
                   {"key": 4, "ra_def": T, "dec_def": T, "in": T, "cols": ["a4"]}],
          "outF": [{"key": 3, "cols": ["a3"]}, {"key": 9, "cols": ["a9"]}, {"key": 1, "cols": ["a1"]}],
          "outT": [{"key": 7, "cols": ["a7"]}, {"key": 4, "cols": ["a4"]}]}

    def tmut(rid, **kw):
        m = copy.deepcopy(tg)
        m["id"] = rid
        m.update(kw)
        return m
    tb = {
        "st-tab-nan-inside": (tmut("st-tab-nan-inside", outF=[tg["outF"][1], tg["outF"][2]],
                                   outT=[tg["outT"][0], tg["outF"][0], tg["outT"][1]]), "undefined_never_inside"),
        "st-tab-order": (tmut("st-tab-order", outF=[tg["outF"][1], tg["outF"][0], tg["outF"][2]]), "order_preserved"),
        "st-tab-col": (tmut("st-tab-col", outT=[{"key": 7, "cols": ["a4"]}, {"key": 4, "cols": ["a4"]}]),
                       "negate_other_columns_unchanged"),
        "st-tab-polarity": (tmut("st-tab-polarity", outF=tg["outT"], outT=tg["outF"]), "rows_removed_exactly"),
        "st-tab-missing": (tmut("st-tab-missing", outF=tg["outF"][:2]), "undefined_never_inside"),
        "st-tab-dup": (tmut("st-tab-dup", outT=[tg["outT"][0], tg["outT"][0], tg["outT"][1]]), "negate_no_rows_invented"),
        "st-tab-names": (tmut("st-tab-names", namesF=["uid", "RAJ", "DEJ"]), "columns_preserved"),
    }
    empty = tmut("st-tab-empty", rows=[], outF=[], outT=[])
    recs = [good, skipok, tg, empty] + [b[0] for b in bads.values()] + [b[0] for b in tb.values()]
    got = {r["id"]: f for r, f in validate(ctx, recs, "selftest")}
    for ok in ("st-good", "st-skip-ok", "st-tab-good", "st-tab-empty"):
        if ok in got:
            raise common.MachineryError("Masking_Trace self-test: conforming record %s rejected: %r" % (ok, got[ok]))
    for rid, (_, clause) in list(bads.items()) + list(tb.items()):
        if rid not in got or clause not in got[rid]:
            raise common.MachineryError("Masking_Trace self-test: corrupted record %s not rejected with %s (got %r)"
                                        % (rid, clause, got.get(rid)))
    ctx.notes["selftest"] = "2+2 conforming records accepted, %d single-field corruptions rejected with the expected clause" % (len(bads) + len(tb))


# --------------------------------------------------------------------------
def mc_constants(maxh, maxw, maxrows, full, emit, images=True, tables=True, origin=0):
    return {"MaxH": maxh, "MaxW": maxw, "MaxRows": maxrows, "FullBlanks": full, "Emit": emit,
            "DoImages": images, "DoTables": tables, "Origin": origin}


INVARIANTS = ["ThmExact", "ThmComplement", "ThmPlanes", "ThmIdempotent", "ThmTrivialRegions",
              "ThmCodedDesign", "ThmTable", "ThmTableComplement"]


def case_id(c):
    if c["kind"] == "image":
        bl = "".join("".join("1" if b else "0" for row in pl for b in row) for pl in c["blank"])
        return "H%dW%dP%d/%s(%d,%d)/bl%s" % (c["H"], c["W"], c["P"], c["pat"], c["a"], c["b"], bl)
    return "tab/" + ("".join({"inside": "I", "outside": "O", "nan_ra": "a", "nan_dec": "d"}[x] for x in c["classes"]) or "empty")


def run(ctx):
    quick = ctx.tier == "quick"
    # 1. the model: theorems over the whole bounded domain (runs while the
    #    real code is being driven; joined before the verdict)
    bg = ThreadPool(1)
    thm = bg.apply_async(tlc_job, (ctx, "MC_Masking", common.cfg(
        spec="Spec", constants=mc_constants(3, 3 if quick else 4, 5, True, False), invariants=INVARIANTS,
        deadlock=False), "mc_theorems_fullblanks"), dict(coverage=True, heap="12g", workers=6))
    # 2. the cases that are replayed on the real code (quick: restricted blank
    #    family on 3x4; thorough: every blank subset up to 3x3 + restricted 3x4)
    jobs_emit = [("emit_3x4", mc_constants(3, 4, 5, False, True))]
    if not quick:
        jobs_emit.append(("emit_3x3_full", mc_constants(3, 3, 0, True, True, tables=False)))
        jobs_emit.append(("emit_2x4_full", mc_constants(2, 4, 0, True, True, tables=False)))
    cases = {}
    for name, consts in jobs_emit:
        res = tlc_job(ctx, "MC_Masking", common.cfg(spec="Spec", constants=consts, invariants=INVARIANTS, deadlock=False),
                      name, coverage=True, heap="12g", workers=8)
        ctx.require_actions(res, ["MaskImg"], name)
        if 4 * len(res.printed) != res.distinct:      # states = (input + done) x negate; one print per negate=FALSE input
            raise common.MachineryError("%s: %d cases printed for %d states" % (name, len(res.printed), res.distinct))
        for c in res.printed:
            cases[case_id(c)] = c
    # the model is sensitive to the index-origin convention of the coded design
    r1 = common.run_tlc("MC_Masking", common.cfg(spec="Spec", constants=mc_constants(2, 2, 0, False, False, tables=False, origin=1),
                                                 invariants=["ThmCodedDesign"], deadlock=False),
                        os.path.join(ctx.workdir, "design_origin1"), workers=2, heap="2g")
    if r1.violated != "ThmCodedDesign":
        raise common.MachineryError("model insensitive: Origin=1 gives no counterexample (%r, %r)" % (r1.violated, r1.error))
    ctx.notes["design_counterexample_origin1"] = ("MC_Masking with Origin=1 (0-based indices passed under the 1-based "
                                                  "convention) violates ThmCodedDesign as expected")
    selftest(ctx)

    rng = random.Random(ctx.seed)
    jobs = []
    k = 0
    for cid in sorted(cases):
        c = cases[cid]
        k += 1
        if c["kind"] == "image":
            v = k % len(GRID_VARIANTS)
            if c["P"] == 1:
                jobs.append({"type": "grid", "id": cid + "/mask_plane/g%d" % v, "case": c, "func": "mask_plane", "variant": v})
                if k % 4 == 0 or not quick:
                    v2 = (v + 1) % len(GRID_VARIANTS)
                    jobs.append({"type": "grid", "id": cid + "/mask_file/g%d" % v2, "case": c, "func": "mask_file", "variant": v2})
            else:
                jobs.append({"type": "grid", "id": cid + "/mask_file/g%d" % v, "case": c, "func": "mask_file", "variant": v})
        else:
            v = k % 12
            jobs.append({"type": "tab", "id": cid + "/mask_table/v%d" % v, "classes": c["classes"], "func": "mask_table",
                         "fmt": "", "variant": v})
            if k % 4 == 0 or not quick or len(c["classes"]) <= 2:
                fmt = ("csv", "fits")[k % 2]
                jobs.append({"type": "tab", "id": cid + "/mask_catalog/%s/v%d" % (fmt, v), "classes": c["classes"],
                             "func": "mask_catalog", "fmt": fmt, "variant": v})
    n_grid = len(jobs)
    nimg, ntab = (220, 200) if quick else (4000, 3000)
    for i in range(nimg):
        s = rng.randint(0, 2 ** 31 - 1)
        func = ("mask_plane", "mask_file", "mask_plane", "mask_file", "mask_file_cli")[i % 5]
        jobs.append({"type": "rimg", "id": "rimg/%d/%s" % (s, func), "seed": s, "func": func})
    for i in range(ntab):
        s = rng.randint(0, 2 ** 31 - 1)
        func = ("mask_table", "mask_catalog", "mask_table", "mask_catalog", "mask_catalog_cli")[i % 5]
        jobs.append({"type": "rtab", "id": "rtab/%d/%s" % (s, func), "seed": s, "func": func})
    jobs_by_id = {j["id"]: j for j in jobs}
    if len(jobs_by_id) != len(jobs):
        raise common.MachineryError("duplicate job ids")

    d = os.path.join(ctx.workdir, "files")
    t0 = common.time.time()
    with mp.Pool(16, initializer=_init, initargs=(d,)) as pool:
        recs = pool.map(observe, jobs, chunksize=16)
    t1 = common.time.time()
    rejected = validate_all(ctx, recs, "trace", 60000)
    t2 = common.time.time()
    res = thm.get()
    bg.close()
    ctx.require_actions(res, ["MaskImg", "MaskTab"], "mc_theorems_fullblanks")
    ctx.notes["phases_s"] = {"drive_real_code": round(t1 - t0, 1), "trace_validation": round(t2 - t1, 1),
                             "wait_for_theorem_job": round(common.time.time() - t2, 1)}

    rimg = [r for r in recs if r.get("pat") == "random" and r["err"] == ""]
    def nontrivial(r):
        if r["err"]:
            return False
        if r["kind"] == "table":
            return len(r["rows"]) > 0
        n_in = sum(sum(1 for b in row if b) for row in r["In"])
        return 0 < n_in < r["H"] * r["W"] and any(t > 0 for pl in r["img"] for row in pl for t in row)
    ctx.count(evaluations=2 * len(recs), traces=len(recs), nontrivial=sum(1 for r in recs if nontrivial(r)))
    ctx.cov["rule"] = ("one record = one (input, region) pair executed on the real code with negate off and on; "
                       "all records are distinct inputs; nontrivial = the region boundary crosses the image and the image has data / the table has rows")
    ctx.cov["exhaustive"] = True
    ctx.cov["domain"] = {"theorems": "all {value,blank} images up to 3x%d x 35 membership patterns x negate x planes{1,2}; all tables <= 5 rows over 4 classes x negate" % (3 if quick else 4),
                         "replayed_grid_cases": n_grid, "random_images": nimg, "random_tables": ntab,
                         "random_image_pixels": int(sum(r["H"] * r["W"] * r["P"] for r in rimg)),
                         "random_image_pixels_skipped_near_healpix_edge": int(sum(r.get("n_skip", 0) for r in rimg)),
                         "random_images_with_boundary_inside": int(sum(1 for r in rimg if 0 < r.get("n_in", 0) < r["H"] * r["W"]))}
    def pick(pred, default):
        return next((r for r in recs if pred(r)), default)
    for r in (pick(lambda r: r["kind"] == "image" and (r["H"], r["W"], r["P"]) == (3, 4, 2) and r.get("pat") == "col_ge", recs[0]),
              pick(lambda r: r["kind"] == "table" and len(r["rows"]) == 5 and set(r.get("classes", "")) == set("IOad"), recs[n_grid - 1]),
              recs[n_grid]):
        ctx.sample({k: v for k, v in r.items() if not (k in ("In", "skip", "img", "outF", "outT") and r.get("pat") == "random")})
    ctx.assumptions += [
        "membership oracle: HEALPix pixel (healpy.ang2pix, nest) at the region's maxdepth of the astropy.wcs "
        "all_pix2world(col,row,0) pixel-centre position, member of the region's demoted pixel set (C08 semantics of sky_within)",
        "pixel centres within 1e-6 deg of a HEALPix pixel edge are not compared for exactness (random images); grid cases keep "
        "every centre >= 1e-4 deg from an edge by construction; random table positions are redrawn if within 1e-6 deg of an edge",
        "rotation-free headers (CDELT or diagonal CD), SIN/TAN/ZEA, float32/float64 images, all centres have defined sky positions",
        "pixel values are distinct, non-zero and exactly representable; row identity is a unique integer column",
        "catalogue files: csv and fits (the formats astropy's Table.write recognises from the extension)"]
    report(ctx, rejected, jobs_by_id)


def replay(ctx, rec):
    job = rec["detail"]["job"]
    _init(os.path.join(ctx.workdir, "files"))
    r = observe(job)
    rej = validate(ctx, [r], "replay")
    report(ctx, rej, {job["id"]: job})
    ctx.count(evaluations=2, nontrivial=1, traces=1)
    ctx.sample({k: v for k, v in r.items() if not (k in ("In", "skip", "img", "outF", "outT") and r.get("pat") == "random")})
