"""
child of harness/x02.py: ONE Python process that executes a history of Process!Write /
Process!Call steps (spec/Process.tla) on the real package and prints, for every call, a
float-identity token of its result.

usage: proc_child.py '<json {"dir":..., "tag":..., "steps":[{"op":"write","path":"P","content":"A"},
                                                            {"op":"call","call":"bane","path":"P"}, ...]}>'
"""
import contextlib
import hashlib
import io
import json
import math
import os
import sys

SIG = 0.25


# --------------------------------------------------------------------------
# file contents (independent of AegeanTools: harness.synth)
# --------------------------------------------------------------------------
def content(name):
    """-> (image float64, header, bscale or None)"""
    import numpy as np
    from harness import synth
    if name == "A":        # small SIN image, round beam
        shape = (48, 64)
        h = synth.make_header(shape, proj="SIN", crval=(150.0, -30.0), cdelt_arcsec=20.0, beam_arcsec=(60.0, 60.0, 0.0))
        s = 3 * synth.FWHM2SIG
        comps = [(12.0, 20.3, 14.6, s, s, 0.0), (-9.0, 44.2, 30.1, s, s, 0.0), (6.0, 50.5, 12.0, 1.8 * s, s, 0.6)]
        seed, bscale = 11, None
    elif name == "B":      # other size, projection, pixel scale, elongated beam, stored with BSCALE = 2
        shape = (60, 52)
        h = synth.make_header(shape, proj="TAN", crval=(150.2, -29.9), cdelt_arcsec=30.0, beam_arcsec=(120.0, 90.0, 30.0))
        comps = [(15.0, 12.5, 40.5, 4 * synth.FWHM2SIG, 3 * synth.FWHM2SIG, 0.5),
                 (8.0, 33.0, 21.0, 4 * synth.FWHM2SIG, 3 * synth.FWHM2SIG, 0.5),
                 (10.0, 36.5, 24.0, 4 * synth.FWHM2SIG, 3 * synth.FWHM2SIG, 0.5),
                 (-7.0, 40.0, 50.0, 4 * synth.FWHM2SIG, 3 * synth.FWHM2SIG, 0.5)]
        seed, bscale = 12, 2.0
    elif name == "G":      # galactic frame
        shape = (50, 50)
        h = synth.make_header(shape, proj="SIN", crval=(150.0, -30.0), cdelt_arcsec=20.0, beam_arcsec=(60.0, 60.0, 0.0))
        h['CTYPE1'] = 'GLON-SIN'
        h['CTYPE2'] = 'GLAT-SIN'
        s = 3 * synth.FWHM2SIG
        comps = [(11.0, 15.0, 35.0, s, s, 0.0), (7.0, 30.4, 18.2, s, s, 0.0)]
        seed, bscale = 13, None
    else:
        raise ValueError(name)
    img = synth.render(shape, comps) + np.random.default_rng(seed).normal(0, SIG, shape)
    # a quiet corner with a seeded 2x2 block and a faint tail attached to it through pixel corners only
    img[0:9, 0:9] = 0.0
    img[2:4, 2:4] = 8.0 * SIG
    img[4, 4] = img[5, 5] = img[6, 4] = 4.5 * SIG
    # exactly representable in float32 also after the division by BSCALE (a power of two)
    img = np.asarray(np.asarray(img, dtype=np.float32), dtype=np.float64)
    return img, h, bscale


def prepare(cdir):
    """all file contents, made once by the harness (in a process of its own): the three images and
    BANE-style compressed versions of two of them (what `BANE --compress` writes)."""
    from AegeanTools import fits_tools
    for name in ("A", "B", "G"):
        write_image(name, os.path.join(cdir, name + ".fits"))
    fits_tools.compress(os.path.join(cdir, "A.fits"), 4, os.path.join(cdir, "CA.fits"))
    fits_tools.compress(os.path.join(cdir, "B.fits"), 3, os.path.join(cdir, "CB.fits"))
    # region files (what MIMAS writes) - the extension does not matter to Region.load
    from AegeanTools.regions import Region
    ra = Region(maxdepth=8)
    ra.add_circles(math.radians(150.05), math.radians(-29.95), math.radians(0.4))
    ra.save(os.path.join(cdir, "RA.fits"))
    rb = Region(maxdepth=10)
    rb.add_poly([[math.radians(149.8), math.radians(-30.2)], [math.radians(150.4), math.radians(-30.2)],
                 [math.radians(150.3), math.radians(-29.7)]])
    rb.add_circles(math.radians(330.0), math.radians(40.0), math.radians(0.3))
    rb.save(os.path.join(cdir, "RB.fits"))
    rf = Region(maxdepth=9)
    rf.add_circles(math.radians(150.2), math.radians(-30.0), math.radians(0.25))
    rf.save(os.path.join(cdir, "fixed_region.mim"))
    # catalogues (FITS tables of components) of the images A and B
    from AegeanTools.catalogs import save_catalog
    for name in ("A", "B"):
        sf, rows = _find(os.path.join(cdir, name + ".fits"), rms=SIG, bkg=0.0)
        save_catalog(os.path.join(cdir, "cat%s.fits" % name), rows)
        os.replace(os.path.join(cdir, "cat%s_comp.fits" % name), os.path.join(cdir, "T%s.fits" % name))


def write_content(name, path, cdir):
    import shutil
    shutil.copyfile(os.path.join(cdir, name + ".fits"), path)


def write_image(name, path):
    import numpy as np
    from astropy.io import fits
    img, h, bscale = content(name)
    raw = img if bscale is None else img / bscale
    hdu = fits.PrimaryHDU(np.asarray(raw, dtype=np.float32))
    for k, v in h.items():
        if k in ('SIMPLE', 'BITPIX', 'NAXIS', 'NAXIS1', 'NAXIS2', 'EXTEND'):
            continue
        hdu.header[k] = v
    if bscale is not None:
        hdu.header['BSCALE'] = bscale
    hdu.writeto(path, overwrite=True)


def file_digest(path):
    with open(path, "rb") as f:
        return hashlib.sha1(f.read()).hexdigest()


# --------------------------------------------------------------------------
# tokens
# --------------------------------------------------------------------------
def atok(*arrs):
    import numpy as np
    hsh = hashlib.sha1()
    shapes = []
    for a in arrs:
        a = np.ascontiguousarray(np.asarray(a, dtype=np.float64))
        shapes.append("x".join(str(n) for n in a.shape))
        hsh.update(a.tobytes())
    return ",".join(shapes) + ":" + hsh.hexdigest()[:16]


def rows_tok(rows):
    from harness import synth
    toks = [synth.src_token(s) for s in rows]
    return "n=%d:%s" % (len(rows), hashlib.sha1("|".join(toks).encode()).hexdigest()[:16])


def ftok(*vals):
    return ",".join(float(v).hex() for v in vals)


# --------------------------------------------------------------------------
# the entry points
# --------------------------------------------------------------------------
def call_bane(path, d, tag):
    from AegeanTools import BANE
    bkg, rms = BANE.filter_image(path, None, step_size=(4, 4), box_size=(16, 16), cores=2, nslice=2)
    return atok(bkg, rms)


def call_banefiles(path, d, tag):
    from astropy.io import fits
    from AegeanTools import BANE
    base = os.path.join(d, tag + "_bo")
    BANE.filter_image(path, base, step_size=(4, 4), box_size=(16, 16), cores=1, nslice=1, compressed=True)
    out = []
    for suf in ("_bkg.fits", "_rms.fits"):
        with fits.open(base + suf) as hl:
            hd = hl[0].header
            out.append(atok(hl[0].data) + "/" + ftok(hd.get("CRPIX1", 0), hd.get("CRPIX2", 0), hd.get("CDELT1", 0),
                                                     hd.get("BN_CFAC", 0), hd.get("BN_NPX1", 0), hd.get("BN_NPX2", 0)))
        os.remove(base + suf)
    return ";".join(out)


def _find(path, **kw):
    from AegeanTools.source_finder import SourceFinder
    sf = SourceFinder()
    rows = sf.find_sources_in_image(path, cores=1, nonegative=False, **kw)
    return sf, rows


def call_find(path, d, tag):
    sf, rows = _find(path, rms=SIG, bkg=0.0)
    held = len(sf.sources)
    return rows_tok(rows) + ":held=%d" % held


def call_findbane(path, d, tag):
    sf, rows = _find(path)
    return rows_tok(rows) + ":held=%d" % len(sf.sources)


_SHARED = {}
_CURRENT = {}          # path -> name of the contents last written there


def _shared(path):
    """ONE SourceFinder object per image for the whole process: the `aegean` program and scripts run the blind
    search, the priorized fit and --save on the same object.  (A SourceFinder is bound to the first image it
    loads - load_globals does not reload - so an object is never handed a second image here.)"""
    from AegeanTools.source_finder import SourceFinder
    key = _CURRENT.get(path)
    if key not in _SHARED:
        _SHARED[key] = SourceFinder()
    return _SHARED[key]


def call_findreuse(path, d, tag):
    rows = _shared(path).find_sources_in_image(path, cores=1, nonegative=False, rms=SIG, bkg=0.0)
    return rows_tok(rows)


def call_priorreuse(path, d, tag):
    sf = _shared(path)
    rows = sf.find_sources_in_image(path, cores=1, nonegative=False, rms=SIG, bkg=0.0)
    out = sf.priorized_fit_islands(path, catalogue=rows, rms=SIG, bkg=0.0, cores=1, stage=1, ratio=1.0)
    return rows_tok(out)


def call_savereuse(path, d, tag):
    from astropy.io import fits
    sf = _shared(path)
    base = os.path.join(d, tag + "_sv")
    sf.save_background_files(path, rms=SIG, bkg=0.0, cores=1, outbase=base)
    t = atok(fits.getdata(base + "_bkg.fits"), fits.getdata(base + "_rms.fits"))
    for suf in ("_bkg.fits", "_rms.fits", "_crv.fits", "_snr.fits"):
        if os.path.exists(base + suf):
            os.remove(base + suf)
    return t


def call_islands(path, d, tag):
    import numpy as np
    from astropy.io import fits
    from AegeanTools.source_finder import find_islands
    data = np.asarray(fits.getdata(path), dtype=np.float64)
    isl = find_islands(data, np.zeros_like(data), np.full_like(data, SIG), seed_clip=5.0, flood_clip=4.0)
    parts = []
    for i in isl:
        (r0, r1), (c0, c1) = i.bounding_box
        rr, cc = np.where(~np.asarray(i.mask))
        parts.append("%d-%d,%d-%d:%s" % (r0, r1, c0, c1, ".".join("%d_%d" % (a + r0, b + c0) for a, b in zip(rr, cc))))
    return "n=%d:%s" % (len(parts), hashlib.sha1("|".join(parts).encode()).hexdigest()[:16])


def call_band(path, d, tag):
    from AegeanTools.fits_tools import load_image_band
    data, header = load_image_band(path, band=(1, 3))
    return atok(data) + "/" + ftok(header["CRPIX1"], header["CRPIX2"], header["NAXIS1"], header["NAXIS2"])


def call_wcs(path, d, tag):
    from AegeanTools.wcs_helpers import WCSHelper
    w = WCSHelper.from_file(path)
    pos = (150.05, -29.95)
    out = []
    out += list(w.sky2pix(pos))
    out += list(w.pix2sky((10.5, 12.25)))
    out += list(w.sky2pix_ellipse(pos, 0.03, 0.02, 25.0))
    out += list(w.pix2sky_ellipse((20.0, 22.0), 3.0, 2.0, 40.0))
    out += list(w.sky2pix_vec(pos, 0.05, 70.0))
    out += [w.get_beamarea_pix(*pos), w.get_beamarea_deg2(*pos)]
    out += list(w.get_psf_pix2pix(20.0, 22.0))
    out += [w.sky_sep((3.0, 4.0), (30.0, 40.0))]
    return ftok(*out)


def call_findsave(path, d, tag):
    from AegeanTools.catalogs import save_catalog
    sf, rows = _find(path, rms=SIG, bkg=0.0)
    base = os.path.join(d, tag + "_cat.csv")
    save_catalog(base, rows)
    f = os.path.join(d, tag + "_cat_comp.csv")
    with open(f) as fh:
        lines = fh.read().splitlines()
    os.remove(f)
    cols = lines[0].split(",")
    keep = [i for i, c in enumerate(cols) if c != "uuid"]
    body = "\n".join(",".join(ln.split(",")[i] for i in keep) for ln in lines[1:])
    return "cols=%s:n=%d:%s" % ("+".join(cols), len(lines) - 1, hashlib.sha1(body.encode()).hexdigest()[:16])


def call_prior(path, d, tag):
    from AegeanTools.source_finder import SourceFinder
    sf, rows = _find(path, rms=SIG, bkg=0.0)
    sf2 = SourceFinder()
    out = sf2.priorized_fit_islands(path, catalogue=rows, rms=SIG, bkg=0.0, cores=1, stage=2, ratio=1.0)
    return rows_tok(out) + ":held=%d" % len(sf2.sources)


def call_aeres(path, d, tag):
    from astropy.io import fits
    from AegeanTools import AeRes
    from AegeanTools.catalogs import save_catalog
    sf, rows = _find(path, rms=SIG, bkg=0.0)
    base = os.path.join(d, tag + "_ar.csv")
    save_catalog(base, rows)
    cat = os.path.join(d, tag + "_ar_comp.csv")
    rfile, mfile = os.path.join(d, tag + "_res.fits"), os.path.join(d, tag + "_mod.fits")
    AeRes.make_residual(path, cat, rfile, mfile=mfile)
    t = atok(fits.getdata(rfile), fits.getdata(mfile))
    for f in (cat, rfile, mfile):
        os.remove(f)
    return t


def call_mask(path, d, tag):
    import numpy as np
    from astropy.io import fits
    from AegeanTools import MIMAS
    from AegeanTools.regions import Region
    reg = Region(maxdepth=9)
    reg.add_circles(math.radians(150.05), math.radians(-29.95), math.radians(0.12))
    rf = os.path.join(d, tag + "_reg.mim")
    reg.save(rf)
    out = os.path.join(d, tag + "_masked.fits")
    MIMAS.mask_file(rf, path, out)
    data = np.asarray(fits.getdata(out), dtype=np.float64)
    t = "nan=%d:%s" % (int(np.isnan(data).sum()), atok(np.nan_to_num(data, nan=-999.0)))
    os.remove(rf)
    os.remove(out)
    return t


def call_compress(path, d, tag):
    from astropy.io import fits
    from AegeanTools import fits_tools
    c = os.path.join(d, tag + "_c.fits")
    fits_tools.compress(path, 4, c)
    e = os.path.join(d, tag + "_e.fits")
    fits_tools.expand(c, e)
    with fits.open(c) as hc, fits.open(e) as he:
        t = atok(hc[0].data, he[0].data) + "/" + ftok(hc[0].header["CRPIX1"], hc[0].header["CDELT1"],
                                                      he[0].header["CRPIX1"], he[0].header["CDELT1"])
    os.remove(c)
    os.remove(e)
    return t


# ---- calls on region files --------------------------------------------------
def _grid():
    import numpy as np
    ra = np.repeat(np.linspace(149.5, 150.7, 25), 25)
    dec = np.tile(np.linspace(-30.5, -29.4, 25), 25)
    return ra, dec


def _reg_tok(r):
    import numpy as np
    ra, dec = _grid()
    inside = r.sky_within(ra, dec, degin=True)
    uniq = sorted(int(u) for u in r._uniq()) if hasattr(r, "_uniq") else []
    return "in=%s:area=%s:moc=%s" % (hashlib.sha1(np.asarray(inside, dtype=np.uint8).tobytes()).hexdigest()[:12],
                                     float(r.get_area()).hex(),
                                     hashlib.sha1(",".join(map(str, uniq)).encode()).hexdigest()[:12])


def call_regquery(path, d, tag):
    from AegeanTools.regions import Region
    return _reg_tok(Region.load(path))


def call_regmutate(path, d, tag):
    from AegeanTools.regions import Region
    r = Region.load(path)
    r.add_circles(math.radians(150.6), math.radians(-29.5), math.radians(0.15))
    r2 = Region(maxdepth=r.maxdepth)
    r2.add_circles(math.radians(150.0), math.radians(-30.0), math.radians(0.2))
    r.without(r2)
    return _reg_tok(r)


def call_regintersect(path, d, tag):
    from AegeanTools import MIMAS
    r = MIMAS.intersect_regions([path, os.path.join(os.path.dirname(path), "contents", "fixed_region.mim")])
    return _reg_tok(r)


def call_regexport(path, d, tag):
    from AegeanTools import MIMAS
    o1, o2 = os.path.join(d, tag + "_r.reg"), os.path.join(d, tag + "_r_moc.fits")
    MIMAS.mim2reg(path, o1)
    MIMAS.mim2fits(path, o2)
    from astropy.io import fits
    with open(o1) as f:
        t1 = hashlib.sha1(f.read().encode()).hexdigest()[:12]
    with fits.open(o2) as hl:
        import numpy as np
        col = np.asarray(hl[1].data.field(0), dtype=np.int64)
        t2 = "%d:%s" % (len(col), hashlib.sha1(np.sort(col).tobytes()).hexdigest()[:12])
    os.remove(o1)
    os.remove(o2)
    return t1 + "/" + t2


# ---- calls on catalogue tables -----------------------------------------------
def _load_cat(path):
    from AegeanTools import catalogs
    t = catalogs.load_table(path)
    return catalogs.table_to_source_list(t)


def call_catload(path, d, tag):
    return rows_tok(_load_cat(path))


def call_catregroup(path, d, tag):
    from AegeanTools import cluster
    rows = _load_cat(path)
    groups = cluster.regroup(rows, eps=math.sqrt(2))
    parts = ["+".join("%d.%d" % (s.island, s.source) for s in g) for g in groups]
    return "g=%d:%s" % (len(parts), hashlib.sha1("|".join(parts).encode()).hexdigest()[:12])


def call_catsave(path, d, tag):
    from AegeanTools import catalogs
    rows = _load_cat(path)
    out = []
    for ext in ("csv", "vot"):
        base = os.path.join(d, "%s_cs.%s" % (tag, ext))
        catalogs.save_catalog(base, rows)
        f = os.path.join(d, "%s_cs_comp.%s" % (tag, ext))
        back = _load_cat(f)
        out.append(rows_tok(back))
        if ext == "csv":
            with open(f) as fh:
                out.append(fh.readline().strip().replace(",", "+"))
        os.remove(f)
    return ";".join(out)


def call_catmodel(path, d, tag):
    from AegeanTools import AeRes
    from AegeanTools.wcs_helpers import WCSHelper
    srcs = AeRes.load_sources(path)
    w = WCSHelper.from_file(os.path.join(os.path.dirname(path), "contents", "A.fits"))
    return atok(AeRes.make_model(srcs, (48, 64), w))


IMAGE_CALLS = ["bane", "banefiles", "find", "findbane", "islands", "band", "wcs", "findsave", "prior", "aeres",
               "mask", "compress", "findreuse", "priorreuse"]
REGION_CALLS = ["regquery", "regmutate", "regintersect", "regexport"]
TABLE_CALLS = ["catload", "catregroup", "catsave", "catmodel"]
IMAGES, REGIONS, TABLES = ["A", "B", "G", "CA", "CB"], ["RA", "RB"], ["TA", "TB"]

CALLS = {"regquery": call_regquery, "regmutate": call_regmutate, "regintersect": call_regintersect,
         "regexport": call_regexport, "catload": call_catload, "catregroup": call_catregroup,
         "catsave": call_catsave, "catmodel": call_catmodel,
         "findreuse": call_findreuse, "priorreuse": call_priorreuse, "savereuse": call_savereuse,
         "bane": call_bane, "banefiles": call_banefiles, "find": call_find, "findbane": call_findbane,
         "islands": call_islands, "band": call_band, "wcs": call_wcs, "findsave": call_findsave,
         "prior": call_prior, "aeres": call_aeres, "mask": call_mask, "compress": call_compress}


def main():
    if sys.argv[1] == "--prepare":
        prepare(sys.argv[2])
        print("PROC_CHILD_RESULT []")
        os._exit(0)
    spec = json.loads(sys.argv[1])
    import logging
    logging.disable(logging.CRITICAL)
    import warnings
    warnings.simplefilter("ignore")
    d, tag = spec["dir"], spec["tag"]
    paths = {}
    written = {}
    out = []
    for n, s in enumerate(spec["steps"]):
        p = paths.setdefault(s["path"], os.path.join(d, "%s_%s.fits" % (tag, s["path"])))
        if s["op"] == "write":
            write_content(s["content"], p, spec["contents"])
            _CURRENT[p] = s["content"]
            written[p] = file_digest(p)
            out.append({"op": "write"})
            continue
        rec = {"op": "call"}
        try:
            with contextlib.redirect_stderr(io.StringIO()), contextlib.redirect_stdout(io.StringIO()):
                rec["tok"] = CALLS[s["call"]](p, d, "%s_s%d" % (tag, n))
        except BaseException as e:
            rec["tok"] = "raised:%s" % type(e).__name__
            rec["why"] = str(e)[:200]
        rec["intact"] = os.path.exists(p) and file_digest(p) == written.get(p)
        out.append(rec)
    for p in paths.values():
        if os.path.exists(p):
            os.remove(p)
    print("PROC_CHILD_RESULT " + json.dumps(out))
    sys.stdout.flush()
    os._exit(0)


if __name__ == "__main__":
    main()
