"""
C12 - Region exports (MOC FITS, DS9 reg, .mim) describe exactly the region.

models : spec/Region.tla + RegionPreds (MocOK / RegOK), spec/RegionImpl.tla
         (_uniq, write_reg as coded), MC_RegionImpl (refinement incl. export
         answers), MC_Region (RepExists: a valid MOC exists for every
         reachable S).
binding: TLC-emitted histories (all of length K over the alphabet, depths 1-3)
         are extended by every export (direct and through MIMAS.mim2fits /
         mim2reg, before and after demoting queries, after a save/load) and
         executed on the real Region; the written files are read back and TLC
         validates them with spec/Region_Trace.tla.  Whole-sky / single-pixel /
         empty regions at real NB=48 and seeded real-geometry regions at depth
         4..12 (atom quotient, spec/Region_AtomTrace.tla) complete it.
"""
import json

import numpy as np
import os

from harness import common, c08, region_random

LEVEL = "model_checking"

EXPORT_TAILS = [
    [{"op": "export_moc"}],
    [{"op": "export_reg"}],
    [{"op": "export_moc", "via": "mimas"}],
    [{"op": "export_reg", "via": "mimas"}],
    [{"op": "get_demoted"}, {"op": "export_moc"}],
    [{"op": "get_demoted"}, {"op": "export_reg"}],
    [{"op": "sky_within", "pix": 0}, {"op": "export_moc", "via": "mimas"}],
    [{"op": "save_load"}, {"op": "export_moc"}, {"op": "save_load"}, {"op": "export_reg"}],
    [{"op": "get_area"}, {"op": "export_moc"}],
    # the .mim file on disk is what load returns, whatever happened to objects loaded from it before
    [{"op": "save_file"}, {"op": "load_file"}, {"op": "add_pixels", "level": 1, "pix": [0]}, {"op": "load_file"},
     {"op": "export_moc", "via": "mimas"}, {"op": "export_reg"}],
]


def strip(h):
    return [{k: v for k, v in st.items() if k not in ("post", "ans")} for st in h]


def special_histories():
    """empty / single pixel / multi-level / whole-sky regions on the real sphere."""
    out = {}
    for D in (1, 2, 3, 4):
        hs = []
        whole = [{"op": "add_pixels", "level": 1, "pix": list(range(48))}]
        single = [{"op": "add_pixels", "level": D, "pix": [12 * 4 ** D - 1]}]
        multi = [{"op": "add_pixels", "level": d, "pix": [7 * 4 ** (d - 1) + d]} for d in range(1, D + 1)]
        for base in ([], whole, single, multi, whole + [{"op": "get_demoted"}]):
            for tail in EXPORT_TAILS:
                hs.append(base + tail)
        out[D] = hs
    # pixels of finer levels whose corners have small negative / positive declinations, sit on the RA wrap or at a
    # pole (sign, carry and wrap handling of the DS9 coordinate text)
    import healpy as hp
    for D in (6, 8):
        nside = 2 ** D
        pix = []
        for dec in (-0.3, -0.05, 0.3, -89.9, 89.9, -41.8, 41.8):
            for ra in (0.05, 123.4, 359.95):
                pix.append(int(hp.ang2pix(nside, np.radians(90.0 - dec), np.radians(ra), nest=True)))
        pix = sorted(set(pix))
        hs = []
        for tail in EXPORT_TAILS[:4]:
            hs.append([{"op": "add_pixels", "level": D, "pix": pix}] + tail)
            hs.append([{"op": "add_pixels", "level": D - 1, "pix": sorted({q // 4 for q in pix})}] + tail)
        out[D] = hs
    return out


def run(ctx):
    quick = ctx.tier == "quick"
    # model side: refinement incl. the export answers, and existence of a valid MOC
    fixes = {"FixCacheReset": True, "FixUniqRange": True, "FixAreaRenorm": True}
    base = dict(spec="Spec", invariants=["IdsOK", "NoDup"], properties=["Refines"],
                constraints=["Bound"], deadlock=False)
    for D, lvl in ((1, 8), (2, 6), (3, 4 if quick else 5)):
        ctx.tlc("MC_RegionImpl", common.cfg(constants=dict(c08.model_consts(D, MaxLevel=lvl), **fixes), **base),
                name="refine_D%d" % D)
    f2 = dict(fixes, FixUniqRange=False)
    res = ctx.tlc("MC_RegionImpl", common.cfg(constants=dict(c08.model_consts(3, MaxLevel=4), **f2), **base),
                  name="switch_FixUniqRange_off", must_pass=False)
    if res.violated is None:
        raise common.MachineryError("model insensitive to the _uniq level range")
    ctx.tlc("MC_Region", common.cfg(spec="MCSpec", constants=c08.model_consts(3, K=0, Emit=False),
                                    invariants=["TypeOK", "AnswerOK", "RepExists"], deadlock=False),
            name="abstract_D3")
    st = c08.selftest(ctx)
    # spec -> code
    hs = {}
    for D, K in ((1, 2 if quick else 3), (2, 2), (3, 2)):
        emitted = c08.emit_histories(ctx, D, K)
        ext = []
        for i, h in enumerate(emitted):
            tails = EXPORT_TAILS if (not quick or D < 2) else [EXPORT_TAILS[i % len(EXPORT_TAILS)], EXPORT_TAILS[(i * 7 + 3) % len(EXPORT_TAILS)]]
            for t in tails:
                ext.append(strip(h) + t)
        hs[D] = ext
    recs, rejected = c08.run_histories(ctx, hs, "exp")
    # real sphere specials (NB = 48)
    recs2, rej2 = c08.run_histories(ctx, special_histories(), "special")
    rejected += rej2
    # code -> spec with real geometry (includes export_moc steps), depths 4..12
    nrand = 120 if quick else 2500
    rrecs, rrej = region_random.run(ctx, nrand, c08.validate,
                                    seeds=[ctx.seed * 100003 + 500000 + i for i in range(nrand)])
    nexp = sum(1 for r in recs + recs2 for s in r["steps"] if s["op"].startswith("export"))
    nexp += sum(1 for r in rrecs for s in r["steps"] if s["op"] == "export_moc")
    ctx.count(evaluations=len(recs) + len(recs2) + len(rrecs),
              nontrivial=len({json.dumps(strip(r["steps"]), sort_keys=True, default=str) for r in recs + recs2}) + len(rrecs),
              traces=len(recs) + len(recs2) + len(rrecs))
    ctx.cov["exports_checked"] = nexp
    ctx.cov["rule"] = ("history over the Region alphabet (exhaustive to length K, depths 1-3) extended by each export tail "
                       "(direct / via MIMAS / after demoting queries / after save-load); plus empty, single-pixel, multi-level "
                       "and whole-sky regions at NB=48 and seeded real-geometry regions at depth 4-12; distinct = distinct call sequences")
    ctx.cov["exhaustive"] = True
    r0 = recs[50]
    ctx.sample({"id": r0["id"], "calls": strip([{k: v for k, v in s.items() if k != "obs"} for s in r0["steps"]]),
                "export_result": r0["steps"][-1]["obs"]["ret"]})
    ctx.sample({"id": recs2[-1]["id"], "calls": [s["op"] for s in recs2[-1]["steps"]]})
    ctx.assumptions += ["astropy.io.fits reads the written MOC table back faithfully",
                        "healpy.boundaries gives the corners of a single pixel (polygon matching tolerance 0.2 arcsec)"]
    for rec, fails in rejected:
        ctx.violation(c08.key_of(rec, fails), {"record": {"id": rec["id"], "D": rec["D"],
                                                           "history": strip([{k: v for k, v in s.items() if k != "obs"} for s in rec["steps"]])},
                                               "fails": fails})
    for rec, fails in rrej:
        ctx.violation("real-geometry " + c08.key_of(rec, fails),
                      {"record": {"id": rec["id"], "D": rec["D"], "seed": rec["seed"], "kind": "combine" if rec["id"].startswith("combine/") else "random"}, "fails": fails})


def replay(ctx, rec):
    c08.replay(ctx, rec)
