"""Child process for C07/C06: one real BANE run, outcome printed as JSON."""
import hashlib
import json
import os
import sys


def make_image(spec):
    import numpy as np
    rng = np.random.default_rng(spec.get("imgseed", 1))
    rows, cols = spec["rows"], spec["cols"]
    img = rng.normal(0.0, 1.0, (rows, cols))
    img += spec.get("dc", 0.0)
    if spec.get("gradient", 0.0):
        img += spec["gradient"] * np.arange(rows)[:, None] / rows
    for (r0, r1, c0, c1) in spec.get("nan", []):
        img[r0:r1, c0:c1] = np.nan
    return img.astype(np.float32)


def main():
    spec = json.loads(sys.argv[1])
    import logging
    logging.disable(logging.CRITICAL)
    import numpy as np
    from astropy.io import fits
    d = spec["dir"]
    im = os.path.join(d, "im.fits")
    img = make_image(spec)
    fits.PrimaryHDU(img).writeto(im, overwrite=True)
    from AegeanTools import BANE
    out = {"outcome": "returned"}
    try:
        g, b = spec["grid"], spec["box"]
        res = BANE.filter_image(im, None, step_size=tuple(g) if isinstance(g, list) else (g, g),
                                box_size=tuple(b) if isinstance(b, list) else (b, b), cores=spec["cores"],
                                mask=spec["mask"], nslice=spec["nslice"])
        bkg, rms = res
        h = hashlib.sha256()
        h.update(np.ascontiguousarray(bkg).tobytes())
        h.update(np.ascontiguousarray(rms).tobytes())
        out["digest"] = h.hexdigest()
        out["shape_ok"] = bool(bkg.shape == img.shape and rms.shape == img.shape)
        fin = np.isfinite(img)
        # shared memory starts zero filled: a noise estimate of exactly 0 on noisy data = never written
        out["unwritten"] = int(np.sum((rms == 0) & fin)) if spec.get("dc_only") is None else 0
        out["nonfinite_out"] = int(np.sum(~np.isfinite(rms) & fin)) if not spec["mask"] or not spec.get("nan") else -1
        np.save(os.path.join(d, "bkg.npy"), bkg)
        np.save(os.path.join(d, "rms.npy"), rms)
    except BaseException as e:
        out = {"outcome": "raised", "error": type(e).__name__, "text": str(e)[-300:]}
    # segments still present when the call has returned / raised (checked here, inside the calling
    # process: python's resource tracker removes leaked segments once this process exits)
    mid = getattr(BANE, "memory_id", None)
    out["shm_after_call"] = [n for n in ("ibkg_%s" % mid, "irms_%s" % mid) if mid and os.path.exists("/dev/shm/" + n)]
    print("BANE_CHILD_RESULT " + json.dumps(out))
    sys.stdout.flush()
    # The property is about the call (returned / raised / blocked), not about
    # interpreter shutdown: on the failure path the pool is left to the garbage
    # collector and its finaliser can stall at exit.  Leave without finalisers;
    # the harness reaps the process group.
    os._exit(0)


if __name__ == "__main__":
    main()
