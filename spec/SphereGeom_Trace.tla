-------------------------- MODULE SphereGeom_Trace --------------------------
(* Code -> spec for the geometry part of C17 (angle_tools.gcd, bear,       *)
(* translate).  TLC has 32 bit integers and no reals, so an angle is a     *)
(* two-limb integer  <<h, l>>  =  h * 1e-6 deg  +  l * 1e-12 deg           *)
(* (micro-degrees and pico-degrees, |l| <= 5e5 after normalisation).       *)
(* Inputs are chosen by the harness as exact two-limb values and passed to *)
(* the code as the nearest double (<= 0.03 pdeg off); outputs are          *)
(* projected exactly (rational arithmetic) and rounded to 1 pdeg.          *)
(* The property's tolerance 1e-9 deg is 1000 pdeg.                         *)
(*                                                                         *)
(* kind = "metric" : three points P[1..3] = <<ra, dec>> and the 3x3 matrix *)
(*                   D of gcd values the code returned, Z = their signs as *)
(*                   floats (-1, 0, 1)            ->  MetricLaws           *)
(* kind = "circle" : a pair on a great circle where distance and bearing   *)
(*                   are integer-affine in the coordinates; cls names the  *)
(*                   circle; d, b = what gcd / bear returned               *)
(*                                                ->  ExactCircles         *)
(* kind = "loop"   : p, r, t and d = gcd(p, translate(p,r,t)),             *)
(*                   b = bear(p, translate(p,r,t)) ->  TranslateLoop       *)
(* fin = all outputs finite; err = exception text or "".                   *)
EXTENDS TraceBatch

PD   == 1000000            \* pico-degrees per micro-degree
UDeg == 1000000            \* micro-degrees per degree
Tol  == 1000               \* 1e-9 deg in pico-degrees

Abs(x) == IF x < 0 THEN -x ELSE x
Max(a, b) == IF a > b THEN a ELSE b

\* ---- two-limb arithmetic ------------------------------------------------
WellTL(a) == Len(a) = 2 /\ Abs(a[1]) <= 1000000000 /\ Abs(a[2]) <= PD \div 2
Norm(h, l) == LET c == (l + PD \div 2) \div PD IN <<h + c, l - c * PD>>
TAdd(a, b) == Norm(a[1] + b[1], a[2] + b[2])
TSub(a, b) == Norm(a[1] - b[1], a[2] - b[2])
TNeg(a)    == Norm(-a[1], -a[2])
Sgn(a)     == IF a[1] > 0 THEN 1 ELSE IF a[1] < 0 THEN -1
              ELSE IF a[2] > 0 THEN 1 ELSE IF a[2] < 0 THEN -1 ELSE 0
TAbs(a)    == IF Sgn(a) < 0 THEN TNeg(a) ELSE a
TScale(s, a) == IF s < 0 THEN TNeg(a) ELSE a          \* s in {-1, 1}
Deg(k)     == <<k * UDeg, 0>>
TEq(a, b)  == TSub(a, b) = <<0, 0>>
TLt(a, b)  == Sgn(TSub(a, b)) < 0
TLe(a, b)  == Sgn(TSub(a, b)) <= 0
\* |a - b| <= tol pico-degrees   (tol < 2e9)
Near(a, b, tol) == LET d == TSub(a, b) IN
                   Abs(d[1]) <= 2000 /\ Abs(d[1] * PD + d[2]) <= tol
\* a <= b + slack pico-degrees
LeSlack(a, b, slack) == LET d == TSub(a, b) IN
                   d[1] < -2000 \/ (d[1] <= 2000 /\ d[1] * PD + d[2] <= slack)
\* equality of directions (modulo 360 deg)
CircNear(a, b, tol) == \E k \in {-1, 0, 1} : Near(TAdd(a, Deg(360 * k)), b, tol)

Ra(p)  == p[1]
Dec(p) == p[2]
WellPoint(p) == /\ Len(p) = 2 /\ WellTL(Ra(p)) /\ WellTL(Dec(p))
                /\ TLe(Deg(-90), Dec(p)) /\ TLe(Dec(p), Deg(90))
                /\ TLe(Deg(0), Ra(p)) /\ TLe(Ra(p), Deg(360))

PoleSign(p) == IF TEq(Dec(p), Deg(90)) THEN 1
               ELSE IF TEq(Dec(p), Deg(-90)) THEN -1 ELSE 0
\* RA difference wrapped into (-180, 180]
DRa(p, q) == LET d == TSub(Ra(q), Ra(p)) IN
             IF TLt(Deg(180), d) THEN TSub(d, Deg(360))
             ELSE IF TLe(d, Deg(-180)) THEN TAdd(d, Deg(360)) ELSE d
SamePoint(p, q) ==
    \/ (PoleSign(p) # 0 /\ PoleSign(p) = PoleSign(q))
    \/ (TEq(Dec(p), Dec(q)) /\ TEq(DRa(p, q), Deg(0)))

\* where the bearing of a pair is a well conditioned function of doubles:
\* separation in [0.01, 179.99] deg and the first point >= 1 deg off a pole
SepConditioned(d, lo) == TLe(<<lo, 0>>, d) /\ TLe(d, TSub(Deg(180), <<lo, 0>>))
OffPole(p) == TLe(TAbs(Dec(p)), Deg(89))

----------------------------------------------------------------------------
(* MetricLaws : symmetric, zero for identical points, positive for         *)
(* distinct ones, within [0,180], triangle inequality with 1e-9 deg slack  *)
Idx == 1..3
FailsMetric(r) ==
    IF r.err # "" THEN <<"completed">> ELSE
    IF ~(\A i \in Idx : WellPoint(r.P[i])) THEN <<"input_in_domain">> ELSE
    IF ~r.fin THEN <<"finite">> ELSE
    Clause("metric_symmetric",
           \A i, j \in Idx : Near(r.D[i][j], r.D[j][i], Tol))
    \o Clause("metric_zero_for_identical",
           \A i, j \in Idx : SamePoint(r.P[i], r.P[j]) => Near(r.D[i][j], Deg(0), Tol))
    \o Clause("metric_positive_for_distinct",
           \A i, j \in Idx : ~SamePoint(r.P[i], r.P[j]) => r.Z[i][j] = 1)
    \o Clause("metric_range_0_180",
           \A i, j \in Idx : r.Z[i][j] >= 0 /\ TLe(r.D[i][j], Deg(180)))
    \o Clause("metric_triangle",
           \A i, j, k \in Idx : LeSlack(r.D[i][k], TAdd(r.D[i][j], r.D[j][k]), Tol))

----------------------------------------------------------------------------
(* ExactCircles : expected distance <<ok, d, hasb, b>> per circle class    *)
Exp(ok, d, hasb, b) == [ok |-> ok, d |-> d, hasb |-> hasb, b |-> b]

ExpMeridian(p, q) ==      \* same RA
    LET dd == TSub(Dec(q), Dec(p)) d == TAbs(dd) IN
    Exp(TEq(Ra(p), Ra(q)), d, SepConditioned(d, 10000) /\ OffPole(p),
        IF Sgn(dd) > 0 THEN 0 ELSE 180)

ExpAnti(p, q) ==          \* RA differs by 180: the meridian continued over a pole
    LET s == TAdd(Dec(p), Dec(q)) d == TSub(Deg(180), TAbs(s)) IN
    Exp(TEq(TAbs(TSub(Ra(q), Ra(p))), Deg(180)), d,
        SepConditioned(d, 10000) /\ OffPole(p), IF Sgn(s) > 0 THEN 0 ELSE 180)

ExpEquator(p, q) ==       \* both on the equator, RA wraps at 360
    LET dr == DRa(p, q) d == TAbs(dr) IN
    Exp(TEq(Dec(p), Deg(0)) /\ TEq(Dec(q), Deg(0)), d,
        SepConditioned(d, 10000), IF Sgn(dr) > 0 THEN 90 ELSE 270)

ExpPole(p, q) ==          \* one of the two is a pole (any RA)
    IF PoleSign(q) # 0
    THEN LET d == TSub(Deg(90), TScale(PoleSign(q), Dec(p))) IN
         Exp(TRUE, d, SepConditioned(d, 10000) /\ OffPole(p),
             IF PoleSign(q) = 1 THEN 0 ELSE 180)
    ELSE Exp(PoleSign(p) # 0, TSub(Deg(90), TScale(PoleSign(p), Dec(q))), FALSE, 0)

ExpCircle(r) == IF r.cls = "meridian" THEN ExpMeridian(r.p1, r.p2)
                ELSE IF r.cls = "anti" THEN ExpAnti(r.p1, r.p2)
                ELSE IF r.cls = "equator" THEN ExpEquator(r.p1, r.p2)
                ELSE IF r.cls = "pole" THEN ExpPole(r.p1, r.p2)
                ELSE Exp(FALSE, Deg(0), FALSE, 0)

FailsCircle(r) ==
    IF r.err # "" THEN <<"completed">> ELSE
    IF ~(WellPoint(r.p1) /\ WellPoint(r.p2)) THEN <<"input_in_domain">> ELSE
    LET e == ExpCircle(r) IN
    IF ~e.ok THEN <<"input_in_domain">> ELSE
    IF ~r.fin THEN <<"finite">> ELSE
    Clause("circle_distance_exact", Near(r.d, e.d, Tol))
    \o Clause("circle_bearing_exact", e.hasb => CircNear(r.b, Deg(e.b), Tol))

----------------------------------------------------------------------------
(* TranslateLoop : q = translate(p, r, t) is at distance r and initial     *)
(* bearing t from p, to 1e-9 deg absolute or 1e-9 relative                 *)
RelTol(x) == Max(Tol, Abs(x[1]) \div 1000)     \* 1e-9 * max(1 deg, |x|) in pdeg

FailsLoop(r) ==
    IF r.err # "" THEN <<"completed">> ELSE
    IF ~(/\ WellPoint(r.p) /\ WellTL(r.r) /\ WellTL(r.t)
         /\ TLe(Deg(0), r.r) /\ TLt(r.r, Deg(180))
         /\ TLe(Deg(0), r.t) /\ TLt(r.t, Deg(360))) THEN <<"input_in_domain">> ELSE
    IF ~r.fin THEN <<"finite">> ELSE
    \* "a point at distance r ... from the START": the start point handed to translate
    \* (scalar or array argument) is still the start point afterwards
    Clause("start_point_not_modified", r.argsok)
    \o Clause("loop_distance_is_r", Near(r.d, r.r, RelTol(r.r)))
    \o Clause("loop_bearing_is_t",
           (SepConditioned(r.r, 100000) /\ OffPole(r.p)) => CircNear(r.b, r.t, RelTol(r.t)))

Fails(r) == IF r.kind = "metric" THEN FailsMetric(r)
            ELSE IF r.kind = "circle" THEN FailsCircle(r)
            ELSE IF r.kind = "loop" THEN FailsLoop(r)
            ELSE <<"unknown_record_kind">>

Next == BatchNext(Fails)
Spec == BatchInit /\ [][Next]_pos
=============================================================================
