--------------------------- MODULE ToolCLIs_Trace ---------------------------
(* Replay direction for ToolCLIs: option vectors become argv for the real   *)
(* AegeanTools.CLI.{AeRes, AeReg, SR6}.main; the exit status and the        *)
(* observed effects (files that appeared, classified by content against the *)
(* library called directly) are compared with ToolCLIs!Outcome.             *)
EXTENDS TraceBatch
VARIABLES tool, conf, pc, rc, did
M == INSTANCE ToolCLIs

SeqSet(q) == {q[k] : k \in 1..Len(q)}

Fails(r) ==
    IF r.err # "" THEN <<"main_returned">> ELSE
    IF r.tool \notin M!Tools \/ r.conf \notin M!Confs(r.tool) THEN <<"configuration_in_domain">> ELSE
    LET o == M!Outcome(r.tool, r.conf) IN
    Clause("exit_status", r.rc = o.rc)
    \o Clause("nothing_more_than_specified", SeqSet(r.did) \subseteq o.did)
    \o Clause("everything_specified", o.did \subseteq SeqSet(r.did))

Next == BatchNext(Fails) /\ UNCHANGED <<tool, conf, pc, rc, did>>
Spec == BatchInit /\ tool = "trace" /\ conf = 0 /\ pc = "trace" /\ rc = 0 /\ did = {}
        /\ [][Next]_<<pos, tool, conf, pc, rc, did>>
=============================================================================
