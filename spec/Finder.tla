------------------------------- MODULE Finder -------------------------------
(***************************************************************************)
(* Numbering pipeline of the source finder (C03, C05): how island and      *)
(* component numbers are assigned to the rows of an output catalogue.      *)
(*                                                                         *)
(* Blind mode (find_sources_in_image): every non-empty island gets the     *)
(* next island number; fitting it yields k >= 0 component rows             *)
(* (island, 0..k-1) (k = 0: island skipped - NaN model / no summit).       *)
(*                                                                         *)
(* Priorized mode (priorized_fit_islands): the input catalogue is grouped; *)
(* the groups are cut into batches of B (code: 20); batch number b is      *)
(* refitted with a starting island number istart and its groups are        *)
(* numbered istart, istart+1, ... ; a group with no accepted source yields *)
(* no row.  The design switch FixIstart chooses istart = b*B (repaired) or *)
(* istart = b (as originally coded).                                       *)
(*                                                                         *)
(* The property does not fix a numbering scheme: it demands that           *)
(* (island, source) pairs are unique and that the components of one island *)
(* are numbered 0..n-1 (Consistent below, also used by the trace spec).    *)
(***************************************************************************)
EXTENDS Integers, Sequences, FiniteSets

CONSTANTS B,            \* batch size
          MaxGroups,    \* bound on the number of islands / groups
          MaxComp,      \* bound on components per island
          FixIstart

VARIABLES mode,         \* "blind" | "priorized"
          work,         \* sequence of component counts, one per island / group still to do
          isle_num,     \* blind: last island number handed out
          batch, inbatch,  \* priorized: current batch number, position inside it
          rows          \* sequence of <<island, source>> emitted so far

vars == <<mode, work, isle_num, batch, inbatch, rows>>

Init ==
    /\ mode \in {"blind", "priorized"}
    /\ work \in UNION {[1..n -> 0..MaxComp] : n \in 0..MaxGroups}
    /\ isle_num = 0 /\ batch = 0 /\ inbatch = 0
    /\ rows = <<>>

Emit(inum, k) == rows \o [j \in 1..k |-> <<inum, j - 1>>]

FitIsland ==            \* blind: number the island, then fit it
    /\ mode = "blind" /\ work # <<>>
    /\ isle_num' = isle_num + 1
    /\ rows' = Emit(isle_num + 1, Head(work))
    /\ work' = Tail(work)
    /\ UNCHANGED <<mode, batch, inbatch>>

Istart == IF FixIstart THEN batch * B ELSE batch

RefitGroup ==           \* priorized: next group of the current batch
    /\ mode = "priorized" /\ work # <<>>
    /\ rows' = Emit(Istart + inbatch, Head(work))
    /\ work' = Tail(work)
    /\ IF inbatch + 1 = B
       THEN batch' = batch + 1 /\ inbatch' = 0
       ELSE batch' = batch /\ inbatch' = inbatch + 1
    /\ UNCHANGED <<mode, isle_num>>

Next == FitIsland \/ RefitGroup
Spec == Init /\ [][Next]_vars

\* ---- catalogue consistency (property level) --------------------------------
RowSet(rs) == {rs[i] : i \in 1..Len(rs)}
PairsUnique(rs) == Cardinality(RowSet(rs)) = Len(rs)
\* components of every island are numbered 0..n-1
Contiguous(rs) ==
    \A i \in {r[1] : r \in RowSet(rs)} :
        LET S == {r[2] : r \in {q \in RowSet(rs) : q[1] = i}}
        IN S = 0..(Cardinality(S) - 1)
Consistent(rs) == PairsUnique(rs) /\ Contiguous(rs)

NumberingOK == Consistent(rows)
=============================================================================
