------------------------------ MODULE Regroup -------------------------------
(* C19 - regrouping of a catalogue.                                         *)
(*                                                                          *)
(* A catalogue is a sequence of rows 1..n.  The geometry enters only        *)
(* through a symmetric, irreflexive neighbour function                      *)
(*      nb[i] = { j # i : angular separation(i, j) <= linking length }.     *)
(* On the integer lattice (unit u arcsec) a row is a pair <<x, y>> and the  *)
(* linking length is given by  E = 2 * eps^2  (in lattice units), E odd,    *)
(* so that eps^2 lies strictly between two lattice squared distances and    *)
(* no pair is at the threshold.                                             *)
(*                                                                          *)
(* Groups(n, nb) is the partition of 1..n into the connected components of  *)
(* nb.  Labels: every group gets one island number, the members of a group  *)
(* are numbered 0..m-1 by decreasing peak flux (ties: any order).           *)
EXTENDS Integers, Sequences, FiniteSets

\* ---- lattice geometry ---------------------------------------------------
D2(p, q) == (p[1] - q[1]) * (p[1] - q[1]) + (p[2] - q[2]) * (p[2] - q[2])
CloseLat(p, q, E) == 2 * D2(p, q) < E
EpsBetween(xy, E) == E % 2 = 1      \* 2*d^2 is even: never equal to E
NbLat(xy, E) == [i \in 1..Len(xy) |->
                    {j \in 1..Len(xy) : j # i /\ CloseLat(xy[i], xy[j], E)}]

Symmetric(n, nb) == \A i \in 1..n : i \notin nb[i] /\ \A j \in nb[i] : i \in nb[j]

\* ---- connected components -----------------------------------------------
(* Rows are added one at a time; the blocks touched by the new row's        *)
(* neighbours are merged with it.  (The fold over the rows lo..hi is split  *)
(* in halves, and the left half is forced by the always-true Cardinality    *)
(* test, only to keep TLC's evaluation depth logarithmic.)                  *)
AddRow(i, nb, blocks) ==
    LET touched == {b \in blocks : b \cap nb[i] # {}}
    IN (blocks \ touched) \cup {UNION touched \cup {i}}

RECURSIVE LinkRows(_, _, _, _)
LinkRows(lo, hi, nb, blocks) ==
    IF lo > hi THEN blocks
    ELSE IF lo = hi THEN AddRow(lo, nb, blocks)
    ELSE LET mid == (lo + hi) \div 2
             left == LinkRows(lo, mid, nb, blocks)
         IN IF Cardinality(left) >= 0 THEN LinkRows(mid + 1, hi, nb, left) ELSE {}

Groups(n, nb) == LinkRows(1, n, nb, {})

\* ---- the property's wording ---------------------------------------------
\* "every input source is assigned to exactly one group"
IsPartition(P, n) == /\ UNION P = 1..n
                     /\ {} \notin P
                     /\ \A a \in P : \A b \in P : a # b => a \cap b = {}

\* "linked by a chain of sources whose consecutive separations do not
\*  exceed the linking length": Reach(S) = everything a chain from S gets to
RECURSIVE Reach(_, _)
Reach(S, nb) == LET T == S \cup UNION {nb[i] : i \in S}
                IN IF T = S THEN S ELSE Reach(T, nb)
Linked(i, j, nb) == j \in Reach({i}, nb)

SameGroup(P, i, j) == \E b \in P : i \in b /\ j \in b

\* "two sources share a group exactly when they are linked by a chain"
IsChainPartition(P, n, nb) ==
    /\ IsPartition(P, n)
    /\ \A i \in 1..n : LET R == Reach({i}, nb)
                       IN \A j \in 1..n : SameGroup(P, i, j) <=> j \in R

\* the same thing without chains: closed under nb, and no block can be split
\* into two parts without a link between them
Closed(P, nb) == \A b \in P : \A i \in b : nb[i] \subseteq b
Connected(b, nb) == \A S \in (SUBSET b) \ {{}, b} : \E i \in S : nb[i] \cap (b \ S) # {}
IsEpsPartition(P, n, nb) == /\ IsPartition(P, n)
                            /\ Closed(P, nb)
                            /\ \A b \in P : Connected(b, nb)

\* every block is chain-connected (no maximality): the elliptical variant.
\* Splitting nb along the blocks and regrouping must give back the blocks.
NbWithin(P, n, nb) == [i \in 1..n |-> nb[i] \cap (CHOOSE b \in P : i \in b)]
BlocksChainConnected(P, n, nb) == Groups(n, NbWithin(P, n, nb)) = P

\* ---- row permutations -----------------------------------------------------
\* row r of the permuted catalogue is row pi[r] of the original one
IsPerm(pi, n) == /\ DOMAIN pi = 1..n
                 /\ {pi[r] : r \in 1..n} = 1..n
Perms(n) == {pi \in [1..n -> 1..n] : {pi[r] : r \in 1..n} = 1..n}
Permute(seq, pi) == [r \in 1..Len(seq) |-> seq[pi[r]]]
\* a partition of the permuted rows expressed in original row numbers
Unpermute(P, pi) == {{pi[r] : r \in b} : b \in P}

\* ---- labels -------------------------------------------------------------
\* isl, src : functions on rows;  flux : peak flux of the rows (integers)
IslandPerGroup(P, isl) == \A b \in P : \A i \in b : \A j \in b : isl[i] = isl[j]
NumberedFromZero(P, src) ==
    \A b \in P : /\ {src[i] : i \in b} = 0..(Cardinality(b) - 1)
FluxOrdered(P, flux, src) ==
    \A b \in P : \A i \in b : \A j \in b : flux[i] > flux[j] => src[i] < src[j]
LabelsUnique(n, isl, src) ==
    \A i \in 1..n : \A j \in 1..n : i # j => <<isl[i], src[i]>> # <<isl[j], src[j]>>
ValidLabels(P, n, flux, isl, src) ==
    /\ IslandPerGroup(P, isl)
    /\ NumberedFromZero(P, src)
    /\ FluxOrdered(P, flux, src)
    /\ LabelsUnique(n, isl, src)

\* one admissible labelling: island = smallest row of the group,
\* source = rank by (flux descending, row ascending)
BlockOf(P, i) == CHOOSE b \in P : i \in b
SetMin(S) == CHOOSE x \in S : \A y \in S : x <= y
CanonIsl(P, n) == [i \in 1..n |-> SetMin(BlockOf(P, i))]
CanonSrc(P, n, flux) ==
    [i \in 1..n |-> Cardinality({j \in BlockOf(P, i) :
                        flux[j] > flux[i] \/ (flux[j] = flux[i] /\ j < i)})]
\* with no ties inside a group the source numbers are forced
NoTies(P, flux) == \A b \in P : \A i \in b : \A j \in b : i # j => flux[i] # flux[j]

\* ---- rescaling (squared sizes, ratio = num/den) ---------------------------
\* num^2 * (new size)^2  for  new^2 = a^2 + psf^2 * (1 - 1/ratio^2)
ResizedSqTimesNum2(a2, p2, num, den) == a2 * num * num + p2 * (num * num - den * den)
ResizeIdentity(M) == \A a2 \in 0..M : \A p2 \in 0..M :
                        ResizedSqTimesNum2(a2, p2, 1, 1) = a2
ResizeNoShrink(M) == \A a2 \in 0..M : \A p2 \in 0..M : \A num \in 1..M : \A den \in 1..M :
                        num >= den => ResizedSqTimesNum2(a2, p2, num, den) >= a2 * num * num
=============================================================================
