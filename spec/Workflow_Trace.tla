--------------------------- MODULE Workflow_Trace ---------------------------
(* Replay direction for Workflow: every derivation of the emitted           *)
(* workspaces has been carried out on the real tools; a record holds the    *)
(* derivations with a float-identity token of the artefact each one gave.   *)
(* Accepted iff derivations with the same Workflow!Norm have the same       *)
(* token (each one is compared with the first derivation of its artefact),  *)
(* and iff no derivation failed.                                            *)
EXTENDS TraceBatch
VARIABLE ws
W == INSTANCE Workflow WITH Images <- {"A", "B"}, MaxArtefacts <- 9

First(items, j) == CHOOSE i \in 1..j : /\ W!Norm(items[i].term) = W!Norm(items[j].term)
                                        /\ \A k \in 1..(i - 1) : W!Norm(items[k].term) # W!Norm(items[j].term)

RECURSIVE Check(_, _)
Check(items, j) ==
    IF j > Len(items) THEN <<>> ELSE
    (IF items[j].tok = "failed" THEN <<[clause |-> "derivation_completed", a |-> j, b |-> j]>>
     ELSE IF items[First(items, j)].tok # items[j].tok /\ items[First(items, j)].tok # "failed"
          THEN <<[clause |-> "same_artefact_by_every_route", a |-> First(items, j), b |-> j]>>
          ELSE <<>>)
    \o Check(items, j + 1)

Fails(r) == Check(r.items, 1)

Next == BatchNext(Fails) /\ UNCHANGED ws
Spec == BatchInit /\ ws = {} /\ [][Next]_<<pos, ws>>
=============================================================================
