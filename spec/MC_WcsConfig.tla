---------------------------- MODULE MC_WcsConfig ----------------------------
(***************************************************************************)
(* Model-checking instance for C16.                                        *)
(*  (1) TLC enumerates the discrete part of the property's quantifier, the *)
(*      configuration lattice                                              *)
(*        projection x reference declination class x RA class x pixel      *)
(*        scale x ellipse size x axis ratio x position-angle class,        *)
(*      checks that every element lies inside the property's domain and    *)
(*      that the classes cover it, and emits each element (with the        *)
(*      intervals continuous parameters are to be drawn from) for the      *)
(*      harness to instantiate on the real code.                           *)
(*  (2) TLC checks the lemmas the trace specification relies on: the       *)
(*      fixed-point operators of Fixed.tla agree with their mathematical   *)
(*      definitions, stay inside 32 bits at the extremes, and the index    *)
(*      identity "Aegean (row, col) = FITS 1-based (x = col, y = row)"     *)
(*      separates the standard mapping from the swapped / 0-based ones.    *)
(***************************************************************************)
EXTENDS WcsRel, TLC, Json, FiniteSets
VARIABLES cfg, pc
vars == <<cfg, pc>>

Projections == {"SIN", "TAN", "ZEA", "ARC", "STG"}
DecClasses  == {"equator", "mid_north", "mid_south", "high_north", "high_south"}
RaClasses   == {"interior", "wrap"}
Scales      == {1, 10, 60}            \* arcsec / pixel
Sizes       == {1, 5, 20}             \* semi-major axis, pixels
Ratios      == {1000, 600, 200}       \* minor / major, permille
PaClasses   == {"Q1", "Q2", "Q3", "Q4", "cardinal"}

\* reference declination interval of a class, micro-degrees
DecRange(c) == CASE c = "equator"    -> <<-5 * UDeg, 5 * UDeg>>
                 [] c = "mid_north"  -> <<20 * UDeg, 70 * UDeg>>
                 [] c = "mid_south"  -> <<-70 * UDeg, -20 * UDeg>>
                 [] c = "high_north" -> <<80 * UDeg, 85 * UDeg>>
                 [] c = "high_south" -> <<-85 * UDeg, -80 * UDeg>>

\* interior: reference RA in [30, 330] deg.  wrap: the meridian RA = 0 = 360
\* crosses the image: reference RA = offset * (half width of the image in RA)
\* with offset in [-600, 600] permille
RaRange(c) == CASE c = "interior" -> <<30 * UDeg, 330 * UDeg>>
                [] c = "wrap"     -> <<-600, 600>>

\* position angle classes: open quadrants of (-180, 180] and the four axes
PaRange(c) == CASE c = "Q1" -> <<1, 90 * UDeg - 1>>
                [] c = "Q2" -> <<90 * UDeg + 1, 180 * UDeg - 1>>
                [] c = "Q3" -> <<-180 * UDeg + 1, -90 * UDeg - 1>>
                [] c = "Q4" -> <<-90 * UDeg + 1, -1>>
                [] c = "cardinal" -> <<0, 0>>
Cardinals == {-90 * UDeg, 0, 90 * UDeg, 180 * UDeg}
InPaClass(a, c) == IF c = "cardinal" THEN a \in Cardinals
                   ELSE PaRange(c)[1] <= a /\ a <= PaRange(c)[2]

Lattice == [proj : Projections, dec : DecClasses, ra : RaClasses, scale : Scales,
            size : Sizes, ratio : Ratios, pa : PaClasses]

Emitted(c) == [proj |-> c.proj, dec |-> c.dec, ra |-> c.ra, scale |-> c.scale,
               size |-> c.size, ratio |-> c.ratio, pa |-> c.pa,
               dec_lo |-> DecRange(c.dec)[1], dec_hi |-> DecRange(c.dec)[2],
               ra_lo |-> RaRange(c.ra)[1], ra_hi |-> RaRange(c.ra)[2],
               pa_lo |-> PaRange(c.pa)[1], pa_hi |-> PaRange(c.pa)[2]]

Init == cfg \in Lattice /\ pc = "chosen"
Emit == /\ pc = "chosen"
        /\ PrintT(ToJson(Emitted(cfg)))
        /\ pc' = "emitted"
        /\ UNCHANGED cfg
Next == Emit
Spec == Init /\ [][Next]_vars

(* ------------------- invariants on every lattice element -------------- *)
\* inside the property's quantifier: |dec| <= 85, scale 1..60", size 1..20 px,
\* 0 < ratio <= 1, PA in (-180, 180]
InDomain ==
    /\ DecRange(cfg.dec)[1] < DecRange(cfg.dec)[2]
    /\ AbsLE(DecRange(cfg.dec)[1], 85 * UDeg) /\ AbsLE(DecRange(cfg.dec)[2], 85 * UDeg)
    /\ cfg.scale \in 1..60 /\ cfg.size \in 1..20
    /\ cfg.ratio \in 1..1000
    /\ PaRange(cfg.pa)[1] <= PaRange(cfg.pa)[2]
    /\ PaRange(cfg.pa)[1] > -HalfTurn /\ PaRange(cfg.pa)[2] <= HalfTurn
    /\ RaRange(cfg.ra)[1] < RaRange(cfg.ra)[2]

\* every logged quantity of a configuration fits the fixed-point format:
\* the largest length (20 px * 60") in ndeg, its 1e-3 tolerance resolves to
\* >= 100 units even for the smallest (1 px * 1" * ratio 0.2), and 1e-6 px
\* on the sky resolves to >= 100 units of 1e-12 deg
MajorNdeg(c) == ((c.size * c.scale * Million) \div 3600) * 1000
MinorNdeg(c) == (MajorNdeg(c) \div 1000) * c.ratio
FitsFormat ==
    /\ MajorNdeg(cfg) > 0 /\ MajorNdeg(cfg) < IntMax \div 4
    /\ MinorNdeg(cfg) > 0
    /\ PpmOf(MinorNdeg(cfg), LenTolPpm) >= 50
    /\ StdTolPdeg(cfg.scale * 1000) >= 100
    /\ 1000 * StdTolPdeg(cfg.scale * 1000) < IntMax \div 4

\* ellipses of the lattice whose position angle is an observable
PaObservable == cfg.ratio < 1000 <=> Elongated([ratio_pm |-> cfg.ratio])

\* the linear regime of the minor-axis clause contains the whole image for
\* every configuration except the largest ellipse on the largest pixels;
\* there it still contains tan(rho) <= 51 permille (2.9 deg from the reference)
RegimeNonVacuous ==
    LET r(t) == [e_a_in |-> MajorNdeg(cfg), tanrho_pm |-> t] IN
    /\ LinearRegime(r(51))
    /\ (cfg.size * cfg.scale <= 300 => LinearRegime(r(200)))

(* ------------------------------ lemmas -------------------------------- *)
Small == -7..7
ASSUME WithinIsAbsDiff ==
    \A x \in Small, y \in Small, t \in 0..7 :
        Within(x, y, t) <=> (x - y <= t /\ y - x <= t)
ASSUME WithinAtExtremes ==
    /\ ~Within(IntMax, -IntMax, IntMax)
    /\ ~Within(-IntMax, IntMax, 5)
    /\ Within(IntMax, IntMax - 3, 3) /\ ~Within(IntMax, IntMax - 4, 3)
    /\ Within(-IntMax, 3 - IntMax, 3) /\ ~Within(-IntMax, 4 - IntMax, 3)
    /\ Within(2, -1, 3) /\ ~Within(3, -1, 3) /\ Within(-1, 2, 3) /\ ~Within(-1, 3, 3)
    /\ AbsLE(-IntMax, IntMax) /\ ~AbsLE(IntMax, IntMax - 1)
ASSUME PpmIsFloor ==
    /\ \A ref \in {0, 1, 999, 1000, 277778, 1234567} :
          \A p \in {0, 1, 999, 1000} : PpmOf(ref, p) = (ref * p) \div Million
    /\ PpmOf(333333000, 1000) = 333333 /\ PpmOf(333333000, 2000) = 666666
    /\ PpmOf(1234567, 2000) = 2469
    /\ PpmOf(IntMax, 2000) = 4294967
    /\ RelWithin(1001000, 1000000, 1000) /\ ~RelWithin(1001001, 1000000, 1000)
    /\ RelWithin(999000, 1000000, 1000) /\ ~RelWithin(998999, 1000000, 1000)
    /\ ~RelWithin(-1000000, 1000000, 1000) /\ ~RelWithin(IntMax, 1, 1000)
ASSUME CircDiffIsCentredResidue ==
    \A m \in {180, 360} : \A x \in (-2 * m - 3)..(2 * m + 3) :
        LET d == CircDiff(x, m) IN
        /\ 2 * d > -m /\ 2 * d <= m
        /\ (x - d) % m = 0
ASSUME CircWithinFacts ==
    /\ CircWithin360(179995000, -179996000, AngTolUdeg)       \* 179.995 ~ -179.996
    /\ ~CircWithin360(179995000, -179990000, AngTolUdeg)
    /\ CircWithin360(HalfTurn, -HalfTurn, 0)
    /\ ~CircWithin360(0, HalfTurn, AngTolUdeg)                 \* a reversed vector
    /\ CircWithin180(0, HalfTurn, 0)                           \* ... is the same axis
    /\ CircWithin180(89996000, -89995000, AngTolUdeg)
    /\ ~CircWithin180(45 * UDeg, -45 * UDeg, AngTolUdeg)
    /\ CircWithin360(Turn, -Turn, 0) /\ ~CircWithin180(Turn, 90 * UDeg - Turn, AngTolUdeg)
ASSUME AlignedFacts ==
    /\ Aligned(0, 10000, 0, 10000, HandTolSin)                 \* north ~ north
    /\ Aligned(10000, 0, 9998, 175, HandTolSin)                \* 1 deg off east
    /\ ~Aligned(10000, 0, 9986, 523, HandTolSin)               \* 3 deg off
    /\ ~Aligned(10000, 0, -10000, 0, HandTolSin)               \* reversed
    /\ ~Aligned(10000, 0, 0, 10000, HandTolSin)                \* measured from East
    /\ ~Aligned(7071, 7071, -7071, 7071, HandTolSin)           \* mirrored (West of North)
    /\ ~Aligned(5000, 5000, 5000, 5000, HandTolSin)            \* not unit vectors

\* every whole-degree position angle of (-180, 180] is in exactly one class
ASSUME PaClassesPartition ==
    \A d \in -179..180 :
        Cardinality({c \in PaClasses : InPaClass(d * UDeg, c)}) = 1
ASSUME PaClassesAtBoundaries ==
    /\ InPaClass(HalfTurn, "cardinal") /\ ~InPaClass(-HalfTurn, "cardinal")
    /\ \A c \in PaClasses \ {"cardinal"} : \A a \in Cardinals : ~InPaClass(a, c)
    /\ InPaClass(1, "Q1") /\ InPaClass(-1, "Q4")
    /\ InPaClass(HalfTurn - 1, "Q2") /\ InPaClass(1 - HalfTurn, "Q3")
ASSUME DecClassesSpanDomain ==
    /\ \E c \in DecClasses : DecRange(c)[2] = 85 * UDeg
    /\ \E c \in DecClasses : DecRange(c)[1] = -85 * UDeg
    /\ \E c \in DecClasses : DecRange(c)[1] < 0 /\ DecRange(c)[2] > 0
ASSUME ScalesAndSizesSpanDomain ==
    /\ 1 \in Scales /\ 60 \in Scales /\ 1 \in Sizes /\ 20 \in Sizes

\* handedness facts separate East-of-North from the three wrong conventions
\* for a step to the north-east quadrant axes (ndeg, micro-degrees)
HandRec(de, dn, pa, dir) == [h_de |-> de, h_dn |-> dn, h_pa |-> pa, dir |-> dir]
AllFacts(r) == NorthFact(r) /\ EastFact(r) /\ SouthFact(r) /\ WestFact(r)
ASSUME HandednessSeparates ==
    /\ AllFacts(HandRec(0, 277778, 0, "N")) /\ HandPremise(HandRec(0, 277778, 0, "N"))
    /\ AllFacts(HandRec(277778, 12, 90 * UDeg, "E"))
    /\ AllFacts(HandRec(277778, 12, -270 * UDeg, "E"))                \* same angle
    /\ ~AllFacts(HandRec(277778, 12, -90 * UDeg, "E"))                \* West of North
    /\ ~AllFacts(HandRec(277778, 12, 0, "E"))                         \* from East
    /\ ~AllFacts(HandRec(0, -277778, 0, "S"))
    /\ AllFacts(HandRec(0, -277778, -180 * UDeg, "S"))
    /\ AllFacts(HandRec(-277778, 0, 270 * UDeg, "W"))
    /\ ~HandPremise(HandRec(200000, 200000, 45 * UDeg, "N"))          \* diagonal: no fact applies
    /\ AllFacts(HandRec(200000, 200000, -45 * UDeg, "N"))

\* index identity on a small linear WCS with distinct scales per axis
Grid == 1..5
Lin  == [cr1 |-> 100, cr2 |-> -40, d1 |-> -3, d2 |-> 7, p1 |-> 2, p2 |-> 4]
ASSUME IndexIdentity ==
    \A row \in Grid, col \in Grid :
       /\ AegeanWorld(Lin, row, col) = StdWorld(Lin, col, row, 1)
       /\ NumpyWorld(Lin, row - 1, col - 1) = AegeanWorld(Lin, row, col)
       /\ (row # col => SwappedWorld(Lin, row, col) # AegeanWorld(Lin, row, col))
       /\ ZeroBasedWorld(Lin, row, col) # AegeanWorld(Lin, row, col)
       /\ ZeroBasedWorld(Lin, row, col) = AegeanWorld(Lin, row + 1, col + 1)
       \* injective: the mapping has an inverse (sky2pix)
       /\ \A r2 \in Grid, c2 \in Grid :
             AegeanWorld(Lin, r2, c2) = AegeanWorld(Lin, row, col) => (r2 = row /\ c2 = col)
       \* at the reference pixel the world coordinate is CRVAL
       /\ AegeanWorld(Lin, Lin.p2, Lin.p1) = <<Lin.cr1, Lin.cr2>>
=============================================================================
