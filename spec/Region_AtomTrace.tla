-------------------------- MODULE Region_AtomTrace --------------------------
(***************************************************************************)
(* Code -> spec validation of Region histories with REAL geometry (circles,*)
(* polygons, .mim files, depths up to 10) in the exact Boolean-algebra     *)
(* quotient.  The atoms of a history are the equivalence classes of        *)
(* deepest-level pixels under membership in every operand set of that      *)
(* history; every operand is a union of atoms by construction and every    *)
(* set-algebra result must be one (the harness logs `exact` = the observed *)
(* pixel set is a union of whole atoms and contains nothing outside the    *)
(* universe of the history).  The quotient map is a homomorphism of set    *)
(* algebra, so acceptance here is acceptance on raw pixels.                *)
(*                                                                         *)
(* The Region machine is instantiated with the atoms as its (level-1)      *)
(* pixels: NB <- number of atoms, D <- 1; operands are level-1 pixel sets. *)
(* Area is the sum of atom sizes instead of a cardinality.                 *)
(* The real representation (pixeldict, real identifiers, real depth) is    *)
(* logged as well and checked with the Sky operators for identifier        *)
(* validity, overlap freedom and area.                                     *)
(***************************************************************************)
EXTENDS TraceBatch, SequencesExt

CONSTANTS NB          \* upper bound on the number of atoms in any history

D == 1
VARIABLES S, answer
INSTANCE Region

SeqSet(q) == {q[k] : k \in 1..Len(q)}

RealNB == 48

RECURSIVE SumSizes(_, _)
SumSizes(sizes, A) == IF A = {} THEN 0
                      ELSE LET a == CHOOSE x \in A : TRUE
                           IN sizes[a + 1] + SumSizes(sizes, A \ {a})

\* real representation predicates at the record's real depth
RealIdsValid(pdl, Dr) ==
    \A d \in 1..Len(pdl) : d <= Dr /\ \A k \in 1..Len(pdl[d]) :
         pdl[d][k] >= 0 /\ pdl[d][k] < NPixOf(RealNB, d)

RealNoOverlap(pdl, Dr) ==
    LET rep == [d \in 1..Len(pdl) |-> SeqSet(pdl[d])] IN
    \A d2 \in 2..Len(pdl) : \A p2 \in rep[d2] :
        \A d1 \in 1..(d2 - 1) : Anc(p2, d2, d1) \notin rep[d1]

RECURSIVE RealArea(_, _, _)
RealArea(pdl, Dr, d) == IF d > Len(pdl) THEN 0
                        ELSE Len(pdl[d]) * Pow4(Dr - d) + RealArea(pdl, Dr, d + 1)

Call(st) ==
    IF st.op \in {"union", "union_norenorm", "without", "intersect", "symmetric_difference",
                  "add_circles", "add_poly", "add_pixels"}
    THEN [op |-> IF st.op \in {"add_circles", "add_poly", "add_pixels"} THEN "union" ELSE st.op,
          other |-> [depth |-> IF st.samedepth THEN 1 ELSE 2, rep |-> <<SeqSet(st.atoms)>>]]
    ELSE IF st.op = "sky_within" THEN [op |-> st.op, pix |-> st.atom]
    ELSE [op |-> st.op]

StepFails(rec, st, e, c) ==
    IF st.obs.error # "" THEN <<"observation_completed">> ELSE
    IF st.obs.ret.kind = "error" THEN <<"call_completed">> ELSE
    Clause("ids_integral", st.obs.integral)
    \o Clause("ids_valid_for_level", RealIdsValid(st.obs.pd, rec.Dreal))
    \o Clause("result_is_union_of_atoms", st.obs.exact)
    \o Clause("demoted_equals_set_algebra", SeqSet(st.obs.dem_atoms) = e.S)
    \o Clause("no_patch_stored_twice",
              (st.normalising /\ e.ans.kind # "raised") => RealNoOverlap(st.obs.pd, rec.Dreal))
    \o Clause("area_is_cardinality",
              /\ st.obs.area_milli = 1000 * SumSizes(rec.atoms, e.S))
    \o Clause("membership_answers",
              \A k \in 1..Len(st.obs.within) :
                   st.obs.within[k][2] = (st.obs.within[k][1] \in e.S))
    \o (CASE e.ans.kind = "raised" -> Clause("different_depth_rejected", st.obs.ret.kind = "raised")
          [] e.ans.kind = "set" -> Clause("get_demoted_answer",
                                          st.obs.ret.kind = "set" /\ st.obs.ret.exact
                                          /\ SeqSet(st.obs.ret.atoms) = e.S)
          [] e.ans.kind = "bool" -> Clause("sky_within_answer",
                                           st.obs.ret.kind = "bool" /\ st.obs.ret.val = e.ans.val)
          [] e.ans.kind = "int" -> Clause("get_area_answer",
                                          st.obs.ret.kind = "int"
                                          /\ st.obs.ret.milli = 1000 * SumSizes(rec.atoms, e.S))
          [] e.ans.kind = "export" -> Clause("moc_decodes_to_region",
                                          st.obs.ret.kind = "moc" /\ st.obs.ret.order = rec.Dreal
                                          /\ st.obs.ret.exact /\ st.obs.ret.valid
                                          /\ SeqSet(st.obs.ret.atoms) = e.S)
          [] OTHER -> Clause("returns_nothing", st.obs.ret.kind = "none"))

RECURSIVE Walk(_, _, _)
Walk(rec, k, s) ==
    IF k > Len(rec.steps) THEN <<>>
    ELSE LET st == rec.steps[k]
             c  == Call(st)
             e  == Eff(s, c)
             \* calls made inside one library call (MIMAS.combine_regions / intersect_regions apply a
             \* documented sequence of operations) are not observable one by one: only the last is
             F  == IF HasKey(st.obs, "skip") THEN <<>> ELSE StepFails(rec, st, e, c)
         IN IF F # <<>> THEN <<"step " \o ToString(k) \o " " \o st.op>> \o F
            ELSE Walk(rec, k + 1, e.S)

Fails(rec) == IF Len(rec.atoms) > NB THEN <<"too_many_atoms">> ELSE Walk(rec, 1, {})

Next == BatchNext(Fails) /\ UNCHANGED <<S, answer>>
Spec == BatchInit /\ S = {} /\ answer = NoAnswer /\ [][Next]_<<pos, S, answer>>
=============================================================================
