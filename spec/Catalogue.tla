------------------------------ MODULE Catalogue ------------------------------
(* C18 - the catalogue store.                                              *)
(*                                                                         *)
(* State: a store  [file name -> [cols, rows]]  of tables.  A catalogue is *)
(* a sequence of rows  [t |-> type, c |-> cells];  the cells of a row are  *)
(* aligned with the documented column list DocNames(t).  Values are opaque *)
(* tokens (strings): a cell is <<x>> or <<x, lo, hi>> where x identifies   *)
(* the value given to the writer (IEEE-754 hex of the double, "nan", the   *)
(* decimal text of an integer, or "s:" + a string) and, for numeric cells, *)
(* lo / hi identify the two single precision numbers that bracket x        *)
(* (lo = hi = x when x is a single precision number).                      *)
(*                                                                         *)
(* Save(base.ext, cat) appends every row to the file of its type           *)
(* (base_comp.ext / base_isle.ext / base_simp.ext, or the tables           *)
(* components / islands / simples of base.db) after projecting it with the *)
(* precision class of the format.  What a format may do to a value is a    *)
(* set of admissible stored tokens (a singleton wherever the property      *)
(* demands identity), so a stored cell is a set of tokens and a concrete   *)
(* file conforms when each of its tokens lies in the corresponding set.    *)
(* Load(file) returns the stored table.                                    *)
EXTENDS Integers, Sequences, FiniteSets, TLC

TypeSet == {"comp", "isle", "simp"}
Formats == {"csv", "tab", "tex", "vot", "xml", "fits", "db"}

\* ---- the documented schema --------------------------------------------
DocNames(t) ==
    CASE t = "comp" -> <<"island", "source", "background", "local_rms",
                         "ra_str", "dec_str", "ra", "err_ra", "dec", "err_dec",
                         "peak_flux", "err_peak_flux", "int_flux", "err_int_flux",
                         "a", "err_a", "b", "err_b", "pa", "err_pa",
                         "flags", "residual_mean", "residual_std",
                         "uuid", "psf_a", "psf_b", "psf_pa">>
      [] t = "isle" -> <<"island", "components", "background", "local_rms",
                         "ra_str", "dec_str", "ra", "dec", "peak_flux",
                         "int_flux", "err_int_flux", "eta", "x_width", "y_width",
                         "max_angular_size", "pa", "pixels", "area", "beam_area",
                         "flags", "uuid">>
      [] t = "simp" -> <<"background", "local_rms", "ra", "dec", "peak_flux",
                         "err_peak_flux", "flags", "peak_pixel", "a", "b",
                         "pa", "uuid">>

\* columns whose tokens must come back identical in every format
IdentityCols == {"island", "source", "flags", "uuid", "ra_str", "dec_str"}

Index(seq, v) == CHOOSE k \in 1..Len(seq) : seq[k] = v
UuidPos(t) == Index(DocNames(t), "uuid")

DbTable(t) == CASE t = "comp" -> "components"
                [] t = "isle" -> "islands"
                [] t = "simp" -> "simples"

FileOf(base, ext, t) == IF ext = "db" THEN base \o ".db:" \o DbTable(t)
                        ELSE base \o "_" \o t \o "." \o ext

ColName(prefix, n) == IF prefix = "" THEN n ELSE prefix \o "_" \o n
Header(prefix, t) == [j \in 1..Len(DocNames(t)) |-> ColName(prefix, DocNames(t)[j])]

\* ---- precision classes --------------------------------------------------
Precision(ext) == IF ext = "fits" THEN "single32"
                  ELSE IF ext = "db" THEN "sqlite64"
                  ELSE "exact64"

NaN      == "nan"
Null     == "null"
MinusOne == "bff0000000000000"          \* IEEE-754 double -1.0

X(cell) == cell[1]

\* the tokens a format of precision class prec may hand back for a cell of
\* column `name`
Admissible(prec, name, cell) ==
    IF name \in IdentityCols THEN {X(cell)}
    ELSE IF X(cell) = NaN
         THEN (IF prec = "sqlite64" THEN {NaN, Null} ELSE {NaN})   \* SQLite has no NaN
    ELSE IF prec = "single32" THEN {cell[k] : k \in 1..Len(cell)}   \* x, lo, hi
    ELSE {X(cell)}

Project(row, prec) ==
    [j \in 1..Len(row.c) |-> Admissible(prec, DocNames(row.t)[j], row.c[j])]

\* what the projection (harness) must guarantee about the tokens it supplies
CellWellFormed(cell) ==
    /\ Len(cell) \in {1, 3}
    /\ (Len(cell) = 3 /\ X(cell) \in {NaN, MinusOne}) => (cell[2] = X(cell) /\ cell[3] = X(cell))
RowWellFormed(row) ==
    /\ row.t \in TypeSet
    /\ Len(row.c) = Len(DocNames(row.t))
    /\ \A j \in 1..Len(row.c) : CellWellFormed(row.c[j])

\* ---- the declarative description of a finished save ---------------------
Filter(cat, t) == SelectSeq(cat, LAMBDA r : r.t = t)
PresentTypes(cat) == {cat[i].t : i \in 1..Len(cat)} \cap TypeSet

ExpectedTable(s, t) ==
    LET rows == Filter(s.cat, t) IN
    [cols |-> Header(IF s.ext = "db" THEN "" ELSE s.prefix, t),
     rows |-> [i \in 1..Len(rows) |-> Project(rows[i], Precision(s.ext))]]

ExpectedFiles(s) == {FileOf(s.base, s.ext, t) : t \in PresentTypes(s.cat)}
TypeOfFile(s, f) == CHOOSE t \in TypeSet : FileOf(s.base, s.ext, t) = f
Expected(s) == [f \in ExpectedFiles(s) |-> ExpectedTable(s, TypeOfFile(s, f))]

\* a concrete table (tokens) conforms to a stored table (token sets)
Conforms(tab, obs) ==
    /\ obs.cols = tab.cols
    /\ Len(obs.rows) = Len(tab.rows)
    /\ \A i \in 1..Len(tab.rows) :
          /\ Len(obs.rows[i]) = Len(tab.rows[i])
          /\ \A j \in 1..Len(tab.rows[i]) : obs.rows[i][j] \in tab.rows[i][j]

\* ---- the state machine --------------------------------------------------
VARIABLES store,     \* [file -> [cols, rows]]
          job,       \* the save in progress, or Idle
          saved,     \* sequence of finished saves [base, ext, prefix, cat]
          view       \* [file -> table] what Load returned

vars == <<store, job, saved, view>>
Idle == [state |-> "idle"]
Empty == [f \in {} |-> <<>>]

Init == store = Empty /\ job = Idle /\ saved = <<>> /\ view = Empty

Fresh(base, ext) == \A k \in 1..Len(saved) : saved[k].base # base \/ saved[k].ext # ext

\* Saving again to the same base.db replaces the database file: its tables are exactly those of
\* the catalogue saved last ("sqlite output holds the same rows").  (Per-type files of the other
\* formats are only ever written for types present in the catalogue; saving twice to the same
\* name is not modelled for them.)
IsDbTableOf(f, base) == \E t \in TypeSet : f = FileOf(base, "db", t)

BeginSave(base, ext, prefix, cat) ==
    /\ job = Idle
    /\ (Fresh(base, ext) \/ ext = "db")
    /\ job' = [state |-> "saving", base |-> base, ext |-> ext, prefix |-> prefix,
               cat |-> cat, done |-> 0]
    /\ IF Fresh(base, ext)
       THEN UNCHANGED <<store, saved, view>>
       ELSE /\ store' = [f \in {g \in DOMAIN store : ~IsDbTableOf(g, base)} |-> store[f]]
            /\ view' = [f \in {g \in DOMAIN view : ~IsDbTableOf(g, base)} |-> view[f]]
            /\ saved' = SelectSeq(saved, LAMBDA s : ~(s.base = base /\ s.ext = ext))

\* the store after one more row has been written
Put(st, s, row) ==
    LET f == FileOf(s.base, s.ext, row.t)
        p == Project(row, Precision(s.ext))
    IN IF f \in DOMAIN st
       THEN [st EXCEPT ![f].rows = Append(@, p)]
       ELSE [g \in DOMAIN st \cup {f} |->
               IF g = f THEN [cols |-> Header(IF s.ext = "db" THEN "" ELSE s.prefix, row.t),
                              rows |-> <<p>>]
               ELSE st[g]]

WriteRow ==
    /\ job # Idle
    /\ job.done < Len(job.cat)
    /\ LET row == job.cat[job.done + 1] IN
         store' = Put(store, job, row)
    /\ job' = [job EXCEPT !.done = @ + 1]
    /\ UNCHANGED <<saved, view>>

EndSave ==
    /\ job # Idle
    /\ job.done = Len(job.cat)
    /\ saved' = Append(saved, [base |-> job.base, ext |-> job.ext,
                               prefix |-> job.prefix, cat |-> job.cat])
    /\ job' = Idle
    /\ UNCHANGED <<store, view>>

Load(f) ==
    /\ job = Idle
    /\ f \in DOMAIN store
    /\ f \notin DOMAIN view
    /\ view' = [g \in DOMAIN view \cup {f} |-> IF g = f THEN store[f] ELSE view[g]]
    /\ UNCHANGED <<store, job, saved>>

\* ---- the property, stated on the store ----------------------------------
SubSeqTo(seq, n) == [i \in 1..n |-> seq[i]]
Rank(cat, i) == Cardinality({j \in 1..i : cat[j].t = cat[i].t})

\* every finished save left exactly the documented files with exactly the
\* rows of each type, in the given order, under the format's precision map
SplitHolds ==
    \A k \in 1..Len(saved) :
        /\ ExpectedFiles(saved[k]) \subseteq DOMAIN store
        /\ \A f \in ExpectedFiles(saved[k]) : store[f] = Expected(saved[k])[f]

\* nothing else is ever written
OnlyDocumentedFiles ==
    DOMAIN store \subseteq
        UNION ({ExpectedFiles(saved[k]) : k \in 1..Len(saved)}
               \cup (IF job = Idle THEN {} ELSE {ExpectedFiles(job)}))

\* while a save is running each file holds the rows of its type written so far
PrefixHolds ==
    job # Idle =>
        LET part == [job EXCEPT !.cat = SubSeqTo(job.cat, job.done)] IN
        /\ ExpectedFiles(part) \subseteq DOMAIN store
        /\ \A f \in ExpectedFiles(part) : store[f] = Expected(part)[f]

\* split / concat laws
ConcatLaw ==
    \A k \in 1..Len(saved) :
        LET s == saved[k] IN
        /\ Len(s.cat) = Len(Filter(s.cat, "comp")) + Len(Filter(s.cat, "isle"))
                        + Len(Filter(s.cat, "simp"))
        /\ \A i \in 1..Len(s.cat) :
              store[FileOf(s.base, s.ext, s.cat[i].t)].rows[Rank(s.cat, i)]
                 = Project(s.cat[i], Precision(s.ext))

FilesDisjoint ==
    \A k1, k2 \in 1..Len(saved) : \A t1, t2 \in TypeSet :
        (FileOf(saved[k1].base, saved[k1].ext, t1) = FileOf(saved[k2].base, saved[k2].ext, t2))
            => (k1 = k2 /\ t1 = t2)

\* value clauses: what the stored token sets are, per precision class.
\* P(s, name, given cell, stored token set) for every cell of every finished save
AllCells(P(_, _, _, _)) ==
    \A k \in 1..Len(saved) :
        LET s == saved[k] IN
        \A t \in PresentTypes(s.cat) :
            LET rows  == Filter(s.cat, t)
                tab   == store[FileOf(s.base, s.ext, t)]
                names == DocNames(t)
            IN \A i \in 1..Len(rows) : \A j \in 1..Len(names) :
                  P(s, names[j], rows[i].c[j], tab.rows[i][j])

IdentityExact ==
    LET P(s, n, g, st) == n \in IdentityCols => st = {X(g)} IN AllCells(P)

Exact64 ==
    LET P(s, n, g, st) == Precision(s.ext) = "exact64" => st = {X(g)} IN AllCells(P)

Single32 ==
    LET P(s, n, g, st) == Precision(s.ext) = "single32" =>
                             (X(g) \in st /\ st \subseteq {g[m] : m \in 1..Len(g)})
    IN AllCells(P)

NaNPreserved ==
    LET P(s, n, g, st) == X(g) = NaN =>
                             (NaN \in st /\ st \subseteq (IF s.ext = "db" THEN {NaN, Null} ELSE {NaN}))
    IN AllCells(P)

MinusOnePreserved ==
    LET P(s, n, g, st) == (X(g) = MinusOne /\ CellWellFormed(g)) => st = {MinusOne}
    IN AllCells(P)

LoadReturnsStored == \A f \in DOMAIN view : f \in DOMAIN store /\ view[f] = store[f]
=============================================================================
