-------------------------- MODULE MC_RecoveryConfig -------------------------
(* The discrete part of C01's quantifier as the initial states of a small  *)
(* pipeline machine  Config -> Inject -> Run -> Report ; TLC enumerates    *)
(* every admissible configuration and emits it (the harness instantiates   *)
(* the continuous parameters from a seed and drives the real finder).      *)
EXTENDS Integers, Sequences, TLC, Json

Projections == {"SIN", "TAN", "ZEA", "ARC", "STG"}
DecZones    == {0, 45, -45, 80, -80}
RaClasses   == {"generic", "wrap"}            \* CRVAL1 = 30 or 359.99
Scales      == {1, 10, 60}                    \* arcsec per pixel
Beams       == {"circ", "2to1pa0", "2to1pa45", "2to1pa120"}
BkgRms      == {"forced", "internal"}

VARIABLES conf, stage
vars == <<conf, stage>>

Admissible(c) ==
    /\ (c.bkgrms = "internal" => c.noise)     \* BANE cannot estimate noise of a noise-free image
    /\ (c.cores = 2 => c.bkgrms = "internal") \* cores only matters for the internal estimate

Init ==
    /\ conf \in [proj : Projections, docov : BOOLEAN, bkgrms : BkgRms, cores : {1, 2},
                 dec : DecZones, ra : RaClasses, scale : Scales, beam : Beams, noise : BOOLEAN]
    /\ Admissible(conf)
    /\ stage = "config"

Inject == stage = "config" /\ stage' = "injected" /\ UNCHANGED conf
Run    == stage = "injected" /\ stage' = "ran" /\ UNCHANGED conf
Report == stage = "ran" /\ stage' = "reported" /\ UNCHANGED conf
Next == Inject \/ Run \/ Report
Spec == Init /\ [][Next]_vars

Emit == IF stage = "config" THEN PrintT(ToJson(conf)) ELSE TRUE
AdmissibleInv == Admissible(conf)
=============================================================================
