---------------------------- MODULE MC_Polarity -----------------------------
(* Model-checking instance for C13.                                         *)
(*                                                                          *)
(* A little machine: the finder has produced (it does not matter how) the   *)
(* both-polarities catalogue `cat` of an input; a run is configured with    *)
(* an element of the option lattice                                         *)
(*     nopositive x nonegative x maps (forced rms/bkg | file rms/bkg)       *)
(*                x negated (input image and background negated)            *)
(* and reports `out`.  The design: negating the input flips the sign of     *)
(* every row and nothing else; the switches filter; the way the rms /       *)
(* background were supplied has no influence.                               *)
(*                                                                          *)
(* TLC enumerates every catalogue of <= MaxRows rows over Signs x Tokens    *)
(* and every lattice element, checks the partition theorems of Polarity     *)
(* on the specification, and emits the lattice (once, for the empty         *)
(* catalogue) so that the harness drives the real code with exactly these   *)
(* run configurations.                                                      *)
EXTENDS Polarity, TLC, Json
CONSTANTS MaxRows, Tokens, Emit
VARIABLES cat, opt, out, pc

vars == <<cat, opt, out, pc>>

RowDom == [sign : Signs, tok : Tokens]
Cats   == UNION {[1..n -> RowDom] : n \in 0..MaxRows}
Maps   == {"forced", "file"}
Options == [nopositive : BOOLEAN, nonegative : BOOLEAN, maps : Maps, negated : BOOLEAN]

RunName(o) ==
    (IF o.nopositive /\ o.nonegative THEN "Neither"
     ELSE IF o.nopositive THEN "NegOnly"
     ELSE IF o.nonegative THEN "PosOnly" ELSE "Both")
    \o (IF o.negated THEN "OnNegatedInput" ELSE "")

Init == /\ cat \in Cats
        /\ opt \in Options
        /\ out = <<>>
        /\ pc = "configured"

\* what the input's both-polarities catalogue is
InputCat == IF opt.negated THEN NegateCat(cat) ELSE cat

Run == /\ pc = "configured"
       /\ out' = Filter(InputCat, opt.nopositive, opt.nonegative)
       /\ (Emit /\ cat = <<>>) =>
             PrintT(ToJson([name |-> RunName(opt), nopositive |-> opt.nopositive,
                            nonegative |-> opt.nonegative, maps |-> opt.maps,
                            negated |-> opt.negated]))
       /\ pc' = "reported"
       /\ UNCHANGED <<cat, opt>>

Next == Run
Spec == Init /\ [][Next]_vars

\* ---- theorems -----------------------------------------------------------
TypeOK == /\ cat \in Cats /\ opt \in Options /\ WellSigned(cat)
          /\ pc \in {"configured", "reported"}

PartitionThm ==
    /\ BothIsAll(cat) /\ NeitherIsEmpty(cat)
    /\ Disjoint(cat) /\ Covers(cat) /\ CountsAdd(cat) /\ SignsAsRequested(cat)

\* the same on the negated input
PartitionNegThm ==
    LET n == NegateCat(cat) IN
    /\ WellSigned(n) /\ Disjoint(n) /\ Covers(n) /\ CountsAdd(n) /\ SignsAsRequested(n)

DualityThm ==
    \A np, nn \in BOOLEAN :
        /\ NegationDuality(cat, np, nn)
        /\ FilterIdempotent(cat, np, nn)
        /\ Rows(Filter(cat, np, nn)) \subseteq Rows(cat)

NegateInvolution == NegateCat(NegateCat(cat)) = cat

\* the reported catalogue is the filter of the input's catalogue, whatever
\* the maps; it only contains requested signs; and it conforms to the
\* relation the trace specification uses
ReportThm ==
    pc = "reported" =>
        /\ RunIsFilterOf(out, InputCat, opt.nopositive, opt.nonegative)
        /\ \A c \in Rows(out) : ~Excluded(c, opt.nopositive, opt.nonegative)
        /\ (opt.nopositive /\ opt.nonegative) => out = <<>>
        /\ (~opt.nopositive /\ ~opt.nonegative) => out = InputCat
        /\ opt.negated =>
              out = NegateCat(Filter(cat, opt.nonegative, opt.nopositive))

\* the tolerance operators of the symmetry relation are well behaved at the
\* extremes of the 32-bit range (TLC aborts on overflow), and the verdict
\* level never rejects what the strict level accepts
Extremes == {-IntMax, -1000000, -1, 0, 1, 1000000, IntMax}
SampleRow(pk, e, fl) ==
    [isl |-> 1, src |-> 0, flags |-> fl, peak |-> pk, int_ |-> pk, x |-> Abs(pk), y |-> Abs(pk) \div 2,
     a |-> Abs(pk), b |-> Abs(pk), pa |-> Abs(pk) % 90000001,
     e_peak |-> e, e_int |-> e, e_a |-> e, e_b |-> e, e_pa |-> e, e_ra |-> e, e_dec |-> e]
SampleRows == {SampleRow(pk, e, fl) : pk \in Extremes \ {0}, e \in Extremes, fl \in {0, 1, 4}}

ASSUME FixedPointLemmas ==
    /\ \A x \in Extremes :
         /\ SameRel(x, x) /\ SameRel(-x, -x)
         /\ \A ed \in {4, 20} : SameErr(x, x, ed)
         /\ \A y \in Extremes :
              /\ SameRel(x, y) = SameRel(y, x)
              /\ \A ed \in {4, 20} : SameErr(x, y, ed) = SameErr(y, x, ed)
              /\ \A e1, e2 \in Extremes : \A k \in BOOLEAN :
                   /\ SameRel(x, y) => SameVal(x, y, e1, e2, 100, k)
                   /\ SameVal(x, y, e1, e2, 100, k) = SameVal(y, x, e2, e1, 100, k)
                   /\ SameVal(x, y, e1, e2, 1, k) = SameVal(y, x, e2, e1, 1, k)
                   /\ SameVal(x, y, e1, e2, 100, FALSE) => SameVal(x, y, e1, e2, 100, TRUE)
                   /\ SameVal(x, y, e1, e2, 1, FALSE) => SameVal(x, y, e1, e2, 1, TRUE)
    /\ SameRel(1000000000, 1000001000) /\ ~SameRel(1000000000, 1000001100)
    /\ SameRel(-1000000000, -1000001000) /\ ~SameRel(-1000000000, 1000000000)
    /\ ~SameRel(100, 103) /\ SameRel(100, 102)
    /\ SamePA(90000000, -89999900) /\ SamePA(-89999900, 90000000)
    /\ ~SamePA(90000000, -89999000) /\ SamePA(1000, 1100) /\ ~SamePA(1000, 1400)
    \* verdict level: a quarter of the quoted error, errors within 5 %
    /\ SameVal(30000000, 30000200, 100000000, 100000000, 100, FALSE)   \* 0.0002 vs 1.0/4
    /\ ~SameVal(30000000, 30300000, 100000000, 100000000, 100, FALSE)  \* 0.3 > 0.25
    /\ SameVal(30000000, 32900000, 100000000, 100000000, 100, TRUE)    \* blended: 2.9 < 3
    /\ ~SameVal(30000000, 33100000, 100000000, 100000000, 100, TRUE)   \* blended: 3.1 > 3
    /\ ~SameVal(30000000, 30000200, -100000000, -100000000, 100, FALSE) \* no error quoted
    /\ ~SameVal(30000000, 30000200, -100000000, -100000000, 100, TRUE)
    /\ SameErr(100000000, 104000000, 20) /\ ~SameErr(100000000, 106000000, 20)
    /\ SameErr(100000000, 106000000, 4)
    /\ \A a \in SampleRows : \A b \in SampleRows : \A bl \in BOOLEAN :
         /\ NegRowStrict(a, b) => NegRow(a, b, bl)
         /\ NegRow(a, b, FALSE) => NegRow(a, b, TRUE)
         /\ NegRow(a, b, bl) => (SameIds(a, b) /\ SameFlags(a, b) /\ SignNegated(a, b))
    /\ \E a \in SampleRows : \E b \in SampleRows : NegRowStrict(a, b)
    /\ LET A == <<SampleRow(5, 1, 0), [SampleRow(7, 1, 0) EXCEPT !.src = 1],
                  [SampleRow(7, 1, 0) EXCEPT !.src = -1], [SampleRow(9, 1, 0) EXCEPT !.isl = 2]>>
       IN Blended(A, 1) /\ Blended(A, 2) /\ ~Blended(A, 3) /\ ~Blended(A, 4)
=============================================================================
