---------------------------- MODULE MC_Polarity -----------------------------
(* Model-checking instance for C13.                                         *)
(*                                                                          *)
(* A little machine: the finder has produced (it does not matter how) the   *)
(* both-polarities catalogue `cat` of an input; a run is configured with    *)
(* an element of the option lattice                                         *)
(*     nopositive x nonegative x maps (forced rms/bkg | file rms/bkg)       *)
(*                x negated (input image and background negated)            *)
(* and reports `out`.  The design: negating the input flips the sign of     *)
(* every row and nothing else; the switches filter; the way the rms /       *)
(* background were supplied has no influence.                               *)
(*                                                                          *)
(* TLC enumerates every catalogue of <= MaxRows rows over Signs x Tokens    *)
(* and every lattice element, checks the partition theorems of Polarity     *)
(* on the specification, and emits the lattice (once, for the empty         *)
(* catalogue) so that the harness drives the real code with exactly these   *)
(* run configurations.                                                      *)
EXTENDS Polarity, TLC, Json
CONSTANTS MaxRows, Tokens, Emit
VARIABLES cat, opt, out, pc

vars == <<cat, opt, out, pc>>

RowDom == [sign : Signs, tok : Tokens]
Cats   == UNION {[1..n -> RowDom] : n \in 0..MaxRows}
Maps   == {"forced", "file"}
Options == [nopositive : BOOLEAN, nonegative : BOOLEAN, maps : Maps, negated : BOOLEAN]

RunName(o) ==
    (IF o.nopositive /\ o.nonegative THEN "Neither"
     ELSE IF o.nopositive THEN "NegOnly"
     ELSE IF o.nonegative THEN "PosOnly" ELSE "Both")
    \o (IF o.negated THEN "OnNegatedInput" ELSE "")

Init == /\ cat \in Cats
        /\ opt \in Options
        /\ out = <<>>
        /\ pc = "configured"

\* what the input's both-polarities catalogue is
InputCat == IF opt.negated THEN NegateCat(cat) ELSE cat

Run == /\ pc = "configured"
       /\ out' = Filter(InputCat, opt.nopositive, opt.nonegative)
       /\ (Emit /\ cat = <<>>) =>
             PrintT(ToJson([name |-> RunName(opt), nopositive |-> opt.nopositive,
                            nonegative |-> opt.nonegative, maps |-> opt.maps,
                            negated |-> opt.negated]))
       /\ pc' = "reported"
       /\ UNCHANGED <<cat, opt>>

Next == Run
Spec == Init /\ [][Next]_vars

\* ---- theorems -----------------------------------------------------------
TypeOK == /\ cat \in Cats /\ opt \in Options /\ WellSigned(cat)
          /\ pc \in {"configured", "reported"}

PartitionThm ==
    /\ BothIsAll(cat) /\ NeitherIsEmpty(cat)
    /\ Disjoint(cat) /\ Covers(cat) /\ CountsAdd(cat) /\ SignsAsRequested(cat)

\* the same on the negated input
PartitionNegThm ==
    LET n == NegateCat(cat) IN
    /\ WellSigned(n) /\ Disjoint(n) /\ Covers(n) /\ CountsAdd(n) /\ SignsAsRequested(n)

DualityThm ==
    \A np, nn \in BOOLEAN :
        /\ NegationDuality(cat, np, nn)
        /\ FilterIdempotent(cat, np, nn)
        /\ Rows(Filter(cat, np, nn)) \subseteq Rows(cat)

NegateInvolution == NegateCat(NegateCat(cat)) = cat

\* the reported catalogue is the filter of the input's catalogue, whatever
\* the maps; it only contains requested signs; and it conforms to the
\* relation the trace specification uses
ReportThm ==
    pc = "reported" =>
        /\ RunIsFilterOf(out, InputCat, opt.nopositive, opt.nonegative)
        /\ \A c \in Rows(out) : ~Excluded(c, opt.nopositive, opt.nonegative)
        /\ (opt.nopositive /\ opt.nonegative) => out = <<>>
        /\ (~opt.nopositive /\ ~opt.nonegative) => out = InputCat
        /\ opt.negated =>
              out = NegateCat(Filter(cat, opt.nonegative, opt.nopositive))

\* the tolerance operators of the symmetry relation are well behaved at the
\* extremes of the 32-bit range (TLC aborts on overflow)
ASSUME FixedPointLemmas ==
    /\ \A x \in {-IntMax, -1000000, -1, 0, 1, 1000000, IntMax} :
         /\ SameRel(x, x) /\ SameRel(-x, -x)
         /\ \A y \in {-IntMax, -1, 0, 1, IntMax} : SameRel(x, y) = SameRel(y, x)
    /\ SameRel(1000000000, 1000001000) /\ ~SameRel(1000000000, 1000001100)
    /\ SameRel(-1000000000, -1000001000) /\ ~SameRel(-1000000000, 1000000000)
    /\ ~SameRel(100, 103) /\ SameRel(100, 102)
    /\ SamePA(90000000, -89999900) /\ SamePA(-89999900, 90000000)
    /\ ~SamePA(90000000, -89999000) /\ SamePA(1000, 1100) /\ ~SamePA(1000, 1400)
=============================================================================
