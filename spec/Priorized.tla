------------------------------ MODULE Priorized -----------------------------
(***************************************************************************)
(* Priorized (catalogue driven) fitting, C05.                              *)
(*                                                                         *)
(* Input: a sequence of catalogue rows [uuid, status] with status "ok"     *)
(* (usable), "off" (outside the image) or "blank" (on a blank pixel).      *)
(* Refit(stage) returns rows [uuid, flags-has-PRIORIZED, frozen position,  *)
(* frozen shape].  The specification is nondeterministic where the         *)
(* property is: an accepted source may yield at most one row.              *)
(*                                                                         *)
(* Cut-out model (integer algebra, everything doubled so that halves are   *)
(* integers): for a source at rounded pixel x and cut-out width w the code *)
(* takes the sub-image [lo, hi) and fits the parameters in a frame whose   *)
(* origin must be the SAME lo.  FixCutout = FALSE reproduces the original  *)
(* float arithmetic lo = x - w/2 (a half-integer for odd w) used for the   *)
(* parameters while the data were cut at floor(lo).                        *)
(***************************************************************************)
EXTENDS Integers, Sequences, FiniteSets

CONSTANTS MaxRows, Uuids, FixCutout, ImgSize, MaxWidth

VARIABLES cat, stage, out, phase

vars == <<cat, stage, out, phase>>

Status == {"ok", "off", "blank"}
Accepted(r) == r.status = "ok"

Init ==
    /\ cat \in UNION {[1..n -> [uuid : Uuids, status : Status]] : n \in 0..MaxRows}
    /\ \A i \in DOMAIN cat, j \in DOMAIN cat : i # j => cat[i].uuid # cat[j].uuid
    /\ stage \in 1..3
    /\ out = {} /\ phase = "input"

\* frozen parameters per stage
PosFrozen(s)   == s < 2
ShapeFrozen(s) == s < 3

Refit ==
    /\ phase = "input"
    /\ \E kept \in SUBSET {cat[i].uuid : i \in {k \in DOMAIN cat : Accepted(cat[k])}} :
          out' = {[uuid |-> u, priorized |-> TRUE, posfrozen |-> PosFrozen(stage),
                   shapefrozen |-> ShapeFrozen(stage)] : u \in kept}
    /\ phase' = "done"
    /\ UNCHANGED <<cat, stage>>

Next == Refit
Spec == Init /\ [][Next]_vars

\* ---- property-level predicates (also used by the trace specification) ----
InputUuids(c)    == {c[i].uuid : i \in DOMAIN c}
AcceptedUuids(c) == {c[i].uuid : i \in {k \in DOMAIN c : Accepted(c[k])}}

AtMostOnePerAccepted(c, outuuids) ==       \* outuuids : sequence of uuids of the returned rows
    /\ \A k \in 1..Len(outuuids) : outuuids[k] \in AcceptedUuids(c)
    /\ \A j, k \in 1..Len(outuuids) : j # k => outuuids[j] # outuuids[k]

OutOK == phase = "done" =>
            /\ {o.uuid : o \in out} \subseteq AcceptedUuids(cat)
            /\ \A o \in out : o.priorized
                              /\ (o.posfrozen <=> stage < 2) /\ (o.shapefrozen <=> stage < 3)

\* ---- cut-out registration -------------------------------------------------
\* all quantities doubled (2x); x = rounded source pixel, w = cut-out width
Lo2(x, w)  == IF FixCutout THEN 2 * (x - w \div 2) ELSE 2 * x - w        \* x - w/2
Clip0(v2)  == IF v2 < 0 THEN 0 ELSE v2
DataLo2(x, w)  == 2 * (Clip0(Lo2(x, w)) \div 2)        \* data[int(lo):...] : truncation
ParamLo2(x, w) == Clip0(Lo2(x, w))                      \* xo -= lo
Registered(x, w) == DataLo2(x, w) = ParamLo2(x, w)
CutoutOK == \A x \in 0..(ImgSize - 1), w \in 1..MaxWidth : Registered(x, w)
ContainsSource == \A x \in 0..(ImgSize - 1), w \in 1..MaxWidth : DataLo2(x, w) <= 2 * x
=============================================================================
