------------------------------- MODULE Marching -------------------------------
(***************************************************************************)
(* The marching-squares walker of AegeanTools/msq2.py (the island contour  *)
(* of IslandSource rows: `contour`, `max_angular_size`, the region/        *)
(* annotation files of islands) as a state machine.  Growth of the         *)
(* specification beyond the twenty listed properties.                      *)
(*                                                                         *)
(* A mask is a set of solid cells <<i, j>> of an H x W array.  The walker  *)
(* stands on a grid VERTEX (x, y), 0 <= x <= H, 0 <= y <= W; the four      *)
(* cells around it are (x-1,y-1) (x,y-1) (x-1,y) (x,y).  It starts at the  *)
(* first solid cell in row-major order and moves by the 16-entry table of  *)
(* the code, breaking the two saddles (6 and 9) by the previous move, and  *)
(* stops when it is back at the start or has nowhere to go.                *)
(***************************************************************************)
EXTENDS Integers, Sequences, FiniteSets, TLC

CONSTANTS H, W

Cells == (0..(H - 1)) \X (0..(W - 1))
Dirs == {"nowhere", "up", "down", "left", "right"}

VARIABLES mask, x, y, prev, next, path, pc, sx, sy
vars == <<mask, x, y, prev, next, path, pc, sx, sy>>

Solid(m, i, j) == <<i, j>> \in m          \* cells outside the array are never in m

\* row-major first solid cell
First(m) == CHOOSE c \in m : \A d \in m : c[1] < d[1] \/ (c[1] = d[1] /\ c[2] <= d[2])

Code(m, vx, vy) == (IF Solid(m, vx - 1, vy - 1) THEN 1 ELSE 0) + (IF Solid(m, vx, vy - 1) THEN 2 ELSE 0)
                   + (IF Solid(m, vx - 1, vy) THEN 4 ELSE 0) + (IF Solid(m, vx, vy) THEN 8 ELSE 0)

Direction(code, before) ==
    IF code \in {1, 5, 13} THEN "up"
    ELSE IF code \in {2, 3, 7} THEN "right"
    ELSE IF code \in {4, 12, 14} THEN "left"
    ELSE IF code \in {8, 10, 11} THEN "down"
    ELSE IF code = 6 THEN (IF before = "up" THEN "left" ELSE "right")
    ELSE IF code = 9 THEN (IF before = "right" THEN "up" ELSE "down")
    ELSE "nowhere"

Init == /\ mask \in (SUBSET Cells) \ {{}}
        /\ x = First(mask)[1] /\ y = First(mask)[2]
        /\ sx = x /\ sy = y
        /\ prev = "nowhere" /\ next = "nowhere"
        /\ path = <<>> /\ pc = "walk"

Walk == /\ pc = "walk"
        /\ LET d == Direction(Code(mask, x, y), next)
               nx == IF d = "left" THEN x - 1 ELSE IF d = "right" THEN x + 1 ELSE x
               ny == IF d = "up" THEN y - 1 ELSE IF d = "down" THEN y + 1 ELSE y
           IN /\ prev' = next
              /\ next' = d
              /\ path' = Append(path, <<x, y>>)
              /\ x' = nx /\ y' = ny
              /\ pc' = IF d = "nowhere" \/ (nx = sx /\ ny = sy) THEN "done" ELSE "walk"
        /\ UNCHANGED <<mask, sx, sy>>

\* the same walk as a function of the mask (used to validate recorded perimeters)
RECURSIVE WalkFrom(_, _, _, _, _, _, _)
WalkFrom(m, vx, vy, before, ax, ay, acc) ==
    LET d == Direction(Code(m, vx, vy), before)
        nx == IF d = "left" THEN vx - 1 ELSE IF d = "right" THEN vx + 1 ELSE vx
        ny == IF d = "up" THEN vy - 1 ELSE IF d = "down" THEN vy + 1 ELSE vy
        acc2 == Append(acc, <<vx, vy>>)
    IN IF d = "nowhere" \/ (nx = ax /\ ny = ay) \/ Len(acc2) > 4 * (H + 1) * (W + 1) THEN acc2
       ELSE WalkFrom(m, nx, ny, d, ax, ay, acc2)
Perimeter(m) == WalkFrom(m, First(m)[1], First(m)[2], "nowhere", First(m)[1], First(m)[2], <<>>)

Next == Walk
Spec == Init /\ [][Next]_vars /\ WF_vars(Walk)

\* ---- connectivity of masks ---------------------------------------------------------------------
Adj8(c, d) == c # d /\ c[1] - d[1] \in {-1, 0, 1} /\ c[2] - d[2] \in {-1, 0, 1}
Adj4(c, d) == (c[1] = d[1] /\ c[2] - d[2] \in {-1, 1}) \/ (c[2] = d[2] /\ c[1] - d[1] \in {-1, 1})
RECURSIVE Grow(_, _, _)
Grow(m, S, eight) == LET T == S \cup {d \in m : \E c \in S : IF eight THEN Adj8(c, d) ELSE Adj4(c, d)}
                     IN IF T = S THEN S ELSE Grow(m, T, eight)
Component(m, c, eight) == Grow(m, {c}, eight)
Connected8(m) == Component(m, First(m), TRUE) = m
Connected4(m) == Component(m, First(m), FALSE) = m

\* ---- properties ----------------------------------------------------------------------------------
PathSet == {path[k] : k \in 1..Len(path)}
TypeOK == /\ x \in -1..(H + 1) /\ y \in -1..(W + 1) /\ next \in Dirs /\ pc \in {"walk", "done"}
\* every vertex is left at most twice (a saddle), so the walk is short
Bounded == Len(path) <= 2 * (H + 1) * (W + 1)
Terminates == <>(pc = "done")
Done == pc = "done"
NeverLost == Done => next # "nowhere"
Closed == Done => /\ \A k \in 1..(Len(path) - 1) :
                        (path[k][1] - path[k + 1][1]) * (path[k][1] - path[k + 1][1])
                        + (path[k][2] - path[k + 1][2]) * (path[k][2] - path[k + 1][2]) = 1
                  /\ path[1] = <<sx, sy>>
                  /\ (x = sx /\ y = sy)
OnBoundary == Done => \A p \in PathSet : Code(mask, p[1], p[2]) \notin {0, 15}
\* the contour of a connected island spans exactly the island's bounding box (what `extent` and
\* `max_angular_size` of an island row rely on)
Rows(S) == {c[1] : c \in S}
Cols(S) == {c[2] : c \in S}
Min(S) == CHOOSE a \in S : \A b \in S : a <= b
Max(S) == CHOOSE a \in S : \A b \in S : a >= b
SpansBoxOf(S) == /\ Min(Rows(PathSet)) = Min(Rows(S)) /\ Max(Rows(PathSet)) = Max(Rows(S)) + 1
                 /\ Min(Cols(PathSet)) = Min(Cols(S)) /\ Max(Cols(PathSet)) = Max(Cols(S)) + 1
SpansBox4 == Done /\ Connected4(mask) => SpansBoxOf(mask)
SpansBox8 == Done /\ Connected8(mask) => SpansBoxOf(mask)
MachineIsFunction == Done => path = Perimeter(mask)
\* in general the contour is that of the 4-connected piece that holds the first pixel ... or more
SpansFirstPiece == Done => SpansBoxOf(Component(mask, First(mask), FALSE))
\* DEVIATION kept as the code has it: islands are 8-connected (property C02), the walker is not - parts of an
\* island that hang on by a pixel corner are left out of its contour (SpansBox8 is violated, e.g. by the mask
\* {<<0,0>>, <<1,1>>}), so `contour` and `max_angular_size` describe only the piece holding the first pixel.
=============================================================================
