---------------------------- MODULE Expand_Trace ----------------------------
(* Code -> spec for C15.  One record per compress-then-expand execution of *)
(* the real fits_tools (or the SR6 CLI) on an R x C image with factor f:   *)
(*   inp      : the image (integers), inp[r+1][c+1]                        *)
(*   out1000  : 1000 * the expanded image, rounded to integers             *)
(*   shape    : shape of the expanded image                                *)
(*   wcsdev   : |restored - original| / |original| of CRPIX1/2 and the     *)
(*              pixel-scale keywords, in units of 1e-12                    *)
(*   bnleft   : some BN_* keyword survived the expansion                   *)
(*   err      : "" or the exception text                                   *)
(*   affine   : the image is affine in (r, c)                              *)
EXTENDS TraceBatch, Tiles

SeqMin(S) == CHOOSE x \in S : \A y \in S : x <= y
SeqMax(S) == CHOOSE x \in S : \A y \in S : x >= y

Samples(r) == {r.inp[CompSrc(k, r.R, r.f) + 1][CompSrc(l, r.C, r.f) + 1] :
                  k \in 0..(CompLen(r.R, r.f) - 1), l \in 0..(CompLen(r.C, r.f) - 1)}

FailsRT(r) ==
    IF r.err # "" THEN <<"completed">> ELSE
    IF r.shape # <<r.R, r.C>> THEN <<"shape_restored">> ELSE
    Clause("wcs_restored", \A k \in 1..Len(r.wcsdev) : r.wcsdev[k] <= 1)
    \o Clause("bn_keywords_removed", ~r.bnleft)
    \o Clause("nodes_exact",
          \A rr \in NodeSet(r.R, r.f), cc \in NodeSet(r.C, r.f) :
              r.out1000[rr + 1][cc + 1] = 1000 * r.inp[rr + 1][cc + 1])
    \o Clause("within_sample_range",
          LET lo == 1000 * SeqMin(Samples(r))
              hi == 1000 * SeqMax(Samples(r))
          IN \A rr \in 1..r.R, cc \in 1..r.C :
                r.out1000[rr][cc] >= lo /\ r.out1000[rr][cc] <= hi)
    \o Clause("affine_exact_on_complete_cells",
          r.affine =>
            \A rr \in 0..(r.R - 1), cc \in 0..(r.C - 1) :
               (InComplete(rr, r.R, r.f) /\ InComplete(cc, r.C, r.f)) =>
                   r.out1000[rr + 1][cc + 1] = 1000 * r.inp[rr + 1][cc + 1])

\* expanding a file that is not compressed is the identity
FailsIdent(r) ==
    IF r.err # "" THEN <<"completed">> ELSE
    Clause("identity_on_uncompressed", r.same)

\* a compressed aux file is accepted and yields the image's shape
FailsAux(r) ==
    IF r.err # "" THEN <<"compressed_aux_accepted">> ELSE
    Clause("aux_shape_is_image_shape", r.shape = r.imshape)

\* the compressed background / noise files that BANE itself writes expand to the image's
\* shape and WCS
FailsBane(r) ==
    IF r.err # "" THEN <<"completed">> ELSE
    Clause("shape_restored", r.shape = <<r.R, r.C>>)
    \o Clause("wcs_restored", \A k \in 1..Len(r.wcsdev) : r.wcsdev[k] <= 1)
    \o Clause("bn_keywords_removed", ~r.bnleft)

Fails(r) == IF r.kind = "roundtrip" THEN FailsRT(r)
            ELSE IF r.kind = "baneout" THEN FailsBane(r)
            ELSE IF r.kind = "identity" THEN FailsIdent(r)
            ELSE IF r.kind = "aux" THEN FailsAux(r)
            ELSE <<"unknown_record_kind">>

Next == BatchNext(Fails)
Spec == BatchInit /\ [][Next]_pos
=============================================================================
