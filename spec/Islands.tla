------------------------------ MODULE Islands -------------------------------
(***************************************************************************)
(* Island detection of the source finder (source_finder.find_islands),     *)
(* C02, and the region filter on islands, C11.                             *)
(*                                                                         *)
(* A grid is a function from cells <<row, col>> (1-based here) to a pixel  *)
(* class, the result of comparing |image - bkg| / rms with the two         *)
(* thresholds:                                                             *)
(*   0 blank (non finite)      1 below flood       2 exactly at flood      *)
(*   3 between flood and seed  4 exactly at seed   5 above seed            *)
(* Flooded: |snr| >= flood (classes 2..5).  Seeded: |snr| > seed (5).      *)
(* For the seed-monotonicity clause a lower seed level is expressed by the *)
(* parameter k = the smallest class that counts as a seed.                 *)
(***************************************************************************)
EXTENDS Integers, FiniteSets, Sequences

Cells(H, W) == (1..H) \X (1..W)

Flooded(c) == c >= 2
SeededAt(c, k) == c >= k          \* k = 5 : strictly above the seed threshold

Abs(x) == IF x < 0 THEN -x ELSE x
Nbr8(a, b) == a # b /\ Abs(a[1] - b[1]) <= 1 /\ Abs(a[2] - b[2]) <= 1

FloodSet(g) == {x \in DOMAIN g : Flooded(g[x])}

\* 8-connected component of F containing the seed set S (fixpoint)
RECURSIVE Grow(_, _)
Grow(F, S) == LET N == {x \in F \ S : \E y \in S : Nbr8(x, y)}
              IN IF N = {} THEN S ELSE Grow(F, S \cup N)

RECURSIVE Comps(_)
Comps(F) == IF F = {} THEN {}
            ELSE LET x == CHOOSE y \in F : TRUE
                     C == Grow(F, {x})
                 IN {C} \cup Comps(F \ C)

\* the islands: flooded 8-connected groups containing one of their OWN seeded pixels
IslandsAt(g, k) == {C \in Comps(FloodSet(g)) : \E x \in C : SeededAt(g[x], k)}
IslandsOf(g)    == IslandsAt(g, 5)

\* tight bounding box of a pixel set: rows rlo..rhi-1, cols clo..chi-1 (half open, like the code)
SetMin(S) == CHOOSE x \in S : \A y \in S : x <= y
SetMax(S) == CHOOSE x \in S : \A y \in S : x >= y
BBox(C) == <<SetMin({x[1] : x \in C}), SetMax({x[1] : x \in C}) + 1,
             SetMin({x[2] : x \in C}), SetMax({x[2] : x \in C}) + 1>>

\* ---- theorems (checked by TLC on every grid of the bounded domain) -----
Disjoint(I)  == \A A \in I, B \in I : A # B => A \cap B = {}
NoBlank(g, I) == \A A \in I : \A x \in A : g[x] # 0
Maximal(g, I) == \A A \in I : \A x \in A : \A y \in FloodSet(g) : Nbr8(x, y) => y \in A
SeedMonotone(g) == \A k1 \in 2..5, k2 \in 2..5 : k1 <= k2 => IslandsAt(g, k2) \subseteq IslandsAt(g, k1)

\* ---- C11: region filter ---------------------------------------------------
\* In : set of cells whose centre lies inside the region
Keep(C, In)          == C \cap In # {}
Restricted(g, k, In) == {C \in IslandsAt(g, k) : Keep(C, In)}
=============================================================================
