---------------------------- MODULE BaneRun_Trace ---------------------------
(* Property-level observables of real BANE runs (C07), one record each:    *)
(*  kind "run"   : expect in {"returned","raised"} (the outcome the Bane    *)
(*                 model assigns to the run's configuration / schedule /    *)
(*                 fault), outcome in {"returned","raised","hung"},         *)
(*                 unwritten (output pixels never written), shmleft (shared *)
(*                 memory segments left behind), shapeok                    *)
(*  kind "digests": digests of the (bkg,rms) bytes of all runs with the     *)
(*                 same image and stripe layout (any cores, any schedule)   *)
(*  kind "sens"  : max |bkg_a - bkg_b| / rms and max |rms_a - rms_b| / rms  *)
(*                 in units of 1e-3 between two stripe counts               *)
EXTENDS TraceBatch

SensLimitMilli == 500      \* "a small fraction of the local noise" = half a sigma

FailsRun(r) ==
    Clause("terminates_never_blocks", r.outcome # "hung")
    \o Clause("no_shared_memory_left", r.shmleft = 0)
    \o (IF r.outcome = "hung" THEN <<>> ELSE
        IF r.expect = "returned"
        THEN Clause("no_spurious_failure", r.outcome = "returned")
             \o (IF r.outcome = "returned"
                 THEN Clause("maps_have_image_shape", r.shapeok)
                      \o Clause("every_output_pixel_written", r.unwritten = 0)
                 ELSE <<>>)
        ELSE Clause("failure_raises_promptly", r.outcome = "raised"))

FailsDigests(r) ==
    Clause("bit_identical_for_every_worker_count_and_interleaving",
           \A i \in 1..Len(r.digests) : r.digests[i] = r.digests[1])

FailsSens(r) ==
    Clause("stripe_count_changes_background_little", r.dbkg_milli <= SensLimitMilli)
    \o Clause("stripe_count_changes_noise_little", r.drms_milli <= SensLimitMilli)

Fails(r) == IF r.kind = "run" THEN FailsRun(r)
            ELSE IF r.kind = "digests" THEN FailsDigests(r)
            ELSE IF r.kind = "sens" THEN FailsSens(r)
            ELSE <<"unknown_record_kind">>

Next == BatchNext(Fails)
Spec == BatchInit /\ [][Next]_pos
=============================================================================
