------------------------------ MODULE MC_Region -----------------------------
(* TLC instance of the abstract Region machine over the finite alphabet.   *)
(* Mode "explore": exhaustive reachability of S with the algebraic          *)
(* invariants.  Mode "histories": a history variable records every call     *)
(* with the abstract post-state; each complete history of length K is       *)
(* printed as JSON exactly once for replay on the real Region class.        *)
EXTENDS Region, RegionAlphabet, Json

CONSTANTS K, Emit

VARIABLES hist,
          disk,     \* content of the one .mim file used by save_file / load_file ({-1} = no file yet)
          live      \* a second LIVE region L of the same depth (covered set); regions are independent values
vars == <<S, answer, hist, disk, live>>

NoFile == {-1}

SetOps == {"without", "intersect", "symmetric_difference"}

Rec(r) == hist' = IF Emit THEN Append(hist, r @@ [post |-> S', ans |-> answer', postlive |-> live']) ELSE hist

OperandJson(o) == [name |-> o.name, depth |-> o.depth,
                   rep |-> [d \in DOMAIN o.rep |-> o.rep[d]]]

MCInit == Init /\ hist = <<>> /\ disk = NoFile /\ live = {}

\* ---- files and a second live region (only explored in history mode) -----------
LiveArgs == IF D = 3 THEN {<<3, {5, 6}>>, <<2, {1}>>, <<3, {0}>>} ELSE IF D = 2 THEN {<<2, {1}>>, <<1, {0}>>} ELSE {<<1, {0}>>}

DiskLiveNext ==
    /\ Emit
    /\ \/ /\ disk' = S /\ S' = S /\ answer' = NoAnswer /\ UNCHANGED live
          /\ Rec([op |-> "save_file"])
       \/ /\ disk # NoFile /\ S' = disk /\ answer' = NoAnswer /\ UNCHANGED <<disk, live>>
          /\ Rec([op |-> "load_file"])
       \/ \E a \in LiveArgs :
             /\ live' = live \cup DescSet(a[2], a[1], D) /\ S' = S /\ answer' = NoAnswer /\ UNCHANGED disk
             /\ Rec([op |-> "live_add", level |-> a[1], pix |-> a[2]])
       \/ /\ S' = S \cup live /\ answer' = NoAnswer /\ UNCHANGED <<disk, live>>
          /\ Rec([op |-> "union_live"])
       \/ /\ S' = S \ live /\ answer' = NoAnswer /\ UNCHANGED <<disk, live>>
          /\ Rec([op |-> "without_live"])
       \/ /\ live' = live \cup S /\ S' = S /\ answer' = NoAnswer /\ UNCHANGED disk
          /\ Rec([op |-> "live_union_self"])

RegionNext ==
    \/ \E a \in AddArgs :
          \/ AddPixels(a[2], a[1]) /\ Rec([op |-> "add_pixels", level |-> a[1], pix |-> a[2]])
          \/ AddPixels(a[2], a[1]) /\ Rec([op |-> "add_shape", level |-> a[1], pix |-> a[2]])
    \/ \E o \in Operands :
          \/ Union(o) /\ Rec([op |-> "union", other |-> OperandJson(o)])
          \/ Union(o) /\ Rec([op |-> "union_norenorm", other |-> OperandJson(o)])
          \/ Without(o) /\ Rec([op |-> "without", other |-> OperandJson(o)])
          \/ Intersect(o) /\ Rec([op |-> "intersect", other |-> OperandJson(o)])
          \/ SymDifference(o) /\ Rec([op |-> "symmetric_difference", other |-> OperandJson(o)])
          \/ \E n \in SetOps : RaiseDepth(o) /\ Rec([op |-> n, other |-> OperandJson(o)])
    \/ GetDemoted /\ Rec([op |-> "get_demoted"])
    \/ GetArea /\ Rec([op |-> "get_area"])
    \/ SaveLoad /\ Rec([op |-> "save_load"])
    \/ ExportMoc /\ Rec([op |-> "export_moc"])
    \/ ExportReg /\ Rec([op |-> "export_reg"])
    \/ \E q \in Probes : SkyWithin(q) /\ Rec([op |-> "sky_within", pix |-> q])

MCNext ==
    \/ DiskLiveNext
    \/ UNCHANGED <<disk, live>> /\ RegionNext

MCSpec == MCInit /\ [][MCNext]_vars

\* print complete histories, do not extend them further
EmitDone == IF Emit /\ Len(hist) = K THEN PrintT(ToJson(hist)) /\ FALSE ELSE TRUE

\* ---- invariants of the abstract machine ---------------------------------
TypeOK == S \subseteq Universe
AnswerOK ==
    /\ answer.kind = "set"  => answer.val = S
    /\ answer.kind = "int"  => answer.val = Cardinality(S)
    /\ answer.kind = "export" => answer.val = S
\* the canonical (maximally merged) representation is valid: a valid
\* representation exists for every reachable S
RECURSIVE Canon(_, _)
Canon(s, d) ==      \* pixels of level d all of whose descendants are in s but whose parent is not fully in s
    {p \in PixOf(NB, d) : Desc(p, d, D) \subseteq s
                          /\ (d = 1 \/ ~(Desc(p \div 4, d - 1, D) \subseteq s))}
CanonRep(s) == [d \in 1..D |-> Canon(s, d)]
RepExists == ValidRep(CanonRep(S), S) /\ RepArea(CanonRep(S)) = Cardinality(S)
               /\ MocOK(D, {Uniq(d, p) : d \in 1..D, p \in PixOf(NB, D)} \cap
                           UNION {{Uniq(d, p) : p \in Canon(S, d)} : d \in 1..D}, S)
QueriesPure == [][(answer'.kind # "none") => S' = S]_vars
=============================================================================
