---------------------------- MODULE Marching_Trace ----------------------------
(* Replay direction for Marching: one record per real MarchingSquares run    *)
(* (or per island row of a real finder run): the solid cells of the array    *)
(* and the perimeter the code returned (offsets removed).  Accepted iff the  *)
(* perimeter is the walk the specification defines for that mask.            *)
EXTENDS TraceBatch
CONSTANTS H, W
VARIABLES mask, x, y, prev, next, path, pc, sx, sy
M == INSTANCE Marching

AsPairs(q) == [k \in 1..Len(q) |-> <<q[k][1], q[k][2]>>]
Fails(r) ==
    IF r.err # "" THEN <<"walk_returned">> ELSE
    LET m == {<<r.cells[k][1], r.cells[k][2]>> : k \in 1..Len(r.cells)} IN
    IF m = {} \/ ~(m \subseteq M!Cells) THEN <<"mask_in_domain">> ELSE
    Clause("perimeter_is_the_specified_walk", AsPairs(r.perimeter) = M!Perimeter(m))

Next == BatchNext(Fails) /\ UNCHANGED <<mask, x, y, prev, next, path, pc, sx, sy>>
Spec == BatchInit /\ mask = {} /\ x = 0 /\ y = 0 /\ prev = "nowhere" /\ next = "nowhere" /\ path = <<>> /\ pc = "trace"
        /\ sx = 0 /\ sy = 0 /\ [][Next]_<<pos, mask, x, y, prev, next, path, pc, sx, sy>>
=============================================================================
