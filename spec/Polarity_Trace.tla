--------------------------- MODULE Polarity_Trace ---------------------------
(* Code -> spec for C13.  One record per synthetic image: a group of real   *)
(* SourceFinder().find_sources_in_image runs on the image (and on the       *)
(* negated image with the negated background), one run per element of the   *)
(* option lattice that MC_Polarity emitted.                                 *)
(*   id, maps ("forced" | "file"), err ("" or the exception text)           *)
(*   runs : sequence of                                                     *)
(*      name, nopositive, nonegative, negated : the lattice element         *)
(*      rows : the catalogue, in catalogue order, as [sign, tok]            *)
(*             sign = sign of peak_flux ("pos" | "neg" | "zero" | "nan")    *)
(*             tok  = "island:source:" + float identity of every column     *)
(*      fx   : the same rows projected to scaled integers (units in         *)
(*             Polarity.tla); only for the two both-polarities runs         *)
(* The run with nopositive = nonegative = FALSE on the same input is the    *)
(* reference catalogue of that input.                                       *)
EXTENDS TraceBatch, Polarity

RunsOf(r, negated) == SelectSeq(r.runs, LAMBDA u : u.negated = negated)
IsBoth(u) == ~u.nopositive /\ ~u.nonegative
HasRef(r, negated) == \E i \in 1..Len(r.runs) :
                         r.runs[i].negated = negated /\ IsBoth(r.runs[i])
Ref(r, negated) == r.runs[CHOOSE i \in 1..Len(r.runs) :
                            r.runs[i].negated = negated /\ IsBoth(r.runs[i])]
HasRun(r, np, nn, negated) == \E i \in 1..Len(r.runs) :
    r.runs[i].negated = negated /\ r.runs[i].nopositive = np /\ r.runs[i].nonegative = nn
TheRun(r, np, nn, negated) == r.runs[CHOOSE i \in 1..Len(r.runs) :
    r.runs[i].negated = negated /\ r.runs[i].nopositive = np /\ r.runs[i].nonegative = nn]

\* ---- one run against the reference of its input (Polarity!Filter) -------
RunFails(r, u) ==
    LET both == Ref(r, u.negated).rows
        want == Filter(both, u.nopositive, u.nonegative)
    IN
    Clause(u.name \o ":only_requested_signs",
           \A c \in Rows(u.rows) : ~Excluded(c, u.nopositive, u.nonegative))
    \o Clause(u.name \o ":rows_are_rows_of_the_both_catalogue",
              Rows(u.rows) \subseteq Rows(both))
    \o Clause(u.name \o ":no_requested_row_missing", Rows(want) \subseteq Rows(u.rows))
    \o Clause(u.name \o ":same_number_of_rows", Len(u.rows) = Len(want))

RECURSIVE AllRunFails(_, _)
AllRunFails(r, k) ==
    IF k = 0 THEN <<>>
    ELSE AllRunFails(r, k - 1)
         \o (IF IsBoth(r.runs[k]) THEN <<>> ELSE RunFails(r, r.runs[k]))

\* ---- the partition statement of the property on one input ---------------
PartitionFails(r, negated) ==
    IF ~(HasRun(r, FALSE, TRUE, negated) /\ HasRun(r, TRUE, FALSE, negated)) THEN <<>> ELSE
    LET tag  == IF negated THEN "negated_input:" ELSE ""
        both == Ref(r, negated).rows
        ps   == TheRun(r, FALSE, TRUE, negated).rows
        ng   == TheRun(r, TRUE, FALSE, negated).rows
    IN
    Clause(tag \o "pos_and_neg_disjoint", Rows(ps) \cap Rows(ng) = {})
    \o Clause(tag \o "pos_and_neg_together_equal_both",
              /\ Rows(ps) \cup Rows(ng) = Rows(both)
              /\ Len(ps) + Len(ng) = Len(both))
    \o Clause(tag \o "pos_only_positive", \A c \in Rows(ps) : c.sign = "pos")
    \o Clause(tag \o "neg_only_negative", \A c \in Rows(ng) : c.sign = "neg")

\* ---- symmetry (Polarity!NegateRun, reported clause by clause) -----------
\* "info:" clauses are the strict (1 ppm) level: reported, never a verdict.
SymmetryFails(r) ==
    LET A == Ref(r, FALSE).fx
        B == Ref(r, TRUE).fx
    IN
    IF Len(A) # Len(B) THEN <<"negated:same_number_of_rows">> ELSE
    Clause("negated:same_island_and_source_numbers", AllPairs(A, B, SameIds))
    \o Clause("negated:same_flags", AllPairs(A, B, SameFlags))
    \o Clause("negated:peak_flux_negated", AllPairsBl(A, B, PeakNegated))
    \o Clause("negated:int_flux_negated", AllPairsBl(A, B, IntNegated))
    \o Clause("negated:same_position", AllPairsBl(A, B, SamePosition))
    \o Clause("negated:same_shape", AllPairsBl(A, B, SameShape))
    \o Clause("negated:same_errors", AllPairsBl(A, B, SameErrors))
    \o Clause("negated:NegateRun", NegateRun(A, B))
    \o Clause("info:strict_1ppm_NegateRun", NegateRunStrict(A, B))

Fails(r) ==
    IF r.err # "" THEN <<"runs_completed">> ELSE
    IF ~(HasRef(r, FALSE) /\ HasRef(r, TRUE)) THEN <<"MACHINERY:reference_runs_present">> ELSE
    IF \E i \in 1..Len(r.runs) : IsBoth(r.runs[i]) /\ Len(r.runs[i].fx) # Len(r.runs[i].rows)
        THEN <<"MACHINERY:projection_length">> ELSE
    Clause("peak_sign_defined",
           \A i \in 1..Len(r.runs) : WellSigned(r.runs[i].rows))
    \o AllRunFails(r, Len(r.runs))
    \o PartitionFails(r, FALSE)
    \o PartitionFails(r, TRUE)
    \o SymmetryFails(r)

Next == BatchNext(Fails)
Spec == BatchInit /\ [][Next]_pos
=============================================================================
