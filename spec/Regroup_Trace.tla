---------------------------- MODULE Regroup_Trace ---------------------------
(* Code -> spec for C19.  Records logged from the real AegeanTools.cluster  *)
(* (regroup_dbscan, regroup, resize), from the AeReg command line and from  *)
(* the priorized-fit entry of source_finder are judged against Regroup.     *)
(*                                                                          *)
(* kind "dbscan" : one catalogue of n rows, regrouped in several row orders *)
(*   lat     TRUE: rows are lattice points xy[i] = <<x, y>>, E = 2 eps^2    *)
(*           (lattice units, odd); Close is decided here from xy and E, and *)
(*           adj (below) is only used to confirm that the realisation on    *)
(*           the sky is faithful.  FALSE: Close is decided here from adj.   *)
(*   adj     adj[i] = <<j, q>> for every j # i whose true angular           *)
(*           separation from i is <= 2 eps; q = separation / eps in 1e-9    *)
(*   farmin  smallest separation / eps (1e-9, clamped) of all other pairs   *)
(*   flux    integer peak fluxes of the rows                                *)
(*   runs    one per execution: perm (row r of the run is row perm[r] of    *)
(*           the catalogue), groups (returned list of lists, as run rows;   *)
(*           0 = an object that is not an input row), isl, src (labels by   *)
(*           run row), changed (names of other attributes that differ from  *)
(*           the snapshot taken before the call), err                       *)
(* kind "ellip"  : the elliptical variant; lt[i] = rows j with              *)
(*           norm_dist(i,j) < eps or norm_dist(j,i) < eps as computed by    *)
(*           the real norm_dist, ndmargin = min |norm_dist/eps - 1| (1e-9), *)
(*           decq = declinations (integers), runs as above                  *)
(* kind "resize" : ratioq = ratio * 1e6; kept = input rows returned, in     *)
(*           order; da, db = (new - old)/old of a, b in 1e-9 per input row  *)
(*           (clamped), finite = every new a, b is finite; changed as above *)
EXTENDS TraceBatch, Regroup

Q == 1000000000          \* separation = linking length
M == 1000                \* assumption: no pair within 1e-6 (relative) of it

Abs(x) == IF x < 0 THEN -x ELSE x
ToSet(s) == {s[k] : k \in 1..Len(s)}
RECURSIVE SumLenRange(_, _, _)
SumLenRange(gs, lo, hi) == IF lo > hi THEN 0
                           ELSE IF lo = hi THEN Len(gs[lo])
                           ELSE LET mid == (lo + hi) \div 2
                                IN SumLenRange(gs, lo, mid) + SumLenRange(gs, mid + 1, hi)
SumLen(gs, k) == SumLenRange(gs, 1, k)

NbAdj(r) == [i \in 1..r.n |-> {a[1] : a \in {a \in ToSet(r.adj[i]) : a[2] < Q}}]
\* for lattice records InputFails first establishes NbLat(r.xy, r.E) = NbAdj(r)
NbOf(r)  == NbAdj(r)

\* ---- the inputs are what the harness claims (not verdicts on the code) ----
InputFails(r) ==
    Clause("input_adjacency_symmetric", Symmetric(r.n, NbAdj(r)))
    \o Clause("input_margin",
          /\ r.farmin >= Q + M
          /\ \A i \in 1..r.n : \A a \in ToSet(r.adj[i]) : Abs(a[2] - Q) >= M)
    \o Clause("input_lattice_realised_faithfully",
          r.lat => /\ EpsBetween(r.xy, r.E)
                   /\ \A i \in 1..r.n : NbLat(r.xy, r.E)[i] = NbAdj(r)[i])
    \o Clause("input_perms", \A k \in 1..Len(r.runs) : IsPerm(r.runs[k].perm, r.n))

\* ---- one execution ----------------------------------------------------------
RunPartition(run) == {ToSet(run.groups[g]) : g \in 1..Len(run.groups)}
OrigPartition(run) == Unpermute(RunPartition(run), run.perm)

ExactlyOnce(run, n) == /\ SumLen(run.groups, Len(run.groups)) = n
                       /\ IsPartition(RunPartition(run), n)

LabelFails(run, n, flux) ==
    LET P  == RunPartition(run)
        fl == [k \in 1..n |-> flux[run.perm[k]]]
    IN Clause("island_per_group", IslandPerGroup(P, run.isl))
       \o Clause("numbered_from_zero", NumberedFromZero(P, run.src))
       \o Clause("flux_ordered", FluxOrdered(P, fl, run.src))
       \o Clause("labels_unique", LabelsUnique(n, run.isl, run.src))
       \o Clause("other_attributes_unchanged", run.changed = <<>>)

RunFailsDbscan(run, n, G, flux) ==
    IF run.err # "" THEN <<"completed">> ELSE
    IF ~ExactlyOnce(run, n) THEN <<"every_source_in_exactly_one_group">> ELSE
    Clause("groups_are_eps_components", OrigPartition(run) = G)
    \o LabelFails(run, n, flux)

RunFailsEllip(run, n, nb, flux) ==
    IF run.err # "" THEN <<"completed">> ELSE
    IF ~ExactlyOnce(run, n) THEN <<"every_source_in_exactly_one_group">> ELSE
    Clause("groups_chain_connected", BlocksChainConnected(OrigPartition(run), n, nb))
    \o LabelFails(run, n, flux)

RECURSIVE Collect(_, _, _)
Collect(F(_), runs, k) == IF k = 0 THEN <<>> ELSE Collect(F, runs, k - 1) \o F(runs[k])

Dedup(s) == LET S == ToSet(s)
            IN IF S = {} THEN <<>>
               ELSE LET f[T \in SUBSET S] == IF T = {} THEN <<>>
                                             ELSE LET x == CHOOSE y \in T : TRUE
                                                  IN <<x>> \o f[T \ {x}]
                    IN f[S]

Completed(r) == \A k \in 1..Len(r.runs) :
                   r.runs[k].err = "" /\ ExactlyOnce(r.runs[k], r.n)
PermInvariant(r) == Completed(r) =>
    \A k \in 1..Len(r.runs) : OrigPartition(r.runs[k]) = OrigPartition(r.runs[1])

FailsDbscan(r) ==
    LET inp == InputFails(r) IN
    IF inp # <<>> THEN inp ELSE
    LET G == Groups(r.n, NbOf(r))
        F(run) == RunFailsDbscan(run, r.n, G, r.flux)
    IN Dedup(Collect(F, r.runs, Len(r.runs)))
       \o Clause("permutation_invariant", PermInvariant(r))

NbLt(r) == [i \in 1..r.n |-> ToSet(r.lt[i])]
DistinctDec(r) == \A i \in 1..r.n : \A j \in 1..r.n : i # j => r.decq[i] # r.decq[j]

FailsEllip(r) ==
    LET inp == Clause("input_adjacency_symmetric", Symmetric(r.n, NbLt(r)))
               \o Clause("input_margin", r.ndmargin >= M)
               \o Clause("input_perms", \A k \in 1..Len(r.runs) : IsPerm(r.runs[k].perm, r.n))
    IN
    IF inp # <<>> THEN inp ELSE
    LET nb == NbLt(r)
        F(run) == RunFailsEllip(run, r.n, nb, r.flux)
    IN Dedup(Collect(F, r.runs, Len(r.runs)))
       \o Clause("permutation_invariant", DistinctDec(r) => PermInvariant(r))

FailsResize(r) ==
    IF r.err # "" THEN <<"completed">> ELSE
    LET all == r.kept = [k \in 1..r.n |-> k]
        fin == r.finite
    IN
    Clause("ratio1_is_identity",
           r.ratioq = 1000000 =>
               /\ all /\ fin
               /\ \A k \in 1..r.n : Abs(r.da[k]) <= 1 /\ Abs(r.db[k]) <= 1)
    \o Clause("larger_ratio_never_shrinks",
           r.ratioq >= 1000000 =>
               /\ all /\ fin
               /\ \A k \in 1..r.n : r.da[k] >= 0 /\ r.db[k] >= 0)
    \o Clause("other_attributes_unchanged", r.changed = <<>>)

Fails(r) == IF r.kind = "dbscan" THEN FailsDbscan(r)
            ELSE IF r.kind = "ellip" THEN FailsEllip(r)
            ELSE IF r.kind = "resize" THEN FailsResize(r)
            ELSE <<"unknown_record_kind">>

Next == BatchNext(Fails)
Spec == BatchInit /\ [][Next]_pos
=============================================================================
