------------------------------ MODULE MC_Bane -------------------------------
(* TLC instance of Bane: all configurations up to MaxNS stripes, MaxCores   *)
(* workers, mask on/off, no fault or one fault in each stripe at each       *)
(* applicable phase.                                                        *)
EXTENDS Bane

CONSTANTS MaxNS, MaxCores, WithFaults

Points(m) == IF m THEN FaultPoints ELSE FaultPoints \ {"b2_after", "mask_done"}

AllConfs ==
    {[ns |-> n, cores |-> c, domask |-> m, fs |-> 0, fp |-> "none"] :
        n \in 1..MaxNS, c \in 1..MaxCores, m \in BOOLEAN}
    \cup
    (IF WithFaults
     THEN UNION {{[ns |-> n, cores |-> c, domask |-> m, fs |-> f, fp |-> p] :
                    f \in 1..n, p \in Points(m)} :
                 n \in 1..MaxNS, c \in 1..MaxCores, m \in BOOLEAN}
     ELSE {})
=============================================================================
