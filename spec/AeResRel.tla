------------------------------ MODULE AeResRel ------------------------------
(***************************************************************************)
(* C14 - AeRes: the model image of a catalogue is the sum of its sources'  *)
(* elliptical Gaussians; subtraction closes the loop.                      *)
(*                                                                         *)
(* Part A is the abstract catalogue-level algebra (integers, a pixel set   *)
(* P, every source has a contribution image): Model is a homomorphism from *)
(* bags of sources (catalogues, concatenation) to images (pointwise +),    *)
(* off-image sources contribute the zero image, Subtract o Add = id, and   *)
(* the blank set of mask mode is the union of the sources' threshold sets. *)
(* MC_AeResConfig model-checks it on a small instance.                     *)
(*                                                                         *)
(* Part B states the same relations as predicates over what is logged from *)
(* the real AeRes.make_model / make_residual / CLI (AeRes_Trace).  Image   *)
(* values are integers in units of 1e-9 of a reference peak ("e9"; the     *)
(* largest |peak_flux| of the catalogue, or the source's own |peak_flux|   *)
(* in the per-source grids of mask mode), deviations are the maximum over  *)
(* the pixels named by the clause, positions are 0-based array coordinates *)
(* of the source centre in milli-pixels (pixel k covers [k-0.5, k+0.5)).   *)
(* The tolerances are the property's own numbers.                          *)
(***************************************************************************)
EXTENDS Fixed, Sequences, FiniteSets

----------------------------------------------------------------------------
(* ------------------------ Part A : the algebra ------------------------- *)
ImgZero(P)     == [p \in P |-> 0]
ImgPlus(f, g)  == [p \in DOMAIN f |-> f[p] + g[p]]
ImgMinus(f, g) == [p \in DOMAIN f |-> f[p] - g[p]]
ImgScale(k, f) == [p \in DOMAIN f |-> k * f[p]]

\* contrib : source -> image (the zero image for a source centred off P)
RECURSIVE ModelOf(_, _, _)
ModelOf(cat, contrib, P) ==
    IF cat = <<>> THEN ImgZero(P)
    ELSE ImgPlus(contrib[Head(cat)], ModelOf(Tail(cat), contrib, P))

AddTo(img, cat, contrib, P)        == ImgPlus(img, ModelOf(cat, contrib, P))
SubtractFrom(img, cat, contrib, P) == ImgMinus(img, ModelOf(cat, contrib, P))

AbsV(x) == IF x < 0 THEN 0 - x ELSE x

\* the pixels a source blanks: where its model reaches its threshold.  For a
\* positive source (model >= 0, thr > 0) the two readings coincide.
InSet(v, thr, reading) == IF reading = "signed" THEN v >= thr
                          ELSE AbsV(v) >= AbsV(thr)
BlankOf(f, thr, reading) == {p \in DOMAIN f : InSet(f[p], thr, reading)}

RECURSIVE BlankSet(_, _, _, _)
BlankSet(cat, contrib, thr, reading) ==
    IF cat = <<>> THEN {}
    ELSE BlankOf(contrib[Head(cat)], thr[Head(cat)], reading)
         \cup BlankSet(Tail(cat), contrib, thr, reading)

----------------------------------------------------------------------------
(* ------------------ Part B : relations on logged records --------------- *)
AddTol    == 1000        \* 1e-6 of the peak   (additivity, add-then-subtract)
RenderTol == 100000      \* 1e-4 of the peak   (independent rendering, to 5 sigma)
LoopTol   == 1000000     \* 1e-3 of the peak   (find -> subtract residual)
E8Tol     == 100         \* 1e-6 of the peak in units of 1e-8 (sample triples)

IsDev(x) == x \in Nat /\ x <= IntMax

(* where a source is centred, from its 0-based (row, col) in milli-pixels   *)
(* on an H x W image.  The half-pixel band between the outermost pixel      *)
(* centres and the outer pixel edges is "Border": the property does not say *)
(* whether the image ends at the last pixel centre or at the pixel edge, so *)
(* a source centred there may be rendered or ignored.                       *)
InsideAxis(x, n) == 0 <= x /\ x <= (n - 1) * 1000
OffAxis(x, n)    == x < -500 \/ x > (n - 1) * 1000 + 500
Inside(s, H, W)   == InsideAxis(s.row_m, H) /\ InsideAxis(s.col_m, W)
OffImage(s, H, W) == OffAxis(s.row_m, H) \/ OffAxis(s.col_m, W)
Border(s, H, W)   == ~Inside(s, H, W) /\ ~OffImage(s, H, W)

(* -- one source, make_model against the independent renderer ------------ *)
(* dev_with_e9 : max |Model - Render| over the image pixels within 5 sigma  *)
(* dev_zero_e9 : max |Model| over the whole image;  n_in5 : pixels compared *)
RenderedOK(r) == IsDev(r.dev_with_e9) /\ r.dev_with_e9 <= RenderTol
IgnoredOK(r)  == r.dev_zero_e9 = 0
SingleRender(r) ==
    IF Inside(r.src, r.H, r.W) THEN RenderedOK(r) /\ r.n_in5 > 0
    ELSE IF Border(r.src, r.H, r.W) THEN RenderedOK(r) \/ IgnoredOK(r)
    ELSE TRUE
SingleOff(r)  == OffImage(r.src, r.H, r.W) => IgnoredOK(r)
NothingRaised(r) == ~r.raised

(* -- catalogue subsets -------------------------------------------------- *)
Additive(r)    == IsDev(r.add_dev_e9) /\ r.add_dev_e9 <= AddTol
SamplesAdd(r)  == \A k \in 1..Len(r.samples) :
                     LET t == r.samples[k] IN Within(t[3], t[1] + t[2], E8Tol)
Commutative(r) == IsDev(r.comm_dev_e9) /\ r.comm_dev_e9 <= AddTol
SumOfSingles(r) == IsDev(r.singles_dev_e9) /\ r.singles_dev_e9 <= AddTol
OffContributesNothing(r) == r.off_dev_e9 = 0

(* -- make_residual / CLI ------------------------------------------------- *)
SubtractIsMinus(r)  == IsDev(r.rel_dev_e9) /\ r.rel_dev_e9 <= AddTol
AddIsPlus(r)        == IsDev(r.rel_dev_e9) /\ r.rel_dev_e9 <= AddTol
AddThenSubtract(r)  == IsDev(r.rt_dev_e9) /\ r.rt_dev_e9 <= AddTol
IndependentRender(r) == IsDev(r.model_dev_e9) /\ r.model_dev_e9 <= RenderTol
                        /\ (r.n_inside > 0 => r.n_in5 > 0)

(* -- mask mode ----------------------------------------------------------- *)
(* models[s] : the non-mask model of the single-source catalogue {s} on the *)
(* window, row-major, e9 of |peak_s|;  thrs[s] : the threshold in the same  *)
(* unit (frac * peak_s  or  sigma * local_rms_s);  blank : NaN in the       *)
(* residual, same window;  outside_* : pixel counts outside the window      *)
(* (every models[s] is zero there).  For a negative source "exceeds its     *)
(* threshold" is accepted in either reading (signed comparison as written,  *)
(* or magnitudes).                                                          *)
ThrInDomain(r) ==
    \A s \in 1..Len(r.thrs) :
        /\ AbsV(r.thrs[s]) >= 1000000 /\ AbsV(r.thrs[s]) <= 950000000
        /\ (r.signs[s] > 0 => r.thrs[s] > 0)
Readings(signs) ==
    {rd \in [1..Len(signs) -> {"signed", "magnitude"}] :
        \A s \in 1..Len(signs) : signs[s] > 0 => rd[s] = "signed"}
MaskGridOK(r, rd) ==
    /\ \A i \in 1..Len(r.blank) :
          r.blank[i] <=> \E s \in 1..Len(r.models) :
                             InSet(r.models[s][i], r.thrs[s], rd[s])
    /\ IF \E s \in 1..Len(r.thrs) : rd[s] = "signed" /\ r.thrs[s] <= 0
       THEN r.outside_blank = r.outside_total
       ELSE r.outside_blank = 0
MaskExact(r) == \E rd \in Readings(r.signs) : MaskGridOK(r, rd)
MaskKeeps(r) == r.keep_dev_e9 = 0 /\ r.mm_bad = 0
MaskOffNothing(r, H, W) ==
    \A s \in 1..Len(r.srcs) : OffImage(r.srcs[s], H, W) => r.single_max_e9[s] = 0

(* -- closed loop --------------------------------------------------------- *)
ClosedLoop(r) == IsDev(r.res_e9) /\ r.res_e9 <= LoopTol
=============================================================================
