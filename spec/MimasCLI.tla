------------------------------ MODULE MimasCLI ------------------------------
(***************************************************************************)
(* Control flow of the `MIMAS` command line program (AegeanTools/CLI/      *)
(* MIMAS.py main).  Growth of the specification beyond the twenty listed   *)
(* properties.                                                             *)
(*                                                                         *)
(* The program is a PRIORITY DISPATCH: the option groups are tested in a   *)
(* fixed order and the first one present is carried out, everything else   *)
(* on the command line is ignored.  A configuration is a record of option  *)
(* classes; Outcome(c) gives the exit status and the one thing that is     *)
(* done.  TLC checks that the machine of guarded early exits computes      *)
(* Outcome for every configuration, and the user-level facts below.        *)
(*                                                                         *)
(* For the two masking modes the specification also says WHAT is removed   *)
(* (as in property C10): an image keeps the pixels INSIDE the region (the  *)
(* pixels outside are blanked; --negate blanks those inside), whereas a    *)
(* table loses the rows INSIDE the region (--negate: those outside).  The  *)
(* two modes have opposite polarity (OppositePolarity below).              *)
(***************************************************************************)
EXTENDS Integers, FiniteSets, TLC

Confs == [cite : BOOLEAN, fitsmask : BOOLEAN, mim2reg : BOOLEAN, reg2mim : BOOLEAN, mim2fits : BOOLEAN,
          area : BOOLEAN, intersect : 0..2, outfile : BOOLEAN, maskimage : BOOLEAN, maskcat : BOOLEAN,
          mask2mim : BOOLEAN, build : BOOLEAN, negate : BOOLEAN]

Nothing == [rc |-> 0, did |-> "nothing"]

Outcome(c) ==
    IF c.cite THEN Nothing
    ELSE IF c.fitsmask THEN [rc |-> 1, did |-> "nothing"]
    ELSE IF c.mim2reg THEN [rc |-> 0, did |-> "reg"]
    ELSE IF c.reg2mim THEN [rc |-> 0, did |-> "mim_from_reg"]
    ELSE IF c.mim2fits THEN [rc |-> 0, did |-> "moc"]
    ELSE IF c.area THEN [rc |-> 0, did |-> "area"]
    ELSE IF c.intersect = 1 THEN [rc |-> 1, did |-> "nothing"]
    ELSE IF c.intersect = 2 THEN (IF c.outfile THEN [rc |-> 0, did |-> "intersection"] ELSE [rc |-> 1, did |-> "nothing"])
    ELSE IF c.maskimage THEN [rc |-> 0, did |-> "maskedimage"]
    ELSE IF c.maskcat THEN [rc |-> 0, did |-> "maskedcat"]
    ELSE IF c.mask2mim THEN [rc |-> 0, did |-> "mim_from_mask"]
    ELSE IF c.outfile THEN [rc |-> 0, did |-> "combined"]
    ELSE Nothing

\* what a masking mode removes: inside = the set of items (pixels / rows) whose position is in the region
BlankedPixels(all, inside, negate) == IF negate THEN inside ELSE all \ inside
RemovedRows(all, inside, negate)   == IF negate THEN all \ inside ELSE inside
Removed(mode, all, inside, negate) == IF mode = "maskedimage" THEN BlankedPixels(all, inside, negate)
                                      ELSE RemovedRows(all, inside, negate)

\* ---- the program as a machine of guarded early exits -----------------------
VARIABLES conf, pc, rc, did
vars == <<conf, pc, rc, did>>

Init == conf \in Confs /\ pc = "cite" /\ rc = -1 /\ did = "nothing"

Exit(code, what) == pc' = "exit" /\ rc' = code /\ did' = what /\ UNCHANGED conf
Goto(l)          == pc' = l /\ UNCHANGED <<conf, rc, did>>

Cite      == pc = "cite"      /\ IF conf.cite THEN Exit(0, "nothing") ELSE Goto("fitsmask")
FitsMask  == pc = "fitsmask"  /\ IF conf.fitsmask THEN Exit(1, "nothing") ELSE Goto("mim2reg")
Mim2Reg   == pc = "mim2reg"   /\ IF conf.mim2reg THEN Exit(0, "reg") ELSE Goto("reg2mim")
Reg2Mim   == pc = "reg2mim"   /\ IF conf.reg2mim THEN Exit(0, "mim_from_reg") ELSE Goto("mim2fits")
Mim2Fits  == pc = "mim2fits"  /\ IF conf.mim2fits THEN Exit(0, "moc") ELSE Goto("area")
Area      == pc = "area"      /\ IF conf.area THEN Exit(0, "area") ELSE Goto("intersect")
Intersect == pc = "intersect" /\ IF conf.intersect = 0 THEN Goto("maskimage")
                                 ELSE IF conf.intersect = 1 THEN Exit(1, "nothing")
                                 ELSE IF ~conf.outfile THEN Exit(1, "nothing")
                                 ELSE Exit(0, "intersection")
MaskImage == pc = "maskimage" /\ IF conf.maskimage THEN Exit(0, "maskedimage") ELSE Goto("maskcat")
MaskCat   == pc = "maskcat"   /\ IF conf.maskcat THEN Exit(0, "maskedcat") ELSE Goto("mask2mim")
Mask2Mim  == pc = "mask2mim"  /\ IF conf.mask2mim THEN Exit(0, "mim_from_mask") ELSE Goto("combine")
Combine   == pc = "combine"   /\ IF conf.outfile THEN Exit(0, "combined") ELSE Exit(0, "nothing")

Next == Cite \/ FitsMask \/ Mim2Reg \/ Reg2Mim \/ Mim2Fits \/ Area \/ Intersect \/ MaskImage \/ MaskCat \/ Mask2Mim \/ Combine
Spec == Init /\ [][Next]_vars

\* ---- checked facts ------------------------------------------------------------
MachineIsOutcome  == pc = "exit" => (rc = Outcome(conf).rc /\ did = Outcome(conf).did)
FailureDoesNothing == pc = "exit" => (rc = 1 => did = "nothing")
\* building a region from +c/+p/+r needs -o, and is only reached when no other mode is asked for
BuildNeedsOutfile == pc = "exit" => (did = "combined" => conf.outfile /\ ~conf.maskimage /\ ~conf.maskcat /\ conf.intersect = 0)
\* a request can be silently dropped: e.g. --maskimage together with --mim2reg only converts
SilentlyIgnored == \E c \in Confs : c.maskimage /\ Outcome(c).rc = 0 /\ Outcome(c).did # "maskedimage"
ASSUME SilentlyIgnored
\* masking algebra
OppositePolarity == \A all \in SUBSET (1..3) : \A inside \in SUBSET all : \A n \in BOOLEAN :
          /\ BlankedPixels(all, inside, n) = RemovedRows(all, inside, ~n)
          /\ BlankedPixels(all, inside, n) \cup BlankedPixels(all, inside, ~n) = all      \* complementary results
          /\ BlankedPixels(all, inside, n) \cap BlankedPixels(all, inside, ~n) = {}
ASSUME OppositePolarity
=============================================================================
