---------------------------- MODULE MC_RegionImpl ---------------------------
(* TLC instance: the coded Region algorithms (RegionImpl) over the finite  *)
(* alphabet refine the abstract set-algebra machine (Region), step by      *)
(* step, and every answer handed to the caller is the abstract answer.     *)
EXTENDS RegionImpl, RegionAlphabet

CONSTANTS MaxLevel          \* bound on history length (TLCGet("level"))

SetOps == {"without", "intersect", "symmetric_difference"}

Next ==
    \/ \E a \in AddArgs : AddPixelsRaw(a[2], a[1]) \/ AddShape(a[2], a[1])
    \/ \E o \in Operands : \/ UnionOp(o, TRUE) \/ UnionOp(o, FALSE)
                           \/ \E n \in SetOps : SetOp(o, n) \/ SetOpRaise(o, n)
    \/ GetDemoted \/ GetArea \/ SaveLoad \/ ExportMoc \/ ExportReg
    \/ \E q \in Probes : SkyWithin(q)

Spec == Init /\ [][Next]_ivars

Bound == TLCGet("level") <= MaxLevel

AbsS == Demote(pd, D)

\* the caller-visible answer, expressed in the abstract machine's terms
AbsAns ==
    IF ans.kind = "moc"
    THEN [kind |-> "export", val |-> IF MocOK(ans.order, ans.uniq, AbsS) THEN AbsS ELSE {-1}]
    ELSE IF ans.kind = "reg"
    THEN [kind |-> "export", val |-> IF RegOK(ans.polys, AbsS) THEN AbsS ELSE {-1}]
    ELSE ans

R == INSTANCE Region WITH S <- AbsS, answer <- AbsAns

Op(name) == CHOOSE o \in Operands : o.name = name

\* the abstract step that the implementation step (recorded in last') must be
AbsStep ==
    LET l == last' IN
    CASE l.op \in {"add_pixels", "add_shape"} -> R!AddPixels(l.pix, l.level)
      [] l.op \in {"union", "union_norenorm"} -> R!Union(Op(l.other))
      [] l.op = "without" -> R!Without(Op(l.other)) \/ R!RaiseDepth(Op(l.other))
      [] l.op = "intersect" -> R!Intersect(Op(l.other)) \/ R!RaiseDepth(Op(l.other))
      [] l.op = "symmetric_difference" -> R!SymDifference(Op(l.other)) \/ R!RaiseDepth(Op(l.other))
      [] l.op = "get_demoted" -> R!GetDemoted
      [] l.op = "sky_within" -> R!SkyWithin(l.pix)
      [] l.op = "get_area" -> R!GetArea
      [] l.op = "save_load" -> R!SaveLoad
      [] l.op = "export_moc" -> R!ExportMoc
      [] l.op = "export_reg" -> R!ExportReg
      [] OTHER -> FALSE

Refines == [][AbsStep]_ivars

\* identifiers are always valid for their level
IdsOK == IdsValid(pd)
\* after a normalising public call no patch of sky is stored twice
Normalising == {"add_shape", "union", "without", "intersect", "symmetric_difference"}
NoDup == (last.op \in Normalising /\ ans.kind # "raised") => NoOverlap(pd)
\* read-only calls never change the covered set
QueriesPure == [][(last'.op \in {"get_demoted", "sky_within", "get_area", "save_load",
                                  "export_moc", "export_reg"}) => AbsS' = AbsS]_ivars
=============================================================================
