------------------------------ MODULE Recovery ------------------------------
(***************************************************************************)
(* C01 - closed loop: the abstract specification of a source finder on a   *)
(* sky that contains one isolated elliptical Gaussian is the identity:     *)
(*                    Report(Inject(src)) = {src}                          *)
(* Real numbers never enter the specification.  A record carries the       *)
(* injected truth and the reported row as deviations projected to          *)
(* integers (section 3.4 of DESIGN.md):                                    *)
(*   dpos_1e4px : |reported - injected| position in 1e-4 pixel             *)
(*   peak_ppm, a_ppm, b_ppm, int_ppm : relative deviations in ppm          *)
(*   dpa_udeg   : position-angle difference mod 180 deg in micro-degrees   *)
(*   ratio_1e3  : injected axis ratio a/b * 1000 (PA undefined if ~1)      *)
(*   z_*_milli  : (value - truth) / reported standard error * 1000         *)
(* The tolerances are those of the property statement.                     *)
(***************************************************************************)
EXTENDS Integers, Sequences

Abs(x) == IF x < 0 THEN -x ELSE x

PosTol    == 200        \* 0.02 pixel
PeakTol   == 1000       \* 0.1 %
ShapeTol  == 5000       \* 0.5 %
PaTol     == 500000     \* 0.5 deg
IntTol    == 5000       \* 0.5 %
PaDefined(ratio1e3) == ratio1e3 >= 1020    \* axis ratio >= 1.02
SigmaTol  == 5000       \* 5 reported standard errors

ExactlyOne(n)        == n = 1
PositionOK(r)        == r.dpos_1e4px <= PosTol
PeakOK(r)            == Abs(r.peak_ppm) <= PeakTol
MajorOK(r)           == Abs(r.a_ppm) <= ShapeTol
MinorOK(r)           == Abs(r.b_ppm) <= ShapeTol
AngleOK(r)           == PaDefined(r.ratio_1e3) => Abs(r.dpa_udeg) <= PaTol
IntOK(r)             == Abs(r.int_ppm) <= IntTol

\* with noise: every fitted quantity within 5 of its own reported standard errors
\* (z = 0 is logged when the quantity has the 'no error' marker -1)
WithinErrors(r) == \A k \in 1..Len(r.z_milli) : Abs(r.z_milli[k]) <= SigmaTol

\* At very high signal to noise 5 reported standard errors are smaller than the
\* noise-free tolerances of the same property, which the injected truth itself is
\* only known to; a quantity that meets its noise-free tolerance is accepted.
\* z_milli = <<ra, dec, peak, a, b, int>> or <<ra, dec, peak, a, b, int, pa>>
Z(r, k) == Abs(r.z_milli[k]) <= SigmaTol
WithinErrorsOrTol(r) ==
    /\ Len(r.z_milli) \in {6, 7}
    /\ ((Z(r, 1) /\ Z(r, 2)) \/ PositionOK(r))
    /\ (Z(r, 3) \/ PeakOK(r))
    /\ (Z(r, 4) \/ MajorOK(r))
    /\ (Z(r, 5) \/ MinorOK(r))
    /\ (Z(r, 6) \/ IntOK(r))
    /\ (Len(r.z_milli) = 7 => (Z(r, 7) \/ Abs(r.dpa_udeg) <= PaTol))
=============================================================================
