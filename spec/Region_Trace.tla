---------------------------- MODULE Region_Trace ----------------------------
(***************************************************************************)
(* Validation of recorded Region histories against the Region machine.     *)
(* A record is one history on a real AegeanTools.regions.Region of depth D *)
(* (the calls either chosen by TLC - spec -> code replay - or by a seeded  *)
(* driver - code -> spec).  After every call the harness snapshots the     *)
(* real object WITHOUT perturbing it (deep copy) and logs                  *)
(*   dem        : sorted list returned by get_demoted() of the copy        *)
(*   pd         : pixeldict of the object, one list per level 1..D         *)
(*   integral   : every stored identifier is integer valued                *)
(*   area_milli : 1000 * get_area() / area of one deepest pixel            *)
(*   within     : <<pixel, sky_within(centre of that deepest pixel)>> ...  *)
(*   ret        : what the call itself returned / wrote                    *)
(* The fold below threads the covered set through Region!Eff and names the *)
(* first clause of the specification that a step violates.                 *)
(***************************************************************************)
EXTENDS TraceBatch, SequencesExt

CONSTANTS NB, D

VARIABLES S, answer           \* (unused here; Region declares them)
INSTANCE Region

SeqSet(q) == {q[k] : k \in 1..Len(q)}
RepOf(r)  == [d \in 1..Len(r) |-> SeqSet(r[d])]

Call(st) ==
    IF st.op \in {"add_pixels", "add_shape"}
    THEN [op |-> st.op, level |-> st.level, pix |-> SeqSet(st.pix)]
    ELSE IF st.op \in {"union", "union_norenorm", "without", "intersect", "symmetric_difference"}
    THEN [op |-> st.op, other |-> [depth |-> st.other.depth, rep |-> RepOf(st.other.rep)]]
    ELSE IF st.op = "sky_within" THEN [op |-> st.op, pix |-> st.pix]
    ELSE [op |-> st.op]

AnswerFails(st, e) ==
    LET r == st.obs.ret IN
    IF r.kind = "error" THEN <<"call_completed">> ELSE
    CASE e.ans.kind = "none"   -> Clause("returns_nothing", r.kind = "none")
      [] e.ans.kind = "raised" -> Clause("different_depth_rejected", r.kind = "raised")
      [] e.ans.kind = "set"    -> Clause("get_demoted_answer", r.kind = "set" /\ SeqSet(r.val) = e.ans.val)
      [] e.ans.kind = "bool"   -> Clause("sky_within_answer", r.kind = "bool" /\ r.val = e.ans.val)
      [] e.ans.kind = "int"    -> Clause("get_area_answer", r.kind = "int" /\ r.milli = 1000 * e.ans.val)
      [] e.ans.kind = "export" ->
            IF st.op = "export_moc"
            THEN Clause("moc_written", r.kind = "moc") \o
                 (IF r.kind = "moc"
                  THEN Clause("moc_order_is_depth", r.order = D)
                       \o Clause("moc_decodes_to_region", MocOK(r.order, SeqSet(r.uniq), e.S))
                  ELSE <<>>)
            ELSE Clause("reg_written", r.kind = "reg") \o
                 (IF r.kind = "reg"
                  THEN Clause("reg_every_polygon_is_a_pixel", r.unmatched = 0)
                       \o Clause("reg_polygons_cover_region",
                                 RegOK({<<q[1], q[2]>> : q \in SeqSet(r.polys)}, e.S))
                       \o Clause("reg_one_polygon_per_stored_pixel", r.npoly = r.nstored)
                  ELSE <<>>)

StepFails(st, e, c) ==
    IF st.obs.error # "" THEN <<"observation_completed">> ELSE
    LET rep == RepOf(st.obs.pd) IN
    Clause("ids_integral", st.obs.integral)
    \o Clause("ids_valid_for_level", IdsValid(rep))
    \o Clause("demoted_equals_set_algebra", SeqSet(st.obs.dem) = e.S)
    \o Clause("representation_demotes_to_set", Demote(rep, D) = e.S)
    \o Clause("no_patch_stored_twice",
              (c.op \in Normalising /\ e.ans.kind # "raised") => NoOverlap(rep))
    \o Clause("area_is_cardinality", st.obs.area_milli = 1000 * Cardinality(e.S))
    \o Clause("membership_answers",
              \A k \in 1..Len(st.obs.within) :
                   st.obs.within[k][2] = (st.obs.within[k][1] \in e.S))
    \o AnswerFails(st, e)

\* ---- files and a second live region ------------------------------------------
\* save_file / load_file use ONE .mim file per history; live_* calls act on a second
\* region L (same depth) that stays alive during the history: regions are values,
\* so L changes only through its own calls and S only through its own.
DiskLiveOps == {"save_file", "load_file", "live_add", "union_live", "without_live", "live_union_self"}

\* state of a history: <<S, disk, live>>
Step3(st, s, dk, lv) ==
    CASE st.op = "save_file" -> <<s, s, lv>>
      [] st.op = "load_file" -> <<dk, dk, lv>>
      [] st.op = "live_add" -> <<s, dk, lv \cup DescSet(SeqSet(st.pix), st.level, D)>>
      [] st.op = "union_live" -> <<s \cup lv, dk, lv>>
      [] st.op = "without_live" -> <<s \ lv, dk, lv>>
      [] st.op = "live_union_self" -> <<s, dk, lv \cup s>>

NormalisingDL == {"union_live", "without_live"}

RECURSIVE Walk(_, _, _, _, _)
Walk(rec, k, s, dk, lv) ==
    IF k > Len(rec.steps) THEN <<>>
    ELSE LET st == rec.steps[k]
             dl == st.op \in DiskLiveOps
             c  == IF dl THEN [op |-> IF st.op \in NormalisingDL THEN "union" ELSE "save_load"] ELSE Call(st)
             n3 == IF dl THEN Step3(st, s, dk, lv) ELSE <<Eff(s, c).S, dk, lv>>
             e  == IF dl THEN [S |-> n3[1], ans |-> NoAnswer] ELSE Eff(s, c)
             F  == StepFails(st, e, c)
                   \o (IF HasKey(st.obs, "live")
                       THEN Clause("other_live_region_is_an_independent_value", SeqSet(st.obs.live) = n3[3])
                       ELSE <<>>)
         IN IF F # <<>> THEN <<"step " \o ToString(k) \o " " \o st.op>> \o F
            ELSE IF HasKey(st, "post") /\ SeqSet(st.post) # e.S
                 THEN <<"step " \o ToString(k), "tlc_post_state_differs">>
                 ELSE Walk(rec, k + 1, n3[1], n3[2], n3[3])

Fails(rec) == IF rec.D # D THEN <<"wrong_depth_batch">> ELSE Walk(rec, 1, {}, {}, {})

Next == BatchNext(Fails) /\ UNCHANGED <<S, answer>>
Spec == BatchInit /\ S = {} /\ answer = NoAnswer /\ [][Next]_<<pos, S, answer>>
=============================================================================
