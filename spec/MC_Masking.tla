---------------------------- MODULE MC_Masking ------------------------------
(* Model-checking instance for C10.                                        *)
(*  images : all H x W <= MaxH x MaxW grids over {value, blank}            *)
(*           x membership patterns {row>=k, col>=k, single pixel,          *)
(*           complement of a single pixel, checkerboard, all, none}        *)
(*           x negate x planes {1, 2};                                     *)
(*  tables : all tables of <= MaxRows rows over {inside, outside, NaN-ra,  *)
(*           NaN-dec} x negate.                                            *)
(* TLC checks the theorems of the declarative definition (Masking.tla) in  *)
(* every case and, with Emit = TRUE, prints every case (negate = FALSE     *)
(* representative; the harness executes both settings on the real code).   *)
EXTENDS Masking, TLC, Json
CONSTANTS MaxH, MaxW, MaxRows, FullBlanks, Emit, DoImages, DoTables,
          Origin    \* pixel-origin convention of the coded design (see below)

VARIABLES kind, H, W, P, pat, bl, negate, cube, out, rows, tout, pc
vars == <<kind, H, W, P, pat, bl, negate, cube, out, rows, tout, pc>>

\* ------------------------------------------------------------ image domain
Pos(h, w) == (0..(h-1)) \X (0..(w-1))          \* <<row, col>>, 0-based

Patterns(h, w) ==
         {[name |-> "row_ge", a |-> k, b |-> 0] : k \in 0..h}      \* 0 = all, h = none
    \cup {[name |-> "col_ge", a |-> k, b |-> 0] : k \in 1..(w-1)}
    \cup {[name |-> "single", a |-> x[1], b |-> x[2]] : x \in Pos(h, w)}
    \cup {[name |-> "not_single", a |-> x[1], b |-> x[2]] : x \in Pos(h, w)}
    \cup {[name |-> "checker", a |-> k, b |-> 0] : k \in 0..1}

InOf(p, x) ==
    CASE p.name = "row_ge"     -> x[1] >= p.a
      [] p.name = "col_ge"     -> x[2] >= p.a
      [] p.name = "single"     -> x = <<p.a, p.b>>
      [] p.name = "not_single" -> x # <<p.a, p.b>>
      [] p.name = "checker"    -> (x[1] + x[2]) % 2 = p.a

InFn(p, h, w) == [x \in Pos(h, w) |-> InOf(p, x)]

BlankSets(h, w) ==
    IF FullBlanks THEN SUBSET Pos(h, w)
    ELSE {{}, Pos(h, w), {x \in Pos(h, w) : (x[1] + x[2]) % 2 = 0}}
         \cup {{x} : x \in Pos(h, w)}
         \cup {Pos(h, w) \ {x} : x \in Pos(h, w)}

\* blank set of the second plane: the first plane's, shifted cyclically by
\* one position in row-major order
Idx(x, w)  == x[1] * w + x[2]
Shift(B, h, w) == {x \in Pos(h, w) :
                     \E y \in B : Idx(y, w) = (Idx(x, w) + 1) % (h * w)}
BlankOfPlane(B, p, h, w) == IF p = 1 THEN B ELSE Shift(B, h, w)

\* distinct value tokens over all planes
Token(p, x, h, w) == 1 + (p - 1) * h * w + Idx(x, w)
CubeOf(B, np, h, w) ==
    [p \in 1..np |-> [x \in Pos(h, w) |->
        IF x \in BlankOfPlane(B, p, h, w) THEN Blank ELSE Token(p, x, h, w)]]

\* ------------------------------------------------------------ table domain
Classes == {"inside", "outside", "nan_ra", "nan_dec"}
RowOf(i, cls) == [key |-> i, cols |-> <<100 + i>>,
                  ra_def |-> cls # "nan_ra", dec_def |-> cls # "nan_dec",
                  \* for an undefined position the bit is meaningless: TRUE
                  \* shows that RowInside ignores it
                  in |-> cls # "outside"]
TablesOver(n) == {[i \in 1..n |-> RowOf(i, c[i])] : c \in [1..n -> Classes]}

\* ------------------------------------------------------------ machine
Nil == <<>>

InitImage ==
    /\ DoImages
    /\ kind = "image"
    /\ H \in 1..MaxH /\ W \in 1..MaxW /\ P \in 1..2
    /\ pat \in Patterns(H, W)
    /\ bl \in BlankSets(H, W)
    /\ negate \in BOOLEAN
    /\ cube = CubeOf(bl, P, H, W)
    /\ out = Nil /\ rows = Nil /\ tout = Nil /\ pc = "input"

InitTable ==
    /\ DoTables
    /\ kind = "table"
    /\ H = 0 /\ W = 0 /\ P = 0 /\ pat = Nil /\ bl = {} /\ cube = Nil /\ out = Nil
    /\ negate \in BOOLEAN
    /\ \E n \in 0..MaxRows : rows \in TablesOver(n)
    /\ tout = Nil /\ pc = "input"

Init == InitImage \/ InitTable

Matrix(f, h, w) == [r \in 1..h |-> [c \in 1..w |-> f[<<r-1, c-1>>]]]

ImageCase ==
    [kind |-> "image", H |-> H, W |-> W, P |-> P,
     pat |-> pat.name, a |-> pat.a, b |-> pat.b,
     In |-> Matrix(InFn(pat, H, W), H, W),
     blank |-> [p \in 1..P |-> Matrix([x \in Pos(H, W) |-> IsBlank(cube[p][x])], H, W)]]

ClassOf(row) == IF ~row.ra_def THEN "nan_ra" ELSE IF ~row.dec_def THEN "nan_dec"
                ELSE IF row.in THEN "inside" ELSE "outside"
TableCase == [kind |-> "table", classes |-> [i \in 1..Len(rows) |-> ClassOf(rows[i])]]

MaskImg ==
    /\ pc = "input" /\ kind = "image"
    /\ out' = MaskCube(cube, InFn(pat, H, W), negate)
    /\ (Emit /\ ~negate) => PrintT(ToJson(ImageCase))
    /\ pc' = "done"
    /\ UNCHANGED <<kind, H, W, P, pat, bl, negate, cube, rows, tout>>

MaskTab ==
    /\ pc = "input" /\ kind = "table"
    /\ tout' = Projected(MaskTable(rows, negate))
    /\ (Emit /\ ~negate) => PrintT(ToJson(TableCase))
    /\ pc' = "done"
    /\ UNCHANGED <<kind, H, W, P, pat, bl, negate, cube, out, rows>>

Next == MaskImg \/ MaskTab
Spec == Init /\ [][Next]_vars

\* ------------------------------------------------------------ theorems
DoneImg == pc = "done" /\ kind = "image"
DoneTab == pc = "done" /\ kind = "table"
PX  == Pos(H, W)
InP == InFn(pat, H, W)

ThmExact ==
    DoneImg => \A p \in 1..P :
        /\ BlankExactlyOn(PX, cube[p], InP, negate, out[p])
        /\ UnchangedElsewhereOn(PX, cube[p], out[p])
        /\ DOMAIN out[p] = PX

ThmComplement ==
    DoneImg => \A p \in 1..P :
        LET oF == MaskImage(cube[p], InP, FALSE)
            oT == MaskImage(cube[p], InP, TRUE)
        IN /\ ComplementaryOn(PX, cube[p], oF, oT)
           /\ ShownMask(cube[p], oF) \cup ShownMask(cube[p], oT)
                 = {x \in PX : ~IsBlank(cube[p][x])}
           /\ ShownMask(cube[p], oF) \cap ShownMask(cube[p], oT) = {}
           /\ out[p] = IF negate THEN oT ELSE oF

ThmPlanes ==
    DoneImg => /\ PlanesIdenticalOn(PX, cube, out)
               /\ \A p \in 1..P :
                     ShownMask(cube[p], out[p]) =
                        {x \in PX : ~IsBlank(cube[p][x]) /\ Blanked(InP[x], negate)}

ThmIdempotent ==
    DoneImg => MaskCube(out, InP, negate) = out

ThmTrivialRegions ==
    DoneImg => /\ ((\A x \in PX : InP[x]) /\ ~negate) => out = cube
               /\ ((\A x \in PX : ~InP[x]) /\ negate) => out = cube
               /\ ((\A x \in PX : InP[x]) /\ negate) => \A p \in 1..P : \A x \in PX : IsBlank(out[p][x])
               /\ ((\A x \in PX : ~InP[x]) /\ ~negate) => \A p \in 1..P : \A x \in PX : IsBlank(out[p][x])

\* The coded design of MIMAS.mask_plane: the 0-based array index <<row, col>>
\* is handed to the WCS as pixel coordinate (col, row) under origin convention
\* `Origin`.  Under convention o the coordinate j denotes the centre of array
\* index j - o, so the membership looked up for pixel x is that of x - <<o, o>>
\* (the patterns are formulas, hence defined off the grid as well).
\* Origin = 0 is the property's convention; Origin = 1 (as coded before the
\* fix) shifts the mask by one pixel in both axes - TLC shows the counterexample.
CodedIn(p, x) == InOf(p, <<x[1] - Origin, x[2] - Origin>>)
CodedMaskImage(img, p, neg) ==
    [x \in DOMAIN img |->
        IF IsBlank(img[x]) \/ Blanked(CodedIn(p, x), neg) THEN Blank ELSE img[x]]
ThmCodedDesign ==
    DoneImg => \A p \in 1..P : CodedMaskImage(cube[p], pat, negate) = out[p]

ThmTable ==
    DoneTab =>
        /\ RemovedExactly(rows, negate, tout)
        /\ UndefinedNeverInside(rows, negate, tout)
        /\ NothingInvented(rows, tout)
        /\ OrderPreserved(rows, tout)
        /\ ColumnsUnchanged(rows, tout)
        /\ \E f \in [1..Len(tout) -> 1..Len(rows)] :     \* an order-preserving subsequence
              /\ \A i, j \in 1..Len(tout) : i < j => f[i] < f[j]
              /\ \A i \in 1..Len(tout) : tout[i] = Project(rows[f[i]])

ThmTableComplement ==
    DoneTab =>
        LET oF == Projected(MaskTable(rows, FALSE))
            oT == Projected(MaskTable(rows, TRUE))
        IN /\ TablesComplementary(rows, oF, oT)
           /\ Len(oF) + Len(oT) = Len(rows)
           /\ \A i \in 1..Len(rows) : ~Defined(rows[i]) => rows[i].key \in KeySet(oF)
=============================================================================
