--------------------------- MODULE AegeanCLI_Trace ---------------------------
(* Replay direction for AegeanCLI: option vectors (enumerated over         *)
(* AegeanCLI!Confs by the harness, which TLC checks above) are turned into *)
(* argv, run through the real CLI main(), and the observed exit status and *)
(* actions (blind catalogue rows present / PRIORIZED rows present /        *)
(* background files written / table files written) are compared with       *)
(* AegeanCLI!Outcome.                                                      *)
EXTENDS TraceBatch
VARIABLES conf, pc, rc, did, findflag
M == INSTANCE AegeanCLI

SeqSet(q) == {q[k] : k \in 1..Len(q)}

Fails(r) ==
    IF r.err # "" THEN <<"main_returned">> ELSE
    IF r.conf \notin M!Confs THEN <<"configuration_in_domain">> ELSE
    LET o == M!Outcome(r.conf) IN
    Clause("exit_status", r.rc = o.rc)
    \o Clause("blind_run_iff_specified", ("found" \in SeqSet(r.did)) = ("found" \in o.did))
    \o Clause("priorized_run_iff_specified", ("prior" \in SeqSet(r.did)) = ("prior" \in o.did))
    \o Clause("background_files_iff_specified", ("savedbkg" \in SeqSet(r.did)) = ("savedbkg" \in o.did))
    \o Clause("tables_iff_specified", ("tables" \in SeqSet(r.did)) = ("tables" \in o.did))

Next == BatchNext(Fails) /\ UNCHANGED <<conf, pc, rc, did, findflag>>
Spec == BatchInit /\ conf = 0 /\ pc = "trace" /\ rc = 0 /\ did = {} /\ findflag = FALSE
        /\ [][Next]_<<pos, conf, pc, rc, did, findflag>>
=============================================================================
