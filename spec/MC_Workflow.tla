----------------------------- MODULE MC_Workflow -----------------------------
(* Model checking of Workflow and emission of the workspaces for replay.   *)
EXTENDS Workflow, Json
CONSTANT Emit
\* print every workspace of the maximal size (as a sequence of derivations), do not extend it
SetToSeq(S) == CHOOSE q \in [1..Cardinality(S) -> S] : \A i, j \in 1..Cardinality(S) : i # j => q[i] # q[j]
EmitDone == IF Emit /\ Cardinality(ws) = MaxArtefacts THEN PrintT(ToJson(SetToSeq(ws))) ELSE TRUE
=============================================================================
