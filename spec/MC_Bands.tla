------------------------------ MODULE MC_Bands ------------------------------
(* Model-checking instance for C20: the band loader as a little machine    *)
(* that loads band 0, 1, ... n-1 of an image with `rows` rows and keeps a  *)
(* cursor of the first row not yet delivered.                              *)
EXTENDS Tiles, TLC
CONSTANTS MaxRows, MaxBands, SmallRows
VARIABLES rows, n, i, cur, ok, crpix2

vars == <<rows, n, i, cur, ok, crpix2>>

Init == /\ rows \in 1..MaxRows
        /\ n \in 1..MaxBands
        /\ i = 0 /\ cur = 0 /\ ok = TRUE
        /\ crpix2 = 0             \* CRPIX2(full) - CRPIX2(band), starts at 0

LoadBand ==
    /\ i < n
    /\ ValidBandSpec(i, n)
    /\ LET lo == BandLo(rows, n, i)
           hi == BandHi(rows, n, i)
       IN /\ ok' = (ok /\ lo = cur /\ lo <= hi
                       /\ HeaderShiftOK(lo, hi, hi - lo, lo))
          /\ cur' = hi
          /\ crpix2' = lo
    /\ i' = i + 1
    /\ UNCHANGED <<rows, n>>

Reject ==   \* invalid specifications never deliver data
    /\ i = n
    /\ ~ValidBandSpec(i, n) /\ ~ValidBandSpec(-1, n) /\ ~ValidBandSpec(0, 0)
    /\ UNCHANGED vars

Next == LoadBand \/ Reject
Spec == Init /\ [][Next]_vars

Consecutive == ok
Complete    == (i = n) => (cur = rows)
TilingThm   == (i = n) => Tiling(rows, n, DesignBands(rows, n))
CoveredThm  == (i = n /\ rows <= SmallRows) => CoveredOnce(rows, n, DesignBands(rows, n))
=============================================================================
