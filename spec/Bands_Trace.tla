----------------------------- MODULE Bands_Trace ----------------------------
(* Code -> spec for C20.  One record per (file variant, rows, n): what     *)
(* load_image_band returned for i = 0..n-1, projected to integers, as      *)
(* parallel arrays indexed by band number + 1:                             *)
(*   first/last : row index decoded from the first/last row of the data    *)
(*                returned (the test image holds its own row number),      *)
(*                -1 when the band is empty                                *)
(*   nrows      : number of rows returned                                  *)
(*   contig     : the rows are consecutive image rows and every column     *)
(*                holds the expected token (pixel values = image values)   *)
(*   naxis2     : NAXIS2 of the returned header                            *)
(*   dcrpix2    : CRPIX2(full image) - CRPIX2(band header)                 *)
(*   other      : every other header keyword equals the full image's       *)
(* or kind = "invalid": an invalid (i, n) and whether the call raised.     *)
EXTENDS TraceBatch, Tiles

RECURSIVE Cursor(_, _)
Cursor(nrows, k) == IF k = 0 THEN 0 ELSE Cursor(nrows, k - 1) + nrows[k]

AsBands(nrows) == [k \in 1..Len(nrows) |->
                      [lo |-> Cursor(nrows, k - 1), hi |-> Cursor(nrows, k)]]

FailsTile(r) ==
    IF Len(r.nrows) # r.n \/ Len(r.first) # r.n THEN <<"band_count">> ELSE
    LET B == AsBands(r.nrows) IN
    Clause("tiling", Tiling(r.rows, r.n, B))
    \o Clause("rows_are_the_image_rows",
         \A k \in 1..r.n :
            IF r.nrows[k] = 0 THEN r.first[k] = -1
            ELSE /\ r.first[k] = B[k].lo
                 /\ r.last[k] = B[k].hi - 1
                 /\ r.contig[k])
    \o Clause("header_naxis2", \A k \in 1..r.n : r.naxis2[k] = r.nrows[k])
    \o Clause("header_crpix2_shift",
         \A k \in 1..r.n : r.nrows[k] > 0 =>
            HeaderShiftOK(B[k].lo, B[k].hi, r.nrows[k], r.dcrpix2[k]))
    \o Clause("header_other_keywords", \A k \in 1..r.n : r.other[k])

FailsInvalid(r) ==
    Clause("spec_is_invalid", ~ValidBandSpec(r.i, r.n))
    \o Clause("invalid_band_rejected", r.outcome = "raised")

Fails(r) == IF r.kind = "tile" THEN FailsTile(r)
            ELSE IF r.kind = "invalid" THEN FailsInvalid(r)
            ELSE <<"unknown_record_kind">>

Next == BatchNext(Fails)
Spec == BatchInit /\ [][Next]_pos
=============================================================================
