--------------------------- MODULE RegionAlphabet ---------------------------
(* The finite operation alphabet over which histories of Region operations *)
(* are enumerated (C08 quantifier: "bounded-exhaustive over a small        *)
(* alphabet at depth 2-3").  Everything is a valid call on a real Region.  *)
EXTENDS RegionPreds, Sequences, TLC

Rep(f) == f        \* readability

\* operands: [name, depth, rep]; rep is a function level -> set of pixels
Operands3 == {
  [name |-> "A3", depth |-> 3, rep |-> (1 :> {} @@ 2 :> {} @@ 3 :> {0, 1, 2, 3})],
  [name |-> "B3", depth |-> 3, rep |-> (1 :> {} @@ 2 :> {1} @@ 3 :> {0, 8})],
  [name |-> "C3", depth |-> 3, rep |-> (1 :> {} @@ 2 :> {} @@ 3 :> {4, 5, 6, 7, 12, 13})],
  [name |-> "E3", depth |-> 3, rep |-> (1 :> {} @@ 2 :> {} @@ 3 :> {})],
  [name |-> "F3", depth |-> 3, rep |-> (1 :> {0} @@ 2 :> {} @@ 3 :> {})],
  [name |-> "G2", depth |-> 2, rep |-> (1 :> {} @@ 2 :> {0, 3})],
  [name |-> "H4", depth |-> 4, rep |-> (1 :> {} @@ 2 :> {} @@ 3 :> {9} @@ 4 :> {0, 1, 2, 3, 17, 63})],
  [name |-> "I4", depth |-> 4, rep |-> (1 :> {} @@ 2 :> {2} @@ 3 :> {} @@ 4 :> {20})],
  \* two levels finer, with pixels stored at an intermediate level
  [name |-> "J5", depth |-> 5, rep |-> (1 :> {} @@ 2 :> {} @@ 3 :> {} @@ 4 :> {20} @@ 5 :> {100, 255})] }

Operands2 == {
  [name |-> "A2", depth |-> 2, rep |-> (1 :> {} @@ 2 :> {0, 1})],
  [name |-> "B2", depth |-> 2, rep |-> (1 :> {} @@ 2 :> {1, 2, 3})],
  [name |-> "E2", depth |-> 2, rep |-> (1 :> {} @@ 2 :> {})],
  [name |-> "F2", depth |-> 2, rep |-> (1 :> {0} @@ 2 :> {})],
  [name |-> "G1", depth |-> 1, rep |-> (1 :> {0})],
  [name |-> "H3", depth |-> 3, rep |-> (1 :> {} @@ 2 :> {2} @@ 3 :> {0, 5, 15})],
  [name |-> "J4", depth |-> 4, rep |-> (1 :> {} @@ 2 :> {} @@ 3 :> {5} @@ 4 :> {33, 63})] }

Operands1 == {
  [name |-> "A1", depth |-> 1, rep |-> (1 :> {0})],
  [name |-> "E1", depth |-> 1, rep |-> (1 :> {})],
  [name |-> "H2", depth |-> 2, rep |-> (1 :> {} @@ 2 :> {1, 2})] }

Operands == IF D = 3 THEN Operands3 ELSE IF D = 2 THEN Operands2 ELSE Operands1

AddArgs3 == { <<1, {0}>>, <<2, {1}>>, <<2, {2, 3}>>, <<3, {0}>>, <<3, {5, 6}>>,
              <<3, {4, 5, 6, 7}>>, <<3, {15}>> }
AddArgs2 == { <<1, {0}>>, <<2, {1}>>, <<2, {2, 3}>>, <<2, {0}>> }
AddArgs1 == { <<1, {0}>> }
AddArgs == IF D = 3 THEN AddArgs3 ELSE IF D = 2 THEN AddArgs2 ELSE AddArgs1

Probes == IF D = 3 THEN {0, 5, 15} ELSE IF D = 2 THEN {0, 3} ELSE {0}
=============================================================================
