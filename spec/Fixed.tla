------------------------------- MODULE Fixed --------------------------------
(***************************************************************************)
(* Comparison operators for scaled-integer ("fixed point") observations.   *)
(* TLC has 32-bit integers and no reals: every float observed on the real  *)
(* code is logged as an integer number of units (1e-8 px, 1e-9 deg, micro  *)
(* degrees, ppm ...) clamped to +-IntMax.  The operators below never       *)
(* compute an intermediate value that can leave the 32-bit range for ANY   *)
(* pair of clamped arguments (TLC aborts on overflow, so MC_WcsConfig      *)
(* checks this claim at the extremes).                                     *)
(***************************************************************************)
EXTENDS Integers

IntMax == 2147483647
IsFixed(x) == x \in Int /\ -IntMax <= x /\ x <= IntMax
Clamped(x) == x = IntMax \/ x = -IntMax

\* |x| <= t   (t >= 0) without computing |x|
AbsLE(x, t) == -t <= x /\ x <= t

\* |x - y| <= t  (t >= 0); x - y is only formed when it cannot overflow
Within(x, y, t) ==
    IF x >= y
    THEN IF y >= 0 \/ x < 0 THEN x - y <= t ELSE x <= t + y
    ELSE IF x >= 0 \/ y < 0 THEN y - x <= t ELSE y <= t + x

\* floor(ref * p / 1e6) for ref >= 0 and 0 <= p <= 2000, in two limbs
Million == 1000000
PpmOf(ref, p) == (ref \div Million) * p + ((ref % Million) * p) \div Million

\* |x - ref| <= p ppm of ref   (lengths: ref > 0)
RelWithin(x, ref, p) == ref > 0 /\ x > 0 /\ Within(x, ref, PpmOf(ref, p))

(* ----------------------------- angles --------------------------------- *)
(* Angles are logged in micro-degrees; one turn = 360e6 fits in 32 bits.   *)
UDeg    == 1000000
Turn    == 360 * UDeg
HalfTurn == 180 * UDeg
IsAngle(x) == x \in Int /\ -Turn <= x /\ x <= Turn

\* representative of x modulo m in (-m/2, m/2]   (m > 0, even)
CircDiff(x, m) == LET r == x % m IN IF r > m - r THEN r - m ELSE r

\* x = y modulo m within t  (x, y angles so that x - y cannot overflow)
CircWithin(x, y, m, t) == AbsLE(CircDiff(x - y, m), t)
CircWithin360(x, y, t) == CircWithin(x, y, Turn, t)      \* directions
CircWithin180(x, y, t) == CircWithin(x, y, HalfTurn, t)  \* axes (ellipses)

(* ------------------- small-angle direction facts ---------------------- *)
(* Unit vectors are logged as components * 10000.  Two directions u, v are *)
(* aligned within `s` (s = 1e8 * sin of the tolerated angle) when their    *)
(* cross product is small and their dot product is positive.               *)
Cross(ux, uy, vx, vy) == ux * vy - uy * vx
Dot(ux, uy, vx, vy)   == ux * vx + uy * vy
IsUnit4(ux, uy) == AbsLE(ux, 10001) /\ AbsLE(uy, 10001)
                   /\ Within(ux * ux + uy * uy, 100000000, 40000)
Aligned(ux, uy, vx, vy, s) ==
    /\ IsUnit4(ux, uy) /\ IsUnit4(vx, vy)
    /\ AbsLE(Cross(ux, uy, vx, vy), s)
    /\ Dot(ux, uy, vx, vy) > 0
=============================================================================
