----------------------------- MODULE MC_Islands -----------------------------
(* TLC instance: every H x W grid over the class set Classes; the detection *)
(* is one step of a tiny machine  raw grid -> islands -> region-filtered.   *)
EXTENDS Islands, TLC
CONSTANTS H, W, Classes

VARIABLES grid, stage, isl, inside
vars == <<grid, stage, isl, inside>>

Init == /\ grid \in [Cells(H, W) -> Classes]
        /\ stage = "image" /\ isl = {} /\ inside = {}

Detect == /\ stage = "image"
          /\ isl' = IslandsOf(grid)
          /\ stage' = "islands"
          /\ UNCHANGED <<grid, inside>>

\* membership patterns of C11: half planes, one pixel, all, none
Patterns == {{x \in Cells(H, W) : x[1] >= 2}, {x \in Cells(H, W) : x[2] >= 2},
             {<<1, 1>>}, Cells(H, W) \ {<<1, 1>>}, Cells(H, W), {}}

Filter == /\ stage = "islands"
          /\ \E P \in Patterns : inside' = P /\ isl' = Restricted(grid, 5, P)
          /\ stage' = "filtered"
          /\ UNCHANGED grid

Next == Detect \/ Filter
Spec == Init /\ [][Next]_vars

DisjointThm == stage = "islands" => Disjoint(isl)
NoBlankThm  == stage = "islands" => NoBlank(grid, isl)
MaximalThm  == stage = "islands" => Maximal(grid, isl)
SeededThm   == stage = "islands" => \A A \in isl : \E x \in A : grid[x] = 5
CoverThm    == stage = "islands" =>
                  \A x \in Cells(H, W) : grid[x] = 5 => \E A \in isl : x \in A
MonotoneThm == stage = "image" => SeedMonotone(grid)
FilterThm   == stage = "filtered" =>
                  /\ isl \subseteq IslandsOf(grid)
                  /\ \A A \in IslandsOf(grid) :
                        /\ (A \subseteq inside => A \in isl)
                        /\ (A \cap inside = {} => A \notin isl)
                  /\ (inside = Cells(H, W) => isl = IslandsOf(grid))
=============================================================================
