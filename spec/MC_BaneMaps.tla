---------------------------- MODULE MC_BaneMaps -----------------------------
(* Model-checking instance for C06.                                        *)
(*  * Mask-rule theorems on ALL images of MinSide..MaxRows x MinSide..MaxCols *)
(*    pixels whose blank set is a union of at most MaxBlocks rectangles,   *)
(*    for grid in Grids, box in Boxes, masking on/off and every cut of the *)
(*    rows into at most MaxCuts + 1 stripes: the rule holds for the pure   *)
(*    propagation design and for the node/box design of sigma_filter, and  *)
(*    the two readings of clause (ii) agree.                               *)
(*  * The configuration lattice of the quantifier (size printed; the       *)
(*    harness's executed subset is checked against it in BaneMaps_Trace).  *)
EXTENDS BaneMaps, TLC, Json
CONSTANTS MaxRows, MaxCols, MinSide, MaxBlocks, MaxCuts, Grids, Boxes, CheckDesign,
          LGrids, LBoxes, LCores, LStripes, LReprs
VARIABLES rows, cols, grid, box, masking, cuts, blank, nblk

vars == <<rows, cols, grid, box, masking, cuts, blank, nblk>>

Init == /\ rows \in MinSide..MaxRows
        /\ cols \in MinSide..MaxCols
        /\ grid \in Grids
        /\ box \in Boxes
        /\ masking \in BOOLEAN
        /\ cuts \in {S \in SUBSET (1..(rows - 1)) : Cardinality(S) <= (IF CheckDesign THEN MaxCuts ELSE 0)}
        /\ blank = {}
        /\ nblk = 0

Rect(r0, r1, c0, c1) == (r0..r1) \X (c0..c1)

AddBlock ==
    /\ nblk < MaxBlocks
    /\ \E r0 \in 0..(rows - 1), c0 \in 0..(cols - 1) :
         \E r1 \in r0..(rows - 1), c1 \in c0..(cols - 1) :
            /\ ~(Rect(r0, r1, c0, c1) \subseteq blank)
            /\ blank' = blank \cup Rect(r0, r1, c0, c1)
    /\ nblk' = nblk + 1
    /\ UNCHANGED <<rows, cols, grid, box, masking, cuts>>

Next == AddBlock
Spec == Init /\ [][Next]_vars

OutA == PropagationDesign(blank, masking)

\* A. pure propagation
PropagationThm == MaskRule(rows, cols, blank, OutA, grid, box, masking)

\* clause (ii) read from the far pixels = clause (ii) read from the blank
\* output pixels (the form BaneMaps_Trace evaluates), for extreme outputs
ReadingsAgree ==
    \A out \in {OutA, Pixels(rows, cols), {}, blank} :
        FarFinite(rows, cols, blank, out, grid, box) <=> FarFiniteC(blank, out, grid, box)

\* B. node/box design (only evaluated when CheckDesign; cuts = {} otherwise)
DesignThms(outB) ==
    /\ MaskRule(rows, cols, blank, outB, grid, box, masking)
    \* clause (ii) read from the far pixels = clause (ii) read from the blank
    \* output pixels, for the design's output and for extreme outputs
    /\ \A out \in {outB, Pixels(rows, cols), {}, blank} :
          FarFinite(rows, cols, blank, out, grid, box) <=> FarFiniteC(blank, out, grid, box)
    \* clause (iii) follows from clause (ii)
    /\ \A out \in {outB, Pixels(rows, cols), {}} :
          FarFinite(rows, cols, blank, out, grid, box) => NoBlankNoBlank(blank, out)
DesignThm ==
    CheckDesign => DesignThms(NodeBoxDesign(rows, cols, blank, grid, box, cuts, masking))

\* not an invariant (used by a separate job that must FAIL, so that clause (ii)
\* is not vacuous for the design): the node/box design blanks pixels that are
\* not blank in the input (a node whose whole box is blank)
DesignAddsNoBlank ==
    DesignNaN(rows, cols, blank, grid, box, cuts) \subseteq blank

(* ------------------------ configuration lattice ----------------------- *)
TheLattice == Lattice(LGrids, LBoxes, LCores, LStripes, LReprs)
ASSUME PrintT(ToJson([lattice_size |-> Cardinality(TheLattice),
                      full_size |-> Cardinality(LGrids) * Cardinality(LBoxes) * Cardinality(LCores)
                                    * Cardinality(LStripes) * Cardinality(LReprs) * 4]))
ASSUME \A c \in TheLattice : c.box >= 4 /\ c.box >= c.grid /\ c.stripes <= 2 * c.cores
=============================================================================
