----------------------------- MODULE TraceBatch -----------------------------
(* Batch trace validation skeleton.  A batch is a JSON array of records    *)
(* (file named by the environment variable TRACE_FILE).  A trace module    *)
(* EXTENDS this one, defines  Fails(rec)  = the sequence of names of the   *)
(* specification clauses that the record violates (<<>> = accepted) and    *)
(* uses  BatchSpec(Fails).  Verdicts are total: every record is consumed,  *)
(* every rejected record is printed with its failing clauses, and the      *)
(* POSTCONDITION BatchDone prints the accepted/total counts.               *)
EXTENDS Integers, Sequences, FiniteSets, Json, IOUtils, TLC, TLCExt

Recs == JsonDeserialize(IOEnv.TRACE_FILE)

VARIABLE pos

Clause(name, cond) == IF cond THEN <<>> ELSE <<name>>

BatchInit == pos = 1 /\ TLCSet(1, 0) /\ TLCSet(2, 0)

BatchNext(Fails(_)) ==
    /\ pos <= Len(Recs)
    /\ LET F == Fails(Recs[pos]) IN
         IF F = <<>>
         THEN TLCSet(1, TLCGet(1) + 1)
         ELSE /\ TLCSet(2, TLCGet(2) + 1)
              /\ PrintT(ToJson([id |-> Recs[pos].id, fails |-> F]))
    /\ pos' = pos + 1

BatchDone ==
    PrintT(ToJson([accepted |-> TLCGet(1), rejected |-> TLCGet(2),
                   total |-> Len(Recs)]))

HasKey(r, k) == k \in DOMAIN r
=============================================================================
