------------------------------ MODULE ToolCLIs ------------------------------
(***************************************************************************)
(* Control flow of the small command line programs                         *)
(*   BANE    (AegeanTools/CLI/BANE.py)   - background / noise maps         *)
(*   AeRes   (AegeanTools/CLI/AeRes.py)  - residual / model images         *)
(*   regroup (AegeanTools/CLI/AeReg.py)  - rescale + regroup a catalogue   *)
(*   SR6     (AegeanTools/CLI/SR6.py)    - compress / expand maps          *)
(* as machines of guarded early exits; growth of the specification beyond  *)
(* the twenty listed properties.  One variable `tool` selects the program; *)
(* a configuration is a record of that program's option classes and        *)
(* Outcome(tool, conf) = [rc, did] gives the exit status and the set of    *)
(* observable effects.  TLC checks MachineIsOutcome for every              *)
(* configuration of every tool and the user-level facts below.             *)
(***************************************************************************)
EXTENDS Integers, FiniteSets, TLC

AeResConfs == [catalog : BOOLEAN, fits : BOOLEAN, rfile : BOOLEAN, mfile : BOOLEAN,
               add : BOOLEAN, mask : BOOLEAN]
RegroupConfs == [input : {"missing", "ok"}, ratio : BOOLEAN, psfheader : BOOLEAN,
                 regroup : BOOLEAN, tables : 1..2]
SR6Confs == [noargs : BOOLEAN, cite : BOOLEAN, infile : {"missing", "ok"}, expand : BOOLEAN,
             maskfile : {"none", "missing", "ok"}, factor : BOOLEAN]

BaneConfs == [cite : BOOLEAN, image : {"none", "missing", "ok"}, noclobber : BOOLEAN,
              existing : {"none", "one", "both"}, compress : BOOLEAN]

Confs(t) == CASE t = "AeRes" -> AeResConfs [] t = "regroup" -> RegroupConfs [] t = "SR6" -> SR6Confs
              [] t = "BANE" -> BaneConfs

\* ---- AeRes: three required arguments, then one of three arithmetic modes -------------------
\* mask wins over add; both leave the residual = image + model (the model of the mask mode is NaN/0)
AeResMode(c) == IF c.mask THEN "masked" ELSE IF c.add THEN "added" ELSE "subtracted"
AeResOutcome(c) ==
    IF ~c.catalog \/ ~c.fits \/ ~c.rfile THEN [rc |-> 1, did |-> {}]
    ELSE [rc |-> 0, did |-> {"residual", AeResMode(c)} \cup (IF c.mfile THEN {"model"} ELSE {})]

\* ---- regroup: rescale (the psf header wins over --ratio), regroup, write every table -------
Rescale(c) == IF c.psfheader THEN {"resized_to_psf"} ELSE IF c.ratio THEN {"resized_by_ratio"} ELSE {}
RegroupOutcome(c) ==
    IF c.input = "missing" THEN [rc |-> 1, did |-> {}]
    ELSE [rc |-> 0, did |-> Rescale(c) \cup (IF c.regroup THEN {"regrouped"} ELSE {})
                             \cup {"table1"} \cup (IF c.tables = 2 THEN {"table2"} ELSE {})]

\* ---- SR6: compress unless -x; an unreadable mask file silently writes nothing ---------------
SR6Outcome(c) ==
    IF c.noargs \/ c.cite THEN [rc |-> 0, did |-> {}]
    ELSE IF c.infile = "missing" THEN [rc |-> 1, did |-> {}]
    ELSE IF c.expand THEN
            (IF c.maskfile = "ok" THEN [rc |-> 0, did |-> {"expanded", "blanked_by_mask"}]
             ELSE IF c.maskfile = "none" THEN [rc |-> 0, did |-> {"expanded"}]
             ELSE [rc |-> 0, did |-> {}])
    ELSE [rc |-> 0, did |-> {"compressed", IF c.factor THEN "factor_as_given" ELSE "factor_from_beam"}]

\* ---- BANE: --noclobber refuses only when BOTH outputs are already there ----------------------
BaneOutcome(c) ==
    IF c.cite \/ c.image = "none" THEN [rc |-> 0, did |-> {}]
    ELSE IF c.image = "missing" THEN [rc |-> 1, did |-> {}]
    ELSE IF c.noclobber /\ c.existing = "both" THEN [rc |-> 1, did |-> {}]
    ELSE [rc |-> 0, did |-> {"bkg_written", "rms_written"} \cup (IF c.compress THEN {"compressed_maps"} ELSE {"full_size_maps"})]

Outcome(t, c) == CASE t = "AeRes" -> AeResOutcome(c) [] t = "regroup" -> RegroupOutcome(c) [] t = "SR6" -> SR6Outcome(c)
                   [] t = "BANE" -> BaneOutcome(c)

\* ---- the programs as machines -------------------------------------------------------------
VARIABLES tool, conf, pc, rc, did
vars == <<tool, conf, pc, rc, did>>
Tools == {"AeRes", "regroup", "SR6", "BANE"}

Init == /\ tool \in Tools /\ conf \in Confs(tool)
        /\ pc = "start" /\ rc = -1 /\ did = {}

Exit(code)  == pc' = "exit" /\ rc' = code /\ UNCHANGED <<tool, conf, did>>
Goto(l)     == pc' = l /\ UNCHANGED <<tool, conf, rc, did>>
Do(S, l)    == pc' = l /\ did' = did \cup S /\ UNCHANGED <<tool, conf, rc>>
Finish(S)   == pc' = "exit" /\ rc' = 0 /\ did' = did \cup S /\ UNCHANGED <<tool, conf>>

\* AeRes
A1 == tool = "AeRes" /\ pc = "start"  /\ IF ~conf.catalog THEN Exit(1) ELSE Goto("a_fits")
A2 == tool = "AeRes" /\ pc = "a_fits" /\ IF ~conf.fits THEN Exit(1) ELSE Goto("a_rfile")
A3 == tool = "AeRes" /\ pc = "a_rfile" /\ IF ~conf.rfile THEN Exit(1) ELSE Goto("a_model")
A4 == tool = "AeRes" /\ pc = "a_model" /\ Do({AeResMode(conf), "residual"}, "a_mfile")
A5 == tool = "AeRes" /\ pc = "a_mfile" /\ Finish(IF conf.mfile THEN {"model"} ELSE {})
\* regroup
R1 == tool = "regroup" /\ pc = "start" /\ IF conf.input = "missing" THEN Exit(1) ELSE Goto("r_scale")
R2 == tool = "regroup" /\ pc = "r_scale" /\ Do(Rescale(conf), "r_group")
R3 == tool = "regroup" /\ pc = "r_group" /\
      \* (the attribute check of the program cannot fail for a catalogue read from a table: every source
      \*  object built by table_to_source_list has ra, dec, a, b, pa - possibly NaN)
      IF ~conf.regroup THEN Goto("r_tables") ELSE Do({"regrouped"}, "r_tables")
R4 == tool = "regroup" /\ pc = "r_tables" /\ Finish({"table1"} \cup (IF conf.tables = 2 THEN {"table2"} ELSE {}))
\* SR6
S1 == tool = "SR6" /\ pc = "start" /\ IF conf.noargs \/ conf.cite THEN Exit(0) ELSE Goto("s_infile")
S2 == tool = "SR6" /\ pc = "s_infile" /\ IF conf.infile = "missing" THEN Exit(1) ELSE Goto("s_mode")
S3 == tool = "SR6" /\ pc = "s_mode" /\
      IF conf.expand
      THEN (IF conf.maskfile = "ok" THEN Finish({"expanded", "blanked_by_mask"})
            ELSE IF conf.maskfile = "none" THEN Finish({"expanded"}) ELSE Finish({}))
      ELSE Finish({"compressed", IF conf.factor THEN "factor_as_given" ELSE "factor_from_beam"})

\* BANE
B1 == tool = "BANE" /\ pc = "start" /\ IF conf.cite THEN Exit(0) ELSE Goto("b_image")
B2 == tool = "BANE" /\ pc = "b_image" /\ IF conf.image = "none" THEN Exit(0)
                                         ELSE IF conf.image = "missing" THEN Exit(1) ELSE Goto("b_clobber")
B3 == tool = "BANE" /\ pc = "b_clobber" /\ IF conf.noclobber /\ conf.existing = "both" THEN Exit(1) ELSE Goto("b_run")
B4 == tool = "BANE" /\ pc = "b_run" /\ Finish({"bkg_written", "rms_written"}
                                               \cup (IF conf.compress THEN {"compressed_maps"} ELSE {"full_size_maps"}))

Next == B1 \/ B2 \/ B3 \/ B4 \/ A1 \/ A2 \/ A3 \/ A4 \/ A5 \/ R1 \/ R2 \/ R3 \/ R4 \/ S1 \/ S2 \/ S3
Spec == Init /\ [][Next]_vars

\* ---- checked facts ------------------------------------------------------------------------
MachineIsOutcome == pc = "exit" => (rc = Outcome(tool, conf).rc /\ did = Outcome(tool, conf).did)
FailureDoesNothing == pc = "exit" => (rc = 1 => did = {})
OneArithmeticMode == pc = "exit" /\ tool = "AeRes" => Cardinality(did \cap {"masked", "added", "subtracted"}) <= 1
PsfHeaderWins == pc = "exit" /\ tool = "regroup" => ~({"resized_to_psf", "resized_by_ratio"} \subseteq did)
\* --noclobber with only one of the two maps present overwrites that map
NoClobberStillOverwrites == \E c \in BaneConfs : c.noclobber /\ c.existing = "one" /\ "bkg_written" \in BaneOutcome(c).did
ASSUME NoClobberStillOverwrites
\* an expansion request with an unreadable mask file is reported as success although nothing was written
SilentNoOutput == \E c \in SR6Confs : ~c.noargs /\ ~c.cite /\ c.infile = "ok" /\ SR6Outcome(c) = [rc |-> 0, did |-> {}]
ASSUME SilentNoOutput
=============================================================================
