----------------------------- MODULE Bane_Trace -----------------------------
(***************************************************************************)
(* Code -> spec for C07: validates the hook events recorded from real      *)
(* BANE.filter_mc_sharemem runs against the Bane model.                    *)
(* A batch (JSON array, env TRACE_FILE) holds one record per run:          *)
(*   conf   : [ns, cores, domask, fs, fp]   (from the main_created event   *)
(*            and the injected fault)                                      *)
(*   events : the run's events in `seq` order, stripe = index 1..ns or 0   *)
(*            for the parent: [stripe, point, index, fault]                *)
(* Logged events are bound to the model actions that correspond to the     *)
(* hook points; barrier internals (arrive / wake-up / after-wait) and the  *)
(* parent's get() on the failure path cannot be hooked and are composed as *)
(* silent model steps.  A trace is accepted iff some interleaving of       *)
(* silent steps lets every logged event be consumed.                       *)
(***************************************************************************)
EXTENDS Bane, Json, IOUtils, TLCExt

Traces == JsonDeserialize(IOEnv.TRACE_FILE)

VARIABLES tid, l          \* trace id, index of the next event to consume

tvars == <<vars, tid, l>>

Ev == Traces[tid].events

TraceInit ==
    /\ tid \in 1..Len(Traces)
    /\ l = 1
    /\ conf = Traces[tid].conf
    /\ InitRest

IsEv(s, point) == l <= Len(Ev) /\ Ev[l].stripe = s /\ Ev[l].point = point

Consume == l' = l + 1 /\ UNCHANGED tid
Stay    == UNCHANGED <<tid, l>>

\* an event that only observes the model state
Observe(cond) == cond /\ UNCHANGED vars

Logged ==
    \/ \E s \in Stripe :
        \/ IsEv(s, "start") /\ StartTaskOf(s) /\ UNCHANGED conf
        \/ IsEv(s, "p1_done") /\ (P1Write(s) \/ P1Fault(s)) /\ UNCHANGED conf
        \/ IsEv(s, "b1_after") /\ pc[s] = "r1" /\ idx[s] = Ev[l].index
             /\ (IF Ev[l].fault THEN Fault(s, "r1", "b1_after") /\ UNCHANGED conf ELSE UNCHANGED vars)
        \/ IsEv(s, "p2_done") /\ (P2(s) \/ P2Fault(s)) /\ UNCHANGED conf
        \/ IsEv(s, "b2_after") /\ pc[s] = "r2" /\ idx[s] = Ev[l].index
             /\ (IF Ev[l].fault THEN Fault(s, "r2", "b2_after") /\ UNCHANGED conf ELSE UNCHANGED vars)
        \/ IsEv(s, "mask_done") /\ (Mask(s) \/ MaskFault(s)) /\ UNCHANGED conf
        \/ IsEv(s, "end") /\ Observe(pc[s] = "done")
        \/ IsEv(s, "task_raised") /\ Observe(pc[s] = "failed")
    \/ IsEv(0, "main_created") /\ Observe(mainpc = "waiting" /\ shm = "linked")
    \/ IsEv(0, "main_got") /\ MainGet /\ mainpc' = "returned" /\ UNCHANGED conf
    \/ IsEv(0, "main_finally") /\ MainFinally /\ UNCHANGED conf

Silent ==
    /\ l <= Len(Ev)
    /\ \/ \E s \in Stripe :
            \/ Arrive(s, "b1", "b1w", "r1") \/ Leave(s, "b1w", "r1")
            \/ AfterWait(s, "r1", "p2", "b1_after")
            \/ Arrive(s, "b2", "b2w", "r2") \/ Leave(s, "b2w", "r2")
            \/ AfterWait(s, "r2", "mask", "b2_after")
       \/ (MainGet /\ mainpc' = "raised")
    /\ UNCHANGED conf

TraceNext == (Logged /\ Consume) \/ (Silent /\ Stay)

TraceSpec == TraceInit /\ [][TraceNext]_tvars

\* register tid holds the longest prefix consumed on any path
Track == TLCSet(tid, IF TLCGet(tid) > l THEN TLCGet(tid) ELSE l)
InitRegs == \A k \in 1..Len(Traces) : TLCSet(k, 0)
ASSUME InitRegs

\* the properties of the model are evaluated on every state of every trace
TraceDone ==
    PrintT(ToJson([verdicts |-> [k \in 1..Len(Traces) |->
                      [id |-> Traces[k].id, consumed |-> TLCGet(k) - 1,
                       total |-> Len(Traces[k].events)]]]))
=============================================================================
