--------------------------- MODULE Catalogue_Trace ---------------------------
(* Code -> spec for C18.  One record per execution of the real             *)
(*    save_catalog(base.ext, catalogue, meta, prefix)                      *)
(* followed, for every file found next to base.ext, by                     *)
(*    load_table -> table_to_source_list      (csv tab tex vot xml fits)   *)
(*    sqlite3 SELECT * ... ORDER BY rowid     (db)                         *)
(*   base, ext, prefix ("" = none)                                         *)
(*   cat   : the catalogue handed to save_catalog as rows [t, c]; a cell   *)
(*           is <<x>> (identity columns) or <<x, lo, hi>> - see            *)
(*           Catalogue.tla; tokens are IEEE-754 hex / "nan" / decimal      *)
(*           integers / "s:" + string                                      *)
(*   files : every file (sqlite: table) that exists afterwards:            *)
(*           [name, cols (column names as stored), rows (tokens of the     *)
(*           attributes of the rebuilt sources, in DocNames order)]        *)
(*   err   : "" or the exception text                                      *)
(* The record is accepted iff the observed files conform to Expected(s),   *)
(* the store that the Catalogue state machine reaches for this save (TLC   *)
(* proves store = Expected(s) on the bounded model, MC_Catalogue).  The    *)
(* clauses are reported separately so that a rejection names what broke.   *)
EXTENDS TraceBatch, Catalogue

Save(r) == [base |-> r.base, ext |-> r.ext, prefix |-> r.prefix, cat |-> r.cat]

ObsNames(r) == {r.files[k].name : k \in 1..Len(r.files)}
ObsFile(r, f) == r.files[CHOOSE k \in 1..Len(r.files) : r.files[k].name = f]

Tag(t, names) == [k \in 1..Len(names) |-> t \o ":identity_token_equal:" \o names[k]]

FileFails(r, exp, t) ==
    LET f == FileOf(r.base, r.ext, t) IN
    IF f \notin DOMAIN exp \/ f \notin ObsNames(r) THEN <<>> ELSE
    LET tab   == exp[f]
        obs   == ObsFile(r, f)
        names == DocNames(t)
        n     == Len(tab.rows)
        W     == 1..Len(names)
        ident == {j \in W : names[j] \in IdentityCols}
        num   == W \ ident
        others == {r.cat[i].c[UuidPos(r.cat[i].t)][1] : i \in {i \in 1..Len(r.cat) : r.cat[i].t # t}}
    IN
    Clause(t \o ":columns_named_as_documented",
           \/ obs.cols = tab.cols
           \/ r.ext = "db" /\ obs.cols = Header(r.prefix, t))
    \o (IF Len(obs.rows) # n THEN <<t \o ":same_number_of_rows">>
        ELSE IF \E i \in 1..n : Len(obs.rows[i]) # Len(names)
             THEN <<"MACHINERY:observed_row_width">>
        ELSE
          Tag(t, SelectSeq(names, LAMBDA nm :
                   /\ nm \in IdentityCols
                   /\ \E i \in 1..n : obs.rows[i][Index(names, nm)] \notin tab.rows[i][Index(names, nm)]))
          \o Clause(t \o ":nan_preserved",
                    \A i \in 1..n : \A j \in num :
                        NaN \in tab.rows[i][j] => obs.rows[i][j] \in tab.rows[i][j])
          \o Clause(t \o ":minus_one_preserved",
                    \A i \in 1..n : \A j \in num :
                        tab.rows[i][j] = {MinusOne} => obs.rows[i][j] = MinusOne)
          \o Clause(t \o ":numeric_equal_" \o Precision(r.ext),
                    \A i \in 1..n : \A j \in num :
                        (NaN \notin tab.rows[i][j] /\ tab.rows[i][j] # {MinusOne})
                            => obs.rows[i][j] \in tab.rows[i][j])
          \o Clause(t \o ":holds_only_rows_of_its_type",
                    \A i \in 1..n : obs.rows[i][UuidPos(t)] \notin others))

Fails(r) ==
    IF \E i \in 1..Len(r.cat) : ~RowWellFormed(r.cat[i])
    THEN <<"MACHINERY:projection_not_wellformed">>
    ELSE IF r.err # "" THEN <<"completed">>
    ELSE LET exp == Expected(Save(r)) IN
         Clause("files_exactly_the_documented_split", ObsNames(r) = DOMAIN exp)
         \o FileFails(r, exp, "comp")
         \o FileFails(r, exp, "isle")
         \o FileFails(r, exp, "simp")

Next == BatchNext(Fails)
Spec == BatchInit /\ Init /\ [][Next /\ UNCHANGED vars]_<<pos, vars>>
=============================================================================
