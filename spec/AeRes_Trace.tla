----------------------------- MODULE AeRes_Trace ----------------------------
(***************************************************************************)
(* Code -> spec for C14.  Records logged from the real AeRes (make_model,  *)
(* make_residual with files read back, the AeRes CLI), projected to        *)
(* integers (units: see AeResRel.tla) and evaluated against the relations  *)
(* of AeResRel.                                                            *)
(*                                                                         *)
(* kind = "single"   one source (any position class) through make_model,   *)
(*                   against the independent renderer of harness/synth.py  *)
(*                   (astropy WCS + own great-circle offsets + own pixel   *)
(*                   Gaussian): src, H, W, raised, n_in5, dev_with_e9,     *)
(*                   dev_zero_e9                                           *)
(* kind = "additive" a catalogue split A (+) B (+ Off): add_dev_e9 =       *)
(*                   max |M(A+B) - (M(A)+M(B))|, comm_dev_e9 = max |M(B+A) *)
(*                   - M(A+B)|, singles_dev_e9 = max |M(cat) - sum of the  *)
(*                   single-source models|, off_dev_e9 = max |M(A+B+Off) - *)
(*                   M(A+B)|, samples = <<M(A), M(B), M(A+B)>> at a few    *)
(*                   pixels in 1e-8 of the peak, raised                    *)
(* kind = "run"      one make_residual / CLI run of an option-lattice      *)
(*                   element (op, thr, renaming, proj, shape) or a seeded  *)
(*                   one: op = "subtract" | "add": rel_dev_e9 = max |res - *)
(*                   (img -/+ model file)|, model_dev_e9 = max |model file *)
(*                   - rendering of the sources centred on the image| to   *)
(*                   5 sigma, off_dev_e9 = max |model file - model of the  *)
(*                   catalogue without its off-image sources|, rt_dev_e9 = *)
(*                   max |Subtract(Add(img)) - img| (op = "add");          *)
(*                   op = "mask": the grids of AeResRel!MaskExact          *)
(* kind = "loop"     noise-free image of isolated sources -> Aegean ->     *)
(*                   saved catalogue -> make_residual: res_e9              *)
(* err # ""          the real code raised                                  *)
(***************************************************************************)
EXTENDS TraceBatch, AeResRel

FailsSingle(r) ==
    Clause("raises_nothing", NothingRaised(r))
    \o (IF r.raised THEN <<>> ELSE
        Clause("independent_render", SingleRender(r))
        \o Clause("off_image_contributes_nothing", SingleOff(r)))

FailsAdditive(r) ==
    Clause("raises_nothing", NothingRaised(r))
    \o (IF r.raised THEN <<>> ELSE
        Clause("additive", Additive(r) /\ SamplesAdd(r))
        \o Clause("order_independent", Commutative(r))
        \o Clause("sum_of_single_source_models", SumOfSingles(r))
        \o Clause("off_image_contributes_nothing", OffContributesNothing(r)))

FailsArith(r) ==
    Clause("independent_render", IndependentRender(r))
    \o Clause("off_image_contributes_nothing", OffContributesNothing(r))
    \o (IF r.op = "subtract"
        THEN Clause("subtract_is_image_minus_model", SubtractIsMinus(r))
        ELSE Clause("add_is_image_plus_model", AddIsPlus(r))
             \o Clause("add_then_subtract_restores", AddThenSubtract(r)))

FailsMask(r) ==
    IF ~ThrInDomain(r) \/ Len(r.models) # Len(r.thrs) \/ Len(r.signs) # Len(r.thrs)
       \/ \E s \in 1..Len(r.models) : Len(r.models[s]) # Len(r.blank)
    THEN <<"input_in_domain">>
    ELSE Clause("mask_exact", MaskExact(r))
         \o Clause("mask_keeps_other_pixels", MaskKeeps(r))
         \o Clause("off_image_contributes_nothing", MaskOffNothing(r, r.H, r.W))

FailsRun(r) ==
    IF r.op \in {"subtract", "add"} THEN FailsArith(r)
    ELSE IF r.op = "mask" THEN FailsMask(r)
    ELSE <<"unknown_operation">>

FailsLoop(r) == Clause("closed_loop_residual", ClosedLoop(r))

Fails(r) == IF r.err # "" THEN <<"completed">>
            ELSE IF r.kind = "single" THEN FailsSingle(r)
            ELSE IF r.kind = "additive" THEN FailsAdditive(r)
            ELSE IF r.kind = "run" THEN FailsRun(r)
            ELSE IF r.kind = "loop" THEN FailsLoop(r)
            ELSE <<"unknown_record_kind">>

Next == BatchNext(Fails)
Spec == BatchInit /\ [][Next]_pos
=============================================================================
