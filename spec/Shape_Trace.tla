----------------------------- MODULE Shape_Trace ----------------------------
(* Code -> spec for C09.  One record per region built by the real          *)
(* Region.add_circles / Region.add_poly at one point of the configuration  *)
(* lattice (MC_ShapeConfig) and observed through Region.sky_within /       *)
(* Region.get_area:                                                        *)
(*   shape   : "circle" | "poly"                                           *)
(*   depth   : resolution of the region (Region(maxdepth = depth))         *)
(*   r_udeg  : radius of the circle / of the polygon's circumscribed       *)
(*             circle, micro-degrees (an exact integer by construction)    *)
(*   queries : circle  <<dist_udeg, answer>>                               *)
(*             polygon <<dist_udeg, answer, <<edge distances, udeg>> >>    *)
(*             dist = great-circle distance of the queried position from   *)
(*             the centre; edge distance = signed angular distance from    *)
(*             the great circle of an edge, positive on the inner side     *)
(*   areas   : (circles) scaled areas <<m, lev>> (see ShapeCover):         *)
(*             region / region_sr = get_area() in deg^2 / steradian;       *)
(*             caplo = CapArea(r);                                         *)
(*             caphi = CapArea(r + 3 PixSize(depth)); cntlo / cnthi =      *)
(*             pixel-centre counts that must bracket caplo / caphi         *)
(*   err     : "" or the exception raised by the code                      *)
(* Clauses "record_wellformed", "cap_areas_bracketed_by_counts" and        *)
(* "nonvacuous" judge the harness's own inputs (a failure is a machinery   *)
(* error); the others are the property.                                    *)
EXTENDS TraceBatch, ShapeCover

Queries(r) == {r.queries[k] : k \in 1..Len(r.queries)}

WellFormed(r) ==
    /\ r.depth \in 1..12
    /\ r.r_udeg \in 1..90000000
    /\ Len(r.queries) > 0
    /\ \A q \in Queries(r) : q[1] \in 0..180000000 /\ q[2] \in BOOLEAN
    /\ (r.shape = "poly" =>
          /\ r.nv \in 3..8
          /\ \A q \in Queries(r) : Len(q[3]) = r.nv
          \* a position inside the polygon is inside its circumscribed circle
          /\ \A q \in Queries(r) : PolyInterior(q) => q[1] <= r.r_udeg)

NonVacuous(r) ==
    /\ \E q \in Queries(r) : MustExclude(r.r_udeg, r.depth, q[1])
    /\ IF r.shape = "circle"
       THEN \E q \in Queries(r) : MustContain(r.r_udeg, q[1])
       ELSE \E q \in Queries(r) : PolyInterior(q)

\* indices of the queries violating an obligation; a non-empty set is reported
\* (smallest index + size) next to the verdict
BadIdx(r, Oblig(_), Want) ==
    {k \in 1..Len(r.queries) : Oblig(r.queries[k]) /\ r.queries[k][2] # Want}
SetMin(S) == CHOOSE x \in S : \A y \in S : x <= y
QClause(r, name, S) ==
    IF S = {} THEN <<>>
    ELSE IF PrintT(ToJson([id |-> r.id, clause |-> name, witness |-> SetMin(S),
                           count |-> Cardinality(S)]))
         THEN <<name>> ELSE <<name>>

FarExcluded(r) ==
    QClause(r, "far_excluded",
            BadIdx(r, LAMBDA q : MustExclude(r.r_udeg, r.depth, q[1]), FALSE))

FailsCircle(r) ==
    QClause(r, "inside_contained",
            BadIdx(r, LAMBDA q : MustContain(r.r_udeg, q[1]), TRUE))
    \o FarExcluded(r)
    \o (IF ~(IsArea(r.areas.region) /\ IsArea(r.areas.region_sr)
             /\ IsArea(r.areas.caplo) /\ IsArea(r.areas.caphi))
        THEN <<"record_wellformed">>
        ELSE Clause("cap_areas_bracketed_by_counts",
                /\ CapBracketed(r.areas.caplo, r.r_udeg, r.areas.cntlo)
                /\ CapBracketed(r.areas.caphi, r.r_udeg + Margin(r.depth), r.areas.cnthi))
             \o Clause("area_at_least_inner_cap",
                    ALeq(r.areas.caplo, r.areas.region) /\ ALeq(r.areas.caplo, r.areas.region_sr))
             \o Clause("area_at_most_outer_cap",
                    ALeq(r.areas.region, r.areas.caphi) /\ ALeq(r.areas.region_sr, r.areas.caphi)))

FailsPoly(r) ==
    QClause(r, "interior_contained", BadIdx(r, LAMBDA q : PolyInterior(q), TRUE))
    \o FarExcluded(r)

Fails(r) ==
    IF r.err # "" THEN <<"completed">> ELSE
    IF r.shape \notin {"circle", "poly"} THEN <<"unknown_record_kind">> ELSE
    IF ~WellFormed(r) THEN <<"record_wellformed">> ELSE
    Clause("nonvacuous", NonVacuous(r))
    \o (IF r.shape = "circle" THEN FailsCircle(r) ELSE FailsPoly(r))

Next == BatchNext(Fails)
Spec == BatchInit /\ [][Next]_pos
=============================================================================
