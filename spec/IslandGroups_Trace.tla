------------------------- MODULE IslandGroups_Trace -------------------------
(* Replay direction for IslandGroups: real catalogues (ComponentSource      *)
(* objects, any order, gaps, negative island numbers) through the real      *)
(* models.island_itergen, mixed lists through models.classify_catalog; the  *)
(* harness reports input positions only and TLC compares with Groups /      *)
(* Classify.                                                                *)
EXTENDS TraceBatch
MaxLen == 0
Islands == {0}
Sources == {0}
VARIABLES cat, stack, src, clen, isle, group, out, pc
G == INSTANCE IslandGroups
AsCat(r) == [k \in 1..Len(r.cat) |-> <<r.cat[k][1], r.cat[k][2]>>]
Fails(r) ==
    IF r.what = "groups" THEN
        IF Len(r.cat) = 0 THEN Clause("empty_catalogue_refused", r.error = "IndexError")
        ELSE Clause("no_error", r.error = "")
             \o Clause("groups_are_the_specified_partition", r.groups = G!Groups(AsCat(r)))
    ELSE
        LET w == G!Classify(r.kinds) IN
        Clause("components_filter", r.components = w.components)
        \o Clause("islands_filter", r.islands = w.islands)
        \o Clause("simples_filter", r.simples = w.simples)
Next == BatchNext(Fails) /\ UNCHANGED <<cat, stack, src, clen, isle, group, out, pc>>
Spec == BatchInit /\ cat = <<>> /\ stack = <<>> /\ src = 0 /\ clen = 0 /\ isle = 0 /\ group = <<>> /\ out = <<>> /\ pc = "trace"
        /\ [][Next]_<<pos, cat, stack, src, clen, isle, group, out, pc>>
=============================================================================
