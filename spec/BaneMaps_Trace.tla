--------------------------- MODULE BaneMaps_Trace ---------------------------
(* Code -> spec for C06.  Records logged from real BANE.filter_image runs. *)
(*                                                                         *)
(* kind = "run"   one run observed at one site ("ret" = returned maps,     *)
(*                "file" = *_bkg/_rms.fits read back, "cfile" = compressed *)
(*                files expanded with fits_tools.expand):                  *)
(*   outcome, shape_bkg/shape_rms, rows, cols, the configuration,          *)
(*   valued (value clauses apply: some finite input pixel and some finite  *)
(*   output pixel), img_min/img_max (finite input pixels), bkg_min/bkg_max *)
(*   / rms_min/rms_max (finite output pixels) in units of 1e-8 L,          *)
(*   const + c (a constant image of level c),                              *)
(*   maskrule + in_blank / bkg_blank / rms_blank (lists of [row, col]),    *)
(*   stationary + dev_bkg_ppm / dev_rms_ppm (mean(map) - truth in ppm of   *)
(*   the true rms) + nind (independent boxes) + the z-scores * 1000 the    *)
(*   harness reports in the evidence (checked against the spec's).         *)
(* kind = "pair"  two runs of one relation group, same configuration and   *)
(*   site: rel ("add" | "scale"), sgn, c (units), max deviations dev_bkg / *)
(*   dev_rms over the pixels finite in both, nan_mismatch, n_compared and  *)
(*   probe pixels [b1, b2, r1, r2] (the first two are the arg-max pixels   *)
(*   of the two deviations, so the scalars are tied to raw map values).    *)
(* kind = "cover" the set of executed configurations + the factor values   *)
(*   of the lattice it must cover pairwise.                                *)
EXTENDS TraceBatch, BaneMaps

AsSet(s) == {s[k] : k \in 1..Len(s)}
PixSet(s) == {<<s[k][1], s[k][2]>> : k \in 1..Len(s)}

DomainFails(r) ==
    Clause("harness_config_in_domain", ValidConfig(r.grid, r.box, r.cores, r.stripes))

MaskFails(r, out, tag) ==
    LET blank == PixSet(r.in_blank) IN
    Clause("mask_copied_" \o tag, r.mask => MaskCopied(blank, out))
    \o Clause("far_pixels_finite_" \o tag, FarFiniteC(blank, out, r.grid, r.box))
    \o Clause("no_blank_in_no_blank_out_" \o tag, NoBlankNoBlank(blank, out))
    \o Clause("harness_blank_inside_image",
              (blank \cup out) \subseteq Pixels(r.rows, r.cols))

FailsRun(r) ==
    DomainFails(r) \o
    IF r.outcome # "returned" THEN <<"returns_maps">> ELSE
    Clause("shape", ShapeOK(r.rows, r.cols, r.shape_bkg) /\ ShapeOK(r.rows, r.cols, r.shape_rms))
    \o (IF ~r.valued THEN <<>> ELSE
        Clause("range_bkg", RangeBkgOK(r.img_min, r.img_max, r.bkg_min, r.bkg_max))
        \o Clause("range_rms", RangeRmsOK(r.img_min, r.img_max, r.rms_min, r.rms_max))
        \o (IF ~r.const THEN <<>> ELSE
            Clause("constant_bkg", ConstantBkgOK(r.c, r.bkg_min, r.bkg_max))
            \o Clause("constant_rms", ConstantRmsOK(r.rms_min, r.rms_max))
            \o Clause("harness_constant_image", r.img_min = r.c /\ r.img_max = r.c)))
    \o (IF ~r.maskrule THEN <<>> ELSE
        MaskFails(r, PixSet(r.bkg_blank), "bkg") \o MaskFails(r, PixSet(r.rms_blank), "rms"))
    \o (IF ~r.stationary THEN <<>> ELSE
        Clause("stationary_bkg", StationaryBkgOK(r.dev_bkg_ppm, r.nind, r.box))
        \o Clause("stationary_rms", StationaryRmsOK(r.dev_rms_ppm, r.nind, r.box))
        \o Clause("harness_zscores",
                  /\ r.z_bkg_milli = ZMilli(r.dev_bkg_ppm, r.nind * r.box * r.box)
                  /\ r.z_rms_milli = ZMilli(r.dev_rms_ppm, 2 * r.nind * r.box * r.box)
                  /\ r.nind = (r.rows \div r.box) * (r.cols \div r.box)
                  /\ r.nind >= 4))

Clamp == 400000000     \* logged values are clamped to +- Clamp
ProbeDevB(p, r) == LET d == p[2] - (r.sgn * p[1] + r.c) IN Abs(d)
ProbeDevR(p) == Abs(p[4] - p[3])

FailsPair(r) ==
    DomainFails(r) \o
    IF r.outcome # "returned" THEN <<"returns_maps">> ELSE
    LET tag == IF r.rel = "add" THEN "add_constant" ELSE "scale" IN
    Clause("harness_relation", /\ r.rel \in {"add", "scale"}
                               /\ r.sgn \in {1, -1}
                               /\ (r.rel = "add" => r.sgn = 1)
                               /\ (r.rel = "scale" => r.c = 0)
                               /\ r.n_compared >= 0
                               /\ (r.n_compared > 0 => Len(r.probes) >= 2))
    \o Clause(tag \o "_bkg", /\ r.dev_bkg <= Tol
                             /\ \A k \in 1..Len(r.probes) :
                                   AffineBkgOK(r.probes[k][1], r.probes[k][2], r.sgn, r.c))
    \o Clause(tag \o "_rms", /\ r.dev_rms <= Tol
                             /\ \A k \in 1..Len(r.probes) :
                                   AffineRmsOK(r.probes[k][3], r.probes[k][4]))
    \o Clause(tag \o "_same_blank_pixels", r.nan_mismatch = 0)
    \* the scalar deviations are the deviations of the raw values at the arg-max probes (+- rounding)
    \o Clause("harness_dev_attained_at_probe",
              (Len(r.probes) >= 2 /\ ~\E k \in 1..2 : \E j \in 1..4 : Abs(r.probes[k][j]) >= Clamp) =>
                 /\ Within(ProbeDevB(r.probes[1], r), r.dev_bkg, 3)
                 /\ Within(ProbeDevR(r.probes[2]), r.dev_rms, 3))

FailsCover(r) ==
    LET S == AsSet(r.configs)
        L == Lattice(AsSet(r.grids), AsSet(r.boxes), AsSet(r.cores), AsSet(r.stripes), AsSet(r.reprs))
    IN Clause("executed_configs_in_lattice", S \subseteq L)
       \o Clause("lattice_size", Cardinality(L) = r.lattice_size)
       \o (IF r.pairwise THEN Clause("pairwise_covering", PairwiseCovering(S, L)) ELSE <<>>)

Fails(r) == IF r.kind = "run" THEN FailsRun(r)
            ELSE IF r.kind = "pair" THEN FailsPair(r)
            ELSE IF r.kind = "cover" THEN FailsCover(r)
            ELSE <<"unknown_record_kind">>

Next == BatchNext(Fails)
Spec == BatchInit /\ [][Next]_pos
=============================================================================
