-------------------------------- MODULE Sky ---------------------------------
(***************************************************************************)
(* The nested (HEALPix NESTED) quad-tree of sky pixels used by             *)
(* AegeanTools/regions.py.  Level d (the code's "depth", nside = 2^d) has  *)
(* NB * 4^(d-1) pixels where NB is the number of level-1 pixels of the     *)
(* modelled patch of sky (the real sphere has 48 = 12 * 4).  Pixel p of    *)
(* level d has the children 4p..4p+3 at level d+1, exactly as on the real  *)
(* sphere, so every identifier of the model is a valid identifier of the   *)
(* real sphere and model behaviours replay unchanged on real Regions.      *)
(***************************************************************************)
EXTENDS Integers, FiniteSets

RECURSIVE Pow4(_)
Pow4(n) == IF n <= 0 THEN 1 ELSE 4 * Pow4(n - 1)

NPixOf(nb, d) == nb * Pow4(d - 1)
PixOf(nb, d)  == 0..(NPixOf(nb, d) - 1)

Children(p) == {4 * p, 4 * p + 1, 4 * p + 2, 4 * p + 3}

\* descendants at level D of pixel p of level d  (d <= D)
Desc(p, d, D) == (p * Pow4(D - d))..((p + 1) * Pow4(D - d) - 1)
DescSet(P, d, D) == UNION {Desc(p, d, D) : p \in P}

\* ancestor at level d of pixel q of level D (d <= D) : integer floor
Anc(q, D, d) == q \div Pow4(D - d)

\* a pixel set given at level d seen at level D : descendants when d <= D,
\* otherwise the ancestors (the degraded, covering version)
AtLevel(P, d, D) == IF d <= D THEN DescSet(P, d, D) ELSE {Anc(q, d, D) : q \in P}

\* a multi-level representation: function level -> set of pixel ids
LevelsOf(rep) == DOMAIN rep
Demote(rep, D) == UNION {AtLevel(rep[d], d, D) : d \in DOMAIN rep}

\* weight of one level-d pixel in units of one level-D pixel
Weight(d, D) == Pow4(D - d)

\* NUNIQ coding of the MOC standard
Uniq(d, p) == 4 * Pow4(d) + p
UniqDepth(u) == CHOOSE d \in 0..13 : 4 * Pow4(d) <= u /\ u < 4 * Pow4(d + 1)
UniqPix(u)   == u - 4 * Pow4(UniqDepth(u))
IsUniq(u)    == u >= 4 /\ u < 4 * Pow4(14)
=============================================================================
