--------------------------- MODULE MimasCLI_Trace ---------------------------
(* Replay direction for MimasCLI: option vectors are turned into argv, run  *)
(* through the real AegeanTools.CLI.MIMAS.main, and the exit status and the *)
(* one output that appeared are compared with MimasCLI!Outcome.  For the    *)
(* masking modes the record carries the index sets (pixels of the image /   *)
(* rows of the table) `all`, `inside` (oracle: healpy pixel of the position *)
(* in the region's deepest-level pixel set) and `gone` (blanked pixels /    *)
(* dropped rows) and the specification's Removed decides.                   *)
EXTENDS TraceBatch
VARIABLES conf, pc, rc, did
M == INSTANCE MimasCLI

SeqSet(q) == {q[k] : k \in 1..Len(q)}

Fails(r) ==
    IF r.err # "" THEN <<"main_returned">> ELSE
    IF r.conf \notin M!Confs THEN <<"configuration_in_domain">> ELSE
    LET o == M!Outcome(r.conf) IN
    Clause("exit_status", r.rc = o.rc)
    \o Clause("the_one_mode_of_the_dispatch_order", SeqSet(r.did) = (IF o.did = "nothing" THEN {} ELSE {o.did}))
    \o (IF o.did \in {"maskedimage", "maskedcat"} /\ o.did \in SeqSet(r.did)
        THEN Clause("removes_inside_or_outside_as_specified",
                    SeqSet(r.gone) = M!Removed(o.did, SeqSet(r.all), SeqSet(r.inside), r.conf.negate))
        ELSE <<>>)

Next == BatchNext(Fails) /\ UNCHANGED <<conf, pc, rc, did>>
Spec == BatchInit /\ conf = 0 /\ pc = "trace" /\ rc = 0 /\ did = "nothing"
        /\ [][Next]_<<pos, conf, pc, rc, did>>
=============================================================================
