--------------------------- MODULE Masking_Trace ----------------------------
(* Code -> spec for C10.  One record per (input, region) pair executed on  *)
(* the real MIMAS code with negate = FALSE (outF) and negate = TRUE (outT).*)
(*                                                                         *)
(* kind = "image" (func = mask_plane | mask_file):                         *)
(*   H, W, P   : rows, columns, planes                                     *)
(*   In[r][c]  : oracle membership of the centre of pixel (r, c): sky      *)
(*               position from astropy.wcs (0-based index = FITS pixel     *)
(*               index + 1), HEALPix pixel at the region's depth, member   *)
(*               of the region's pixel set                                 *)
(*   skip[r][c]: the centre lies within 1e-6 deg of a HEALPix pixel edge   *)
(*               (membership not decidable by the oracle: not compared)    *)
(*   img[p][r][c], outF[p][r][c], outT[p][r][c] : tokens, 0 = blank (NaN), *)
(*               k > 0 = the k-th distinct input value (bit identity),     *)
(*               -1 = a value that is not among the input values           *)
(*   size_ok   : the output has P*H*W pixels;  err : "" or exception text  *)
(* kind = "table" (func = mask_table | mask_catalog):                      *)
(*   rows      : [key, ra_def, dec_def, in, cols] (see Masking.tla)        *)
(*   outF/outT : [key, cols] of the rows of the result, in order           *)
(*   names, namesF, namesT : column names of input and results             *)
EXTENDS TraceBatch, Masking

PosOf(r)  == (1..r.H) \X (1..r.W)
Fn(m, r)  == [x \in PosOf(r) |-> m[x[1]][x[2]]]

FailsImage(r) ==
    IF r.err # "" THEN <<"completed">> ELSE
    IF ~r.size_ok THEN <<"shape_kept">> ELSE
    LET X    == PosOf(r)
        In   == Fn(r.In, r)
        Sk   == Fn(r.skip, r)
        XD   == {x \in X : ~Sk[x]}          \* positions the oracle decides
        cube == [p \in 1..r.P |-> Fn(r.img[p], r)]
        oF   == [p \in 1..r.P |-> Fn(r.outF[p], r)]
        oT   == [p \in 1..r.P |-> Fn(r.outT[p], r)]
    IN  Clause("blank_exactly_outside",
               \A p \in 1..r.P : BlankExactlyOn(XD, cube[p], In, FALSE, oF[p]))
     \o Clause("unchanged_elsewhere",
               \A p \in 1..r.P : UnchangedElsewhereOn(X, cube[p], oF[p]))
     \o Clause("negate_blank_exactly_inside",
               \A p \in 1..r.P : BlankExactlyOn(XD, cube[p], In, TRUE, oT[p]))
     \o Clause("negate_unchanged_elsewhere",
               \A p \in 1..r.P : UnchangedElsewhereOn(X, cube[p], oT[p]))
     \o Clause("complementary",
               \A p \in 1..r.P : ComplementaryOn(X, cube[p], oF[p], oT[p]))
     \o Clause("planes_identical",
               PlanesIdenticalOn(X, cube, oF) /\ PlanesIdenticalOn(X, cube, oT))

FailsTableOne(r, negate, out, names, pre) ==
       Clause(pre \o "columns_preserved", names = r.names)
    \o Clause(pre \o "rows_removed_exactly", RemovedExactly(r.rows, negate, out))
    \o Clause(pre \o "undefined_never_inside", UndefinedNeverInside(r.rows, negate, out))
    \o Clause(pre \o "no_rows_invented", NothingInvented(r.rows, out))
    \o Clause(pre \o "order_preserved", OrderPreserved(r.rows, out))
    \o Clause(pre \o "other_columns_unchanged", ColumnsUnchanged(r.rows, out))
    \* the clauses above together are the declarative definition
    \o Clause(pre \o "is_masktable", out = Projected(MaskTable(r.rows, negate)))

FailsTable(r) ==
    IF r.err # "" THEN <<"completed">> ELSE
    IF ~UniqueKeys(r.rows) THEN <<"input_keys_unique">> ELSE
       FailsTableOne(r, FALSE, r.outF, r.namesF, "")
    \o FailsTableOne(r, TRUE, r.outT, r.namesT, "negate_")
    \o Clause("tables_complementary", TablesComplementary(r.rows, r.outF, r.outT))

Fails(r) == IF r.kind = "image" THEN FailsImage(r)
            ELSE IF r.kind = "table" THEN FailsTable(r)
            ELSE <<"unknown_record_kind">>

Next == BatchNext(Fails)
Spec == BatchInit /\ [][Next]_pos
=============================================================================
