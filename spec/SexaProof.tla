----------------------------- MODULE SexaProof -----------------------------
(* Unbounded proofs (TLAPS, SMT back end) for the sexagesimal design "round   *)
(* to the printed unit first, then split" of Sexa: for EVERY declination in  *)
(* [-90, 90] deg and EVERY right ascension in [0, 360) deg (fine units,      *)
(* rounding ties excluded) the printed fields are in range, denote exactly   *)
(* the rounded input (modulo 24 h for RA), parse back to within half a       *)
(* printed unit and carry the sign iff it matters.  TLC checks the same      *)
(* theorems on the carry windows only (MC_Sexa): the domain has 6.5e8 +      *)
(* 8.6e7 values.                                                             *)
EXTENDS Sexa, TLAPS

LEMMA SplitSum ==
  ASSUME NEW R \in Nat
  PROVE /\ (R \div 360000) * 360000 + ((R \div 6000) % 60) * 6000 + (R % 6000) = R
        /\ (R \div 6000) % 60 >= 0 /\ (R \div 6000) % 60 < 60
        /\ R % 6000 >= 0 /\ R % 6000 < 6000
        /\ R \div 360000 >= 0
  BY Z3T(30)

LEMMA RoundNear ==
  ASSUME NEW A \in Nat, A % 10 # 5
  PROVE /\ ((A + 5) \div 10) * 10 - A <= 5
        /\ A - ((A + 5) \div 10) * 10 <= 5
        /\ (A + 5) \div 10 \in Nat
  BY Z3T(30)

THEOREM RoundDMS ==
  ASSUME NEW N \in Int, InDomain("dms", N)
  PROVE LET f == FmtRound("dms", N) IN
        /\ FieldRangeThm("dms", f) /\ InverseThm("dms", N, f)
        /\ ExactRoundThm("dms", N, f) /\ SignThm("dms", N, f)
  <1> DEFINE A == Abs(N)
  <1> DEFINE R == Round(A)
  <1>1. A \in Nat /\ A % 10 # 5 /\ A <= 324000000
    BY Z3T(30) DEF InDomain, IsTie, Abs, Fine, MaxDecFine, CsPerUnit
  <1>2. R \in Nat /\ R * 10 - A <= 5 /\ A - R * 10 <= 5 /\ R <= 32400000
    BY <1>1, RoundNear, Z3T(30) DEF Round, Fine
  <1>3. /\ (R \div 360000) * 360000 + ((R \div 6000) % 60) * 6000 + (R % 6000) = R
        /\ (R \div 6000) % 60 >= 0 /\ (R \div 6000) % 60 < 60
        /\ R % 6000 >= 0 /\ R % 6000 < 6000
        /\ R \div 360000 >= 0 /\ R \div 360000 <= 90
    BY <1>2, SplitSum, Z3T(30)
  <1>4. FmtRound("dms", N) = [neg |-> N < 0, u |-> R \div 360000, m |-> (R \div 6000) % 60, cs |-> R % 6000]
    BY Z3T(30) DEF FmtRound, Split, Fields, CsPerUnit, CsPerMin
  <1> DEFINE f == FmtRound("dms", N)
  <1>5. f.neg = (N < 0) /\ f.u = R \div 360000 /\ f.m = (R \div 6000) % 60 /\ f.cs = R % 6000
    BY <1>4, Z3T(30)
  <1> HIDE DEF f
  <1>6. FieldRangeThm("dms", f)
    BY <1>3, <1>5, Z3T(30) DEF FieldRangeThm, MinutesOK, SecondsOK, HoursOK, DegreesOK, CsPerMin
  <1>7. ParseCs(f) = (IF N < 0 THEN -R ELSE R)
    BY <1>2, <1>3, <1>5, Z3T(30) DEF ParseCs, CsPerUnit, CsPerMin
  <1>8. N = (IF N < 0 THEN -A ELSE A)
    BY Z3T(30) DEF Abs
  <1> HIDE DEF A, R
  <1>9. Sane(f)
    BY <1>2, <1>3, <1>5, Z3T(30) DEF Sane
  <1>10. InverseThm("dms", N, f)
    BY <1>1, <1>2, <1>7, <1>8, <1>9, Z3T(30) DEF InverseThm, InverseDMS, Fine, Abs
  <1>11. ExactRoundThm("dms", N, f)
    BY <1>1, <1>7, <1>8, Z3T(30) DEF ExactRoundThm, RoundCs, A, R, Abs
  <1>12. SignThm("dms", N, f)
    BY <1>1, <1>2, <1>5, <1>8, Z3T(30) DEF SignThm, RoundCs, A, R, Abs
  <1> QED
    BY <1>6, <1>10, <1>11, <1>12, Z3T(30) DEF f

THEOREM RoundHMS ==
  ASSUME NEW N \in Int, InDomain("hms", N)
  PROVE LET f == FmtRound("hms", N) IN
        /\ FieldRangeThm("hms", f) /\ InverseThm("hms", N, f)
        /\ ExactRoundThm("hms", N, f) /\ SignThm("hms", N, f)
  <1> DEFINE R0 == Round(N)
  <1> DEFINE R == RoundCsRA(N)
  <1>1. N \in Nat /\ N % 10 # 5 /\ N < 86400000 /\ N % TurnFine = N
    BY Z3T(30) DEF InDomain, IsTie, Abs, Fine, TurnFine, DayCs, CsPerUnit
  <1>2. R0 \in Nat /\ R0 * 10 - N <= 5 /\ N - R0 * 10 <= 5 /\ R0 <= 8640000
    BY <1>1, RoundNear, Z3T(30) DEF Round, Fine
  <1>3. R = R0 % 8640000 /\ R \in Nat /\ R < 8640000 /\ (R = R0 \/ (R0 = 8640000 /\ R = 0))
    BY <1>1, <1>2, Z3T(30) DEF RoundCsRA, Round, DayCs, CsPerUnit, Fine
  <1>4. /\ (R \div 360000) * 360000 + ((R \div 6000) % 60) * 6000 + (R % 6000) = R
        /\ (R \div 6000) % 60 >= 0 /\ (R \div 6000) % 60 < 60
        /\ R % 6000 >= 0 /\ R % 6000 < 6000
        /\ R \div 360000 >= 0 /\ R \div 360000 < 24
    BY <1>3, SplitSum, Z3T(30)
  <1>5. FmtRound("hms", N) = [neg |-> FALSE, u |-> R \div 360000, m |-> (R \div 6000) % 60, cs |-> R % 6000]
    BY Z3T(30) DEF FmtRound, Split, Fields, CsPerUnit, CsPerMin
  <1> DEFINE f == FmtRound("hms", N)
  <1>6. f.neg = FALSE /\ f.u = R \div 360000 /\ f.m = (R \div 6000) % 60 /\ f.cs = R % 6000
    BY <1>5, Z3T(30)
  <1> HIDE DEF f
  <1>7. FieldRangeThm("hms", f)
    BY <1>3, <1>4, <1>6, Z3T(30) DEF FieldRangeThm, MinutesOK, SecondsOK, HoursOK, DegreesOK, CsPerMin
  <1>8. ParseCs(f) = R
    BY <1>3, <1>4, <1>6, Z3T(30) DEF ParseCs, CsPerUnit, CsPerMin
  <1> HIDE DEF R0, R
  <1>9. Sane(f) /\ ~f.neg
    BY <1>3, <1>4, <1>6, Z3T(30) DEF Sane
  <1>10. \/ (ParseCs(f) * 10 - N <= 5 /\ N - ParseCs(f) * 10 <= 5)
         \/ (ParseCs(f) * 10 - N + 86400000 <= 5 /\ N - ParseCs(f) * 10 - 86400000 <= 5)
    BY <1>1, <1>2, <1>3, <1>8, Z3T(30)
  <1>11. InverseThm("hms", N, f)
    <2>0. TurnFine = 86400000 /\ Fine = 10
      BY Z3T(30) DEF TurnFine, DayCs, CsPerUnit, Fine
    <2>1. CASE ParseCs(f) * 10 - N <= 5 /\ N - ParseCs(f) * 10 <= 5
      <3>0. ParseCs(f) * Fine - (N % TurnFine) + 0 * TurnFine = ParseCs(f) * 10 - N
        BY <2>0, <1>1, <1>8, <1>3, Z3T(30)
      <3>1. Abs(ParseCs(f) * Fine - (N % TurnFine) + 0 * TurnFine) <= 5
        BY <3>0, <2>1, <1>8, <1>3, Z3T(30) DEF Abs
      <3> QED
        BY <3>1, <1>9, Z3T(30) DEF InverseThm, InverseHMS
    <2>2. CASE ParseCs(f) * 10 - N + 86400000 <= 5 /\ N - ParseCs(f) * 10 - 86400000 <= 5
      <3>1. Abs(ParseCs(f) * Fine - (N % TurnFine) + 1 * TurnFine) <= 5
        BY <2>2, <1>1, <1>8, <1>3, Z3T(30) DEF Abs, Fine, TurnFine, DayCs, CsPerUnit
      <3> QED
        BY <3>1, <1>9, Z3T(30) DEF InverseThm, InverseHMS
    <2> QED
      BY <1>10, <2>1, <2>2, Z3T(30)
  <1>12. ExactRoundThm("hms", N, f)
    BY <1>8, Z3T(30) DEF ExactRoundThm, R
  <1>13. SignThm("hms", N, f)
    BY <1>9, Z3T(30) DEF SignThm
  <1> QED
    BY <1>7, <1>11, <1>12, <1>13, Z3T(30) DEF f
=============================================================================
