-------------------------- MODULE FinderRegion_Trace ------------------------
(* C11 end to end: one record per pair of real find_sources_in_image runs  *)
(* on the same image, without and with a region.                           *)
(*   islands      : the unrestricted run's islands: num, pix (list of      *)
(*                  <<r, c>>), inside (list of those pixels whose centre   *)
(*                  lies in the region - oracle: astropy WCS + the         *)
(*                  region's own membership answer)                        *)
(*   unrestricted : component rows [island, tok] (tok = float-identity     *)
(*                  token of all fitted values; island numbers and uuids   *)
(*                  are not part of it)                                    *)
(*   restricted   : component rows [tok] of the run with the region        *)
(* The filter rule is Islands!Keep.                                        *)
EXTENDS TraceBatch, Islands

SeqSet(q) == {q[i] : i \in 1..Len(q)}
Pix(i)    == {<<p[1], p[2]>> : p \in SeqSet(i.pix)}
In(i)     == {<<p[1], p[2]>> : p \in SeqSet(i.inside)}

KeptIslands(r) == {r.islands[j].num : j \in {k \in 1..Len(r.islands) :
                                             Keep(Pix(r.islands[k]), In(r.islands[k]))}}
Expected(r) == {r.unrestricted[j].tok : j \in {k \in 1..Len(r.unrestricted) :
                                               r.unrestricted[k].island \in KeptIslands(r)}}
ExpectedCount(r) == Cardinality({k \in 1..Len(r.unrestricted) :
                                    r.unrestricted[k].island \in KeptIslands(r)})
Got(r) == {r.restricted[j].tok : j \in 1..Len(r.restricted)}

Fails(r) ==
    IF r.err # "" THEN <<"runs_completed">> ELSE
    Clause("inside_pixels_belong_to_island",
           \A j \in 1..Len(r.islands) : In(r.islands[j]) \subseteq Pix(r.islands[j]))
    \o Clause("no_component_of_an_outside_island", Got(r) \subseteq Expected(r))
    \o Clause("no_component_of_an_inside_island_lost", Expected(r) \subseteq Got(r))
    \o Clause("same_number_of_components", Len(r.restricted) = ExpectedCount(r))
    \o Clause("whole_image_region_changes_nothing",
           r.whole => Got(r) = {r.unrestricted[j].tok : j \in 1..Len(r.unrestricted)})

Next == BatchNext(Fails)
Spec == BatchInit /\ [][Next]_pos
=============================================================================
