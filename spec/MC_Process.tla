----------------------------- MODULE MC_Process -----------------------------
(* Model checking of Process and emission of histories for replay.         *)
(*   Mode "check"     : every interleaving of writes and calls; the design *)
(*                      "pure" satisfies HistoryIndependent, every other   *)
(*                      design must violate it (sensitivity: the harness   *)
(*                      requires the counterexample).                      *)
(*   Mode "histories" : Emit = TRUE; a write is always followed by a call  *)
(*                      on the file just written; each history with K      *)
(*                      calls is printed as JSON and not extended.         *)
EXTENDS Process, Json

CONSTANTS K, Emit

VARIABLES hist, pending

mcvars == <<vars, hist, pending>>

NCalls(h) == Cardinality({i \in 1..Len(h) : h[i].op = "call"})

MCInit == Init /\ hist = <<>> /\ pending = None

MCWrite(p, c) ==
    /\ pending = None
    /\ Write(p, c)
    /\ pending' = p
    /\ hist' = IF Emit THEN Append(hist, [op |-> "write", path |-> p, content |-> c]) ELSE hist

MCCall(k, p) ==
    /\ pending \in {None, p}
    /\ Call(k, p)
    /\ pending' = None
    /\ hist' = IF Emit THEN Append(hist, [op |-> "call", call |-> k, path |-> p, content |-> fs[p]]) ELSE hist

MCNext == \/ \E p \in Paths, c \in Contents : MCWrite(p, c)
          \/ \E k \in Calls, p \in Paths : MCCall(k, p)

MCSpec == MCInit /\ [][MCNext]_mcvars

\* print complete histories, do not extend them further
EmitDone == IF Emit /\ NCalls(hist) = K /\ pending = None THEN PrintT(ToJson(hist)) /\ FALSE ELSE TRUE
Bound    == NCalls(hist) <= K /\ Len(hist) <= 2 * K
=============================================================================
