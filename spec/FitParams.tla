----------------------------- MODULE FitParams ------------------------------
(***************************************************************************)
(* C04 - parameter bookkeeping of AegeanTools/fitting.py                   *)
(*   jacobian / lmfit_jacobian : which parameter each Jacobian row         *)
(*                               differentiates                            *)
(*   covar_errors              : which entry of the inverse Fisher matrix  *)
(*                               each parameter's stderr receives          *)
(*                                                                         *)
(* A model is  vary : a sequence (one entry per component, components in   *)
(* ascending order) of sequences of NP booleans, vary[i][p] = parameter p  *)
(* of component i is free.  Parameters are numbered in the documented      *)
(* order  amp, xo, yo, sx, sy, theta.  (The code numbers components from   *)
(* 0: component i here is prefix c{i-1}_ there.)                           *)
(*                                                                         *)
(* Property level: FreeOrder is defined declaratively (the k-th element is *)
(* the free pair with exactly k-1 free pairs before it); nothing here      *)
(* fixes how an implementation walks the parameters.                       *)
(***************************************************************************)
EXTENDS Integers, Sequences, FiniteSets

PNames == <<"amp", "xo", "yo", "sx", "sy", "theta">>
NP     == 6

WellFormed(v) == /\ Len(v) >= 1
                 /\ \A i \in 1..Len(v) : /\ Len(v[i]) = NP
                                         /\ \A p \in 1..NP : v[i][p] \in BOOLEAN

Pairs(v) == (1..Len(v)) \X (1..NP)
Free(v)  == {ip \in Pairs(v) : v[ip[1]][ip[2]]}
NFree(v) == Cardinality(Free(v))

\* documented order: components ascending, then amp, xo, yo, sx, sy, theta
Before(a, b) == a[1] < b[1] \/ (a[1] = b[1] /\ a[2] < b[2])

FreeOrder(v) ==
    LET F == Free(v)
    IN [k \in 1..Cardinality(F) |->
           CHOOSE ip \in F : Cardinality({q \in F : Before(q, ip)}) = k - 1]

\* characterisation (used as a theorem in MC_FitParams): s is the free order
IsFreeOrder(v, s) ==
    /\ Len(s) = NFree(v)
    /\ \A k \in 1..Len(s) : s[k] \in Free(v)
    /\ \A k \in 1..(Len(s) - 1) : Before(s[k], s[k + 1])

Injective(s) == \A j, k \in 1..Len(s) : j # k => s[j] # s[k]
Pos(s, e)    == CHOOSE k \in 1..Len(s) : s[k] = e

(* (a) row k of the Jacobian is the derivative w.r.t. FreeOrder[k]         *)
JacRows(v) == FreeOrder(v)

(* (b) stderr assignment.  sigma[k] = sqrt of the k-th diagonal entry of   *)
(* the inverse Fisher matrix built from the Jacobian rows, so entry k      *)
(* belongs to FreeOrder[k]; the index runs over the whole island and does  *)
(* not restart per component.  Non-varying parameters keep what they had.  *)
Assign(v, prev, sigma) ==
    LET fo == FreeOrder(v)
    IN [ip \in Pairs(v) |-> IF ip \in Free(v) THEN sigma[Pos(fo, ip)]
                                              ELSE prev[ip]]

\* the same with symbolic sigma: sigma[k] = k, "kept previous value" = 0
AssignIdx(v) == Assign(v, [ip \in Pairs(v) |-> 0], [k \in 1..NFree(v) |-> k])

\* no two free parameters of an island share an entry (no inherited errors)
NoInheritance(v, idx) ==
    \A a, b \in Free(v) : a # b => idx[a] # idx[b]

\* flat index of a (component, parameter) pair: the candidate numbering
\* used by the traces (c = NP*(i-1) + p)
CandIdx(ip)  == NP * (ip[1] - 1) + ip[2]
CandComp(c)  == ((c - 1) \div NP) + 1
CandParam(c) == ((c - 1) % NP) + 1

(* (c) value clause: the deviation between a Jacobian row and the central  *)
(* finite difference of the model (step h = 1e-4 in the parameter's own    *)
(* units, degrees for theta), relative to the row's largest entry, in      *)
(* parts per million.                                                      *)
TolPPM == 10
JacobianFD(devppm) == devppm <= TolPPM
=============================================================================
