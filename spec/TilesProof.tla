----------------------------- MODULE TilesProof -----------------------------
(* Unbounded proofs (TLAPS, SMT back end) about the band design of Tiles:     *)
(* for EVERY image height and EVERY number of bands the integer formula      *)
(* rows*i \div n gives adjacent, ordered bands that start at 0 and end at    *)
(* rows.  TLC checks the same statements (and Tiling / CoveredOnce of the    *)
(* whole record sequence) on bounded constants in MC_Bands; the trace        *)
(* modules bind the code to them.                                            *)
EXTENDS Tiles, TLAPS

THEOREM Adjacent ==
  ASSUME NEW rows \in Nat, NEW n \in Nat \ {0}, NEW i \in 0..(n-2)
  PROVE BandHi(rows, n, i) = BandLo(rows, n, i + 1)
  BY DEF BandLo, BandHi

THEOREM First ==
  ASSUME NEW rows \in Nat, NEW n \in Nat \ {0}
  PROVE BandLo(rows, n, 0) = 0
  BY DEF BandLo

THEOREM Last ==
  ASSUME NEW rows \in Nat, NEW n \in Nat \ {0}
  PROVE BandHi(rows, n, n - 1) = rows
  BY Z3 DEF BandHi

LEMMA MulMono == ASSUME NEW n \in Nat, NEW u \in Int, NEW v \in Int, u <= v PROVE n * u <= n * v
  BY Z3

LEMMA DivMono ==
  ASSUME NEW a \in Nat, NEW b \in Nat, NEW n \in Nat \ {0}, a <= b
  PROVE a \div n <= b \div n
  <1> DEFINE q == a \div n
  <1> DEFINE p == b \div n
  <1>1. a = n * q + (a % n) /\ 0 <= a % n /\ a % n < n /\ q \in Int
    OBVIOUS
  <1>2. b = n * p + (b % n) /\ 0 <= b % n /\ b % n < n /\ p \in Int
    OBVIOUS
  <1>3. ASSUME p < q PROVE FALSE
    <2>1. p + 1 <= q
      BY <1>3, <1>1, <1>2
    <2>2. n * (p + 1) <= n * q
      <3>1. p + 1 \in Int /\ q \in Int /\ n \in Nat
        BY <1>1, <1>2
      <3> HIDE DEF p, q
      <3> QED
        BY <2>1, <3>1, MulMono
    <2>3. b < n * (p + 1)
      BY <1>2, Z3
    <2>4. n * q <= a
      BY <1>1, Z3
    <2> QED
      BY <2>2, <2>3, <2>4
  <1> QED
    BY <1>3, <1>1, <1>2

THEOREM Ordered ==
  ASSUME NEW rows \in Nat, NEW n \in Nat \ {0}, NEW i \in 0..(n-1)
  PROVE BandLo(rows, n, i) <= BandHi(rows, n, i)
  <1>1. rows * i \in Nat /\ rows * (i + 1) \in Nat /\ rows * i <= rows * (i + 1)
    BY Z3
  <1> QED
    BY <1>1, DivMono DEF BandLo, BandHi
=============================================================================
