-------------------------- MODULE FitParams_Trace ---------------------------
(* Code -> spec for C04.  Records logged from the real AegeanTools.fitting *)
(* (harness/c04.py); every record carries                                  *)
(*   vary : the free/fixed pattern, vary[i][p], i = component (1-based),   *)
(*          p = 1..6 = amp, xo, yo, sx, sy, theta                          *)
(*                                                                         *)
(* kind "jac"  - one call of fitting.jacobian (or lmfit_jacobian, rows =   *)
(*   columns of its result) on pixel lists x, y:                           *)
(*     nrows      number of rows returned                                  *)
(*     npix_ok    every row has one entry per pixel                        *)
(*     rowmap[k]  candidate c = 6*(i-1)+p whose central finite difference  *)
(*                of the code's own model function has the same shape      *)
(*                (direction in pixel space) as row k                      *)
(*     dev_ppm[k] max_x |J_k(x) - FD_c(x)| / max_x |J_k(x)| in 1e-6, for   *)
(*                c = rowmap[k], FD step 1e-4 in the parameter's own units *)
(* kind "wrap" - lmfit_jacobian against jacobian: result shape, and the    *)
(*   deviations (ppm of the largest entry) of  lmfit_jacobian(..)^T  from  *)
(*   J, J/errs, J.B and (J/errs).B                                         *)
(* kind "cov"  - one call of covar_errors: stdidx[i][p] = k if the stderr  *)
(*   now attached to parameter (i,p) is sqrt(diag(inv(Fisher)))[k] of the  *)
(*   Fisher matrix built from the code's own Jacobian and the noise model  *)
(*   of that call, 0 if it still is the value it had before the call, -1   *)
(*   otherwise                                                             *)
EXTENDS TraceBatch, FitParams

FailsJac(r) ==
    IF r.err # "" THEN <<"jacobian_completed">> ELSE
    LET v  == r.vary
        fo == JacRows(v)
        n  == Len(r.rowmap)
        Id(k) == r.rowmap[k] \in 1..(NP * Len(v))
    IN Clause("row_count", r.nrows = Len(fo) /\ n = r.nrows)
       \o Clause("rows_cover_pixels", r.npix_ok)
       \o Clause("rows_identified", \A k \in 1..n : Id(k))
       \o Clause("row_order",
              n = Len(fo) /\ \A k \in 1..n : r.rowmap[k] = CandIdx(fo[k]))
       \o Clause("jacobian_fd_amp",
              \A k \in 1..n : (Id(k) /\ CandParam(r.rowmap[k]) = 1) => JacobianFD(r.dev_ppm[k]))
       \o Clause("jacobian_fd_xo",
              \A k \in 1..n : (Id(k) /\ CandParam(r.rowmap[k]) = 2) => JacobianFD(r.dev_ppm[k]))
       \o Clause("jacobian_fd_yo",
              \A k \in 1..n : (Id(k) /\ CandParam(r.rowmap[k]) = 3) => JacobianFD(r.dev_ppm[k]))
       \o Clause("jacobian_fd_sx",
              \A k \in 1..n : (Id(k) /\ CandParam(r.rowmap[k]) = 4) => JacobianFD(r.dev_ppm[k]))
       \o Clause("jacobian_fd_sy",
              \A k \in 1..n : (Id(k) /\ CandParam(r.rowmap[k]) = 5) => JacobianFD(r.dev_ppm[k]))
       \o Clause("jacobian_fd_theta",
              \A k \in 1..n : (Id(k) /\ CandParam(r.rowmap[k]) = 6) => JacobianFD(r.dev_ppm[k]))

FailsWrap(r) ==
    IF r.err # "" THEN <<"lmfit_jacobian_completed">> ELSE
    Clause("lmfit_shape_npix_by_nfree", r.shape = <<r.npix, NFree(r.vary)>>)
    \o Clause("lmfit_plain_is_jacobian", JacobianFD(r.plain_ppm))
    \o Clause("errs_divide_once", JacobianFD(r.errs_ppm) /\ JacobianFD(r.errsvec_ppm))
    \o Clause("whitening_J_times_B", JacobianFD(r.B_ppm) /\ JacobianFD(r.errsB_ppm))

FailsCov(r) ==
    IF r.err # "" THEN <<"covar_errors_completed">> ELSE
    LET v == r.vary
        a == AssignIdx(v)
    IN IF ~(Len(r.stdidx) = Len(v) /\ \A i \in 1..Len(r.stdidx) : Len(r.stdidx[i]) = NP)
       THEN <<"stderr_shape">> ELSE
       Clause("stderr_own_fisher_entry_first_component",
              \A p \in 1..NP : v[1][p] => r.stdidx[1][p] = a[<<1, p>>])
       \o Clause("stderr_own_fisher_entry_later_components",
              \A i \in 2..Len(v), p \in 1..NP : v[i][p] => r.stdidx[i][p] = a[<<i, p>>])
       \o Clause("fixed_parameters_keep_stderr",
              \A i \in 1..Len(v), p \in 1..NP : ~v[i][p] => r.stdidx[i][p] = a[<<i, p>>])

Fails(r) ==
    IF ~WellFormed(r.vary) THEN <<"malformed_record">>
    ELSE IF r.kind = "jac" THEN FailsJac(r)
    ELSE IF r.kind = "wrap" THEN FailsWrap(r)
    ELSE IF r.kind = "cov" THEN FailsCov(r)
    ELSE <<"unknown_record_kind">>

Next == BatchNext(Fails)
Spec == BatchInit /\ [][Next]_pos
=============================================================================
