--------------------------- MODULE MC_ShapeConfig ---------------------------
(* Model-checking instance for C09.                                        *)
(*  * TLC enumerates the configuration lattice of the property's           *)
(*    quantifier (ShapeCover!Lattice), prunes the points whose expected    *)
(*    pixel count exceeds MaxPix (CONSTRAINT Feasible) and emits every     *)
(*    remaining point (action Emit) for the harness to execute on the real *)
(*    code; the threshold table the harness needs is emitted with it.      *)
(*  * theorems about the specification's own arithmetic are checked as     *)
(*    ASSUMEs (once) and invariants (per lattice point).                   *)
EXTENDS ShapeCover, TLC, Json
CONSTANTS MaxPix
VARIABLES cfg, emitted

vars == <<cfg, emitted>>

Init == cfg \in Lattice /\ emitted = FALSE

FeasiblePoint(c) == ExpectedPix(c.depth, c.rnom) <= MaxPix
Feasible == FeasiblePoint(cfg)        \* the CONSTRAINT of the model

Emit == /\ ~emitted
        /\ PrintT(ToJson([cfg |-> cfg,
                          margin |-> Margin(cfg.depth),
                          pix |-> PixSize(cfg.depth),
                          rupper |-> RadiusUpper(cfg.rnom),
                          expected |-> ExpectedPix(cfg.depth, cfg.rnom)]))
        /\ emitted' = TRUE
        /\ UNCHANGED cfg

Next == Emit
Spec == Init /\ [][Next]_vars

(* ---- theorems (state independent, checked once) -------------------------- *)
\* the table is the ceiling of PixSize0 / 2^d, and PixSize0 is the square
\* root of a twelfth of the sphere (checked in centi-degrees)
ASSUME TableThm ==
    /\ \A d \in 1..12 : PixSizeTab[d] = PixSizeUp(d)
    /\ \A d \in 1..11 : 2 * PixSizeTab[d + 1] \in {PixSizeTab[d], PixSizeTab[d] + 1}
    /\ LET c == PixSize0Udeg \div 10000 IN
         c * c <= TwelfthSphereCdeg2 /\ TwelfthSphereCdeg2 < (c + 1) * (c + 1)

\* ALeq is the exact rational comparison (small domain: cross-multiplication)
ASSUME ALeqThm ==
    \A m1 \in 0..17, m2 \in 0..17, l1 \in 0..3, l2 \in 0..3 :
        ALeq(<<m1, l1>>, <<m2, l2>>) <=> (m1 * Pow4(l2) <= m2 * Pow4(l1))
\* ... and does not overflow at the extremes
ASSUME ALeqExtremes ==
    /\ ALeq(<<2147483647, 29>>, <<1, 0>>)
    /\ ~ALeq(<<1, 0>>, <<2147483647, 29>>)
    /\ ALeq(<<0, 0>>, <<0, 29>>) /\ ALeq(<<0, 29>>, <<0, 0>>)
    /\ ALeq(<<2147483647, 15>>, <<2, 0>>) /\ ~ALeq(<<2147483647, 15>>, <<1, 0>>)
    /\ ALeq(<<1, 0>>, <<1073741824, 15>>) /\ ~ALeq(<<1, 0>>, <<1073741823, 15>>)

\* pruning does not remove a whole value of any axis of the quantifier
ASSUME PruningKeepsAxes ==
    /\ \A d \in Depths : \E rc \in RadiusClasses : ExpectedPix(d, rc) <= MaxPix
    /\ \A rc \in RadiusClasses : \E d \in Depths : ExpectedPix(d, rc) <= MaxPix

(* ---- invariants (per lattice point) -------------------------------------- *)
\* the two obligations never collide and the unconstrained annulus is exactly
\* (r, r + 3 PixSize]; checked at the decisive distances of the point
RuleConsistent ==
    LET r == cfg.rnom
        d == cfg.depth
    IN /\ \A x \in {0, r - 1, r, r + 1, r + Margin(d) - 1, r + Margin(d),
                    r + Margin(d) + 1, 180000000} :
             /\ ~(MustContain(r, x) /\ MustExclude(r, d, x))
             /\ CircleQueryOK(r, d, <<x, MustContain(r, x)>>)
             /\ (x <= r => ~CircleQueryOK(r, d, <<x, FALSE>>))
             /\ (x > r + Margin(d) => ~CircleQueryOK(r, d, <<x, TRUE>>))
             /\ (x > r /\ x <= r + Margin(d) =>
                    CircleQueryOK(r, d, <<x, TRUE>>) /\ CircleQueryOK(r, d, <<x, FALSE>>))
       /\ PolyQueryOK(r, d, <<0, TRUE, <<1, 5, 7>>>>)
       /\ ~PolyQueryOK(r, d, <<0, FALSE, <<1, 5, 7>>>>)
       /\ PolyQueryOK(r, d, <<r, FALSE, <<1, -5, 7>>>>)
       /\ ~PolyQueryOK(r, d, <<r + Margin(d) + 1, TRUE, <<-1, 5, 7>>>>)

\* the far threshold stays on the sphere and the whole-pixel area unit fits
ThresholdsFit ==
    /\ RadiusUpper(cfg.rnom) + Margin(cfg.depth) < 180000000
    /\ Margin(cfg.depth) = 3 * PixSize(cfg.depth)
    /\ (FeasiblePoint(cfg) => 1000 * 4 * ExpectedPix(cfg.depth, cfg.rnom) < 2147483647)
=============================================================================
