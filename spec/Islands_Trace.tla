---------------------------- MODULE Islands_Trace ---------------------------
(***************************************************************************)
(* Validation of what the real source_finder.find_islands returned.        *)
(* record: H, W, grid (H rows of W class codes), k (smallest seeding       *)
(* class of this call: 5 for the coded strict '>' on the seed threshold,   *)
(* lower when the call used a lower seed level), islands = list of         *)
(*   [pix |-> list of <<r, c>> (1-based) the island's mask selects inside  *)
(*            its bounding box, box |-> <<rlo, rhi, clo, chi>> half open   *)
(*            (1-based rlo), maskok |-> mask has the box's shape]          *)
(* kind "detect": unrestricted call.  kind "region": the call had a region *)
(* and `inside` lists the cells whose centre lies in it (C11).             *)
(* kind "pair": islands found with and without the region in two calls.    *)
(***************************************************************************)
EXTENDS TraceBatch, Islands

SeqSet(q) == {q[i] : i \in 1..Len(q)}
GridOf(r) == [x \in Cells(r.H, r.W) |-> r.grid[x[1]][x[2]]]
PixOf(i)  == {<<p[1], p[2]>> : p \in SeqSet(i.pix)}
Obs(r)    == {PixOf(r.islands[j]) : j \in 1..Len(r.islands)}
InsideOf(r) == {<<p[1], p[2]>> : p \in SeqSet(r.inside)}

Common(r, expected) ==
    IF r.err # "" THEN <<"call_completed">> ELSE
    Clause("islands_are_the_seeded_flooded_8connected_groups", Obs(r) = expected)
    \o Clause("no_island_reported_twice", Cardinality(Obs(r)) = Len(r.islands))
    \o Clause("islands_pairwise_disjoint",
              \A a \in 1..Len(r.islands), b \in 1..Len(r.islands) :
                  a # b => PixOf(r.islands[a]) \cap PixOf(r.islands[b]) = {})
    \o Clause("no_blank_pixel_in_an_island",
              \A j \in 1..Len(r.islands) : \A x \in PixOf(r.islands[j]) :
                  x \in Cells(r.H, r.W) /\ r.grid[x[1]][x[2]] # 0)
    \o Clause("mask_has_bounding_box_shape", \A j \in 1..Len(r.islands) : r.islands[j].maskok)
    \o Clause("bounding_box_is_tight",
              \A j \in 1..Len(r.islands) :
                  PixOf(r.islands[j]) # {} =>
                     <<r.islands[j].box[1], r.islands[j].box[2],
                       r.islands[j].box[3], r.islands[j].box[4]>> = BBox(PixOf(r.islands[j])))

Fails(r) ==
    IF r.kind = "detect" THEN Common(r, IslandsAt(GridOf(r), r.k))
    ELSE IF r.kind = "region" THEN Common(r, Restricted(GridOf(r), r.k, InsideOf(r)))
    ELSE <<"unknown_record_kind">>

Next == BatchNext(Fails)
Spec == BatchInit /\ [][Next]_pos
=============================================================================
