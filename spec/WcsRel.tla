------------------------------- MODULE WcsRel -------------------------------
(***************************************************************************)
(* C16 - pixel <-> sky conversion of positions, vectors and ellipses       *)
(* (AegeanTools.wcs_helpers.WCSHelper, angle_tools.gcd/bear/translate).    *)
(*                                                                         *)
(* The property is relational: it relates values returned by different     *)
(* calls of the real code to each other (round trips), to the FITS         *)
(* standard mapping (obtained from astropy.wcs for the 1-based pixel       *)
(* (x = column, y = row)) and to great-circle geometry of the *standard*   *)
(* sky positions of the pixel end points.  This module states every clause *)
(* as a named predicate over one logged record of fixed-point integers:    *)
(*                                                                         *)
(*   *_e8    deviation in units of 1e-8 pixel          (clamped)           *)
(*   *_pdeg  great-circle separation in 1e-12 degree   (clamped)           *)
(*   lengths on the sky in 1e-9 degree ("ndeg"), angles in micro-degrees,  *)
(*   pixel lengths in 1e-6 pixel, ratios in permille.                      *)
(*                                                                         *)
(* Tolerances are the property's own numbers: 1e-6 pixel, 1e-3 relative,   *)
(* 0.01 degree.                                                            *)
(***************************************************************************)
EXTENDS Fixed

PixTol_e8   == 100           \* 1e-6 pixel in units of 1e-8 pixel
LenTolPpm   == 1000          \* 1e-3 relative
AngTolUdeg  == 10000         \* 0.01 degree
HandTolUdeg == 2 * UDeg      \* handedness facts: a sign/orientation statement
HandTolSin  == 3489950       \* 1e8 * sin(2 deg)

(* ------------------------- positions ---------------------------------- *)
\* sky2pix(pix2sky(p)) = p within 1e-6 pixel (each coordinate)
RoundTripPix(r) == AbsLE(r.rt_drow_e8, PixTol_e8) /\ AbsLE(r.rt_dcol_e8, PixTol_e8)

\* 1e-6 pixel expressed on the sky in 1e-12 deg for a pixel of scale_mas
\* milli-arcsec:  scale_mas * 1e-3 / 3600 deg * 1e-6 = scale_mas * 1e3 / 3600 pdeg
StdTolPdeg(scale_mas) == (scale_mas * 1000) \div 3600

\* pix2sky((row, col)) is the FITS-standard world coordinate of the 1-based
\* pixel (x = col, y = row): std_pdeg is the great-circle separation between
\* the code's answer and astropy.wcs all_pix2world(col, row, origin = 1)
StandardMapping(r) == r.std_pdeg >= 0 /\ r.std_pdeg <= StdTolPdeg(r.scale_mas)

\* the other direction of the inverse law, for a catalogue position shared by many images:
\* pix2sky(sky2pix(s)) = s  (separation in 1e-12 deg, same tolerance as a 1e-6 pixel step)
SkyRoundTrip(r) == r.skyrt_pdeg >= 0 /\ r.skyrt_pdeg <= StdTolPdeg(r.scale_mas)

\* the query can tell the standard mapping from its two classic corruptions
\* (x/y swapped: all_pix2world(row, col, 1); 0-based: all_pix2world(col, row, 0))
Discriminating(r) == /\ r.alt_swap_pdeg > 1000 * StdTolPdeg(r.scale_mas)
                     /\ r.alt_zero_pdeg > 1000 * StdTolPdeg(r.scale_mas)

(* -------------------------- vectors ----------------------------------- *)
\* sky -> pixel -> sky returns the length (1e-3) and position angle (0.01 deg, mod 360)
VecLenRoundTrip(r) == RelWithin(r.v_r_out, r.v_r_in, LenTolPpm)
VecPaRoundTrip(r)  == CircWithin360(r.v_pa_out, r.v_pa_in, AngTolUdeg)

\* the length returned by pix2sky_vec is the great-circle distance between
\* the standard sky positions of the two pixel end points, its angle is the
\* bearing (East of North) of the head seen from the tail
VecGreatCircle(r) == RelWithin(r.v_r_out, r.v_sep, LenTolPpm)
VecBearing(r)     == CircWithin360(r.v_pa_out, r.v_bear, AngTolUdeg)
\* the same two facts when the tail is given as a pixel position of INTEGER type (a pixel centre from an index
\* search): the offset of the head is still a real number
IntVecGreatCircle(r) == RelWithin(r.iv_r_out, r.iv_sep, LenTolPpm)
IntVecBearing(r)     == CircWithin360(r.iv_pa_out, r.iv_bear, AngTolUdeg)
IntEllGreatCircle(r) == RelWithin(r.ie_a_out, r.ie_sep, LenTolPpm)
\* a helper object has no memory: a conversion at a neighbouring position gives, on a helper that has just been used,
\* exactly what it gives on a fresh helper (difference of the returned pixel centre and lengths, in 1e-6 px / udeg)
HelperHasNoMemory(r) == r.nb_diff = 0

\* the pixel vector returned by sky2pix_vec ends, on the standard sky, a
\* great-circle distance r from the origin in the direction pa East of North
VecForward(r) == /\ RelWithin(r.v_fsep, r.v_r_in, LenTolPpm)
                 /\ CircWithin360(r.v_fbear, r.v_pa_in, AngTolUdeg)

\* East of North as an orientation fact on the logged end points: for a
\* step that is short compared with the distance to the pole the direction
\* (sin pa, cos pa) in (East, North) components is the direction of
\* (d_ra * cos dec, d_dec).  v_curv_ppm = 1e6 * length[rad] * tan|dec|.
ShortStep(r) == r.v_curv_ppm <= 10000
VecEastOfNorth(r) == ShortStep(r) =>
    Aligned(r.v_spa, r.v_cpa, r.v_ue, r.v_un, HandTolSin)

(* -------------------------- ellipses ---------------------------------- *)
EllMajorRoundTrip(r) == RelWithin(r.e_a_out, r.e_a_in, LenTolPpm)

(* The minor axis goes through the non-orthogonality ("defect") correction *)
(* with the centre, the head of the major axis and the head of the minor   *)
(* axis as the only sample points; this inverts exactly for a locally      *)
(* linear map and to first order in                                        *)
(*   lin = (semi-major axis [rad]) * tan(distance to the reference point)  *)
(* otherwise (measured on the real code: error / lin = 2 for TAN, 1 SIN,   *)
(* 0.5 STG, 0.25 ZEA, ~0 ARC).  The clause is claimed in the linear        *)
(* regime lin <= 3e-4:                                                     *)
(*   e_a_in [ndeg] * 1e-9 * pi / 180 * tanrho [permille] * 1e-3 <= 3e-4    *)
(*   <=>  (e_a_in \div 1000) * tanrho_pm <= 17188700.                      *)
(* EllMinorRoundTripStrict is the clause without that premise.             *)
LinBudget == 17188700
LinearRegime(r) == (r.e_a_in \div 1000) * r.tanrho_pm <= LinBudget
EllMinorRoundTripStrict(r) == RelWithin(r.e_b_out, r.e_b_in, LenTolPpm)
EllMinorRoundTrip(r) == LinearRegime(r) => EllMinorRoundTripStrict(r)

\* the position angle of a (nearly) circular ellipse is not an observable
Elongated(r) == r.ratio_pm <= 950
EllPaRoundTrip(r) == Elongated(r) => CircWithin180(r.e_pa_out, r.e_pa_in, AngTolUdeg)

\* semi-major axis returned by pix2sky_ellipse is a great-circle length and
\* its angle a bearing East of North (axis: modulo 180)
EllGreatCircle(r) == RelWithin(r.e_a_out, r.e_sep, LenTolPpm)
EllBearing(r)     == CircWithin180(r.e_pa_out, r.e_bear, AngTolUdeg)
\* (an axis: a pixel angle theta and theta + 180 describe the same ellipse)
EllForward(r)     == /\ RelWithin(r.e_fsep, r.e_a_in, LenTolPpm)
                     /\ CircWithin180(r.e_fbear, r.e_pa_in, AngTolUdeg)

(* ----------------------- handedness facts ----------------------------- *)
(* One pixel step whose standard sky end points differ by (h_de, h_dn) =   *)
(* (d_ra * cos dec, d_dec) in ndeg; h_pa = angle returned by pix2sky_vec.  *)
Mostly(big, small) == big > 0 /\ AbsLE(small, big \div 50)
NorthFact(r) == Mostly(r.h_dn, r.h_de)  => CircWithin360(r.h_pa, 0, HandTolUdeg)
EastFact(r)  == Mostly(r.h_de, r.h_dn)  => CircWithin360(r.h_pa, 90 * UDeg, HandTolUdeg)
SouthFact(r) == Mostly(-r.h_dn, r.h_de) => CircWithin360(r.h_pa, 180 * UDeg, HandTolUdeg)
WestFact(r)  == Mostly(-r.h_de, r.h_dn) => CircWithin360(r.h_pa, -90 * UDeg, HandTolUdeg)
HandPremise(r) == CASE r.dir = "N" -> Mostly(r.h_dn, r.h_de)
                    [] r.dir = "E" -> Mostly(r.h_de, r.h_dn)
                    [] r.dir = "S" -> Mostly(-r.h_dn, r.h_de)
                    [] r.dir = "W" -> Mostly(-r.h_de, r.h_dn)
                    [] OTHER -> FALSE

(* -------------------------- psf lookups ------------------------------- *)
(* Without a psf map the psf is the header beam (BMAJ, BMIN, BPA):         *)
(* get_psf_sky2sky at the reference position returns it (an ellipse round  *)
(* trip through the cached pixel beam), and the pixel-space lookups return *)
(* sky2pix_ellipse of the header beam at the reference position.           *)
PsfSkyAtRef(r) == /\ RelWithin(r.p_a, r.bmaj, LenTolPpm)
                  /\ RelWithin(r.p_b, r.bmin, LenTolPpm)
                  /\ (Elongated(r) => CircWithin180(r.p_pa, r.bpa, AngTolUdeg))
PixBeamSame(a, b, th, r) == /\ RelWithin(a, r.q_a_ref, LenTolPpm)
                            /\ RelWithin(b, r.q_b_ref, LenTolPpm)
                            /\ (Elongated(r) => CircWithin180(th, r.q_th_ref, AngTolUdeg))
PsfPixLookups(r) == /\ PixBeamSame(r.q_a_s2p, r.q_b_s2p, r.q_th_s2p, r)
                    /\ PixBeamSame(r.q_a_p2p, r.q_b_p2p, r.q_th_p2p, r)

(* With a psf map (informational, the property statement does not name it) *)
(* the psf returned for a sky position is the one stored in the map pixel  *)
(* that contains the position: the pixel whose 1-based FITS coordinates    *)
(* (x = column, y = row) are the position's pixel coordinates rounded to   *)
(* the nearest integer, i.e. array element [y - 1][x - 1].  want_* is that *)
(* pixel (from astropy on the map's own header; queries keep 0.2 pixel     *)
(* away from pixel edges), got_* the pixel whose psf was returned.         *)
PsfMapPixel(r) == r.got_row = r.want_row /\ r.got_col = r.want_col

(* ----------------------- index conventions ---------------------------- *)
(* The standard mapping as an identity on a linear integer WCS L: FITS     *)
(* pixel coordinates are (x, y) = (column, row), 1-based; a 0-based        *)
(* coordinate c is the 1-based coordinate c + 1.  Aegean's pixel is        *)
(* (row, col) of 1-based FITS pixels.  numpy element [i][j] is FITS pixel  *)
(* (x = j + 1, y = i + 1).                                                 *)
StdWorld(L, x, y, origin) ==
    << L.cr1 + L.d1 * (x + (1 - origin) - L.p1),
       L.cr2 + L.d2 * (y + (1 - origin) - L.p2) >>
AegeanWorld(L, row, col) == StdWorld(L, col, row, 1)
SwappedWorld(L, row, col) == StdWorld(L, row, col, 1)
ZeroBasedWorld(L, row, col) == StdWorld(L, col, row, 0)
NumpyWorld(L, i, j) == StdWorld(L, j, i, 0)
=============================================================================
