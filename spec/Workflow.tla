------------------------------ MODULE Workflow ------------------------------
(***************************************************************************)
(* The tools of the package as one workspace: artefacts (images,           *)
(* background/noise maps, catalogues, residual images) are derived from    *)
(* one another by the library entry points and by the command line         *)
(* programs.  Growth of the specification beyond the twenty listed         *)
(* properties: it says which DIFFERENT routes through the tools must give  *)
(* the SAME artefact (commuting diagrams a user relies on without          *)
(* thinking: `BANE img` then `aegean --background/--noise` is the same as   *)
(* letting aegean estimate the maps itself or as `aegean --save`; the       *)
(* `aegean` program gives the rows the library gives; a catalogue written   *)
(* to csv and read back, or passed through `regroup --noregroup`, is the    *)
(* same catalogue for every later tool; `AeRes` the program is              *)
(* make_residual the function).                                             *)
(*                                                                         *)
(* A derivation is a term (a tuple whose head names the tool).  Norm(t) is *)
(* the artefact the derivation denotes; two derivations with one Norm must *)
(* yield identical artefacts.  The state is the workspace ws = the set of  *)
(* derivations carried out so far; Next applies one tool to artefacts that *)
(* exist.  TLC enumerates the workspaces of a bounded size, checks the     *)
(* structural invariants, and prints the workspaces for replay.            *)
(***************************************************************************)
EXTENDS Naturals, Sequences, FiniteSets, TLC

CONSTANTS Images,      \* image names
          MaxArtefacts \* bound on |ws|

Img(i)        == <<"img", i>>
Forced        == <<"forced">>                 \* maps: constant rms / background given as numbers
Internal      == <<"internal">>               \* maps: estimated inside the finder call
BaneCLI(x)    == <<"banecli", x>>             \* maps: the BANE program's two files, default options
BaneCLI5(x)   == <<"banecli5", x>>            \* maps: the BANE program with --box = 5 x its default grid
AegSave(x)    == <<"aegsave", x>>             \* maps: `aegean --save`
Find(x, m)    == <<"find", x, m>>             \* catalogue: SourceFinder.find_sources_in_image
FindCLI(x, m) == <<"findcli", x, m>>          \* catalogue: `aegean --table`, table read back
SaveLoad(c)   == <<"saveload", c>>            \* catalogue: save_catalog csv + load_table
RegroupId(c)  == <<"regroupid", c>>           \* catalogue: `regroup --noregroup`
Prior(x, c)   == <<"prior", x, c>>            \* catalogue: priorized_fit_islands
ResCLI(x, c)  == <<"rescli", x, c>>           \* image: the AeRes program
ResLib(x, c)  == <<"reslib", x, c>>           \* image: AeRes.make_residual

Kind(t) == CASE t[1] = "img" -> "image"
             [] t[1] \in {"forced", "internal", "banecli", "banecli5", "aegsave"} -> "maps"
             [] t[1] \in {"find", "findcli", "saveload", "regroupid", "prior"} -> "catalogue"
             [] t[1] \in {"rescli", "reslib"} -> "image"

\* the artefact a derivation denotes
RECURSIVE Norm(_)
Norm(t) ==
    CASE t[1] = "img" -> t
      [] t[1] = "forced" -> t
      \* DEVIATION kept as the code has it: the finder estimates its maps with a box of 5 x the grid, the BANE
      \* program's default box is 6 x the grid (its help text says 5) - so `BANE img` followed by
      \* `aegean --background/--noise` is NOT the catalogue `aegean img` gives; with `--box` = 5 x grid it is.
      [] t[1] \in {"banecli5", "aegsave"} -> <<"bane", Norm(t[2])>>
      [] t[1] = "banecli" -> <<"bane6", Norm(t[2])>>
      [] t[1] \in {"find", "findcli"} ->
            <<"cat", Norm(t[2]), IF t[3] = Internal THEN <<"bane", Norm(t[2])>> ELSE Norm(t[3])>>
      [] t[1] \in {"saveload", "regroupid"} -> Norm(t[2])
      [] t[1] = "prior" -> <<"prior", Norm(t[2]), Norm(t[3])>>
      [] t[1] \in {"rescli", "reslib"} -> <<"res", Norm(t[2]), Norm(t[3])>>

\* the artefacts a derivation is made from
Inputs(t) == CASE t[1] \in {"img", "forced", "internal"} -> {}
               [] t[1] \in {"banecli", "banecli5", "aegsave", "saveload", "regroupid"} -> {t[2]}
               [] OTHER -> {t[2], t[3]} \ {Internal, Forced}

VARIABLE ws
Init == ws = {Img(i) : i \in Images}

Pics  == {t \in ws : t[1] = "img"}               \* tools are run on the original images
Maps  == {t \in ws : Kind(t) = "maps"} \cup {Forced, Internal}
Cats  == {t \in ws : Kind(t) = "catalogue"}
\* maps estimated from another image than the one searched are a user error, not a route
MapsFor(x) == {m \in Maps : m \in {Forced, Internal} \/ m[2] = x}
\* a catalogue is used with the image it was made from
CatsOf(x) == {c \in Cats : Norm(c)[2] = Norm(x)}

Candidates ==
    {BaneCLI(x) : x \in Pics} \cup {BaneCLI5(x) : x \in Pics} \cup {AegSave(x) : x \in Pics}
    \cup UNION {{Find(x, m) : m \in MapsFor(x)} : x \in Pics}
    \cup UNION {{FindCLI(x, m) : m \in MapsFor(x)} : x \in Pics}
    \cup {SaveLoad(c) : c \in Cats} \cup {RegroupId(c) : c \in Cats}
    \cup UNION {{Prior(x, c) : c \in CatsOf(x)} : x \in Pics}
    \cup UNION {{ResCLI(x, c) : c \in CatsOf(x)} : x \in Pics}
    \cup UNION {{ResLib(x, c) : c \in CatsOf(x)} : x \in Pics}

Run(t) == t \notin ws /\ ws' = ws \cup {t}
Next == \E t \in Candidates : Run(t)
Spec == Init /\ [][Next]_ws

Bound == Cardinality(ws) <= MaxArtefacts

\* ---- invariants ---------------------------------------------------------------------------
Closed == \A t \in ws : Inputs(t) \subseteq ws                 \* nothing is made from something that does not exist
KindOfNorm == \A t \in ws : (Kind(t) = "catalogue") = (Norm(t)[1] \in {"cat", "prior"})
\* the routes to the maps and to the blind catalogue all meet
RoutesMeet == \A x \in Pics :
    /\ (BaneCLI5(x) \in ws /\ AegSave(x) \in ws) => Norm(BaneCLI5(x)) = Norm(AegSave(x))
    /\ \A m \in MapsFor(x) \ {Forced, BaneCLI(x)} : Find(x, m) \in ws => Norm(Find(x, m)) = Norm(Find(x, Internal))
    /\ \A m \in MapsFor(x) : (Find(x, m) \in ws /\ FindCLI(x, m) \in ws) => Norm(Find(x, m)) = Norm(FindCLI(x, m))
\* forced maps are a different artefact from estimated ones
ForcedDiffers == \A x \in Pics : Norm(Find(x, Forced)) # Norm(Find(x, Internal))
BaneDefaultsDiffer == \A x \in Pics : Norm(Find(x, BaneCLI(x))) # Norm(Find(x, Internal))
=============================================================================
