---------------------------- MODULE Recovery_Trace --------------------------
(* Validates Inject -> Run -> Report traces of the real source finder.     *)
EXTENDS TraceBatch, Recovery

Fails(r) ==
    IF r.err # "" THEN <<"finder_completed">> ELSE
    IF ~ExactlyOne(r.n_components)
    THEN <<"exactly_one_component_" \o (IF r.n_components = 0 THEN "none_found" ELSE "several_found")>>
    ELSE IF r.noise
    THEN Clause("within_5_reported_standard_errors", WithinErrorsOrTol(r))
    ELSE Clause("position_0.02_pixel", PositionOK(r))
         \o Clause("peak_flux_0.1_percent", PeakOK(r))
         \o Clause("major_axis_0.5_percent", MajorOK(r))
         \o Clause("minor_axis_0.5_percent", MinorOK(r))
         \o Clause("position_angle_0.5_deg", AngleOK(r))
         \o Clause("integrated_flux_0.5_percent", IntOK(r))

Next == BatchNext(Fails)
Spec == BatchInit /\ [][Next]_pos
=============================================================================
