------------------------------ MODULE MC_Sexa ------------------------------
(* Model-checking instance for the sexagesimal part of C17.                *)
(* A little machine:  pick an input N of the carry-window domain,          *)
(* Format it with the chosen design, Parse the printed fields back.        *)
(* TLC checks the theorems of Sexa.tla in every reachable state.           *)
(*                                                                         *)
(* Domain (the discrete part of the quantifier):  every non-tie N within   *)
(* +-W fine units of a minute boundary  k * 60000  where k is a multiple   *)
(* of Stride or a degree / hour boundary (k % 60 = 0) or the last minute   *)
(* before one (k % 60 = 59);  both signs for dms;  0 <= N < 24 h for hms   *)
(* (so the window below 24 h, which must wrap to 0 h, is included).        *)
(* With Stride = 1 every minute boundary of [-90,90] deg / [0,24) h is     *)
(* covered, i.e. every input that rounds to ..:59:60.00 under a design     *)
(* without carry.                                                          *)
(* Emit = TRUE prints the canonical text of every formatted value, which   *)
(* the harness replays on the real parsers dec2dec / ra2dec.               *)
EXTENDS Sexa, Json
CONSTANTS W, Stride, Design, Emit
VARIABLES kind, n, f, v, phase

vars == <<kind, n, f, v, phase>>

MinuteIdx(kd) == IF kd = "dms" THEN 0..5400 ELSE 0..1440
Chosen(k)     == k % Stride = 0 \/ k % 60 = 0 \/ k % 60 = 59

Dom(kd) ==
    LET base == {k * FinePerMin + o : k \in {j \in MinuteIdx(kd) : Chosen(j)}, o \in (-W)..W}
        both == IF kd = "dms" THEN base \cup {-x : x \in base} ELSE base
    IN {x \in both : InDomain(kd, x)}

NoF == Fields(FALSE, 0, 0, 0)

Init == /\ kind \in Kinds
        /\ n \in Dom(kind)
        /\ f = NoF /\ v = 0 /\ phase = "in"

Format ==
    /\ phase = "in"
    /\ LET g == Fmt(Design, kind, n) IN
         /\ f' = g
         /\ Emit => PrintT(ToJson([kind |-> kind, n |-> n, text |-> Text(kind, g)]))
    /\ phase' = "fmt"
    /\ UNCHANGED <<kind, n, v>>

Parse ==
    /\ phase = "fmt"
    /\ v' = ParseCs(f)
    /\ phase' = "parsed"
    /\ UNCHANGED <<kind, n, f>>

Next == Format \/ Parse
Spec == Init /\ [][Next]_vars

\* ---- invariants ---------------------------------------------------------
FieldRanges  == phase # "in" => FieldRangeThm(kind, f)
InverseLaw   == phase # "in" => InverseThm(kind, n, f)
ParseIsRound == phase = "parsed" =>
                   v = (IF kind = "dms" THEN RoundCs(n) ELSE RoundCsRA(n))
RAModulo     == (phase = "parsed" /\ kind = "hms") =>
                   /\ v >= 0 /\ v < DayCs
                   /\ (v * Fine - n) % TurnFine \in (0..5) \cup ((TurnFine - 5)..(TurnFine - 1))
SignKept     == phase # "in" => SignThm(kind, n, f)
DesignsAgree == FmtRound(kind, n) = FmtCarry(kind, n)
TextShape    == phase # "in" =>
                   Len(Text(kind, f)) = (IF kind = "dms" THEN 12 ELSE 11)
=============================================================================
