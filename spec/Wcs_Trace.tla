----------------------------- MODULE Wcs_Trace ------------------------------
(***************************************************************************)
(* Code -> spec for C16.  One record per evaluation of the real            *)
(* WCSHelper on one instantiated configuration of MC_WcsConfig's lattice   *)
(* (or a seeded configuration outside it), projected to integers           *)
(* (see WcsRel.tla for the units):                                         *)
(*                                                                         *)
(* kind = "conv"  one query pixel (row, col) and one vector / ellipse:     *)
(*   rt_drow_e8, rt_dcol_e8   sky2pix(pix2sky(p)) - p                      *)
(*   std_pdeg                 separation pix2sky(p) vs all_pix2world(col,  *)
(*                            row, 1); alt_swap_pdeg / alt_zero_pdeg the   *)
(*                            same against the swapped / 0-based mapping   *)
(*   v_r_in, v_pa_in          the sky vector given to sky2pix_vec          *)
(*   v_r_out, v_pa_out        what pix2sky_vec returns for its result      *)
(*   v_sep, v_bear            great-circle distance / bearing between the  *)
(*                            standard sky positions of the end points of  *)
(*                            the pixel vector given to pix2sky_vec        *)
(*   v_fsep, v_fbear          the same from the input sky origin to the    *)
(*                            standard sky position of the pixel head      *)
(*   v_spa, v_cpa, v_ue, v_un 1e4 * (sin, cos) of v_pa_out and the unit    *)
(*                            (East, North) displacement of the end points *)
(*   e_*                      likewise for sky2pix_ellipse/pix2sky_ellipse *)
(*   ratio_pm, tanrho_pm      axis ratio; tan of the distance to CRVAL     *)
(* kind = "hand"  one pixel step towards N / E / S / W: h_de, h_dn, h_pa   *)
(* kind = "psf"   psf lookups without a psf map against the header beam    *)
(* kind = "psfmap" get_psf_sky2sky with a psf map whose planes hold the    *)
(*                1-based (row, col) of each map pixel: want_* / got_*     *)
(* err # ""       the real code raised or returned a non-finite value      *)
(*                                                                         *)
(* Strict = TRUE evaluates the minor-axis clause without its linear-regime *)
(* premise (used for an informational second pass only).                   *)
(***************************************************************************)
EXTENDS TraceBatch, WcsRel
CONSTANT Strict

FailsConv(r) ==
    Clause("query_discriminates_index_conventions", Discriminating(r))
    \o Clause("round_trip_pixel", RoundTripPix(r))
    \o Clause("standard_mapping_row_col_1based", StandardMapping(r))
    \o Clause("round_trip_sky_position", SkyRoundTrip(r))
    \o Clause("vec_length_round_trip", VecLenRoundTrip(r))
    \o Clause("vec_pa_round_trip", VecPaRoundTrip(r))
    \o Clause("vec_length_is_great_circle", VecGreatCircle(r))
    \o Clause("vec_pa_is_bearing", VecBearing(r))
    \o Clause("vec_from_integer_pixel_is_great_circle", IntVecGreatCircle(r))
    \o Clause("vec_from_integer_pixel_is_bearing", IntVecBearing(r))
    \o Clause("ell_from_integer_pixel_is_great_circle", IntEllGreatCircle(r))
    \o Clause("used_helper_answers_like_a_fresh_helper", HelperHasNoMemory(r))
    \o Clause("vec_sky2pix_great_circle_east_of_north", VecForward(r))
    \o Clause("vec_east_of_north", VecEastOfNorth(r))
    \o Clause("ell_major_round_trip", EllMajorRoundTrip(r))
    \o Clause("ell_minor_round_trip",
              IF Strict THEN EllMinorRoundTripStrict(r) ELSE EllMinorRoundTrip(r))
    \o Clause("ell_pa_round_trip", EllPaRoundTrip(r))
    \o Clause("ell_major_is_great_circle", EllGreatCircle(r))
    \o Clause("ell_pa_is_bearing", EllBearing(r))
    \o Clause("ell_sky2pix_great_circle_east_of_north", EllForward(r))

FailsHand(r) ==
    Clause("hand_premise", HandPremise(r))
    \o Clause("north_is_pa_0", NorthFact(r))
    \o Clause("east_is_pa_plus_90", EastFact(r))
    \o Clause("south_is_pa_180", SouthFact(r))
    \o Clause("west_is_pa_minus_90", WestFact(r))

FailsPsf(r) ==
    Clause("psf_sky_at_reference_is_header_beam", PsfSkyAtRef(r))
    \o Clause("psf_pixel_lookups_are_pixel_beam", PsfPixLookups(r))

FailsPsfMap(r) ==
    Clause("psf_map_lookup_returns_containing_pixel", PsfMapPixel(r))

Fails(r) == IF r.err # "" THEN <<"completed">>
            ELSE IF r.kind = "conv" THEN FailsConv(r)
            ELSE IF r.kind = "hand" THEN FailsHand(r)
            ELSE IF r.kind = "psf" THEN FailsPsf(r)
            ELSE IF r.kind = "psfmap" THEN FailsPsfMap(r)
            ELSE <<"unknown_record_kind">>

Next == BatchNext(Fails)
Spec == BatchInit /\ [][Next]_pos
=============================================================================
