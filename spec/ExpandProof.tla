----------------------------- MODULE ExpandProof -----------------------------
(* Unbounded proofs (TLAPS, SMT back end) about the compress / expand index   *)
(* algebra of Tiles (C15): the reference pixel survives compress followed by  *)
(* expand for every factor and every rational reference pixel.  TLC checks it *)
(* (and the node algebra, whose division by a variable factor the SMT back    *)
(* end does not decide) on bounded constants in MC_Expand.                    *)
EXTENDS Tiles, TLAPS

THEOREM CrpixRoundTrip ==
  ASSUME NEW p1 \in Int, NEW p2 \in Nat \ {0}, NEW f \in Nat \ {0}
  PROVE RatEq(ExpandCrpix(CompressCrpix(<<p1, p2>>, f), f), <<p1, p2>>)
  <1>1. CompressCrpix(<<p1, p2>>, f) = <<p1 + (f - 1) * p2, f * p2>>
    BY Z3T(30) DEF CompressCrpix
  <1>2. ExpandCrpix(<<p1 + (f - 1) * p2, f * p2>>, f) = <<((p1 + (f - 1) * p2) - f * p2) * f + f * p2, f * p2>>
    BY Z3T(30) DEF ExpandCrpix
  <1>3. (((p1 + (f - 1) * p2) - f * p2) * f + f * p2) * p2 = p1 * (f * p2)
    BY Z3T(30)
  <1> QED
    BY <1>1, <1>2, <1>3, Z3T(30) DEF RatEq

=============================================================================
