------------------------------ MODULE BaneMaps ------------------------------
(***************************************************************************)
(* C06 - the estimator contract of BANE's background / noise maps.         *)
(*                                                                         *)
(* Part 1 (mask rule, exact, on integer pixel grids): which output pixels  *)
(* may / must be blank (NaN) given the set of blank (non finite) input     *)
(* pixels, the grid step and the box size.                                 *)
(* Part 2 (relations between runs, fixed point): values are integers in    *)
(* units of 1e-8 * L, L = the largest magnitude in play (max |pixel|,      *)
(* range, |c|), so that 1 ppm of L = 100 units.  Output maps are float32;  *)
(* identities are required to TolPpm = 8 ppm of L, not exactly.            *)
(* Part 3: the configuration lattice of the property's quantifier and what *)
(* it means for a set of executed configurations to cover it pairwise.     *)
(***************************************************************************)
EXTENDS Integers, FiniteSets, Sequences, Fixed

Abs(x) == IF x < 0 THEN -x ELSE x
Max(a, b) == IF a >= b THEN a ELSE b
Min(a, b) == IF a <= b THEN a ELSE b

(* ----------------------------- domain -------------------------------- *)
ValidConfig(grid, box, cores, stripes) ==
    /\ grid >= 1
    /\ box >= Max(4, grid)
    /\ cores \in 1..16
    /\ stripes \in 1..(2 * cores)

(* --------------------------- 1. mask rule ----------------------------- *)
Pixels(R, C) == (0..(R - 1)) \X (0..(C - 1))
Cheb(p, q) == Max(Abs(p[1] - q[1]), Abs(p[2] - q[2]))
Reach(grid, box) == box \div 2 + grid
Far(p, blank, grid, box) == \A q \in blank : Cheb(p, q) > Reach(grid, box)

\* (i) every non-finite input pixel is blank in the map (masking on)
MaskCopied(blank, out) == blank \subseteq out
\* (ii) every pixel farther than box/2 + grid from all blank pixels is finite
FarFinite(R, C, blank, out, grid, box) ==
    \A p \in Pixels(R, C) : Far(p, blank, grid, box) => p \notin out
\* the same statement read from the blank output pixels (cheap on traces;
\* MC_BaneMaps checks that the two forms agree)
FarFiniteC(blank, out, grid, box) ==
    \A p \in out : \E q \in blank : Cheb(p, q) <= Reach(grid, box)
\* (iii) an image without blank pixels gives maps without blank pixels
NoBlankNoBlank(blank, out) == (blank = {}) => (out = {})

MaskRule(R, C, blank, out, grid, box, masking) ==
    /\ masking => MaskCopied(blank, out)
    /\ FarFinite(R, C, blank, out, grid, box)
    /\ NoBlankNoBlank(blank, out)

(* Two abstract designs the rule is proved for (bounded, by TLC).          *)
(* A. pure mask propagation: the estimator never produces a blank itself.  *)
PropagationDesign(blank, masking) == IF masking THEN blank ELSE {}

(* B. node/box design of BANE.sigma_filter: the image rows are cut into    *)
(* stripes [lo, hi) at `cuts`; a stripe sees the rows [dlo, dhi) = its own *)
(* rows +- box/2; statistics are evaluated at nodes lo, lo+g, ..., hi      *)
(* (rows) x 0, g, ..., C (columns) over a box of half width box/2 clipped  *)
(* to the data (the last data row / column is never part of a box); a node *)
(* whose box holds no finite pixel is NaN; a pixel interpolated from a NaN *)
(* node is NaN (over-approximated: all neighbouring nodes within one grid  *)
(* step count, also those with interpolation weight 0).                    *)
StripeSet(R, cuts) ==
    LET E == {0, R} \cup cuts IN
    {s \in E \X E : s[1] < s[2] /\ ~\E e \in E : s[1] < e /\ e < s[2]}
AxisNodes(lo, hi, g) == {lo + k * g : k \in 0..((hi - lo - 1) \div g)} \cup {hi}
BoxSpan(n, dlo, dhi, b) == Max(dlo, n - b \div 2) .. (Min(dhi - 1, n + b \div 2) - 1)
NodeNaN(y, x, dlo, dhi, C, blank, b) ==
    \A i \in BoxSpan(y, dlo, dhi, b) : \A j \in BoxSpan(x, 0, C, b) : <<i, j>> \in blank
DesignNaN(R, C, blank, g, b, cuts) ==
    UNION { LET lo == s[1]
                hi == s[2]
                dlo == Max(0, lo - b \div 2)
                dhi == Min(R, hi + b \div 2)
                bad == {n \in AxisNodes(lo, hi, g) \X AxisNodes(0, C, g) :
                           NodeNaN(n[1], n[2], dlo, dhi, C, blank, b)}
            IN {p \in (lo..(hi - 1)) \X (0..(C - 1)) :
                   \E n \in bad : Abs(n[1] - p[1]) <= g /\ Abs(n[2] - p[2]) <= g}
          : s \in StripeSet(R, cuts) }
NodeBoxDesign(R, C, blank, g, b, cuts, masking) ==
    DesignNaN(R, C, blank, g, b, cuts) \cup (IF masking THEN blank ELSE {})

(* -------------------- 2. relations (fixed point) ---------------------- *)
UnitsPerPpm == 100
TolPpm == 8
Tol == TolPpm * UnitsPerPpm
Near(x, y) == Within(x, y, Tol)

\* Shape: the maps have the image's shape
ShapeOK(rows, cols, shape) == shape = <<rows, cols>>

\* Range: min(img) <= bkg <= max(img) over finite input pixels, 0 <= rms <= max - min
RangeBkgOK(imin, imax, bmin, bmax) == imin - Tol <= bmin /\ bmax <= imax + Tol
RangeRmsOK(imin, imax, rmin, rmax) == -Tol <= rmin /\ rmax <= (imax - imin) + Tol

\* ConstantImage => bkg = c and rms = 0
ConstantBkgOK(c, bmin, bmax) == Near(bmin, c) /\ Near(bmax, c)
ConstantRmsOK(rmin, rmax) == Near(rmin, 0) /\ Near(rmax, 0)

\* AddConstant (sgn = 1, c in units) and Scale (c = 0, sgn = sign of k; the
\* two runs are logged in units of their own L, and L2 = |k| * L1):
\*    bkg2 = sgn * bkg1 + c,    rms2 = rms1
AffineBkgOK(b1, b2, sgn, c) == Near(b2, sgn * b1 + c)
AffineRmsOK(r1, r2) == Near(r2, r1)

\* Stationary Gaussian noise (mean m, rms s): mean(map) within 6 standard
\* errors; dev = (mean(map) - truth) in ppm of s; the standard error comes
\* from the number of independent boxes: N = nind * box^2 independent pixels,
\* stderr(bkg) = s / sqrt(N), stderr(rms) = s / sqrt(2 N).  Floor square roots
\* (lenient by < 1 / sqrt(N)).
ISqrt(n) == CHOOSE r \in 0..2048 : r * r <= n /\ n < (r + 1) * (r + 1)
ZMilli(devppm, n) == (Abs(devppm) * ISqrt(n)) \div 1000       \* z-score * 1000
StationaryOK(devppm, n) == ZMilli(devppm, n) <= 6000
StationaryBkgOK(devppm, nind, box) == StationaryOK(devppm, nind * box * box)
StationaryRmsOK(devppm, nind, box) == StationaryOK(devppm, 2 * nind * box * box)

(* ------------------ 3. configuration lattice -------------------------- *)
Factors == <<"grid", "box", "cores", "stripes", "repr", "mask", "compressed">>
Lattice(Grids, Boxes, Cores, Stripes, Reprs) ==
    {c \in [grid : Grids, box : Boxes, cores : Cores, stripes : Stripes,
            repr : Reprs, mask : BOOLEAN, compressed : BOOLEAN] :
        ValidConfig(c.grid, c.box, c.cores, c.stripes)}
\* every pair of factor values that occurs together somewhere in the lattice
\* occurs together in some executed configuration
PairwiseCovering(S, L) ==
    \A a \in 1..Len(Factors) : \A b \in (a + 1)..Len(Factors) :
        \A l \in L : \E s \in S : s[Factors[a]] = l[Factors[a]] /\ s[Factors[b]] = l[Factors[b]]
=============================================================================
